// Package vos mirrors the part of package os that package cred uses, with a
// seam for recording and failing file writes (C20).
package vos

import "os"

type (
	FileMode = os.FileMode
	File     = os.File
)

// WriteFileHook, when set, replaces os.WriteFile.
var WriteFileHook func(name string, data []byte, perm FileMode) error

func WriteFile(name string, data []byte, perm FileMode) error {
	if WriteFileHook != nil {
		return WriteFileHook(name, data, perm)
	}
	return os.WriteFile(name, data, perm)
}
