// Package vos mirrors the part of package os that package cred may use for
// saving the credential file, with a seam that records every mutating file
// operation (and can fail a write after k bytes).  Operations are still carried
// out on the real file system; the log lets a check materialise every crash
// point of a save (C20).
package vos

import (
	"errors"
	"io/fs"
	"os"
	"syscall"
)

type (
	FileMode  = os.FileMode
	FileInfo  = os.FileInfo
	DirEntry  = os.DirEntry
	PathError = os.PathError
	Signal    = os.Signal
)

const (
	O_RDONLY = os.O_RDONLY
	O_WRONLY = os.O_WRONLY
	O_RDWR   = os.O_RDWR
	O_APPEND = os.O_APPEND
	O_CREATE = os.O_CREATE
	O_EXCL   = os.O_EXCL
	O_SYNC   = os.O_SYNC
	O_TRUNC  = os.O_TRUNC
	ModePerm = os.ModePerm
)

var (
	ErrNotExist         = os.ErrNotExist
	ErrExist            = os.ErrExist
	ErrPermission       = os.ErrPermission
	ErrClosed           = os.ErrClosed
	ErrDeadlineExceeded = os.ErrDeadlineExceeded
	Stderr              = os.Stderr
	Stdout              = os.Stdout
	Stdin               = os.Stdin
)

// Op is one logged mutating operation.
type Op struct {
	Kind                  string // open (with Trunc/Create flags), write, close, rename, remove, sync, chmod
	Name                  string
	To                    string
	Data                  []byte
	Trunc, Create, Append bool
	Handle                int
}

// Recorder receives the operation log and may inject write failures.
type Recorder struct {
	Ops []Op
	// FailWriteAt, when >= 0, makes the FailWriteIndex-th write operation (0-based,
	// counted over the whole log) persist only that many bytes and return ENOSPC.
	FailWriteIndex int
	FailWriteAt    int
	writes         int
	handles        int
	// FailRename makes the next Rename fail with EXDEV-like error without moving anything.
	FailRename bool
}

// Rec, when non-nil, records operations.
var Rec *Recorder

// NewRecorder returns a recorder that injects no failure.
func NewRecorder() *Recorder { return &Recorder{FailWriteIndex: -1, FailWriteAt: -1} }

func (r *Recorder) log(op Op) {
	if r != nil {
		r.Ops = append(r.Ops, op)
	}
}

// limit returns how many bytes of a write may persist and the error to return.
func (r *Recorder) limit(n int) (int, error) {
	if r == nil {
		return n, nil
	}
	i := r.writes
	r.writes++
	if i == r.FailWriteIndex && r.FailWriteAt >= 0 && r.FailWriteAt < n {
		return r.FailWriteAt, &os.PathError{Op: "write", Err: syscall.ENOSPC}
	}
	return n, nil
}

// File wraps *os.File so that writes are logged.
type File struct {
	f      *os.File
	name   string
	handle int
}

func wrap(f *os.File, name string, flag int) *File {
	h := 0
	if Rec != nil {
		Rec.handles++
		h = Rec.handles
		if flag&(os.O_WRONLY|os.O_RDWR) != 0 {
			Rec.log(Op{Kind: "open", Name: name, Trunc: flag&os.O_TRUNC != 0, Create: flag&os.O_CREATE != 0, Append: flag&os.O_APPEND != 0, Handle: h})
		}
	}
	return &File{f: f, name: name, handle: h}
}

func (f *File) Name() string { return f.f.Name() }
func (f *File) Write(b []byte) (int, error) {
	n, ferr := Rec.limit(len(b))
	m, err := f.f.Write(b[:n])
	Rec.log(Op{Kind: "write", Name: f.name, Data: append([]byte(nil), b[:m]...), Handle: f.handle})
	if err == nil {
		err = ferr
	}
	return m, err
}
func (f *File) WriteString(s string) (int, error) { return f.Write([]byte(s)) }
func (f *File) Read(b []byte) (int, error)        { return f.f.Read(b) }
func (f *File) Sync() error {
	Rec.log(Op{Kind: "sync", Name: f.name, Handle: f.handle})
	return f.f.Sync()
}
func (f *File) Close() error {
	Rec.log(Op{Kind: "close", Name: f.name, Handle: f.handle})
	return f.f.Close()
}
func (f *File) Chmod(m FileMode) error  { return f.f.Chmod(m) }
func (f *File) Stat() (FileInfo, error) { return f.f.Stat() }
func (f *File) Truncate(n int64) error {
	if n == 0 {
		Rec.log(Op{Kind: "open", Name: f.name, Trunc: true, Handle: f.handle})
	} else {
		return errors.New("vos: Truncate(n>0) not modelled")
	}
	return f.f.Truncate(n)
}
func (f *File) Fd() uintptr { return f.f.Fd() }

func OpenFile(name string, flag int, perm FileMode) (*File, error) {
	f, err := os.OpenFile(name, flag, perm)
	if err != nil {
		return nil, err
	}
	return wrap(f, name, flag), nil
}

func Create(name string) (*File, error) {
	return OpenFile(name, os.O_RDWR|os.O_CREATE|os.O_TRUNC, 0o666)
}

func Open(name string) (*File, error) { return OpenFile(name, os.O_RDONLY, 0) }

func CreateTemp(dir, pattern string) (*File, error) {
	f, err := os.CreateTemp(dir, pattern)
	if err != nil {
		return nil, err
	}
	return wrap(f, f.Name(), os.O_RDWR|os.O_CREATE), nil
}

func WriteFile(name string, data []byte, perm FileMode) error {
	f, err := OpenFile(name, os.O_WRONLY|os.O_CREATE|os.O_TRUNC, perm)
	if err != nil {
		return err
	}
	_, err = f.Write(data)
	if err1 := f.Close(); err1 != nil && err == nil {
		err = err1
	}
	return err
}

func ReadFile(name string) ([]byte, error) { return os.ReadFile(name) }

func Rename(oldpath, newpath string) error {
	if Rec != nil && Rec.FailRename {
		Rec.FailRename = false
		return &os.LinkError{Op: "rename", Old: oldpath, New: newpath, Err: syscall.EACCES}
	}
	err := os.Rename(oldpath, newpath)
	if err == nil {
		Rec.log(Op{Kind: "rename", Name: oldpath, To: newpath})
	}
	return err
}

func Remove(name string) error {
	err := os.Remove(name)
	if err == nil {
		Rec.log(Op{Kind: "remove", Name: name})
	}
	return err
}

func Chmod(name string, mode FileMode) error    { return os.Chmod(name, mode) }
func Stat(name string) (FileInfo, error)        { return os.Stat(name) }
func Lstat(name string) (FileInfo, error)       { return os.Lstat(name) }
func MkdirAll(path string, perm FileMode) error { return os.MkdirAll(path, perm) }
func Mkdir(path string, perm FileMode) error    { return os.Mkdir(path, perm) }
func IsNotExist(err error) bool                 { return os.IsNotExist(err) }
func IsExist(err error) bool                    { return os.IsExist(err) }
func Getenv(k string) string                    { return os.Getenv(k) }
func TempDir() string                           { return os.TempDir() }
func ReadDir(name string) ([]DirEntry, error)   { return os.ReadDir(name) }
func Getpid() int                               { return os.Getpid() }
func NewSyscallError(s string, err error) error { return os.NewSyscallError(s, err) }
func SameFile(a, b FileInfo) bool               { return os.SameFile(a, b) }
func DirFS(dir string) fs.FS                    { return os.DirFS(dir) }
func Exit(code int)                             { os.Exit(code) }
