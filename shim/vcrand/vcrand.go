// Package vcrand mirrors crypto/rand.Read.  Under a controlled execution, or
// when Deterministic is set, it yields a reproducible counter stream so that
// salts and session IDs are unique and identical across replays.
package vcrand

import (
	"crypto/rand"
	"encoding/binary"
	"io"

	"verif/vsched"
)

// Deterministic switches the counter stream on outside controlled executions.
var Deterministic bool
var globalCtr uint64

// Reset restarts the deterministic stream.
func Reset() { globalCtr = 0 }

var Reader io.Reader = rand.Reader

func fill(b []byte, c *uint64) {
	for i := 0; i < len(b); i += 8 {
		*c++
		var w [8]byte
		binary.LittleEndian.PutUint64(w[:], *c*0x9e3779b97f4a7c15+0x1234567)
		copy(b[i:], w[:])
	}
}

func Read(b []byte) (int, error) {
	if vsched.On() {
		c := vsched.Local("vcrand.ctr", func() any { return new(uint64) }).(*uint64)
		fill(b, c)
		return len(b), nil
	}
	if Deterministic {
		fill(b, &globalCtr)
		return len(b), nil
	}
	return rand.Read(b)
}

func Text() string { return rand.Text() }
