// Package vsync mirrors the part of package sync the repository uses.  Under a
// controlled execution every operation is a scheduling point whose
// enabledness the scheduler computes; otherwise the real primitive is used.
package vsync

import (
	"sync"

	"verif/vsched"
)

type Locker = sync.Locker

// Mutex mirrors sync.Mutex.
type Mutex struct {
	real   sync.Mutex
	locked bool
}

func (m *Mutex) Lock() {
	if !vsched.On() {
		m.real.Lock()
		return
	}
	vsched.PointIf(func() bool { return !m.locked }, "mutex.Lock")
	m.locked = true
}

func (m *Mutex) TryLock() bool {
	if !vsched.On() {
		return m.real.TryLock()
	}
	vsched.Point("mutex.TryLock")
	if m.locked {
		return false
	}
	m.locked = true
	return true
}

func (m *Mutex) Unlock() {
	if !vsched.On() {
		m.real.Unlock()
		return
	}
	vsched.Point("mutex.Unlock")
	if !m.locked {
		panic("sync: unlock of unlocked mutex")
	}
	m.locked = false
}

// RWMutex mirrors sync.RWMutex including writer preference: a Lock call first
// announces itself (new readers and TryRLock then fail) and acquires once the
// readers have drained.
type RWMutex struct {
	real    sync.RWMutex
	writer  bool
	readers int
	pending int // writers that have announced
}

func (m *RWMutex) Lock() {
	if !vsched.On() {
		m.real.Lock()
		return
	}
	vsched.Point("rw.Lock.announce")
	m.pending++
	vsched.PointIf(func() bool { return !m.writer && m.readers == 0 }, "rw.Lock")
	m.pending--
	m.writer = true
}

func (m *RWMutex) TryLock() bool {
	if !vsched.On() {
		return m.real.TryLock()
	}
	vsched.Point("rw.TryLock")
	if m.writer || m.readers > 0 || m.pending > 0 {
		return false
	}
	m.writer = true
	return true
}

func (m *RWMutex) Unlock() {
	if !vsched.On() {
		m.real.Unlock()
		return
	}
	vsched.Point("rw.Unlock")
	if !m.writer {
		panic("sync: Unlock of unlocked RWMutex")
	}
	m.writer = false
}

func (m *RWMutex) RLock() {
	if !vsched.On() {
		m.real.RLock()
		return
	}
	vsched.PointIf(func() bool { return !m.writer && m.pending == 0 }, "rw.RLock")
	m.readers++
}

func (m *RWMutex) TryRLock() bool {
	if !vsched.On() {
		return m.real.TryRLock()
	}
	vsched.Point("rw.TryRLock")
	if m.writer || m.pending > 0 {
		return false
	}
	m.readers++
	return true
}

func (m *RWMutex) RUnlock() {
	if !vsched.On() {
		m.real.RUnlock()
		return
	}
	vsched.Point("rw.RUnlock")
	if m.readers <= 0 {
		panic("sync: RUnlock of unlocked RWMutex")
	}
	m.readers--
}

func (m *RWMutex) RLocker() Locker { return (*rlocker)(m) }

type rlocker RWMutex

func (r *rlocker) Lock()   { (*RWMutex)(r).RLock() }
func (r *rlocker) Unlock() { (*RWMutex)(r).RUnlock() }

// WaitGroup mirrors sync.WaitGroup.
type WaitGroup struct {
	real sync.WaitGroup
	n    int
}

func (wg *WaitGroup) Add(delta int) {
	if !vsched.On() {
		wg.real.Add(delta)
		return
	}
	vsched.Point("wg.Add")
	wg.n += delta
	if wg.n < 0 {
		panic("sync: negative WaitGroup counter")
	}
}

func (wg *WaitGroup) Done() { wg.Add(-1) }

func (wg *WaitGroup) Wait() {
	if !vsched.On() {
		wg.real.Wait()
		return
	}
	vsched.PointIf(func() bool { return wg.n == 0 }, "wg.Wait")
}

func (wg *WaitGroup) Go(f func()) {
	if !vsched.On() {
		wg.real.Go(f)
		return
	}
	wg.Add(1)
	vsched.GoNamed("wg.Go", func() {
		defer wg.Done()
		f()
	})
}

// Once mirrors sync.Once.
type Once struct {
	real    sync.Once
	done    bool
	running bool
}

func (o *Once) Do(f func()) {
	if !vsched.On() {
		o.real.Do(f)
		return
	}
	vsched.Point("once.Do")
	if o.done {
		return
	}
	if o.running {
		vsched.PointIf(func() bool { return o.done }, "once.wait")
		return
	}
	o.running = true
	defer func() { o.done = true }()
	f()
}

// OnceFunc mirrors sync.OnceFunc.
func OnceFunc(f func()) func() {
	var o Once
	return func() { o.Do(f) }
}

// OnceValue mirrors sync.OnceValue.
func OnceValue[T any](f func() T) func() T {
	var o Once
	var v T
	return func() T {
		o.Do(func() { v = f() })
		return v
	}
}

// OnceValues mirrors sync.OnceValues.
func OnceValues[T1, T2 any](f func() (T1, T2)) func() (T1, T2) {
	var o Once
	var v1 T1
	var v2 T2
	return func() (T1, T2) {
		o.Do(func() { v1, v2 = f() })
		return v1, v2
	}
}

// Pool mirrors sync.Pool.  Under a controlled execution it is a deterministic
// per-execution LIFO (sync.Pool's real reuse is nondeterministic).
type Pool struct {
	real sync.Pool
	New  func() any
}

type poolKey struct{ p *Pool }

func (p *Pool) Get() any {
	if !vsched.On() {
		if p.real.New == nil && p.New != nil {
			p.real.New = p.New
		}
		return p.real.Get()
	}
	st := vsched.Local(poolKey{p}, func() any { return &[]any{} }).(*[]any)
	if n := len(*st); n > 0 {
		v := (*st)[n-1]
		*st = (*st)[:n-1]
		return v
	}
	if p.New != nil {
		return p.New()
	}
	return nil
}

func (p *Pool) Put(x any) {
	if !vsched.On() {
		p.real.Put(x)
		return
	}
	st := vsched.Local(poolKey{p}, func() any { return &[]any{} }).(*[]any)
	if PoisonOnPut != nil {
		PoisonOnPut(x)
	}
	*st = append(*st, x)
}

// PoisonOnPut, when set by a harness, scribbles over an object returned to a
// pool so that use-after-put is visible.
var PoisonOnPut func(x any)

// Map and Cond are aliases: the repository does not use them on explored paths.
type Map = sync.Map
type Cond = sync.Cond

func NewCond(l Locker) *Cond { return sync.NewCond(l) }
