// Package vtime mirrors the part of package time the repository uses, on the
// scheduler's virtual clock when one is installed.
package vtime

import (
	"time"

	"verif/vsched"
)

type (
	Time     = time.Time
	Duration = time.Duration
	Month    = time.Month
	Weekday  = time.Weekday
	Location = time.Location
)

const (
	Nanosecond  = time.Nanosecond
	Microsecond = time.Microsecond
	Millisecond = time.Millisecond
	Second      = time.Second
	Minute      = time.Minute
	Hour        = time.Hour
	RFC3339     = time.RFC3339
	RFC3339Nano = time.RFC3339Nano
)

var UTC = time.UTC
var Local = time.Local

func Now() Time                                { return vsched.Now() }
func Since(t Time) Duration                    { return vsched.Now().Sub(t) }
func Until(t Time) Duration                    { return t.Sub(vsched.Now()) }
func Unix(sec, nsec int64) Time                { return time.Unix(sec, nsec) }
func UnixMilli(ms int64) Time                  { return time.UnixMilli(ms) }
func ParseDuration(s string) (Duration, error) { return time.ParseDuration(s) }
func Date(year int, month Month, day, hour, min, sec, nsec int, loc *Location) Time {
	return time.Date(year, month, day, hour, min, sec, nsec, loc)
}
func Parse(layout, value string) (Time, error) { return time.Parse(layout, value) }

func Sleep(d Duration) { vsched.Sleep(d) }

// Timer mirrors time.Timer.
type Timer struct {
	C    <-chan Time
	c    chan Time
	h    *vsched.TimerHandle
	real *time.Timer
	f    func()
}

func (t *Timer) arm(d Duration) {
	fire := func() {
		if t.f != nil {
			vsched.SpawnNoPoint("AfterFunc", t.f)
			return
		}
		vsched.OfferNoPoint(t.c, vsched.Now())
	}
	if t.h == nil {
		t.h = vsched.AddTimer(d, 0, fire)
	} else {
		t.h.Reset(d)
	}
}

func NewTimer(d Duration) *Timer {
	if !vsched.On() {
		rt := time.NewTimer(d)
		return &Timer{C: rt.C, real: rt}
	}
	vsched.Point("timer.New")
	c := make(chan Time, 1)
	t := &Timer{C: c, c: c}
	t.arm(d)
	return t
}

func AfterFunc(d Duration, f func()) *Timer {
	if !vsched.On() {
		return &Timer{real: time.AfterFunc(d, f)}
	}
	vsched.Point("timer.AfterFunc")
	t := &Timer{f: f}
	t.arm(d)
	return t
}

func After(d Duration) <-chan Time { return NewTimer(d).C }

func (t *Timer) Stop() bool {
	if t.real != nil {
		return t.real.Stop()
	}
	vsched.Point("timer.Stop")
	was := t.h.Stop()
	if t.c != nil {
		vsched.DrainNoPoint(t.c) // Go 1.23+: no stale value after Stop
	}
	return was
}

func (t *Timer) Reset(d Duration) bool {
	if t.real != nil {
		return t.real.Reset(d)
	}
	vsched.Point("timer.Reset")
	was := t.h.Active()
	if t.c != nil {
		vsched.DrainNoPoint(t.c)
	}
	t.h.Reset(d)
	return was
}

// Ticker mirrors time.Ticker.
type Ticker struct {
	C    <-chan Time
	c    chan Time
	h    *vsched.TimerHandle
	real *time.Ticker
}

func NewTicker(d Duration) *Ticker {
	if !vsched.On() {
		rt := time.NewTicker(d)
		return &Ticker{C: rt.C, real: rt}
	}
	if d <= 0 {
		panic("non-positive interval for NewTicker")
	}
	vsched.Point("ticker.New")
	c := make(chan Time, 1)
	t := &Ticker{C: c, c: c}
	t.h = vsched.AddTimer(d, d, func() { vsched.OfferNoPoint(c, vsched.Now()) })
	return t
}

func (t *Ticker) Stop() {
	if t.real != nil {
		t.real.Stop()
		return
	}
	vsched.Point("ticker.Stop")
	t.h.Stop()
}

func (t *Ticker) Reset(d Duration) {
	if t.real != nil {
		t.real.Reset(d)
		return
	}
	panic("vtime: Ticker.Reset not modelled")
}
