// Package vrand mirrors the part of math/rand/v2 the repository uses.  Under a
// controlled execution or when Deterministic is set, answers are enumerated
// environment choices instead of random numbers.
package vrand

import (
	"math/rand/v2"

	"verif/vsched"
)

// Hook, when non-nil, answers IntN (sequential checks enumerate padding lengths with it).
var Hook func(n int) int

// U64Hook, when non-nil, answers Uint64.
var U64Hook func() uint64

func IntN(n int) int {
	if n <= 0 {
		panic("invalid argument to IntN") // as math/rand/v2 does: the shim must not hide this
	}
	if Hook != nil {
		return Hook(n)
	}
	if !vsched.On() {
		return rand.IntN(n)
	}
	if n <= 1 {
		return 0
	}
	if n == 2 {
		return vsched.Choose(2)
	}
	switch vsched.Choose(3) {
	case 0:
		return 0
	case 1:
		return n - 1
	}
	return n / 2
}

var ctr uint64

func Uint64() uint64 {
	if U64Hook != nil {
		return U64Hook()
	}
	if !vsched.On() {
		return rand.Uint64()
	}
	c := vsched.Local("vrand.ctr", func() any { return new(uint64) }).(*uint64)
	*c++
	return *c * 0x9e3779b97f4a7c15
}

func Uint32() uint32          { return uint32(Uint64() >> 32) }
func Int() int                { return int(Uint64() >> 1) }
func Int64() int64            { return int64(Uint64() >> 1) }
func Uint64N(n uint64) uint64 { return uint64(IntN(int(n))) }
func Int64N(n int64) int64    { return int64(IntN(int(n))) }
func Int32N(n int32) int32    { return int32(IntN(int(n))) }
func Uint32N(n uint32) uint32 { return uint32(IntN(int(n))) }
func Float64() float64        { return rand.Float64() }
func Shuffle(n int, swap func(i, j int)) {
	if !vsched.On() {
		rand.Shuffle(n, swap)
	}
}
func Perm(n int) []int {
	p := make([]int, n)
	for i := range p {
		p[i] = i
	}
	return p
}
