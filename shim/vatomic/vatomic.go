// Package vatomic mirrors the part of sync/atomic the repository uses; every
// operation is a scheduling point under a controlled execution.
package vatomic

import (
	"sync/atomic"

	"verif/vsched"
)

type Pointer[T any] struct {
	_ [0]*T
	v atomic.Pointer[T]
}

func (p *Pointer[T]) Load() *T     { vsched.Point("atomic.Load"); return p.v.Load() }
func (p *Pointer[T]) Store(x *T)   { vsched.Point("atomic.Store"); p.v.Store(x) }
func (p *Pointer[T]) Swap(x *T) *T { vsched.Point("atomic.Swap"); return p.v.Swap(x) }
func (p *Pointer[T]) CompareAndSwap(old, new *T) bool {
	vsched.Point("atomic.CAS")
	return p.v.CompareAndSwap(old, new)
}

type Uint64 struct{ v atomic.Uint64 }

func (p *Uint64) Load() uint64         { vsched.Point("atomic.Load"); return p.v.Load() }
func (p *Uint64) Store(x uint64)       { vsched.Point("atomic.Store"); p.v.Store(x) }
func (p *Uint64) Swap(x uint64) uint64 { vsched.Point("atomic.Swap"); return p.v.Swap(x) }
func (p *Uint64) Add(d uint64) uint64  { vsched.Point("atomic.Add"); return p.v.Add(d) }
func (p *Uint64) And(m uint64) uint64  { vsched.Point("atomic.And"); return p.v.And(m) }
func (p *Uint64) Or(m uint64) uint64   { vsched.Point("atomic.Or"); return p.v.Or(m) }
func (p *Uint64) CompareAndSwap(old, new uint64) bool {
	vsched.Point("atomic.CAS")
	return p.v.CompareAndSwap(old, new)
}

type Uint32 struct{ v atomic.Uint32 }

func (p *Uint32) Load() uint32         { vsched.Point("atomic.Load"); return p.v.Load() }
func (p *Uint32) Store(x uint32)       { vsched.Point("atomic.Store"); p.v.Store(x) }
func (p *Uint32) Swap(x uint32) uint32 { vsched.Point("atomic.Swap"); return p.v.Swap(x) }
func (p *Uint32) Add(d uint32) uint32  { vsched.Point("atomic.Add"); return p.v.Add(d) }
func (p *Uint32) CompareAndSwap(old, new uint32) bool {
	vsched.Point("atomic.CAS")
	return p.v.CompareAndSwap(old, new)
}

type Int64 struct{ v atomic.Int64 }

func (p *Int64) Load() int64        { vsched.Point("atomic.Load"); return p.v.Load() }
func (p *Int64) Store(x int64)      { vsched.Point("atomic.Store"); p.v.Store(x) }
func (p *Int64) Swap(x int64) int64 { vsched.Point("atomic.Swap"); return p.v.Swap(x) }
func (p *Int64) Add(d int64) int64  { vsched.Point("atomic.Add"); return p.v.Add(d) }
func (p *Int64) CompareAndSwap(old, new int64) bool {
	vsched.Point("atomic.CAS")
	return p.v.CompareAndSwap(old, new)
}

type Int32 struct{ v atomic.Int32 }

func (p *Int32) Load() int32        { vsched.Point("atomic.Load"); return p.v.Load() }
func (p *Int32) Store(x int32)      { vsched.Point("atomic.Store"); p.v.Store(x) }
func (p *Int32) Swap(x int32) int32 { vsched.Point("atomic.Swap"); return p.v.Swap(x) }
func (p *Int32) Add(d int32) int32  { vsched.Point("atomic.Add"); return p.v.Add(d) }
func (p *Int32) CompareAndSwap(old, new int32) bool {
	vsched.Point("atomic.CAS")
	return p.v.CompareAndSwap(old, new)
}

type Uintptr struct{ v atomic.Uintptr }

func (p *Uintptr) Load() uintptr          { vsched.Point("atomic.Load"); return p.v.Load() }
func (p *Uintptr) Store(x uintptr)        { vsched.Point("atomic.Store"); p.v.Store(x) }
func (p *Uintptr) Swap(x uintptr) uintptr { vsched.Point("atomic.Swap"); return p.v.Swap(x) }
func (p *Uintptr) Add(d uintptr) uintptr  { vsched.Point("atomic.Add"); return p.v.Add(d) }
func (p *Uintptr) CompareAndSwap(old, new uintptr) bool {
	vsched.Point("atomic.CAS")
	return p.v.CompareAndSwap(old, new)
}

type Bool struct{ v atomic.Bool }

func (p *Bool) Load() bool       { vsched.Point("atomic.Load"); return p.v.Load() }
func (p *Bool) Store(x bool)     { vsched.Point("atomic.Store"); p.v.Store(x) }
func (p *Bool) Swap(x bool) bool { vsched.Point("atomic.Swap"); return p.v.Swap(x) }
func (p *Bool) CompareAndSwap(old, new bool) bool {
	vsched.Point("atomic.CAS")
	return p.v.CompareAndSwap(old, new)
}

type Value = atomic.Value
