// Package vcontext mirrors the part of package context the repository uses.
// Under a controlled execution cancellation, deadlines and AfterFunc run on the
// scheduler (shadow Done channels, virtual clock); otherwise the real package
// is used.
package vcontext

import (
	"context"
	"time"

	"verif/vsched"
)

type (
	Context         = context.Context
	CancelFunc      = context.CancelFunc
	CancelCauseFunc = context.CancelCauseFunc
)

var (
	Canceled         = context.Canceled
	DeadlineExceeded = context.DeadlineExceeded
)

func Background() Context                            { return context.Background() }
func TODO() Context                                  { return context.TODO() }
func WithValue(parent Context, key, val any) Context { return context.WithValue(parent, key, val) }
func Cause(c Context) error                          { return context.Cause(c) }
func WithoutCancel(parent Context) Context           { return context.WithoutCancel(parent) }

type vctx struct {
	parent   Context
	done     chan struct{}
	err      error
	deadline time.Time
	hasDL    bool
	children []*vctx
	after    []*afterRec
	timer    *vsched.TimerHandle
}

type afterRec struct {
	f       func()
	stopped bool
	fired   bool
}

func (c *vctx) Deadline() (time.Time, bool) {
	if c.hasDL {
		return c.deadline, true
	}
	return c.parent.Deadline()
}
func (c *vctx) Done() <-chan struct{} { return c.done }
func (c *vctx) Err() error {
	if vsched.On() {
		vsched.Point("ctx.Err")
	}
	return c.err
}
func (c *vctx) Value(key any) any { return c.parent.Value(key) }

type vkey struct{}

// findV returns the nearest vctx ancestor (through WithValue wrappers).
func findV(c Context) *vctx {
	if w, ok := c.(wrapped); ok {
		return w.vctx
	}
	if v, ok := c.Value(vkey{}).(*vctx); ok {
		return v
	}
	return nil
}

func (c *vctx) cancel(err error) {
	if c.err != nil {
		return
	}
	c.err = err
	vsched.CloseNoPoint(c.done)
	if c.timer != nil {
		c.timer.Stop()
	}
	for _, a := range c.after {
		if !a.stopped && !a.fired {
			a.fired = true
			vsched.SpawnNoPoint("ctx.AfterFunc", a.f)
		}
	}
	for _, ch := range c.children {
		ch.cancel(err)
	}
}

func newV(parent Context) *vctx {
	c := &vctx{parent: parent, done: make(chan struct{})}
	if p := findV(parent); p != nil {
		if p.err != nil {
			c.cancel(p.err)
		} else {
			p.children = append(p.children, c)
		}
	} else if parent.Done() != nil {
		panic("vcontext: cancellable real context used as parent inside a controlled execution")
	}
	return c
}

// valueCtx lets findV see through context.WithValue wrappers.
func (c *vctx) lookup(key any) any {
	if _, ok := key.(vkey); ok {
		return c
	}
	return c.parent.Value(key)
}

func WithCancel(parent Context) (Context, CancelFunc) {
	if !vsched.On() {
		return context.WithCancel(parent)
	}
	vsched.Point("ctx.WithCancel")
	c := newV(parent)
	return wrap(c), func() {
		vsched.Point("ctx.cancel")
		c.cancel(Canceled)
	}
}

func WithDeadline(parent Context, d time.Time) (Context, CancelFunc) {
	if !vsched.On() {
		return context.WithDeadline(parent, d)
	}
	vsched.Point("ctx.WithDeadline")
	c := newV(parent)
	if pd, ok := parent.Deadline(); ok && pd.Before(d) {
		// parent's deadline governs
	} else {
		c.hasDL, c.deadline = true, d
		if c.err == nil {
			dur := d.Sub(vsched.Now())
			if dur <= 0 {
				c.cancel(DeadlineExceeded)
			} else {
				c.timer = vsched.AddTimer(dur, 0, func() { c.cancel(DeadlineExceeded) })
			}
		}
	}
	return wrap(c), func() {
		vsched.Point("ctx.cancel")
		c.cancel(Canceled)
	}
}

func WithTimeout(parent Context, d time.Duration) (Context, CancelFunc) {
	if !vsched.On() {
		return context.WithTimeout(parent, d)
	}
	return WithDeadline(parent, vsched.Now().Add(d))
}

func AfterFunc(ctx Context, f func()) (stop func() bool) {
	if !vsched.On() {
		return context.AfterFunc(ctx, f)
	}
	vsched.Point("ctx.AfterFunc")
	p := findV(ctx)
	if p == nil {
		if ctx.Done() != nil {
			panic("vcontext: AfterFunc on a cancellable real context inside a controlled execution")
		}
		return func() bool { return true }
	}
	a := &afterRec{f: f}
	if p.err != nil {
		a.fired = true
		vsched.SpawnNoPoint("ctx.AfterFunc", f)
	} else {
		p.after = append(p.after, a)
	}
	return func() bool {
		vsched.Point("ctx.AfterFunc.stop")
		if a.fired || a.stopped {
			return false
		}
		a.stopped = true
		return true
	}
}

// wrapped is the Context handed to code: a vctx whose Value answers vkey.
type wrapped struct{ *vctx }

func (w wrapped) Value(key any) any { return w.vctx.lookup(key) }

func wrap(c *vctx) Context { return wrapped{c} }
