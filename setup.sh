#!/bin/bash
# Builds the framework offline from files on disk: the overlay rewriter, the
# overlay for /repo's current tree, and every harness binary (warms GOCACHE).
set -u
cd /verif
. ./env.sh
mkdir -p bin evidence replays .cache
cp -f /repo/go.sum go.sum
(cd tools/rewrite && go build -o /verif/bin/rewrite .) || { echo "setup: cannot build rewriter" >&2; exit 1; }
fail=0
# only the checks claimed in MANIFEST.json
ids=$(python3 -c "import json;print(' '.join(c['property_id'] for c in json.load(open('/verif/MANIFEST.json'))['checks']))")
# first one serially (creates the overlay), the rest in parallel
first=1
for id in $ids; do
  if [ $first = 1 ]; then ./check $id --build-only || fail=1; first=0; else ./check $id --build-only & fi
done
wait
for id in $ids; do ./check $id --build-only || fail=1; done
exit $fail
