#!/opt/veriftools/pyvenv/bin/python
import json,jsonschema,sys,glob
m=json.load(open('/verif/MANIFEST.json'))
jsonschema.validate(m,json.load(open('/root/.vp/MANIFEST.schema.json')))
ids=[json.loads(l)['id'] for l in open('/verif/properties.jsonl')]
claimed=[c['property_id'] for c in m['checks']]
na=[c['property_id'] for c in m.get('not_applicable',[])]
missing=[i for i in ids if i not in claimed and i not in na]
print("manifest ok; claimed",len(claimed),"n/a",len(na),"unaccounted",missing)
sch=json.load(open('/root/.vp/EVIDENCE.schema.json'))
for f in sorted(glob.glob('/verif/evidence/*.json')):
    try:
        jsonschema.validate(json.load(open(f)),sch); print(f,"ok")
    except Exception as ex:
        print(f,"INVALID",str(ex)[:300])
