#!/usr/bin/env python3
# Regenerates MANIFEST.json from the table below (one entry per claimed property).
import json
SC="stateless model checking of the implementation under a controlled scheduler (iterative preemption/delay bounding)"
ENUM="bounded-exhaustive enumeration over explicit boundary alphabets, every case executed on the real code and compared with a reference model written from the property statement"
CHECKS = {
 "C18": dict(engine="enum", technique=ENUM+" over JSON configurations, with crash-isolated smoke runs of accepted ones",
   text="JSON configurations built from per-field alphabets (omitted / empty / documented default / other valid / boundary / invalid): the full server x client protocol matrix, all single and pair (thorough: triple) field variations of a rich base document, full products within each section; each is loaded by the real Config.Manager and compared with an independent validity predicate; omitted = empty = documented default is compared on effective values; accepted configurations are started on loopback in worker subprocesses and driven with a fixed smoke script",
   note="only a worker crash is a verdict in the smoke part; seven accepted-then-crashing absurd numeric values (2^62 sizes, 2^40 MTU) are listed as known findings"),
 "C19": dict(engine="vsched", technique=SC+" + exhaustive probe-outcome histories on the virtual clock",
   text="round-robin under 2-4 concurrent selecting threads (all interleavings at atomic-operation granularity), random with every IntN answer, and availability / latency / min-max-latency groups built through the real AddClientGroup with their real probe loops, tickers and workers on the virtual clock: an optional head round, k filler rounds around the 32/64-slot retention, then all outcome suffixes of a stated depth, asked mid-round and after each round; and selections interleaved with the probe loop's switch of the selected client",
   note="TCP groups run the real probe over an in-memory connection; UDP groups swap only the probe function; where the cycle starts is not demanded"),
 "C06": dict(engine="enum", technique=ENUM+" in crash-isolating worker subprocesses",
   text="38 network-facing entry groups (SOCKS5 address/stream/client-reply parsers, SS-none, HTTP proxy server/client/relay, SS2022 stream server and client incl. malformed headers sealed with the real keys, SS2022 and direct UDP unpackers (fresh and with live sessions on both sides, payload sizes around every outbound client's maximum), DNS parseMsg and Lookup) are fed every string up to length L over each parser's branch constants, every truncation, single (thorough: double) boundary mutation, insertion and deletion of valid seeds; every address a parser yields is pushed through 18 real routers (each criterion representation, incl. source port 0), Abort/Proceed+relay, six outbound request writers and UDP re-packing",
   note="the quantifier 'all byte strings' is unbounded: decided on the stated finite sub-space (not coverage-guided fuzzing); GeoIP and TLS servers not exercised"),
 "C01": dict(engine="enum", technique=ENUM,
   text="complete sessions of the real SS2022 stream client and server over a scripted in-memory transport for the full configuration matrix (ciphers x identity-header depth 0..3 x prefixes incl. >64 KiB x segmented-header allowance x target kinds), boundary initial-payload lengths, write-size sequences, reader modes (Read with 7 buffer shapes, WriteTo, Read-then-WriteTo), writer modes (Write, ReadFrom), every single structural cut and all handshake cut pairs, transport buffer sizes and chained tunnels through three relay loops (optionally with a 1440-byte wait Read, a zero-length Read before the response copy, or a relay write before it); oracle = two reference byte queues",
   note="identity-header depths >1 are checked by emulated relay hops (the repository has no relay-side EIH code); wire chunking and padding length are not demanded"),
 "C04": dict(engine="enum", technique=ENUM+" (explicit-state search over ID and packet histories)",
   text="the sliding-window filter for 8 sizes over absolute and relative boundary IDs to depth 5/6 through both APIs against a set-based reference (every node executed on the real filter), and packet histories to depth 4-7 through the real client/server packers and unpackers for both ciphers x identity header on/off with forged, stale, wrong-direction, foreign-session, reflected and old/new/third server-session packets and clock advances on the virtual clock",
   note="zones the statement leaves open (second session within a minute of the very first, change exactly at 60 s, change while old-session packets trickle) follow the code and are counted in the evidence"),
 "C05": dict(engine="enum", technique=ENUM,
   text="every codec pair (SS2022 with 0..3 identity headers, none, SOCKS5, direct) x every payload length 0..max+2 x address kinds x ports x MTUs x padding policies and extremes x payloadStart positions is packed and unpacked by the real packers; every server x client protocol pair is re-packed in place on a canary-filled buffer with the layout the real service computes; the real relay is run live on loopback at boundary lengths in both batch modes; and, under the controlled scheduler, with refused + fitting datagram pairs in every receive-batch split and with one session moving from an IPv4 to an IPv6 client address",
   note="addresses compared after Unmap (documented conversion); contents of the front headroom are the packer's to use"),
 "C07": dict(engine="enum", technique=ENUM,
   text="the real SOCKS5, HTTP CONNECT and Shadowsocks-none clients and servers run over a deterministic in-memory connection for every domain length 1..255, boundary and all ports, credential lengths and byte values, method lists of every length, every command byte, every dial-result code, and every single cut (pairs at boundaries) of the handshake bytes; an independent wire parser and a reference decide honoured/refused, reply class and stream transparency",
   note="bytes pushed before the success reply and exact reply codes beyond the RFC class are not demanded"),
 "C02": dict(engine="enum", technique=ENUM,
   text="genuine sessions of 32 configurations and several chunk shapes are recorded between the real client and server, split into structural segments, and every tamper operator (bit flips at every byte of handshake/length chunks, cuts at every offset, drop/duplicate/swap/insert/replace of every chunk and pair, reflection, whole-stream substitution and splices with other sessions under the same, another held and a foreign key) is applied at every structural position and fed to a fresh real endpoint under three reader modes, including reads after the first error",
   note="genuine peer = recorded session with the longest common prefix; delivery up to the tamper point and time windows are C01/C03"),
 "C09": dict(engine="enum", technique=ENUM,
   text="router configurations (full products of criterion kinds absent/present/inverted over a small universe, every port representation, route lists: all ordered pairs and triples of a 12-route core x defaults) rendered as JSON, loaded by the real Config.Router and queried through the real GetTCPClient/GetUDPClient with boundary requests and scripted resolvers; a reference returns the set of permitted outcomes",
   note="GeoIP criteria cannot be exercised (no database in the image); client maps of different sizes included; reference leaves evaluation order and error values open"),
 "C10": dict(engine="enum", technique=ENUM+" (differential across representations)",
   text="rule sets over a 4-label vocabulary in every insertion order, threshold-straddling sets, 120 text variants x 28 conversion paths, ~30 direct matcher representations and the real converter command; all 65535 ports per port set across bit set / range list / single port / router criteria; all subsets of a prefix vocabulary and generated sets of 9k-20k prefixes (text forms beyond the writer's 128 KiB buffer) through text round trips - every representation must agree with the reference on every probe",
   note="text form may refuse the empty set / empty rule; port 0 is never probed (PortSet.Contains(0) panics by contract)"),
 "C17": dict(engine="vsched", technique=SC+" + explicit-state search of the bounded cache to fixpoint",
   text="the real dns.Resolver runs under the controlled scheduler with a real direct UDP client on loopback and a stub TCP client against a scripted upstream: every script with up to two non-default behaviours per lookup (valid, NXDOMAIN+SOA, NODATA+SOA, SERVFAIL, truncated, foreign ID, foreign source, not-a-response, RA=0, garbage, silence, TCP close mid-message), both arrival orders, UDP/TCP/both; lookup histories around TTL and failure-caching boundaries on the virtual clock; BoundedCache against a reference LRU to fixpoint",
   note="poisoned datagrams carry addresses no acceptable response carries; expiry bound from the statement (smallest answer TTL, else negative/failure caching time)"),
 "C12": dict(engine="vsched", technique=SC+" over real loopback sockets with scheduler-mediated readiness and virtual NAT timers",
   text="idle eviction and restart, a packet racing with the NAT timeout, Stop with packets in flight, Stop during session initialisation, router rejection, failing sends at initialisation and on an established session (EPERM as an environment deviation), an unsendable destination, two sessions, two clients that both idle out and return, and further datagrams of a session being torn down are explored on the real relay services (none, socks5, ss2022 single- and multi-user, direct; both batch modes) within a delay bound; oracles: no panic, no deadlock, table and sockets released after eviction, a new working session afterwards, and Stop returns with all NAT timers frozen, every relay goroutine ended and every relay socket closed",
   note="timers fire at quiescence, in either order when due at the same instant; promptness = Stop completes with timers later than 1 s frozen"),
 "C11": dict(engine="vsched", technique=SC+" over real loopback sockets with scheduler-mediated readiness",
   text="the real UDP relay services (built from JSON through service.Config.Manager; NAT and session relays, generic and recvmmsg/sendmmsg paths) run on real loopback sockets under the controlled scheduler; every interleaving within a delay bound of the relay threads, 2-3 concurrent sessions to IP and domain targets (resolver lookups are scheduling points; shared packer objects get access points), garbage datagrams, a client address change, clients behind one IP, oversize replies, failing lookups, a wildcard listener reached through two local addresses, a multi-user ss2022 server, outgoing none/ss2022 clients towards a harness upstream proxy, and one session talking to two ports of one host name is executed and checked for destination, payload, reply ownership and true source",
   note="every send ends with a delivery barrier; timers fire only at quiescence in this check (timeouts are C12)"),
 "C16": dict(engine="vsched", technique=SC,
   text="the real httpproxy.ServerHandle + Proceed (request/response forwarder goroutines over the real in-memory pipe) run under the controlled scheduler between a scripted client and origin; every interleaving within a delay bound is executed for each scripted exchange list and the messages parsed on both sides are compared (method, target, end-to-end fields, bodies, trailers, order, 1xx, connection endings, auth gating incl. authentication enabled without users; a forwarded request's response must be accepted from the origin while the client waits)",
   note="origin attached directly to the pipe end; comparison after parsing with net/http on both sides; finite script family listed in evidence"),
 "C13": dict(engine="vsched", technique=SC,
   text="the real TCPRelay.handleConn runs over scheduler-aware in-memory connections with real protocol servers (tunnel, SOCKS5, SS2022 single-user / multi-user / with unsafe fallback, HTTP CONNECT, SS-none) in front, the real router and either a recording outgoing client or a real chained http / socks5 / ss2022 client talking to the real server of its protocol; every interleaving within a deviation bound (incl. the 250 ms initial-payload timer landing early or late) of client, relay, copy goroutine and target is executed and checked for target/payload fidelity, failure replies, mirrored half-closes and statistics",
   note="handleConn parameter widened to netio.Conn by the overlay; only listener settings the service can produce are explored"),
 "C08": dict(engine="vsched", technique="explicit-state enumeration of operation histories (each run on the controlled scheduler with the virtual clock) + stateless model checking of concurrent operations, oracle through real TCP/UDP handshakes",
   text="every history to a stated depth over add/update/delete/edit-and-reload/reload on 2 users x 3 keys, and every interleaving within a deviation bound of 2-3 concurrent operations, with the accepted-key set (real SS2022 TCP handshake and UDP first packet, with attribution), the listed set and the saved file compared at every quiescent state",
   note="sequential consistency; scheduling points at synchronisation operations only"),
 "C20": dict(engine="vsched", category="model_checking", technique="exhaustive crash-point / write-fault enumeration over the logged file operations of the real save + stateless model checking of the debounce/shutdown protocol",
   text="every crash point (each prefix of the save's file-operation log x each byte count of each write) and each ENOSPC position, for stores of 0..N users and each kind of change, is materialised and restarted through the real loader, and life goes on in the crash image (one more change, save, restart); every interleaving within a deviation bound of change/debounce/cancel/Stop at each shutdown phase",
   note="crash = process kill (no power-loss reordering); file operations of package cred are routed through verif/shim/vos by the overlay"),
 "C03": dict(engine="vsched", technique="explicit-state enumeration of handshake histories on a virtual clock (every transition a real HandleStream call) + stateless model checking of concurrent presentations",
   text="every history to a stated depth over boundary clock advances, client skews, replays, altered copies and held connections (request delivered 29/31/61 s after the connection opened) is run on a fresh real server and compared with the at-most-once/timestamp reference; every interleaving within a deviation bound of k concurrent presentations of one request",
   note="virtual clock injected through the overlay; single-user aes-128 server (salt pool and timestamp rule are cipher independent)"),
 "C14": dict(engine="vsched", technique=SC+" + explicit-state search over API request histories",
   text="all interleavings within a deviation bound of concurrent Collect* calls with Snapshot/SnapshotAndReset on the real collector (conservation of every counter per user across successive snapshots), every API request history to a stated depth through the real ssm handlers against a reference model, and the recording sites: the real TCP relay (scenario family shared with C13) and the real UDP relays (all protocols incl. multi-user, both batch modes, with and without a backlog at Stop) run under the scheduler with a real collector whose figures are compared with the bytes the harness saw delivered",
   note="sequential consistency; finite scenario list and alphabet stated in evidence; pool objects are scribbled over on Put so that reads after Put show"),
 "C15": dict(engine="vsched", technique=SC,
   text="every interleaving (scheduling points at each mutex, atomic, channel, select, once and timer operation) of 3-7 threads on one real PipeConn pair, within a stated preemption/delay bound, is executed on the implementation and checked against a byte-stream reference; plus every sequence of 1..3 deadline changes {none, past, +1 s} against an already pending Read / WriteTo / Write",
   note="sequential consistency; schedule space bounded by deviations (bound reported per scenario); scenario family is finite and listed in evidence"),
}
NA = {}
ENGINES=[
 {"name":"vsched","path":"vsched/","kind_free_text":"hand-written controlled scheduler (threads, mutexes, atomics, shadow channels, select, virtual clock, timers, contexts) + iterative deviation-bounded stateless exploration of the real code, rewritten through a build overlay by tools/rewrite"},
 {"name":"enum","path":"lib/","kind_free_text":"bounded-exhaustive enumeration / explicit-state BFS whose every transition calls the real implementation, compared with a reference model written from the property statement"},
]
props=[json.loads(l) for l in open('/verif/properties.jsonl')]
checks=[]
for p in props:
    i=p['id']
    if i in CHECKS:
        c=CHECKS[i]
        checks.append({"property_id":i,"quick_cmd":f"./check {i} --tier quick","thorough_cmd":f"./check {i} --tier thorough",
          "evidence_file":f"/verif/evidence/{i}.json","replay_cmd_template":f"./check {i} --replay {{path}}","engine":c["engine"],
          "level_claimed":{"category":c.get("category","model_checking"),"text":c["text"],"design_ref":f"DESIGN.md section 2, {i}"},
          "level_note":c["note"],"technique":c["technique"]})
na=[{"property_id":p['id'],"reason":NA.get(p['id'],"check not built yet in this session; planned per DESIGN.md section 2 (model checking applies)")} for p in props if p['id'] not in CHECKS]
for e in ENGINES:
    e["serves_properties"]=[i for i,c in CHECKS.items() if c["engine"]==e["name"]]
m={"version":1,"setup_cmd":"./setup.sh",
 "hooks":{"guard":"go build -overlay (no tagged code in /repo; the repository is byte-identical with the guard off)",
  "enable":"tools/rewrite regenerates rewritten copies of /repo's non-test Go files (imports of sync, sync/atomic, time, context, math/rand/v2, crypto/rand redirected to verif/shim/*; go/chan/select/map-range routed through verif/vsched) into /verif/.cache/<hash>/ and every harness is built with -overlay overlay.json",
  "baseline_off_cmd":"cd /repo && GOFLAGS=-mod=mod GOPROXY=off GOSUMDB=off GOTOOLCHAIN=local PATH=/opt/veriftools/go1.26.8/bin:$PATH go test -json -vet=off -count=1 -timeout 25m ./...",
  "source_commits":[],"add_only":True},
 "engines":ENGINES,"checks":checks,"not_applicable":na,
 "notes":"All instrumentation is produced by a build overlay; /repo carries only fix: commits. exit 2 from a check is a harness error, never a verdict."}
json.dump(m,open('/verif/MANIFEST.json','w'),indent=1)
print("claimed",len(checks),"n/a",len(na))
