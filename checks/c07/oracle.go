package main

// Oracle: compares what the real client and server did with the expectation
// derived from the property statement and the protocols' wire formats.

import (
	"bytes"
	"encoding/base64"
	"errors"
	"fmt"
	"strings"

	"github.com/database64128/shadowsocks-go/conn"
	"github.com/database64128/shadowsocks-go/httpproxy"
	"github.com/database64128/shadowsocks-go/netio"
	"github.com/database64128/shadowsocks-go/socks5"
)

// failure is one broken demand.  check+shape form the canonical signature.
type failure struct {
	check string
	shape string
	msg   string
}

type fails []failure

func (f *fails) add(check, shape, format string, a ...any) {
	*f = append(*f, failure{check, shape, fmt.Sprintf(format, a...)})
}

func errStr(err error) string {
	if err == nil {
		return "<nil>"
	}
	return err.Error()
}

func outcomeShape(sp *Spec) string {
	if sp.Outcome == "abort" {
		return "abort-" + dialClass(sp.Code)
	}
	return "proceed-" + sp.Mode
}

func authShape(sp *Spec) string {
	if sp.Proto == "ssnone" {
		return "noauth"
	}
	s := "server-auth-off"
	if sp.ServerAuth {
		s = "server-auth-on"
	}
	if sp.ClientAuth || (sp.Client == "raw" && sp.ServerAuth) {
		return s + ",client-creds=" + sp.CredCase
	}
	return s + ",client-creds=none"
}

func oracle(sp *Spec, r *Result) fails {
	var f fails
	if r.SetupErr != "" {
		f.add("setup-rejected", sp.Target.class()+","+authShape(sp), "constructing the client/server for a valid configuration failed: %s", r.SetupErr)
		return f
	}
	if r.PanicS != "" {
		f.add("panic-server", sp.Target.class()+","+authShape(sp), "server side panicked: %s", r.PanicS)
	}
	if r.PanicC != "" {
		f.add("panic-client", sp.Target.class()+","+authShape(sp), "client side panicked: %s", r.PanicC)
	}
	if len(f) > 0 {
		return f
	}
	if r.Stall {
		f.add("stall", sp.Target.class()+","+authShape(sp)+","+outcomeShape(sp), "client and server both wait for bytes that never come (client err=%s, server err=%s; c2s %d bytes, s2c %d bytes on the wire)", errStr(r.CliErr), errStr(r.SrvErr), len(r.CS), len(r.SC))
		return f
	}
	ex := sp.expect()
	switch sp.Proto {
	case "socks5":
		oracleSocks5(sp, r, ex, &f)
	case "http":
		oracleHTTP(sp, r, ex, &f)
	case "ssnone":
		oracleSSNone(sp, r, &f)
	}
	return f
}

// serverSide checks what the server extracted / whether it honoured the request.
func serverSide(sp *Spec, r *Result, ex expectation, f *fails) (honoured bool) {
	gave := r.SrvErr == nil && !r.SrvPCNil
	if ex.udp {
		if r.SrvErr != netio.ErrHandleStreamDone || !r.SrvPCNil {
			f.add("udp-associate-not-handled", "-", "UDP ASSOCIATE with UDP enabled: server returned err=%s pendingConn=%v, expected ErrHandleStreamDone after the client closed", errStr(r.SrvErr), !r.SrvPCNil)
		}
		if !r.SrvAddr.eq(sp.Target.endpoint()) {
			f.add("server-addr-mismatch", sp.Target.class()+",udp-associate", "server extracted %s, client asked for %s", r.SrvAddr, sp.Target.endpoint())
		}
		if r.SrvUser != ex.username {
			f.add("server-username-mismatch", authShape(sp)+",udp-associate", "server reports user %s, client authenticated as %s", show([]byte(r.SrvUser)), show([]byte(ex.username)))
		}
		return true
	}
	if ex.stage != "" {
		if gave {
			check := "request-honoured-though-" + ex.stage + "-must-refuse"
			if ex.stage == "auth" || (ex.stage == "method" && sp.ServerAuth) {
				check = "auth-gate-bypassed"
			}
			f.add(check, authShape(sp)+",stage="+ex.stage, "server honoured the request (addr %s, user %s) although it had to be refused at stage %q", r.SrvAddr, show([]byte(r.SrvUser)), ex.stage)
			return true
		}
		if r.SrvErr == nil {
			f.add("server-silent-refusal", authShape(sp)+",stage="+ex.stage, "server returned neither a request nor an error")
		}
		if ex.stage == "cmd" {
			e, ok := errors.AsType[socks5.UnsupportedCommandError](r.SrvErr)
			if !ok || byte(e) != sp.Cmd {
				f.add("server-command-mismatch", "-", "client sent command %d; server's error is %q, expected an unsupported-command error naming %d", sp.Cmd, errStr(r.SrvErr), sp.Cmd)
			}
		}
		return false
	}
	if !gave {
		f.add("valid-request-refused", sp.Target.class(), "server refused a request it had to honour: err=%s pendingConn=%v", errStr(r.SrvErr), !r.SrvPCNil)
		return false
	}
	if !r.SrvAddr.eq(sp.Target.endpoint()) {
		f.add("server-addr-mismatch", sp.Target.class(), "server extracted %s, client asked for %s", r.SrvAddr, sp.Target.endpoint())
	}
	demandUser := sp.Proto != "http" || sp.ServerAuth || !sp.ClientAuth
	if demandUser && r.SrvUser != ex.username {
		f.add("server-username-mismatch", authShape(sp), "server reports user %s, expected %s", show([]byte(r.SrvUser)), show([]byte(ex.username)))
	}
	if sp.Outcome == "abort" {
		if !r.Aborted || r.AbortErr != nil {
			f.add("abort-failed", sp.Proto, "Abort returned %s", errStr(r.AbortErr))
		}
	} else if !r.Proceeded || r.ProceedErr != nil {
		f.add("proceed-failed", sp.Proto, "Proceed returned %s", errStr(r.ProceedErr))
	}
	return true
}

// streamChecks demands a transparent byte stream after a completed handshake.
func streamChecks(sp *Spec, r *Result, f *fails) {
	if sp.Client == "request" {
		return
	}
	wantS := append(data(sp.Payload, 0xC0), data(sp.D1, 0xD1)...)
	if sp.Client == "raw" {
		wantS = data(sp.D1, 0xD1)
	}
	wantC := data(sp.D2, 0x53)
	shape := fmt.Sprintf("mode=%s,reader=%s", sp.Mode, readerShape(sp))
	if !bytes.Equal(r.GotS, wantS) || !r.EOFS || r.ReadErrS != nil {
		f.add("stream-client-to-server", shape, "after the handshake the server end read %d bytes (%s), eof=%v err=%s; the client sent %d bytes (%s)", len(r.GotS), diffAt(r.GotS, wantS), r.EOFS, errStr(r.ReadErrS), len(wantS), show(wantS))
	}
	if !bytes.Equal(r.GotC, wantC) || !r.EOFC || r.ReadErrC != nil {
		f.add("stream-server-to-client", shape, "after the handshake the client end read %d bytes (%s), eof=%v err=%s; the far side sent %d bytes (%s)", len(r.GotC), diffAt(r.GotC, wantC), r.EOFC, errStr(r.ReadErrC), len(wantC), show(wantC))
	}
	if r.WriteErrC != nil {
		f.add("stream-client-write-error", shape, "client write after the handshake failed: %s", errStr(r.WriteErrC))
	}
}

func readerShape(sp *Spec) string {
	if sp.ReadBuf == 0 {
		return "io.Copy"
	}
	return "Read"
}

func diffAt(got, want []byte) string {
	n := min(len(got), len(want))
	for i := 0; i < n; i++ {
		if got[i] != want[i] {
			return fmt.Sprintf("first difference at offset %d: got %#x want %#x", i, got[i], want[i])
		}
	}
	if len(got) < len(want) {
		return fmt.Sprintf("a prefix; %d bytes missing", len(want)-len(got))
	}
	if len(got) > len(want) {
		return fmt.Sprintf("%d extra bytes", len(got)-len(want))
	}
	return "identical"
}

func oracleSocks5(sp *Spec, r *Result, ex expectation, f *fails) {
	honoured := serverSide(sp, r, ex, f)
	if len(*f) > 0 {
		return // what the server did is already wrong; the wire and client checks would only restate it
	}
	wanted := sp.wantedMethod()

	// ---- client -> server bytes (the repository's client only; the raw client is ours)
	cs := r.CS
	var trailing func() // deferred: bytes after the request are judged only if the server's replies are right
	if sp.Client != "raw" {
		off := 0
		bad := func(format string, a ...any) {
			f.add("wire-client-to-server", sp.Target.class(), "client bytes %s: "+format, append([]any{show(cs)}, a...)...)
		}
		clientMethod := byte(0)
		if sp.ClientAuth {
			clientMethod = 2
		}
		func() {
			if len(cs) < 2 || cs[0] != 5 || int(cs[1]) == 0 || len(cs) < 2+int(cs[1]) {
				bad("no RFC 1928 version/method message")
				return
			}
			if bytes.IndexByte(cs[2:2+int(cs[1])], clientMethod) < 0 {
				bad("method %d not offered", clientMethod)
			}
			off = 2 + int(cs[1])
			if ex.stage == "method" {
				if len(cs) != off {
					bad("%d bytes sent after the server refused every offered method", len(cs)-off)
				}
				return
			}
			if sp.ClientAuth {
				want := append([]byte{1, byte(len(sp.CU))}, sp.CU...)
				want = append(append(want, byte(len(sp.CP))), sp.CP...)
				if !bytes.HasPrefix(cs[off:], want) {
					bad("RFC 1929 message at offset %d is not VER=1 ULEN UNAME PLEN PASSWD for the configured credentials", off)
					return
				}
				off += len(want)
			}
			if ex.stage == "auth" {
				if len(cs) != off {
					bad("%d bytes sent after the authentication failed", len(cs)-off)
				}
				return
			}
			if len(cs) < off+3 || cs[off] != 5 || cs[off+1] != sp.Cmd || cs[off+2] != 0 {
				bad("request header at offset %d is not VER=5 CMD=%d RSV=0", off, sp.Cmd)
				return
			}
			ep, n, err := parseSocksAddr(cs[off+3:])
			if err != nil {
				bad("request address: %v", err)
				return
			}
			if !ep.eq(sp.Target.endpoint()) {
				bad("request names %s, the caller asked for %s", ep, sp.Target.endpoint())
			}
			off += 3 + n
			wantData := 0
			if honoured && sp.Outcome == "proceed" && sp.Client == "dial" && !ex.udp {
				wantData = sp.Payload + sp.D1
			}
			// Abort with the success code is outside the statement: the reply may say "succeeded" and the client may go on
			if len(cs)-off != wantData && !(sp.Outcome == "abort" && sp.Code == 0) {
				trailing = func() {
					bad("%d bytes follow the request, expected %d bytes of payload", len(cs)-off, wantData)
				}
			}
		}()
	}
	if len(*f) > 0 {
		return
	}

	// ---- server -> client bytes
	sc := r.SC
	badS := func(shape, format string, a ...any) {
		f.add("wire-server-to-client", shape, "server bytes %s: "+format, append([]any{show(sc)}, a...)...)
	}
	rep := -1
	func() {
		if len(sc) < 2 || sc[0] != 5 {
			badS("method-selection", "no RFC 1928 method selection message")
			return
		}
		if ex.stage == "method" {
			if sc[1] != 0xff {
				check := "method-selection"
				if sp.ServerAuth {
					check = "auth-gate-bypassed"
				}
				f.add(check, authShape(sp)+",stage=method", "client offered methods %s, server requires %d, server selected %#x instead of 0xFF", show(offeredMethods(sp)), wanted, sc[1])
			}
			if len(sc) != 2 {
				badS("method-selection", "%d bytes after the 'no acceptable method' reply", len(sc)-2)
			}
			return
		}
		if sc[1] != wanted {
			f.add("method-selection", authShape(sp), "client offered methods %s including %d, server selected %#x", show(offeredMethods(sp)), wanted, sc[1])
			return
		}
		off := 2
		if sp.ServerAuth {
			if len(sc) < 4 || sc[2] != 1 {
				badS("auth-status", "no RFC 1929 status message")
				return
			}
			if (sc[3] == 0) != (ex.stage != "auth") {
				check := "valid-credentials-rejected"
				if ex.stage == "auth" {
					check = "auth-gate-bypassed"
				}
				f.add(check, authShape(sp)+",stage=auth", "presented (%s,%s); RFC 1929 STATUS=%d", show(sp.CU), show(sp.CP), sc[3])
			}
			off = 4
			if ex.stage == "auth" {
				if len(sc) != off {
					badS("auth-status", "%d bytes after the failure status", len(sc)-off)
				}
				return
			}
		}
		if len(sc) < off+3 || sc[off] != 5 || sc[off+2] != 0 {
			badS("reply", "no RFC 1928 reply at offset %d", off)
			return
		}
		rep = int(sc[off+1])
		ep, n, err := parseSocksAddr(sc[off+3:])
		if err != nil {
			badS("reply", "reply address: %v", err)
			return
		}
		off += 3 + n
		switch {
		case ex.stage == "cmd":
			if rep != 7 {
				f.add("reply-command-not-supported", fmt.Sprintf("tcp=%v,udp=%v", sp.EnableTCP, sp.EnableUDP), "command %d is not enabled; REP=%d, expected 7 (command not supported)", sp.Cmd, rep)
			}
		case ex.udp:
			if rep != 0 {
				f.add("reply-udp-associate", "rep", "UDP ASSOCIATE honoured but REP=%d", rep)
			}
			if want := endpointOfTCP(sp.Local); !ep.eq(want) {
				f.add("reply-udp-associate", "bound-address", "BND.ADDR is %s, the connection's local address is %s", ep, want)
			}
		case sp.Outcome == "proceed":
			if rep != 0 {
				f.add("reply-success", "rep", "onward connection succeeded but REP=%d", rep)
			}
		default:
			if !socksReplyOK(sp.Code, byte(rep)) {
				f.add("reply-class", "dial="+dialClass(sp.Code), "dial result %d (%s) reported with REP=%d (%s)", sp.Code, dialName(sp.Code), rep, socks5.ReplyError(byte(rep)))
			}
			if sp.Code != 0 && rep == 0 && socksReplyOK(sp.Code, 0) {
				f.add("reply-class", "failure-reported-as-success", "dial result %d (%s) reported with REP=0 (succeeded)", sp.Code, dialName(sp.Code))
			}
		}
		wantData := 0
		if honoured && sp.Outcome == "proceed" && !ex.udp && sp.Client != "request" {
			wantData = sp.D2
		}
		if len(sc)-off != wantData {
			badS("reply", "%d bytes follow the reply, expected %d bytes of far-side data", len(sc)-off, wantData)
		}
	}()

	if len(*f) > 0 {
		return
	}
	if trailing != nil {
		trailing()
		return
	}

	// ---- what the client reports
	shape := authShape(sp) + "," + outcomeShape(sp)
	switch {
	case sp.Client == "raw":
		ok := ex.stage == "" && (sp.Outcome == "proceed" || sp.Code == 0)
		if ok != (r.CliErr == nil) {
			f.add("raw-client-outcome", shape, "hand-written client ended with %s, expected success=%v", errStr(r.CliErr), ok)
		}
	case ex.stage == "method" || ex.stage == "auth":
		if r.CliErr == nil {
			f.add("client-reports-success-on-refusal", shape+",stage="+ex.stage, "client returned no error although the server had to refuse at stage %q", ex.stage)
		}
	case rep >= 0:
		if rep == 0 {
			if r.CliErr != nil {
				f.add("client-reply-not-surfaced", shape, "server replied REP=0 but the client returned %s", errStr(r.CliErr))
			}
		} else {
			e, ok := errors.AsType[socks5.ReplyError](r.CliErr)
			if !ok || int(e) != rep {
				f.add("client-reply-not-surfaced", shape, "server replied REP=%d but the client returned %s", rep, errStr(r.CliErr))
			}
		}
		if ex.udp && r.CliErr == nil {
			if want := endpointOfTCP(sp.Local); !r.Bound.eq(want) {
				f.add("client-udp-bound-address", sp.Local, "client got bound address %s, server's local address is %s", r.Bound, want)
			}
		}
	}
	if sp.Client == "dial" && !r.DialedOK {
		f.add("client-dialed-wrong-proxy", sp.Proto, "client did not dial the configured proxy address")
	}
	if honoured && !ex.udp && sp.Outcome == "proceed" && r.Proceeded && r.ProceedErr == nil && r.CliErr == nil {
		streamChecks(sp, r, f)
	}
}

func offeredMethods(sp *Spec) []byte {
	if sp.Client == "raw" {
		return sp.Methods
	}
	if sp.ClientAuth {
		return []byte{2}
	}
	return []byte{0}
}

func endpointOfTCP(s string) endpoint {
	a := parseLocal(s).AddrPort()
	return endpoint{valid: true, ip: a.Addr().Unmap(), port: a.Port()}
}

func dialName(code uint8) string {
	return conn.DialResultCode(code).String()
}

func oracleHTTP(sp *Spec, r *Result, ex expectation, f *fails) {
	honoured := serverSide(sp, r, ex, f)
	if len(*f) > 0 {
		return
	}
	shape := authShape(sp) + "," + outcomeShape(sp)

	// ---- client -> server
	cs := r.CS
	var trailing func()
	func() {
		bad := func(format string, a ...any) {
			f.add("wire-client-to-server", sp.Target.class(), "client bytes %s: "+format, append([]any{show(cs)}, a...)...)
		}
		h, err := parseHTTPHead(cs)
		if err != nil {
			bad("%v", err)
			return
		}
		parts := strings.Split(h.first, " ")
		if len(parts) != 3 || parts[0] != "CONNECT" || parts[2] != "HTTP/1.1" {
			bad("request line %q is not 'CONNECT authority HTTP/1.1'", h.first)
			return
		}
		ep, err := parseAuthority(parts[1])
		if err != nil || !ep.eq(sp.Target.endpoint()) {
			bad("request target %q does not name %s (%v)", parts[1], sp.Target.endpoint(), err)
		}
		hosts := h.get("host")
		if len(hosts) != 1 {
			bad("%d Host header fields", len(hosts))
		} else if ep, err := parseAuthority(hosts[0]); err != nil || !ep.eq(sp.Target.endpoint()) {
			bad("Host %q does not name %s", hosts[0], sp.Target.endpoint())
		}
		auths := h.get("proxy-authorization")
		if !sp.ClientAuth {
			if len(auths) != 0 {
				bad("Proxy-Authorization sent without configured credentials")
			}
		} else if len(auths) != 1 {
			bad("%d Proxy-Authorization header fields", len(auths))
		} else {
			scheme, tok, _ := strings.Cut(auths[0], " ")
			dec, err := base64.StdEncoding.DecodeString(strings.TrimSpace(tok))
			want := append(append(bytes.Clone(sp.CU), ':'), sp.CP...)
			if !strings.EqualFold(scheme, "Basic") || err != nil || !bytes.Equal(dec, want) {
				bad("Proxy-Authorization %q is not Basic base64(user:password) of the configured credentials", auths[0])
			}
		}
		wantData := 0
		if honoured && sp.Outcome == "proceed" {
			wantData = sp.Payload + sp.D1
		}
		if len(cs)-h.length != wantData {
			trailing = func() {
				bad("%d bytes follow the request head, expected %d", len(cs)-h.length, wantData)
			}
		}
	}()
	if len(*f) > 0 {
		return
	}

	// ---- server -> client
	sc := r.SC
	status := -1
	func() {
		bad := func(format string, a ...any) {
			f.add("wire-server-to-client", shape, "server bytes %s: "+format, append([]any{show(sc)}, a...)...)
		}
		h, err := parseHTTPHead(sc)
		if err != nil {
			bad("%v", err)
			return
		}
		var proto string
		if n, _ := fmt.Sscanf(h.first, "%s %d", &proto, &status); n != 2 || !strings.HasPrefix(proto, "HTTP/1.") {
			bad("status line %q", h.first)
			status = -1
			return
		}
		wantData := 0
		switch {
		case ex.stage == "auth":
			if status != 407 {
				check := "reply-auth-required"
				if status >= 200 && status <= 299 {
					check = "auth-gate-bypassed"
				}
				f.add(check, authShape(sp), "request without matching credentials answered with status %d, expected 407", status)
			} else if pa := h.get("proxy-authenticate"); len(pa) == 0 || !strings.HasPrefix(strings.ToLower(pa[0]), "basic") {
				bad("407 without a Basic Proxy-Authenticate challenge")
			}
		case sp.Outcome == "proceed":
			if status < 200 || status > 299 {
				f.add("reply-success", "status", "onward connection succeeded but the status is %d", status)
			}
			if len(h.get("content-length"))+len(h.get("transfer-encoding")) > 0 {
				bad("2xx response to CONNECT carries Content-Length/Transfer-Encoding")
			}
			if honoured {
				wantData = sp.D2
			}
		default:
			if !httpStatusOK(sp.Code, status) {
				f.add("reply-class", "dial="+dialClass(sp.Code), "dial result %d (%s) reported with status %d", sp.Code, dialName(sp.Code), status)
			}
			if sp.Code != 0 && status >= 200 && status <= 299 && httpStatusOK(sp.Code, status) {
				f.add("reply-class", "failure-reported-as-success", "dial result %d (%s) reported with status %d", sp.Code, dialName(sp.Code), status)
			}
		}
		if len(sc)-h.length != wantData {
			bad("%d bytes follow the response head, expected %d bytes of far-side data", len(sc)-h.length, wantData)
		}
	}()

	if len(*f) > 0 {
		return
	}
	if trailing != nil {
		trailing()
		return
	}

	// ---- client report
	if status >= 0 {
		if status >= 200 && status <= 299 {
			if r.CliErr != nil || r.CliNoConn {
				f.add("client-reply-not-surfaced", shape, "server answered %d but the client returned err=%s conn=%v", status, errStr(r.CliErr), !r.CliNoConn)
			}
		} else {
			e, ok := errors.AsType[httpproxy.ConnectNonSuccessfulResponseError](r.CliErr)
			if !ok || e.StatusCode != status {
				f.add("client-reply-not-surfaced", shape, "server answered %d but the client returned %s", status, errStr(r.CliErr))
			}
		}
	}
	if !r.DialedOK {
		f.add("client-dialed-wrong-proxy", sp.Proto, "client did not dial the configured proxy address")
	}
	if honoured && sp.Outcome == "proceed" && r.Proceeded && r.ProceedErr == nil && r.CliErr == nil {
		streamChecks(sp, r, f)
	}
}

func oracleSSNone(sp *Spec, r *Result, f *fails) {
	honoured := serverSide(sp, r, expectation{}, f)
	cs := r.CS
	ep, n, err := parseSocksAddr(cs)
	if err != nil || !ep.eq(sp.Target.endpoint()) {
		f.add("wire-client-to-server", sp.Target.class(), "client bytes %s do not start with the SOCKS address of %s (%v)", show(cs), sp.Target.endpoint(), err)
	} else if want := sp.Payload + sp.D1; len(cs)-n != want {
		f.add("wire-client-to-server", sp.Target.class(), "%d bytes follow the address, expected %d", len(cs)-n, want)
	}
	if r.CliErr != nil || r.CliNoConn {
		f.add("client-error", sp.Target.class(), "DialStream returned %s", errStr(r.CliErr))
		return
	}
	if !r.DialedOK {
		f.add("client-dialed-wrong-proxy", sp.Proto, "client did not dial the configured proxy address")
	}
	if !honoured {
		return
	}
	if sp.Outcome == "abort" {
		if len(r.SC) != 0 {
			f.add("wire-server-to-client", "abort", "Abort wrote %d bytes into a protocol without replies: %s", len(r.SC), show(r.SC))
		}
		return
	}
	if len(r.SC) != sp.D2 {
		f.add("wire-server-to-client", "proceed", "%d bytes on the wire, far side sent %d", len(r.SC), sp.D2)
	}
	if r.Proceeded && r.ProceedErr == nil {
		streamChecks(sp, r, f)
	}
}
