package main

// Deterministic in-memory duplex connection with scripted fragmentation.
//
// Each direction is an append-only byte stream.  Writes never block and never
// fail because of the peer (like a socket with an unbounded send buffer).  A
// Read returns bytes of exactly one *segment*; segment boundaries are
//   - the end of every Write call (a "chunk"), unless the chunk was written
//     while the writer had glue switched on: then the chunk is delivered
//     together with the following chunk (the reader waits for it), and
//   - the scripted cut offsets of that direction (absolute stream offsets),
//   - optionally a maximal read size ("every").
//
// Because a chunk becomes visible atomically and a glued chunk is withheld
// until its successor (or the writer's close) is there, what a Read returns
// depends only on the stream contents and the script, never on timing.
//
// The two parties (client thread, server thread) are registered in a world;
// when every live party is waiting in Read and nothing can arrive any more the
// world is dead: all Reads fail with errStall (a deterministic deadlock
// verdict, no wall clock involved).

import (
	"errors"
	"io"
	"net"
	"sync"
	"time"
)

var errStall = errors.New("c07: stall: every party is waiting for bytes that will never arrive")

type world struct {
	mu      sync.Mutex
	cond    *sync.Cond
	alive   int
	blocked int
	gen     uint64
	dead    bool
	ops     int64 // Read/Write/Close calls made on the connection
}

type dir struct {
	buf     []byte
	rpos    int
	ends    []int
	glue    []bool
	ci      int
	cuts    []int
	cutIdx  int
	every   int
	wclosed bool
}

type end struct {
	w       *world
	in, out *dir
	local   *net.TCPAddr
	remote  *net.TCPAddr
	closed  bool
	glueNow bool
}

func newPair(fr Frag, srvLocal, cliLocal *net.TCPAddr) (cli, srv *end, w *world) {
	w = &world{alive: 2}
	w.cond = sync.NewCond(&w.mu)
	cs := &dir{cuts: fr.CutsCS, every: fr.Every}
	sc := &dir{cuts: fr.CutsSC, every: fr.Every}
	cli = &end{w: w, in: sc, out: cs, local: cliLocal, remote: srvLocal}
	srv = &end{w: w, in: cs, out: sc, local: srvLocal, remote: cliLocal}
	return
}

// changed must be called with w.mu held after anything that may unblock a reader.
func (w *world) changed() {
	w.gen++
	w.blocked = 0
	w.cond.Broadcast()
}

func (e *end) Read(p []byte) (int, error) {
	w := e.w
	w.mu.Lock()
	defer w.mu.Unlock()
	w.ops++
	d := e.in
	for {
		if e.closed {
			return 0, net.ErrClosed
		}
		if w.dead {
			return 0, errStall
		}
		if len(p) == 0 {
			return 0, nil
		}
		for d.ci < len(d.ends) && d.ends[d.ci] <= d.rpos {
			d.ci++
		}
		lim := -1
		for i := d.ci; i < len(d.ends); i++ {
			if !d.glue[i] {
				lim = d.ends[i]
				break
			}
		}
		if lim < 0 && d.wclosed && d.rpos < len(d.buf) {
			lim = len(d.buf)
		}
		if lim >= 0 {
			for d.cutIdx < len(d.cuts) && d.cuts[d.cutIdx] <= d.rpos {
				d.cutIdx++
			}
			if d.cutIdx < len(d.cuts) && d.cuts[d.cutIdx] < lim {
				lim = d.cuts[d.cutIdx]
			}
			n := lim - d.rpos
			if n > len(p) {
				n = len(p)
			}
			if d.every > 0 && n > d.every {
				n = d.every
			}
			copy(p, d.buf[d.rpos:d.rpos+n])
			d.rpos += n
			return n, nil
		}
		if d.wclosed {
			return 0, io.EOF
		}
		w.blocked++
		if w.blocked >= w.alive {
			w.dead = true
			w.cond.Broadcast()
			return 0, errStall
		}
		g := w.gen
		w.cond.Wait()
		if w.gen == g && w.blocked > 0 {
			w.blocked--
		}
	}
}

func (e *end) Write(p []byte) (int, error) {
	w := e.w
	w.mu.Lock()
	defer w.mu.Unlock()
	w.ops++
	if e.closed {
		return 0, net.ErrClosed
	}
	if e.out.wclosed {
		return 0, io.ErrClosedPipe
	}
	if len(p) == 0 {
		return 0, nil
	}
	d := e.out
	d.buf = append(d.buf, p...)
	d.ends = append(d.ends, len(d.buf))
	d.glue = append(d.glue, e.glueNow)
	w.changed()
	return len(p), nil
}

func (e *end) setGlue(on bool) {
	e.w.mu.Lock()
	e.glueNow = on
	e.w.mu.Unlock()
}

func (e *end) CloseWrite() error {
	w := e.w
	w.mu.Lock()
	defer w.mu.Unlock()
	w.ops++
	if !e.out.wclosed {
		e.out.wclosed = true
		w.changed()
	}
	return nil
}

func (e *end) Close() error {
	w := e.w
	w.mu.Lock()
	defer w.mu.Unlock()
	w.ops++
	if !e.closed {
		e.closed = true
		e.out.wclosed = true
		w.changed()
	}
	return nil
}

// finish ends a party: its end is closed and it no longer counts as alive.
func (e *end) finish() {
	w := e.w
	w.mu.Lock()
	if !e.closed {
		e.closed = true
		e.out.wclosed = true
	}
	w.alive--
	w.changed()
	w.mu.Unlock()
}

// kill makes every pending and future Read fail (hang watchdog only).
func (w *world) kill() {
	w.mu.Lock()
	w.dead = true
	w.cond.Broadcast()
	w.mu.Unlock()
}

func (e *end) LocalAddr() net.Addr                { return e.local }
func (e *end) RemoteAddr() net.Addr               { return e.remote }
func (e *end) SetDeadline(t time.Time) error      { return nil }
func (e *end) SetReadDeadline(t time.Time) error  { return nil }
func (e *end) SetWriteDeadline(t time.Time) error { return nil }
