package main

// Reference model: case description, wire formats written from RFC 1928 /
// RFC 1929 / RFC 9110 (CONNECT) / RFC 7617 / the Shadowsocks "none" framing
// (SOCKS address followed by the payload), and the expected outcome of a case
// derived from the property statement.  Nothing here calls the code under test.

import (
	"bytes"
	"encoding/base64"
	"encoding/binary"
	"fmt"
	"net/netip"
	"strconv"
	"strings"

	"github.com/database64128/shadowsocks-go/conn"
)

// Target is a destination address as the client names it.
type Target struct {
	Kind   string `json:"kind"` // "ip" | "domain"
	IP     string `json:"ip,omitempty"`
	Domain []byte `json:"domain,omitempty"`
	Port   uint16 `json:"port"`
}

func (t Target) String() string {
	if t.Kind == "ip" {
		return netip.AddrPortFrom(netip.MustParseAddr(t.IP), t.Port).String()
	}
	return fmt.Sprintf("%q(len %d):%d", t.Domain, len(t.Domain), t.Port)
}

func (t Target) class() string {
	if t.Kind == "domain" {
		return "domain"
	}
	ip := netip.MustParseAddr(t.IP)
	switch {
	case ip.Is4():
		return "ipv4"
	case ip.Is4In6():
		return "ipv4-mapped"
	default:
		return "ipv6"
	}
}

func (t Target) connAddr() conn.Addr {
	if t.Kind == "ip" {
		return conn.AddrFromIPAndPort(netip.MustParseAddr(t.IP), t.Port)
	}
	a, err := conn.AddrFromDomainPort(string(t.Domain), t.Port)
	if err != nil {
		panic(err)
	}
	return a
}

// endpoint is the comparison form: same endpoint <=> same domain bytes or same
// IP after unmapping IPv4-mapped IPv6, and same port.
type endpoint struct {
	valid  bool
	domain bool
	host   string
	ip     netip.Addr
	port   uint16
}

func (e endpoint) String() string {
	if !e.valid {
		return "<no address>"
	}
	if e.domain {
		return fmt.Sprintf("domain %q(len %d) port %d", e.host, len(e.host), e.port)
	}
	return fmt.Sprintf("ip %s port %d", e.ip, e.port)
}

func (e endpoint) eq(o endpoint) bool {
	if !e.valid || !o.valid || e.domain != o.domain || e.port != o.port {
		return false
	}
	if e.domain {
		return e.host == o.host
	}
	return e.ip == o.ip
}

func (t Target) endpoint() endpoint {
	if t.Kind == "ip" {
		return endpoint{valid: true, ip: netip.MustParseAddr(t.IP).Unmap(), port: t.Port}
	}
	return endpoint{valid: true, domain: true, host: string(t.Domain), port: t.Port}
}

func endpointOfConnAddr(a conn.Addr) endpoint {
	switch {
	case a.IsIP():
		return endpoint{valid: true, ip: a.IP().Unmap(), port: a.Port()}
	case a.IsDomain():
		return endpoint{valid: true, domain: true, host: strings.Clone(a.Domain()), port: a.Port()}
	}
	return endpoint{}
}

type User struct {
	U []byte `json:"u"`
	P []byte `json:"p"`
}

type Frag struct {
	CutsCS []int `json:"cuts_c2s,omitempty"`
	CutsSC []int `json:"cuts_s2c,omitempty"`
	Every  int   `json:"every,omitempty"`
}

func (f Frag) label() string {
	n := len(f.CutsCS) + len(f.CutsSC)
	switch {
	case f.Every > 0:
		return "frag=max-read-size"
	case n == 0:
		return "frag=none"
	case n == 1:
		return "frag=one-cut"
	default:
		return "frag=two-cuts"
	}
}

// Spec is one case.
type Spec struct {
	Proto      string `json:"proto"`  // socks5 | http | ssnone
	Client     string `json:"client"` // dial (StreamClient.DialStream) | request (socks5.ClientRequest*) | raw (hand-written SOCKS5 client)
	ServerAuth bool   `json:"server_auth"`
	Users      []User `json:"users,omitempty"`
	ClientAuth bool   `json:"client_auth"`
	CU         []byte `json:"cu,omitempty"`
	CP         []byte `json:"cp,omitempty"`
	CredCase   string `json:"cred_case,omitempty"`
	EnableTCP  bool   `json:"enable_tcp"`
	EnableUDP  bool   `json:"enable_udp"`
	Cmd        byte   `json:"cmd"`
	Methods    []byte `json:"methods,omitempty"`
	Pipelined  bool   `json:"pipelined,omitempty"`
	Target     Target `json:"target"`
	Local      string `json:"local"`   // server-side local address of the accepted connection
	Outcome    string `json:"outcome"` // proceed | abort
	Code       uint8  `json:"code"`
	Mode       string `json:"mode"` // A client speaks first | B far side speaks first, glued to the reply | C far side first, separate segment
	Payload    int    `json:"payload"`
	D1         int    `json:"d1"`
	D2         int    `json:"d2"`
	ReadBuf    int    `json:"readbuf"` // 0 = io.Copy
	Frag       Frag   `json:"frag"`
}

func (sp *Spec) key() string {
	var b strings.Builder
	fmt.Fprintf(&b, "%s|%s|%v|%v|%x|%x|%v%v|%d|%x|%v|%s|%x|%s|%d|%s|%s|%d|%s|%d,%d,%d,%d|", sp.Proto, sp.Client, sp.ServerAuth, sp.ClientAuth, sp.CU, sp.CP, sp.EnableTCP, sp.EnableUDP, sp.Cmd, sp.Methods, sp.Pipelined, sp.Target.Kind, sp.Target.Domain, sp.Target.IP, sp.Target.Port, sp.Local, sp.Outcome, sp.Code, sp.Mode, sp.Payload, sp.D1, sp.D2, sp.ReadBuf)
	for _, u := range sp.Users {
		fmt.Fprintf(&b, "%x:%x,", u.U, u.P)
	}
	return b.String()
}

func (sp *Spec) describe() string {
	var b strings.Builder
	fmt.Fprintf(&b, "%s client=%s", sp.Proto, sp.Client)
	if sp.Proto != "ssnone" {
		fmt.Fprintf(&b, " server_auth=%v client_auth=%v", sp.ServerAuth, sp.ClientAuth)
		if sp.ClientAuth {
			fmt.Fprintf(&b, " presented=(%s,%s)", show(sp.CU), show(sp.CP))
		}
		if sp.ServerAuth {
			b.WriteString(" users=[")
			for i, u := range sp.Users {
				if i > 0 {
					b.WriteString(" ")
				}
				fmt.Fprintf(&b, "(%s,%s)", show(u.U), show(u.P))
			}
			b.WriteString("]")
		}
		if sp.CredCase != "" {
			fmt.Fprintf(&b, " cred_case=%s", sp.CredCase)
		}
	}
	if sp.Proto == "socks5" {
		fmt.Fprintf(&b, " cmd=%d tcp=%v udp=%v", sp.Cmd, sp.EnableTCP, sp.EnableUDP)
		if sp.Client == "raw" {
			fmt.Fprintf(&b, " methods=%s pipelined=%v", show(sp.Methods), sp.Pipelined)
		}
	}
	fmt.Fprintf(&b, " target=%s outcome=%s", sp.Target, sp.Outcome)
	if sp.Outcome == "abort" {
		fmt.Fprintf(&b, "(code %d %s)", sp.Code, conn.DialResultCode(sp.Code))
	} else {
		fmt.Fprintf(&b, " mode=%s payload=%d d1=%d d2=%d readbuf=%d", sp.Mode, sp.Payload, sp.D1, sp.D2, sp.ReadBuf)
	}
	if sp.Frag.Every > 0 || len(sp.Frag.CutsCS)+len(sp.Frag.CutsSC) > 0 {
		fmt.Fprintf(&b, " cuts_c2s=%v cuts_s2c=%v max_read=%d", sp.Frag.CutsCS, sp.Frag.CutsSC, sp.Frag.Every)
	}
	return b.String()
}

// show renders a byte string compactly.
func show(b []byte) string {
	if len(b) <= 24 {
		return fmt.Sprintf("%q", b)
	}
	return fmt.Sprintf("%q..%q(len %d)", b[:8], b[len(b)-4:], len(b))
}

// ---------------------------------------------------------------------------
// Expected outcome from the statement.

type expectation struct {
	stage    string // "" honoured | "method" | "auth" | "cmd": where the request must be refused
	username string
	udp      bool // honoured as UDP ASSOCIATE
}

func (sp *Spec) credMatch() bool {
	for _, u := range sp.Users {
		if bytes.Equal(u.U, sp.CU) && bytes.Equal(u.P, sp.CP) {
			return true
		}
	}
	return false
}

func (sp *Spec) wantedMethod() byte {
	if sp.ServerAuth {
		return 2
	}
	return 0
}

func (sp *Spec) expect() expectation {
	var ex expectation
	switch sp.Proto {
	case "socks5":
		offered := sp.ClientAuth == sp.ServerAuth
		if sp.Client == "raw" {
			offered = bytes.IndexByte(sp.Methods, sp.wantedMethod()) >= 0
		}
		switch {
		case !offered:
			ex.stage = "method"
		case sp.ServerAuth && !sp.credMatch():
			ex.stage = "auth"
		case sp.Cmd == 1 && sp.EnableTCP:
		case sp.Cmd == 3 && sp.EnableUDP:
			ex.udp = true
		default:
			ex.stage = "cmd"
		}
		if sp.ServerAuth && ex.stage != "method" && ex.stage != "auth" {
			ex.username = string(sp.CU)
		}
	case "http":
		if sp.ServerAuth {
			if !sp.ClientAuth || !sp.credMatch() {
				ex.stage = "auth"
			} else {
				ex.username = string(sp.CU)
			}
		}
	}
	return ex
}

// dialClass is the RFC 1928 reply class a dial result belongs to, by the
// meaning of the code's name.  "" = no specific class (any failure reply that
// does not claim one of the specific causes).
func dialClass(code uint8) string {
	switch conn.DialResultCode(code) {
	case conn.DialResultCodeSuccess:
		return "success"
	case conn.DialResultCodeEACCES:
		return "ruleset"
	case conn.DialResultCodeENETDOWN, conn.DialResultCodeENETUNREACH, conn.DialResultCodeENETRESET:
		return "network"
	case conn.DialResultCodeEHOSTDOWN, conn.DialResultCodeEHOSTUNREACH:
		return "host"
	case conn.DialResultCodeECONNREFUSED:
		return "refused"
	}
	return "general"
}

// socksReplyOK says whether REP is an acceptable reply for the dial result.
func socksReplyOK(code uint8, rep byte) bool {
	switch dialClass(code) {
	case "success":
		return true // Abort with a success code is outside the statement
	case "ruleset":
		return rep == 2
	case "network":
		return rep == 3
	case "host":
		return rep == 4
	case "refused":
		return rep == 5
	}
	// general: a failure reply that does not blame the ruleset, a refusal, the command or the address type
	return rep == 1 || rep == 3 || rep == 4 || rep == 6
}

func httpStatusOK(code uint8, status int) bool {
	switch dialClass(code) {
	case "success":
		return true
	case "ruleset":
		return status == 403 || (status >= 500 && status <= 599)
	}
	return status >= 500 && status <= 599
}

// ---------------------------------------------------------------------------
// Wire formats.

// parseSocksAddr parses ATYP+ADDR+PORT (RFC 1928 section 5).
func parseSocksAddr(b []byte) (endpoint, int, error) {
	if len(b) < 1 {
		return endpoint{}, 0, fmt.Errorf("address missing")
	}
	switch b[0] {
	case 1:
		if len(b) < 7 {
			return endpoint{}, 0, fmt.Errorf("IPv4 address truncated (%d bytes)", len(b))
		}
		return endpoint{valid: true, ip: netip.AddrFrom4([4]byte(b[1:5])), port: binary.BigEndian.Uint16(b[5:7])}, 7, nil
	case 4:
		if len(b) < 19 {
			return endpoint{}, 0, fmt.Errorf("IPv6 address truncated (%d bytes)", len(b))
		}
		return endpoint{valid: true, ip: netip.AddrFrom16([16]byte(b[1:17])).Unmap(), port: binary.BigEndian.Uint16(b[17:19])}, 19, nil
	case 3:
		if len(b) < 2 || len(b) < 2+int(b[1])+2 {
			return endpoint{}, 0, fmt.Errorf("domain address truncated (%d bytes)", len(b))
		}
		n := int(b[1])
		return endpoint{valid: true, domain: true, host: string(b[2 : 2+n]), port: binary.BigEndian.Uint16(b[2+n : 4+n])}, 4 + n, nil
	}
	return endpoint{}, 0, fmt.Errorf("ATYP %#x", b[0])
}

func encodeSocksAddr(t Target) []byte {
	var b []byte
	if t.Kind == "domain" {
		b = append(b, 3, byte(len(t.Domain)))
		b = append(b, t.Domain...)
	} else {
		ip := netip.MustParseAddr(t.IP)
		if ip.Is4() {
			a := ip.As4()
			b = append(b, 1)
			b = append(b, a[:]...)
		} else {
			a := ip.As16()
			b = append(b, 4)
			b = append(b, a[:]...)
		}
	}
	return binary.BigEndian.AppendUint16(b, t.Port)
}

// httpHead is a parsed HTTP/1.1 message head.
type httpHead struct {
	first   string
	headers [][2]string
	length  int // bytes including the blank line
}

func parseHTTPHead(b []byte) (httpHead, error) {
	i := bytes.Index(b, []byte("\r\n\r\n"))
	if i < 0 {
		return httpHead{}, fmt.Errorf("no end of message head in %d bytes", len(b))
	}
	lines := strings.Split(string(b[:i]), "\r\n")
	h := httpHead{first: lines[0], length: i + 4}
	for _, l := range lines[1:] {
		k, v, ok := strings.Cut(l, ":")
		if !ok {
			return h, fmt.Errorf("malformed header line %q", l)
		}
		h.headers = append(h.headers, [2]string{strings.ToLower(k), strings.TrimSpace(v)})
	}
	return h, nil
}

func (h httpHead) get(k string) (vals []string) {
	for _, kv := range h.headers {
		if kv[0] == k {
			vals = append(vals, kv[1])
		}
	}
	return
}

// parseAuthority parses host:port / [v6]:port (RFC 3986 authority without userinfo).
func parseAuthority(s string) (endpoint, error) {
	i := strings.LastIndexByte(s, ':')
	if i < 0 {
		return endpoint{}, fmt.Errorf("no port in %q", s)
	}
	p, err := strconv.ParseUint(s[i+1:], 10, 16)
	if err != nil {
		return endpoint{}, fmt.Errorf("bad port in %q", s)
	}
	host := s[:i]
	if strings.HasPrefix(host, "[") && strings.HasSuffix(host, "]") {
		ip, err := netip.ParseAddr(host[1 : len(host)-1])
		if err != nil {
			return endpoint{}, fmt.Errorf("bad IP literal in %q", s)
		}
		return endpoint{valid: true, ip: ip.Unmap(), port: uint16(p)}, nil
	}
	if ip, err := netip.ParseAddr(host); err == nil && ip.Is4() {
		return endpoint{valid: true, ip: ip, port: uint16(p)}, nil
	}
	if host == "" || strings.ContainsAny(host, ":[]") {
		return endpoint{}, fmt.Errorf("bad host in %q", s)
	}
	return endpoint{valid: true, domain: true, host: host, port: uint16(p)}, nil
}

func basicToken(u, p []byte) string {
	return base64.StdEncoding.EncodeToString(append(append(append([]byte{}, u...), ':'), p...))
}

// ---------------------------------------------------------------------------
// Deterministic content.

func data(n int, seed byte) []byte {
	b := make([]byte, n)
	for i := range b {
		b[i] = seed + byte(i*7) + byte(i>>8)*13
	}
	return b
}

// domainPattern returns a domain of length n.  Patterns "host*" use only
// letters, digits, '-' and '.' (valid in an HTTP authority); the others use
// arbitrary bytes (SOCKS5 and Shadowsocks-none carry them verbatim).
func domainPattern(kind string, n int) []byte {
	b := make([]byte, n)
	switch kind {
	case "host":
		for i := range b {
			b[i] = "abcdefghij"[(i+n)%10]
			if i%11 == 10 && i != n-1 {
				b[i] = '.'
			}
		}
	case "hostmixed":
		for i := range b {
			b[i] = "Xy7-Qz"[(i+n)%6]
			if i%9 == 8 && i != n-1 {
				b[i] = '.'
			}
		}
		b[0] = 'M'
		if n > 1 {
			b[n-1] = 'w'
		}
	case "allbytes":
		for i := range b {
			b[i] = byte(i*37 + n)
		}
	case "ff":
		for i := range b {
			b[i] = 0xff
		}
	case "colonnul":
		for i := range b {
			switch i % 3 {
			case 0:
				b[i] = ':'
			case 1:
				b[i] = 0
			default:
				b[i] = 'k'
			}
		}
	default:
		panic("unknown domain pattern " + kind)
	}
	return b
}

// credPattern returns a (username, password) pair with the given lengths.
func credPattern(kind string, ul, pl int, noColonInUser bool) (u, p []byte) {
	u = make([]byte, ul)
	p = make([]byte, pl)
	switch kind {
	case "ascii":
		for i := range u {
			u[i] = "user-name"[(i+ul)%9]
		}
		for i := range p {
			p[i] = "Pa55w:rd"[(i+pl)%8]
		}
	case "allbytes":
		for i := range u {
			u[i] = byte(i*7 + 1 + ul)
		}
		for i := range p {
			p[i] = byte(255 - i*3 - pl)
		}
	case "shared-prefix": // password starts with the username (or the other way round)
		for i := range u {
			u[i] = byte('a' + (i*5+ul)%26)
		}
		for i := range p {
			if i < ul {
				p[i] = u[i]
			} else {
				p[i] = byte('A' + (i*3+pl)%26)
			}
		}
	default:
		panic("unknown cred pattern " + kind)
	}
	if noColonInUser {
		for i := range u {
			if u[i] == ':' {
				u[i] = ';'
			}
		}
	}
	return
}

func mut(b []byte, pos int) []byte {
	c := bytes.Clone(b)
	c[pos] ^= 0x01
	return c
}
