// C07: SOCKS5, HTTP CONNECT and Shadowsocks-none handshakes carry requests
// faithfully.
//
// Bounded-exhaustive enumeration.  Every case runs the repository's real client
// and server (socks5, httpproxy, ssnone) in two threads over a deterministic
// in-memory connection with scripted fragmentation (conn.go) and is compared
// with a reference written from the property statement and the RFC wire
// formats (model.go, oracle.go).  Files: main.go (alphabet, enumeration,
// evidence, replay), run.go (execution), conn.go, model.go, oracle.go.
package main

import (
	"bytes"
	"encoding/json"
	"fmt"
	"hash/fnv"
	"os"
	"runtime/debug"
	"runtime/pprof"
	"sort"
	"strings"
	"sync"
	"sync/atomic"
	"time"

	"verif/harness"
)

// ---------------------------------------------------------------------------
// engine

type partStats struct {
	name, alphabet, bounds string
	bases, dupBases        atomic.Int64
	cases                  atomic.Int64
	fragNone, fragEvery    atomic.Int64
	fragOne, fragTwo       atomic.Int64
	honoured, refused      atomic.Int64
	aborted, udp           atomic.Int64
	ops                    atomic.Int64
	failing                atomic.Int64
	skipped                bool
}

type base struct {
	sp     Spec
	plan   int // 0 baseline | 1 + maximal read sizes 1,2,3,7 | 2 + every single cut | 3 + every pair of cuts
	span   int // how many post-handshake bytes the cuts reach into
	part   *partStats
	idx    int64
	phase  int
	shard  int
	shards int
	sample bool
}

type vrec struct {
	ord  [3]int64
	what string
	sp   Spec
}

type engine struct {
	c        *harness.Check
	ch       chan base
	wg       sync.WaitGroup
	inflight sync.WaitGroup
	mu       sync.Mutex
	viols    map[string]*vrec
	samples  map[int64]any
	seen     map[uint64]struct{}
	parts    []*partStats
	allParts []*partStats
	phase    int // 0 writer's chunks + read sizes | 1 single cuts | 2 pairs of cuts
	failed   map[int64]bool
	nextIdx  int64
	deadline time.Time
	capped   atomic.Bool
	hangs    atomic.Int64
	distinct atomic.Int64
	dupCases atomic.Int64
}

func newEngine(c *harness.Check) *engine {
	e := &engine{c: c, ch: make(chan base, 256), viols: map[string]*vrec{}, samples: map[int64]any{}, seen: map[uint64]struct{}{}, failed: map[int64]bool{}}
	budget := harness.Pick(c, 10*time.Minute, 150*time.Minute)
	if d, err := time.ParseDuration(os.Getenv("C07_BUDGET")); err == nil && d > 0 {
		budget = d // e.g. on a machine that is busy with other work
	}
	e.deadline = time.Now().Add(budget)
	c.Extra["time_budget"] = budget.String()
	n := harness.Workers()
	for i := 0; i < n; i++ {
		e.wg.Add(1)
		go func() {
			defer e.wg.Done()
			rn := newRunner()
			for b := range e.ch {
				e.runBase(&b, rn)
				e.inflight.Done()
			}
		}()
	}
	return e
}

func (e *engine) part(name, alphabet, bounds string) *partStats {
	for _, q := range e.allParts {
		if q.name == name {
			return q
		}
	}
	p := &partStats{name: name, alphabet: alphabet, bounds: bounds}
	e.allParts = append(e.allParts, p)
	// development aid: C07_PARTS=name,name restricts the run to some parts (the evidence then says so)
	if only := os.Getenv("C07_PARTS"); only != "" && !strings.Contains(","+only+",", ","+name+",") {
		p.skipped = true
		return p
	}
	e.parts = append(e.parts, p)
	return p
}

// emit queues a base case with its fragmentation plan.
func (e *engine) emit(p *partStats, sp Spec, plan, span int) {
	if p.skipped || e.capped.Load() {
		return
	}
	h := fnv.New64a()
	h.Write([]byte(sp.key()))
	k := h.Sum64()
	if _, dup := e.seen[k]; dup {
		if e.phase == 0 {
			p.dupBases.Add(1)
		}
		return
	}
	e.seen[k] = struct{}{}
	idx := e.nextIdx // position in the enumeration order, identical in every pass
	e.nextIdx++
	if plan < []int{0, 2, 3}[e.phase] {
		return
	}
	if time.Now().After(e.deadline) {
		if !e.capped.Swap(true) {
			e.c.Cap(fmt.Sprintf("time budget reached in pass %d (%s) at part %s; the rest of this pass and later passes were not run", e.phase, phaseName[e.phase], p.name))
		}
		return
	}
	sample := false
	if e.phase == 0 {
		sample = p.bases.Add(1) == 1
	}
	shards := 1
	if e.phase == 2 {
		shards = 8
	}
	for s := 0; s < shards; s++ {
		e.inflight.Add(1)
		e.ch <- base{sp: sp, plan: plan, span: span, part: p, idx: idx, phase: e.phase, shard: s, shards: shards, sample: sample}
	}
}

var phaseName = []string{"writer's chunks and maximal read sizes", "single cuts", "pairs of cuts"}

// pass runs the enumeration once for one fragmentation depth.  Breadth first:
// every base case is run unfragmented before any cut is tried, all single cuts
// before any pair.
func (e *engine) pass(phase int) {
	e.phase = phase
	e.seen = map[uint64]struct{}{}
	e.nextIdx = 0
	e.enumerate()
	e.inflight.Wait()
}

func (e *engine) report(sp *Spec, fs fails, ord [3]int64) {
	e.mu.Lock()
	defer e.mu.Unlock()
	for _, f := range fs {
		sig := sp.Proto + "/" + f.check + "/" + f.shape + "/" + sp.Frag.label()
		what := f.msg + " | case: " + sp.describe()
		v := e.viols[sig]
		if v == nil || less(ord, v.ord) {
			cp := *sp
			cp.Frag.CutsCS = append([]int(nil), sp.Frag.CutsCS...)
			cp.Frag.CutsSC = append([]int(nil), sp.Frag.CutsSC...)
			e.viols[sig] = &vrec{ord: ord, what: what, sp: cp}
		}
	}
}

func less(a, b [3]int64) bool {
	for i := range a {
		if a[i] != b[i] {
			return a[i] < b[i]
		}
	}
	return false
}

type cutPos struct {
	sc  bool
	pos int
}

// cutPositions lists every offset of the two byte streams of the baseline run
// where a cut changes the segmentation: all interior offsets of the handshake
// bytes and of the first span bytes of post-handshake data.
func cutPositions(sp *Spec, r *Result, span int) []cutPos {
	ex := sp.expect()
	dataCS, dataSC := 0, 0
	if sp.Proto == "ssnone" {
		dataCS = sp.Payload + sp.D1
	}
	if ex.stage == "" && !ex.udp && sp.Outcome == "proceed" && sp.Client != "request" {
		dataCS = sp.Payload + sp.D1
		if sp.Client == "raw" {
			dataCS = sp.D1
		}
		dataSC = sp.D2
	}
	var out []cutPos
	add := func(sc bool, buf []byte, ends []int, glue []bool, dataLen int) {
		h := len(buf) - dataLen
		if h < 0 {
			h = 0
		}
		upper := min(len(buf)-1, h+span)
		isEnd := map[int]bool{}
		for i, x := range ends {
			if glue == nil || !glue[i] {
				isEnd[x] = true
			}
		}
		for p := 1; p <= upper; p++ {
			if !isEnd[p] {
				out = append(out, cutPos{sc, p})
			}
		}
	}
	add(false, r.CS, r.CSEnds, nil, dataCS)
	add(true, r.SC, r.SCEnds, r.SCGlue, dataSC)
	return out
}

func fragOf(cs ...cutPos) Frag {
	var f Frag
	for _, c := range cs {
		if c.sc {
			f.CutsSC = append(f.CutsSC, c.pos)
		} else {
			f.CutsCS = append(f.CutsCS, c.pos)
		}
	}
	return f
}

func (e *engine) runBase(b *base, rn *runner) {
	if e.capped.Load() {
		return
	}
	sp := b.sp
	p := b.part
	rn.prepare(&sp)
	bkey := ""
	var n, ops, fNone, fEvery, fOne, fTwo, failing int64
	exec := func(fr Frag, fi, fj int64, count bool) (*Result, bool) {
		sp.Frag = fr
		r := rn.runCase(&sp)
		if r.Hang {
			if e.hangs.Add(1) == 1 {
				e.c.Cap("a case did not terminate within 60 s of wall time (not a verdict): " + sp.describe())
			}
			return r, false
		}
		fs := oracle(&sp, r)
		if count {
			n++
			ops += r.Ops
			switch {
			case fr.Every > 0:
				fEvery++
			case len(fr.CutsCS)+len(fr.CutsSC) == 0:
				fNone++
			case len(fr.CutsCS)+len(fr.CutsSC) == 1:
				fOne++
			default:
				fTwo++
			}
			if bkey == "" {
				bkey = sp.key()
			}
			e.c.Distinct(bkey+fmt.Sprint(fr.CutsCS, fr.CutsSC, fr.Every), true)
		}
		if len(fs) > 0 {
			failing++
			e.report(&sp, fs, [3]int64{b.idx, fi, fj})
		}
		return r, len(fs) == 0
	}
	flush := func() {
		p.cases.Add(n)
		p.ops.Add(ops)
		p.fragNone.Add(fNone)
		p.fragEvery.Add(fEvery)
		p.fragOne.Add(fOne)
		p.fragTwo.Add(fTwo)
		p.failing.Add(failing)
		e.distinct.Add(n)
		e.c.Count(n, n, ops)
	}
	defer flush()

	first := b.phase == 0
	if !first {
		e.mu.Lock()
		skip := e.failed[b.idx]
		e.mu.Unlock()
		if skip {
			return
		}
	}
	markFailed := func() {
		e.mu.Lock()
		e.failed[b.idx] = true
		e.mu.Unlock()
	}
	r0, ok := exec(Frag{}, -1, -1, first)
	if first {
		ex := sp.expect()
		switch {
		case ex.udp:
			p.udp.Add(1)
		case ex.stage != "":
			p.refused.Add(1)
		case sp.Outcome == "abort":
			p.aborted.Add(1)
		default:
			p.honoured.Add(1)
		}
		if b.sample {
			e.mu.Lock()
			e.samples[b.idx] = map[string]any{
				"part": p.name, "case": sp.describe(), "fragmentation_plan": b.plan,
				"wire_client_to_server": show(r0.CS), "wire_server_to_client": show(r0.SC),
				"server_extracted": fmt.Sprintf("addr=%s user=%s err=%s", r0.SrvAddr, show([]byte(r0.SrvUser)), errStr(r0.SrvErr)),
				"client_result":    fmt.Sprintf("err=%s", errStr(r0.CliErr)),
				"server_read":      len(r0.GotS), "client_read": len(r0.GotC),
				"oracle_failures": !ok,
			}
			e.mu.Unlock()
		}
	}
	if !ok {
		markFailed()
		return
	}
	if r0.Hang {
		return
	}
	switch b.phase {
	case 0:
		if b.plan >= 1 {
			for i, ev := range []int{1, 2, 3, 7} {
				if _, ok := exec(Frag{Every: ev}, -2, int64(i), true); !ok {
					markFailed()
					return
				}
			}
		}
	case 1:
		cuts := cutPositions(&b.sp, r0, b.span)
		bad := 0
		for i, c := range cuts {
			if _, ok := exec(fragOf(c), int64(i), -1, true); !ok {
				markFailed()
				if bad++; bad >= 8 {
					return
				}
			}
		}
	case 2:
		cuts := cutPositions(&b.sp, r0, b.span)
		bad := 0
		for i := range cuts {
			if i%b.shards != b.shard {
				continue
			}
			if e.capped.Load() {
				return
			}
			for j := i + 1; j < len(cuts); j++ {
				if _, ok := exec(fragOf(cuts[i], cuts[j]), int64(i), int64(j), true); !ok {
					if bad++; bad >= 8 {
						return
					}
				}
			}
			if i%16 == 0 && time.Now().After(e.deadline) {
				if !e.capped.Swap(true) {
					e.c.Cap("time budget reached in pass 2 (pairs of cuts) at part " + p.name)
				}
				return
			}
		}
	}
}

func (e *engine) finish() {
	close(e.ch)
	e.wg.Wait()
	c := e.c
	var total int64
	for _, p := range e.parts {
		total += p.cases.Load()
		c.Part(p.name, map[string]any{
			"alphabet": p.alphabet, "bounds": p.bounds,
			"base_cases": p.bases.Load(), "duplicate_bases_skipped": p.dupBases.Load(),
			"cases_executed": p.cases.Load(),
			"cases_by_fragmentation": map[string]int64{
				"writer_chunks": p.fragNone.Load(), "max_read_size_1_2_3_7": p.fragEvery.Load(),
				"one_cut": p.fragOne.Load(), "two_cuts": p.fragTwo.Load(),
			},
			"bases_expected_honoured": p.honoured.Load(), "bases_expected_refused": p.refused.Load(),
			"bases_aborted_with_dial_result": p.aborted.Load(), "bases_udp_associate": p.udp.Load(),
			"connection_operations": p.ops.Load(), "cases_failing_the_oracle": p.failing.Load(),
		})
	}
	var idxs []int64
	for k := range e.samples {
		idxs = append(idxs, k)
	}
	sort.Slice(idxs, func(i, j int) bool { return idxs[i] < idxs[j] })
	for _, k := range idxs {
		c.Sample(e.samples[k])
	}
	c.Extra["distinct_cases_exact"] = e.distinct.Load()
	c.Extra["distinct_note"] = "every executed case is distinct by construction: base cases are deduplicated by a hash of their canonical description, and the fragmentations of one base are pairwise different (cut offsets that coincide with a writer chunk boundary are skipped). The harness' distinct_nontrivial hash set is capped at 2,000,000 entries; distinct_cases_exact is the uncapped count. All cases are non-trivial: each is a complete client/server handshake over the real code."
	c.Extra["workers"] = harness.Workers()
	c.Extra["hung_cases"] = e.hangs.Load()

	// violations: confirm (5 identical re-executions), then report in canonical order
	var sigs []string
	for s := range e.viols {
		sigs = append(sigs, s)
	}
	sort.Strings(sigs)
	for _, s := range sigs {
		v := e.viols[s]
		for i := 0; i < 5; i++ {
			sp := v.sp
			r := runOnce(&sp)
			if !hasSig(&sp, oracle(&sp, r), s) {
				harness.Fatal("violation %q did not reproduce on re-execution %d (nondeterminism in the harness): %s", s, i, v.what)
			}
		}
		c.Violation(s, v.what, map[string]any{"spec": v.sp})
	}
	pprof.StopCPUProfile()
	if pf := os.Getenv("C07_MEMPROF"); pf != "" { // development aid
		if f, err := os.Create(pf); err == nil {
			pprof.Lookup("heap").WriteTo(f, 0)
			f.Close()
		}
	}
	c.Finish()
}

func hasSig(sp *Spec, fs fails, sig string) bool {
	for _, f := range fs {
		if sp.Proto+"/"+f.check+"/"+f.shape+"/"+sp.Frag.label() == sig {
			return true
		}
	}
	return false
}

// ---------------------------------------------------------------------------
// alphabet

var (
	boundaryLens = []int{1, 2, 127, 128, 254, 255}
	portSet      = []uint16{0, 1, 80, 255, 256, 65535}
	ipSet        = []string{
		"0.0.0.0", "127.0.0.1", "1.2.3.4", "255.255.255.255", "192.0.2.255",
		"::", "::1", "2001:db8::1", "102:304:506:708:90a:b0c:d0e:f10", "ffff:ffff:ffff:ffff:ffff:ffff:ffff:ffff", "fe80::1", "64:ff9b::102:304",
		"::ffff:1.2.3.4",
	}
	namedCodes = []uint8{0, 13, 100, 101, 102, 103, 104, 110, 111, 112, 113, 254, 255}
)

func isBoundary(n int) bool {
	for _, b := range boundaryLens {
		if b == n {
			return true
		}
	}
	return false
}

func protoDomainPatterns(proto string) []string {
	if proto == "http" {
		return []string{"host", "hostmixed"}
	}
	return []string{"host", "hostmixed", "allbytes", "ff", "colonnul"}
}

func newSpec(proto string) Spec {
	return Spec{Proto: proto, Client: "dial", EnableTCP: true, Cmd: 1, Outcome: "proceed", Mode: "A", Payload: 3, D1: 2, D2: 3, ReadBuf: 4096, Local: "192.0.2.1:1080",
		Target: Target{Kind: "ip", IP: "1.2.3.4", Port: 443}}
}

var (
	defU, defP   = []byte("alice"), []byte("s3cret:pw")
	defU2, defP2 = []byte("second-user"), []byte("pw2-ZZ")
)

// authModes returns the spec in the authentication modes of its protocol:
// authentication disabled, and enabled with the right credentials.
func authModes(sp Spec) []Spec {
	if sp.Proto == "ssnone" {
		return []Spec{sp}
	}
	a := sp
	a.ServerAuth, a.ClientAuth = true, true
	a.Users = []User{{defU, defP}, {defU2, defP2}}
	a.CU, a.CP, a.CredCase = defU, defP, "right"
	return []Spec{sp, a}
}

func domainTarget(pattern string, n int, port uint16) Target {
	return Target{Kind: "domain", Domain: domainPattern(pattern, n), Port: port}
}

type credCase struct {
	name string
	u, p []byte
}

func mutUser(b []byte, pos int, noColon bool) []byte {
	c := mut(b, pos)
	if noColon && c[pos] == ':' {
		c[pos] = '<'
	}
	return c
}

// credentialCases lists what a client may present against users (U,P) and (U2,P2).
func credentialCases(U, P, U2, P2 []byte, noColon bool) []credCase {
	cs := []credCase{
		{"right", U, P},
		{"wrong-password-last-byte", U, mut(P, len(P)-1)},
		{"wrong-password-first-byte", U, mut(P, 0)},
		{"unknown-user-last-byte", mutUser(U, len(U)-1, noColon), P},
		{"unknown-user-first-byte", mutUser(U, 0, noColon), P},
		{"password-of-another-user", U, P2},
		{"second-user-right", U2, P2},
		{"second-user-with-first-users-password", U2, P},
		{"password-equals-username", U, U},
	}
	if len(P) > 1 {
		cs = append(cs, credCase{"password-prefix", U, P[:len(P)-1]})
	}
	if len(P) < 255 {
		cs = append(cs, credCase{"password-extension", U, append(bytes.Clone(P), 'x')})
	}
	if len(U) > 1 {
		cs = append(cs, credCase{"username-prefix", U[:len(U)-1], P})
	}
	if len(U) < 255 {
		cs = append(cs, credCase{"username-extension", append(bytes.Clone(U), 'z'), P})
	}
	if !noColon || bytes.IndexByte(P, ':') < 0 {
		cs = append(cs, credCase{"swapped", P, U})
	}
	return cs
}

// usersFor builds the configured user list around (U,P): a second user, a user
// whose name extends U and one whose name is a proper prefix of U.
func usersFor(U, P []byte) []User {
	us := []User{{U, P}}
	addU := func(u, p []byte) {
		for _, x := range us {
			if bytes.Equal(x.U, u) {
				return
			}
		}
		us = append(us, User{u, p})
	}
	addU(defU2, defP2)
	if len(U) < 255 {
		addU(append(bytes.Clone(U), 'z'), []byte("pw-of-extended-name"))
	}
	if len(U) > 1 {
		addU(U[:len(U)-1], []byte("pw-of-prefix-name"))
	}
	return us
}

func (e *engine) enumerate() {
	c := e.c
	th := c.Thorough()
	protos := []string{"socks5", "http", "ssnone"}

	// ---- 1. domain targets of every length
	{
		p := e.part("domain-targets",
			"protocols {socks5,http,ssnone} x auth {disabled, enabled with right credentials} x domain length 1..255 x content patterns (socks5/ssnone: hostname, mixed-case hostname, all byte values cycle, 0xff.., ':' NUL 'k' cycle; http: the two hostname patterns) x port (rotating over {0,1,80,255,256,65535}; all six at boundary lengths) x outcome (proceed/client-first; at boundary lengths also far-side-first glued to the reply, and abort ECONNREFUSED)",
			harness.Pick(c, "every single cut of handshake bytes (+6 data bytes) and maximal read sizes 1,2,3,7 at every length; every pair of cuts at lengths {1,2,255}", "every single cut and every pair of cuts at every length"))
		for _, proto := range protos {
			for _, sp0 := range authModes(newSpec(proto)) {
				for pi, pat := range protoDomainPatterns(proto) {
					for n := 1; n <= 255; n++ {
						mk := func(port uint16, v string, plan int) {
							sp := sp0
							sp.Target = domainTarget(pat, n, port)
							if v == "abort" {
								sp.Outcome, sp.Code = "abort", 111
							} else {
								sp.Mode = v
							}
							e.emit(p, sp, plan, 6)
						}
						if !isBoundary(n) {
							mk(portSet[(n+pi)%len(portSet)], "A", harness.Pick(c, 2, 3))
							continue
						}
						for _, port := range portSet {
							plan := 2
							if port == 65535 && (th || n <= 2 || n == 255) {
								plan = 3
							}
							mk(port, "A", plan)
						}
						for _, port := range []uint16{80, 65535} {
							mk(port, "B", harness.Pick(c, 2, 3))
							mk(port, "abort", harness.Pick(c, 2, 3))
						}
					}
				}
			}
		}
	}

	// ---- 2. IP targets
	{
		p := e.part("ip-targets",
			fmt.Sprintf("protocols x auth modes x addresses %v x ports %v x outcome {proceed client-first, proceed far-side-first glued, abort ECONNREFUSED}", ipSet, portSet),
			harness.Pick(c, "every single cut, read sizes 1,2,3,7; pairs of cuts for port 65535", "every single cut and every pair of cuts"))
		for _, proto := range protos {
			for _, sp0 := range authModes(newSpec(proto)) {
				for _, ip := range ipSet {
					for _, port := range portSet {
						for _, v := range []string{"A", "B", "abort"} {
							sp := sp0
							sp.Target = Target{Kind: "ip", IP: ip, Port: port}
							if v == "abort" {
								sp.Outcome, sp.Code = "abort", 111
							} else {
								sp.Mode = v
							}
							plan := 2
							if th || port == 65535 {
								plan = 3
							}
							e.emit(p, sp, plan, 6)
						}
					}
				}
			}
		}
	}

	// ---- 3. every port
	{
		targets := []Target{{Kind: "ip", IP: "1.2.3.4"}}
		if th {
			targets = append(targets, Target{Kind: "ip", IP: "2001:db8::1"}, Target{Kind: "domain", Domain: []byte("example.com")})
		}
		p := e.part("all-ports", fmt.Sprintf("protocols x ports 0..65535 x %d target(s) (IPv4 1.2.3.4%s), authentication disabled", len(targets), harness.Pick(c, "", ", IPv6 2001:db8::1, domain example.com")),
			harness.Pick(c, "writer's chunks only", "writer's chunks and read sizes 1,2,3,7"))
		for _, proto := range protos {
			for _, t := range targets {
				for port := 0; port <= 65535; port++ {
					sp := newSpec(proto)
					sp.Target = t
					sp.Target.Port = uint16(port)
					sp.Payload, sp.D1, sp.D2 = 1, 0, 1
					e.emit(p, sp, harness.Pick(c, 0, 1), 0)
				}
			}
		}
	}

	// ---- 4. credentials: lengths x content x what is presented
	{
		p := e.part("credentials",
			"protocols {socks5,http} x username length x password length x content {ascii, all byte values, password starts with the username} x presented credentials {right, wrong password (first/last byte), unknown user (first/last byte), another user's password, second user right, second user with first user's password, password = username, password prefix/extension, username prefix/extension, swapped}; configured users: (U,P), a second user, a user named U+'z', a user named U minus its last byte",
			harness.Pick(c, "length pairs: (1..255 x {1,2,127,128,254,255}) and ({1,2,127,128,254,255} x 1..255), all presented-credential cases unfragmented; every single cut and read sizes 1,2,3,7 on boundary x boundary (all cases) and, for socks5/ascii/right+wrong password, on all these pairs", "all 255 x 255 length pairs, all cases unfragmented; every single cut for right / wrong password / unknown user (ascii) on all pairs for socks5 and on the boundary cross for http; every pair of cuts for those three cases on boundary x boundary"))
		for _, proto := range []string{"socks5", "http"} {
			for _, pat := range []string{"ascii", "allbytes", "shared-prefix"} {
				for ul := 1; ul <= 255; ul++ {
					for pl := 1; pl <= 255; pl++ {
						bu, bp := isBoundary(ul), isBoundary(pl)
						if !th && !bu && !bp {
							continue
						}
						U, P := credPattern(pat, ul, pl, proto == "http")
						users := usersFor(U, P)
						for _, cc := range credentialCases(U, P, defU2, defP2, proto == "http") {
							sp := newSpec(proto)
							sp.ServerAuth, sp.ClientAuth = true, true
							sp.Users = users
							sp.CU, sp.CP, sp.CredCase = cc.u, cc.p, cc.name
							sp.Target = Target{Kind: "domain", Domain: []byte("example.org"), Port: 8443}
							three := cc.name == "right" || cc.name == "wrong-password-last-byte" || cc.name == "unknown-user-last-byte"
							plan := 0
							switch {
							case bu && bp:
								plan = 2
								if th && three {
									plan = 3
								}
							case th && pat == "ascii" && three && (proto == "socks5" || bu || bp):
								plan = 2
							case !th && pat == "ascii" && proto == "socks5" && three && cc.name != "unknown-user-last-byte":
								plan = 2
							}
							e.emit(p, sp, plan, 2)
						}
					}
				}
			}
		}
	}

	// ---- 4b. authentication enabled, nobody configured
	{
		p := e.part("auth-enabled-no-users",
			"protocols {socks5,http} x authentication enabled with an empty user list x client {no credentials, credentials of lengths {1,255}} x target kind {IPv4, IPv6, domain}: every request must be refused",
			"every single cut and read sizes 1,2,3,7")
		targets := []Target{{Kind: "ip", IP: "1.2.3.4", Port: 80}, {Kind: "ip", IP: "2001:db8::1", Port: 443}, {Kind: "domain", Domain: []byte("example.com"), Port: 8080}}
		for _, proto := range []string{"socks5", "http"} {
			for _, t := range targets {
				for _, n := range []int{0, 1, 255} {
					sp := newSpec(proto)
					sp.ServerAuth = true
					sp.Target = t
					sp.CredCase = "no-users-configured"
					if n > 0 {
						sp.ClientAuth = true
						sp.CU, sp.CP = credPattern("ascii", n, n, proto == "http")
					}
					e.emit(p, sp, 2, 2)
				}
			}
		}
	}

	// ---- 5. every byte value in usernames, passwords and domains
	{
		p := e.part("byte-values",
			"(a) protocols {socks5,http} x field {username,password} x length {1,2,255} x position {first,last} x byte value 0..255 (':' excluded in HTTP usernames): configured with that byte, presented identical (must be honoured) and with the byte changed (must be refused); (b) protocols {socks5,ssnone} x domain length {1,2,255} x position {first,last} x byte value 0..255",
			harness.Pick(c, "writer's chunks", "writer's chunks and read sizes 1,2,3,7"))
		plan := harness.Pick(c, 0, 1)
		for _, proto := range []string{"socks5", "http"} {
			for _, field := range []string{"username", "password"} {
				for _, n := range []int{1, 2, 255} {
					for _, pos := range []int{0, n - 1} {
						if n == 1 && pos != 0 {
							continue
						}
						for v := 0; v < 256; v++ {
							if proto == "http" && field == "username" && v == ':' {
								continue
							}
							U, P := credPattern("ascii", n, n, proto == "http")
							other := byte(v + 1)
							if proto == "http" && field == "username" && other == ':' {
								other++
							}
							var wu, wp []byte
							if field == "username" {
								U[pos] = byte(v)
								wu, wp = bytes.Clone(U), P
								wu[pos] = other
							} else {
								P[pos] = byte(v)
								wu, wp = U, bytes.Clone(P)
								wp[pos] = other
							}
							for _, cc := range []credCase{{"byte-right", U, P}, {"byte-changed-in-" + field, wu, wp}} {
								sp := newSpec(proto)
								sp.ServerAuth, sp.ClientAuth = true, true
								sp.Users = []User{{U, P}, {defU2, defP2}}
								sp.CU, sp.CP, sp.CredCase = cc.u, cc.p, cc.name
								e.emit(p, sp, plan, 0)
							}
						}
					}
				}
			}
		}
		for _, proto := range []string{"socks5", "ssnone"} {
			for _, n := range []int{1, 2, 255} {
				for _, pos := range []int{0, n - 1} {
					if n == 1 && pos != 0 {
						continue
					}
					for v := 0; v < 256; v++ {
						sp := newSpec(proto)
						d := domainPattern("host", n)
						d[pos] = byte(v)
						sp.Target = Target{Kind: "domain", Domain: d, Port: 0x1234}
						e.emit(p, sp, plan, 0)
					}
				}
			}
		}
	}

	// ---- 6. SOCKS5 method lists (hand-written client)
	{
		p := e.part("socks5-method-lists",
			"server auth {disabled (wants method 0), enabled (wants method 2)} x NMETHODS 1..255 x position of the wanted method {absent, first, last, middle, every entry} x other entries cycling through all 255 other byte values (so the other mode's method and 0xFF occur) x client {waits for each reply, sends all messages at once}; hand-written RFC 1928/1929 client, right credentials",
			harness.Pick(c, "every single cut and read sizes 1,2,3,7 at every list length", "every single cut at every length; every pair of cuts at NMETHODS {1,2,3,127,128,254,255}"))
		for _, auth := range []bool{false, true} {
			for n := 1; n <= 255; n++ {
				for _, place := range []string{"absent", "first", "last", "middle", "every"} {
					if n == 1 && (place == "last" || place == "middle") {
						continue
					}
					for _, pipe := range []bool{false, true} {
						sp := newSpec("socks5")
						sp.Client = "raw"
						sp.Payload = 0
						if auth {
							sp.ServerAuth = true
							sp.Users = []User{{defU, defP}, {defU2, defP2}}
							sp.CU, sp.CP, sp.CredCase = defU, defP, "right"
						}
						want := sp.wantedMethod()
						m := make([]byte, n)
						for i := range m {
							x := byte((i*53 + n) % 255) // 0..254
							if x >= want {
								x++
							}
							m[i] = x
						}
						switch place {
						case "first":
							m[0] = want
						case "last":
							m[n-1] = want
						case "middle":
							m[n/2] = want
						case "every":
							for i := range m {
								m[i] = want
							}
						}
						sp.Methods = m
						sp.Pipelined = pipe
						sp.CredCase = "methods-" + place
						sp.Target = Target{Kind: "domain", Domain: []byte("example.net"), Port: 443}
						plan := 2
						if th && (isBoundary(n) || n == 3) {
							plan = 3
						}
						e.emit(p, sp, plan, 2)
					}
				}
			}
		}
	}

	// ---- 7. SOCKS5 commands x TCP/UDP enablement
	{
		p := e.part("socks5-commands",
			"CMD 0..255 (socks5.ClientRequest / ClientRequestUsernamePassword) x enableTCP x enableUDP x auth modes x target kind rotating {IPv4, IPv6, domain}; for UDP ASSOCIATE the accepted connection's local address in {192.0.2.1:1080, [2001:db8::5]:1080, [::ffff:192.0.2.9]:1080}",
			harness.Pick(c, "every single cut and read sizes 1,2,3,7 for CMD 1,2,3; writer's chunks otherwise", "every pair of cuts for CMD 1,2,3; single cuts otherwise"))
		targets := []Target{{Kind: "ip", IP: "1.2.3.4", Port: 53}, {Kind: "ip", IP: "2001:db8::1", Port: 5353}, {Kind: "domain", Domain: []byte("udp.example"), Port: 65535}}
		for cmd := 0; cmd < 256; cmd++ {
			for _, tcp := range []bool{true, false} {
				for _, udp := range []bool{true, false} {
					locals := []string{"192.0.2.1:1080"}
					if cmd == 3 {
						locals = append(locals, "[2001:db8::5]:1080", "[::ffff:192.0.2.9]:1080")
					}
					for li, local := range locals {
						for ai, sp := range authModes(newSpec("socks5")) {
							sp.Client = "request"
							sp.Cmd = byte(cmd)
							sp.EnableTCP, sp.EnableUDP = tcp, udp
							sp.Local = local
							sp.Target = targets[(cmd+li+ai)%3]
							sp.Payload, sp.D1, sp.D2 = 0, 0, 0
							plan := harness.Pick(c, 0, 2)
							if cmd >= 1 && cmd <= 3 {
								plan = harness.Pick(c, 2, 3)
							}
							e.emit(p, sp, plan, 0)
						}
					}
				}
			}
		}
	}

	// ---- 8. every dial-result code
	{
		p := e.part("dial-results",
			"protocols x dial result code 0..255 passed to Abort x auth modes x target kind {IPv4, IPv6, domain}",
			harness.Pick(c, "every single cut and read sizes 1,2,3,7 for the 13 named codes; writer's chunks otherwise", "every pair of cuts for the named codes; single cuts otherwise"))
		targets := []Target{{Kind: "ip", IP: "1.2.3.4", Port: 80}, {Kind: "ip", IP: "2001:db8::1", Port: 443}, {Kind: "domain", Domain: []byte("unreachable.example"), Port: 8080}}
		named := map[uint8]bool{}
		for _, x := range namedCodes {
			named[x] = true
		}
		for _, proto := range protos {
			for code := 0; code < 256; code++ {
				for _, t := range targets {
					for _, sp := range authModes(newSpec(proto)) {
						sp.Outcome, sp.Code = "abort", uint8(code)
						sp.Target = t
						plan := harness.Pick(c, 0, 2)
						if named[uint8(code)] {
							plan = harness.Pick(c, 2, 3)
						}
						e.emit(p, sp, plan, 2)
					}
				}
			}
		}
	}

	// ---- 9. the stream after the handshake
	{
		d2s := []int{0, 1, 2, 4076, 4077, 4078, 4096, 4097, 8192, 10000}
		if th {
			d2s = []int{0, 1, 2, 3, 17, 255, 4000}
			for n := 4070; n <= 4100; n++ {
				d2s = append(d2s, n)
			}
			d2s = append(d2s, 8172, 8173, 8192, 8193, 10000, 70000)
		}
		p := e.part("stream-after-handshake",
			fmt.Sprintf("protocols x auth modes x order {A client speaks first, B far side speaks first in the same segment as the success reply, C far side first in its own segment} x DialStream payload {0,1,5} x further client bytes {0,1,4097} x far-side bytes %v x reader {io.Copy, Read with buffer 1, 4096, 65536}; both directions end with CloseWrite", d2s),
			harness.Pick(c, "writer's chunks for all; every single cut over handshake + 6 data bytes and read sizes 1,2,3,7 when far-side bytes <= 2", "read sizes 1,2,3,7 for all; every pair of cuts when far-side bytes <= 3"))
		for _, proto := range protos {
			for _, sp0 := range authModes(newSpec(proto)) {
				for _, mode := range []string{"A", "B", "C"} {
					for _, pay := range []int{0, 1, 5} {
						for _, d1 := range []int{0, 1, 4097} {
							for _, d2 := range d2s {
								for _, rb := range []int{0, 1, 4096, 65536} {
									sp := sp0
									sp.Mode, sp.Payload, sp.D1, sp.D2, sp.ReadBuf = mode, pay, d1, d2, rb
									plan := harness.Pick(c, 0, 1)
									if d2 <= 2 && d1 <= 1 {
										plan = 2
									}
									if th && d2 <= 3 && d1 <= 1 {
										plan = 3
									}
									e.emit(p, sp, plan, 6)
								}
							}
						}
					}
				}
			}
		}
	}
}

// ---------------------------------------------------------------------------

func replay(c *harness.Check) {
	r, err := harness.ReplayFile(c.Replay)
	if err != nil {
		harness.Fatal("%v", err)
	}
	b, _ := json.Marshal(r["spec"])
	var sp Spec
	if err := json.Unmarshal(b, &sp); err != nil {
		harness.Fatal("replay record: %v", err)
	}
	res := runOnce(&sp)
	fmt.Println("replay case:", sp.describe())
	fmt.Printf("client->server wire (%d bytes, chunk ends %v): %q\n", len(res.CS), res.CSEnds, clip(res.CS))
	fmt.Printf("server->client wire (%d bytes, chunk ends %v): %q\n", len(res.SC), res.SCEnds, clip(res.SC))
	fmt.Printf("server: addr=%s user=%s err=%s proceeded=%v aborted=%v read=%d eof=%v\n", res.SrvAddr, show([]byte(res.SrvUser)), errStr(res.SrvErr), res.Proceeded, res.Aborted, len(res.GotS), res.EOFS)
	fmt.Printf("client: err=%s read=%d eof=%v stall=%v\n", errStr(res.CliErr), len(res.GotC), res.EOFC, res.Stall)
	if res.Hang {
		harness.Fatal("replayed case did not terminate")
	}
	fs := oracle(&sp, res)
	if len(fs) == 0 {
		fmt.Println("no violation on replay")
		os.Exit(0)
	}
	fmt.Printf("VIOLATION property=C07 replay=%s\n", c.Replay)
	for _, f := range fs {
		fmt.Printf("  %s/%s/%s/%s: %s\n", sp.Proto, f.check, f.shape, sp.Frag.label(), f.msg)
	}
	os.Exit(1)
}

func clip(b []byte) []byte {
	if len(b) > 400 {
		return append(append(bytes.Clone(b[:300]), "..."...), b[len(b)-60:]...)
	}
	return b
}

func main() {
	c := harness.Start("C07")
	if c.Replay != "" {
		replay(c)
	}
	c.Rule = "one case = one complete run of the repository's client and server for one protocol (socks5 | http CONNECT | ssnone) over an in-memory connection: {server config (auth mode, users, TCP/UDP enablement), what the client asks (target address, command, credentials / method list), onward outcome (Proceed with a data exchange, or Abort with a dial result code), fragmentation script (writer's chunks | maximal read size | one cut | two cuts at absolute stream offsets of either direction)}. Enumeration is nested loops over the alphabets listed per part, simplest first; fragmentations of a base case are enumerated only when the unfragmented run satisfies the oracle. distinct = distinct case descriptions; all are non-trivial."
	c.Assumptions = []string{
		"the transport is a reliable ordered byte stream whose Read returns at most one scripted segment; writes never block (unbounded send buffer)",
		"fragmentation is exhaustive up to two cuts (plus uniform maximal read sizes 1,2,3,7), not over all segmentations",
		"client and server are the repository's own implementations talking to each other; in addition the bytes on the wire are parsed by an independent RFC 1928/1929/9110/7617 reference, so a symmetric encoding error is not masked; SOCKS5 method lists come from a hand-written client",
		"address equality is endpoint equality: an IPv4-mapped IPv6 address and its IPv4 form are the same endpoint; IPv6 zones and domains that spell an IP address are outside the alphabet",
		"HTTP domain targets are restricted to host characters an HTTP authority can carry (letters, digits, '-', '.')",
		"not demanded: delivery of bytes a client pushes before the server's success reply; any particular reply code beyond the RFC 1928 class (ruleset/network/host/refused; other failures must be REP 1,3,4 or 6) or beyond 5xx (403 allowed for EACCES) for HTTP; the reply to Abort with the success code; the user name reported by an HTTP server whose authentication is disabled; TLS variants of the HTTP proxy; non-CONNECT HTTP requests (property C16)",
	}
	if only := os.Getenv("C07_PARTS"); only != "" {
		c.Cap("development run restricted to parts " + only)
	}
	if pf := os.Getenv("C07_PROF"); pf != "" {
		f, _ := os.Create(pf)
		pprof.StartCPUProfile(f)
		defer pprof.StopCPUProfile()
	}
	debug.SetGCPercent(150)
	debug.SetMemoryLimit(4 << 30) // soft limit: the collector works harder instead of letting the heap overshoot on a starved machine
	e := newEngine(c)
	for phase := 0; phase < 3; phase++ {
		e.pass(phase)
	}
	e.finish()
}
