package main

// Execution of one case on the real code: a client thread and a server thread
// over the in-memory connection.

import (
	"bytes"
	"context"
	"errors"
	"fmt"
	"io"
	"net"
	"net/netip"
	"runtime/debug"
	"strings"
	"time"

	"github.com/database64128/shadowsocks-go/conn"
	"github.com/database64128/shadowsocks-go/httpproxy"
	"github.com/database64128/shadowsocks-go/netio"
	"github.com/database64128/shadowsocks-go/socks5"
	"github.com/database64128/shadowsocks-go/ssnone"
	"go.uber.org/zap"
)

var (
	nopLogger = zap.NewNop()
	proxyAddr = conn.AddrFromIPAndPort(netip.MustParseAddr("192.0.2.1"), 1080)
	cliLocal  = &net.TCPAddr{IP: net.IPv4(198, 51, 100, 7), Port: 40000}
	errDial   = errors.New("c07: scripted dial failure")
)

type Result struct {
	// server side
	SrvErr     error
	SrvPCNil   bool
	SrvAddr    endpoint
	SrvUser    string
	Proceeded  bool
	ProceedErr error
	Aborted    bool
	AbortErr   error
	GotS       []byte
	EOFS       bool
	ReadErrS   error
	// client side
	CliErr    error
	CliNoConn bool
	Bound     endpoint
	GotC      []byte
	EOFC      bool
	ReadErrC  error
	WriteErrC error
	DialedOK  bool
	// wire
	CS, SC         []byte
	CSEnds, SCEnds []int
	SCGlue         []bool
	Ops            int64
	Stall          bool
	Hang           bool
	PanicC, PanicS string
	SetupErr       string
}

// memDialer hands out the client end of the pair as the "TCP connection to the proxy".
type memDialer struct {
	e   *end
	res *Result
}

func (d *memDialer) NewStreamDialer() (netio.StreamDialer, netio.StreamDialerInfo) {
	return d, netio.StreamDialerInfo{Name: "mem", NativeInitialPayload: true}
}

func (d *memDialer) DialStream(ctx context.Context, addr conn.Addr, payload []byte) (netio.Conn, error) {
	d.res.DialedOK = addr.Equals(proxyAddr)
	if len(payload) > 0 {
		if _, err := d.e.Write(payload); err != nil {
			return nil, err
		}
	}
	return d.e, nil
}

func readAll(c io.Reader, bufSize int, scratch []byte) (got []byte, eof bool, err error) {
	if bufSize == 0 {
		var b bytes.Buffer
		_, err = io.Copy(&b, c)
		return b.Bytes(), err == nil, err
	}
	buf := scratch[:bufSize]
	for {
		n, err := c.Read(buf)
		got = append(got, buf[:n]...)
		if err == io.EOF {
			return got, true, nil
		}
		if err != nil {
			return got, false, err
		}
	}
}

func firstLine(s string) string {
	if i := strings.IndexByte(s, '\n'); i >= 0 {
		return s[:i]
	}
	return s
}

func panicText(r any) string {
	st := string(debug.Stack())
	// keep the frames of the repository
	var keep []string
	for _, l := range strings.Split(st, "\n") {
		if strings.Contains(l, "shadowsocks-go/") && !strings.Contains(l, "verif/") {
			keep = append(keep, strings.TrimSpace(l))
			if len(keep) == 3 {
				break
			}
		}
	}
	return fmt.Sprintf("%v [%s]", r, strings.Join(keep, " <- "))
}

func buildServer(sp *Spec) (netio.StreamServer, error) {
	switch sp.Proto {
	case "socks5":
		cfg := socks5.StreamServerConfig{EnableUserPassAuth: sp.ServerAuth, EnableTCP: sp.EnableTCP, EnableUDP: sp.EnableUDP}
		if sp.ServerAuth {
			for _, u := range sp.Users {
				cfg.Users = append(cfg.Users, socks5.UserInfo{Username: string(u.U), Password: string(u.P)})
			}
		}
		return cfg.NewStreamServer()
	case "http":
		cfg := httpproxy.ServerConfig{EnableBasicAuth: sp.ServerAuth}
		if sp.ServerAuth {
			for _, u := range sp.Users {
				cfg.Users = append(cfg.Users, httpproxy.ServerUserCredentials{Username: string(u.U), Password: string(u.P)})
			}
		}
		return cfg.NewProxyServer()
	case "ssnone":
		return ssnone.StreamServer{}, nil
	}
	return nil, fmt.Errorf("unknown protocol %q", sp.Proto)
}

func buildClient(sp *Spec, d *memDialer) (netio.StreamClient, error) {
	switch sp.Proto {
	case "socks5":
		cfg := socks5.StreamClientConfig{Name: "c", InnerClient: d, Addr: proxyAddr}
		if sp.ClientAuth {
			ui := socks5.UserInfo{Username: string(sp.CU), Password: string(sp.CP)}
			if err := ui.Validate(); err != nil {
				return nil, err
			}
			cfg.AuthMsg = ui.AppendAuthMsg(nil)
		}
		return cfg.NewStreamClient(), nil
	case "http":
		cfg := httpproxy.ClientConfig{Name: "c", InnerClient: d, Addr: proxyAddr, Username: string(sp.CU), Password: string(sp.CP), UseBasicAuth: sp.ClientAuth}
		return cfg.NewProxyClient()
	case "ssnone":
		cfg := ssnone.StreamClientConfig{Name: "c", InnerClient: d, Addr: proxyAddr}
		return cfg.NewStreamClient(), nil
	}
	return nil, fmt.Errorf("unknown protocol %q", sp.Proto)
}

func serverThread(sp *Spec, srv netio.StreamServer, e *end, r *Result, scratch []byte) {
	req, err := srv.HandleStream(e, nopLogger)
	r.SrvErr = err
	r.SrvPCNil = req.PendingConn == nil
	r.SrvAddr = endpointOfConnAddr(req.Addr)
	r.SrvUser = strings.Clone(req.Username)
	if err != nil || req.PendingConn == nil {
		return
	}
	if sp.Outcome == "abort" {
		r.Aborted = true
		r.AbortErr = req.Abort(conn.DialResult{Code: conn.DialResultCode(sp.Code), Err: errDial})
		return
	}
	if sp.Mode == "B" {
		e.setGlue(true)
	}
	sc, err := req.Proceed()
	e.setGlue(false)
	r.Proceeded = true
	r.ProceedErr = err
	if err != nil || sc == nil {
		return
	}
	if len(req.Payload) > 0 {
		r.GotS = append(r.GotS, req.Payload...)
	}
	if sp.Client == "request" {
		return
	}
	d2 := data(sp.D2, 0x53)
	if sp.Mode == "A" {
		got, eof, rerr := readAll(sc, sp.ReadBuf, scratch)
		r.GotS, r.EOFS, r.ReadErrS = append(r.GotS, got...), eof, rerr
		if len(d2) > 0 {
			sc.Write(d2)
		}
		sc.CloseWrite()
		return
	}
	if len(d2) > 0 {
		sc.Write(d2)
	}
	sc.CloseWrite()
	got, eof, rerr := readAll(sc, sp.ReadBuf, scratch)
	r.GotS, r.EOFS, r.ReadErrS = append(r.GotS, got...), eof, rerr
}

func clientThread(sp *Spec, cl netio.StreamClient, e *end, r *Result, scratch []byte) {
	target := sp.Target.connAddr()
	switch sp.Client {
	case "dial":
		cc, err := cl.DialStream(context.Background(), target, data(sp.Payload, 0xC0))
		r.CliErr = err
		r.CliNoConn = cc == nil
		if err != nil || cc == nil {
			return
		}
		clientData(sp, cc, r, scratch)
		cc.Close()
	case "request":
		var (
			bound conn.Addr
			err   error
		)
		if sp.ClientAuth {
			ui := socks5.UserInfo{Username: string(sp.CU), Password: string(sp.CP)}
			bound, err = socks5.ClientRequestUsernamePassword(e, ui.AppendAuthMsg(nil), sp.Cmd, target)
		} else {
			bound, err = socks5.ClientRequest(e, sp.Cmd, target)
		}
		r.CliErr = err
		r.Bound = endpointOfConnAddr(bound)
	case "raw":
		rawSocksClient(sp, e, r, scratch)
	}
}

func clientData(sp *Spec, cc netio.Conn, r *Result, scratch []byte) {
	d1 := data(sp.D1, 0xD1)
	if sp.Mode == "A" {
		if len(d1) > 0 {
			_, r.WriteErrC = cc.Write(d1)
		}
		cc.CloseWrite()
		r.GotC, r.EOFC, r.ReadErrC = readAll(cc, sp.ReadBuf, scratch)
		return
	}
	r.GotC, r.EOFC, r.ReadErrC = readAll(cc, sp.ReadBuf, scratch)
	if len(d1) > 0 {
		_, r.WriteErrC = cc.Write(d1)
	}
	cc.CloseWrite()
}

var errRawRefused = errors.New("c07: raw client: refused by the server")

// rawSocksClient is a hand-written RFC 1928/1929 client (method lists of any
// length, optional pipelining of all its messages).
func rawSocksClient(sp *Spec, e *end, r *Result, scratch []byte) {
	m1 := append([]byte{5, byte(len(sp.Methods))}, sp.Methods...)
	var m2 []byte
	if sp.ServerAuth {
		m2 = append(m2, 1, byte(len(sp.CU)))
		m2 = append(m2, sp.CU...)
		m2 = append(m2, byte(len(sp.CP)))
		m2 = append(m2, sp.CP...)
	}
	m3 := append([]byte{5, sp.Cmd, 0}, encodeSocksAddr(sp.Target)...)
	var b [4]byte
	if sp.Pipelined {
		all := append(append(append([]byte{}, m1...), m2...), m3...)
		if _, err := e.Write(all); err != nil {
			r.CliErr = err
			return
		}
	} else if _, err := e.Write(m1); err != nil {
		r.CliErr = err
		return
	}
	if _, err := io.ReadFull(e, b[:2]); err != nil {
		r.CliErr = err
		return
	}
	if b[0] != 5 || b[1] == 0xff || b[1] != sp.wantedMethod() {
		r.CliErr = errRawRefused
		return
	}
	if sp.ServerAuth {
		if !sp.Pipelined {
			if _, err := e.Write(m2); err != nil {
				r.CliErr = err
				return
			}
		}
		if _, err := io.ReadFull(e, b[:2]); err != nil {
			r.CliErr = err
			return
		}
		if b[1] != 0 {
			r.CliErr = errRawRefused
			return
		}
	}
	if !sp.Pipelined {
		if _, err := e.Write(m3); err != nil {
			r.CliErr = err
			return
		}
	}
	if _, err := io.ReadFull(e, b[:4]); err != nil {
		r.CliErr = err
		return
	}
	var rest int
	switch b[3] {
	case 1:
		rest = 6
	case 4:
		rest = 18
	case 3:
		var l [1]byte
		if _, err := io.ReadFull(e, l[:]); err != nil {
			r.CliErr = err
			return
		}
		rest = int(l[0]) + 2
	default:
		r.CliErr = fmt.Errorf("raw client: reply ATYP %#x", b[3])
		return
	}
	if _, err := io.ReadFull(e, make([]byte, rest)); err != nil {
		r.CliErr = err
		return
	}
	if b[1] != 0 {
		r.CliErr = errRawRefused
		return
	}
	clientData(sp, e, r, scratch)
}

func parseLocal(s string) *net.TCPAddr {
	ap := netip.MustParseAddrPort(s)
	return net.TCPAddrFromAddrPort(ap)
}

// runner executes cases one at a time: the client thread runs on the caller's
// goroutine, the server thread on a long-lived companion goroutine.  Server and
// client objects are built once per base case (prepare) and reused for its
// fragmentations; they hold no per-connection state.
type runner struct {
	timer    *time.Timer
	jobs     chan func()
	done     chan struct{}
	srv      netio.StreamServer
	cl       netio.StreamClient
	dialer   *memDialer
	setupErr string
	bufC     []byte
	bufS     []byte
}

func newRunner() *runner {
	rn := &runner{timer: time.NewTimer(time.Hour), dialer: &memDialer{}, bufC: make([]byte, 65536), bufS: make([]byte, 65536)}
	rn.spawn()
	return rn
}

func (rn *runner) spawn() {
	jobs, done := make(chan func(), 1), make(chan struct{}, 1)
	rn.jobs, rn.done = jobs, done
	go func() {
		for f := range jobs {
			f()
			done <- struct{}{}
		}
	}()
}

// prepare builds the server and the client for a base case.
func (rn *runner) prepare(sp *Spec) {
	rn.setupErr = ""
	rn.srv, rn.cl = nil, nil
	srv, err := buildServer(sp)
	if err != nil {
		rn.setupErr = "server: " + err.Error()
		return
	}
	rn.srv = srv
	if sp.Client == "dial" {
		cl, err := buildClient(sp, rn.dialer)
		if err != nil {
			rn.setupErr = "client: " + err.Error()
			return
		}
		rn.cl = cl
	}
}

// runCase executes one case (prepare must have been called for its base).
func (rn *runner) runCase(sp *Spec) *Result {
	r := &Result{}
	if rn.setupErr != "" {
		r.SetupErr = rn.setupErr
		return r
	}
	local := sp.Local
	if local == "" {
		local = "192.0.2.1:1080"
	}
	ce, se, w := newPair(sp.Frag, parseLocal(local), cliLocal)
	rn.dialer.e, rn.dialer.res = ce, r
	srv, bufS := rn.srv, rn.bufS
	rn.jobs <- func() {
		defer func() {
			if p := recover(); p != nil {
				r.PanicS = panicText(p)
			}
			se.finish()
		}()
		serverThread(sp, srv, se, r, bufS)
	}
	func() {
		defer func() {
			if p := recover(); p != nil {
				r.PanicC = panicText(p)
			}
			ce.finish()
		}()
		clientThread(sp, rn.cl, ce, r, rn.bufC)
	}()
	rn.timer.Reset(60 * time.Second)
	select {
	case <-rn.done:
	case <-rn.timer.C:
		w.kill()
		rn.spawn() // abandon the stuck companion
		return &Result{Hang: true}
	}
	if !rn.timer.Stop() {
		select {
		case <-rn.timer.C:
		default:
		}
	}
	w.mu.Lock()
	r.Stall = w.dead
	r.Ops = w.ops
	r.CS, r.SC = ce.out.buf, se.out.buf
	r.CSEnds, r.SCEnds = ce.out.ends, se.out.ends
	r.SCGlue = se.out.glue
	w.mu.Unlock()
	return r
}

// runOnce prepares and runs a single case (replay, confirmation).
func runOnce(sp *Spec) *Result {
	rn := newRunner()
	defer close(rn.jobs)
	rn.prepare(sp)
	return rn.runCase(sp)
}
