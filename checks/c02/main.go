// C02: tampered, spliced or foreign SS2022 TCP traffic is never delivered as
// data.
//
// Bounded-exhaustive enumeration over recorded genuine sessions: for every
// configuration of a matrix and every session shape, real ss2022 clients and
// servers talk over a deterministic in-memory connection (virtual clock,
// counter-stream crypto/rand, fixed padding draw); the two recorded byte
// streams are split into structural segments; every tamper operator is applied
// at every structural position; every resulting stream is fed to a FRESH real
// server (HandleStream + reads) or client (DialStream + reads) and the outcome
// is compared with an oracle written from the property statement.
package main

import (
	"bytes"
	"crypto/sha256"
	"encoding/json"
	"flag"
	"fmt"
	"io"
	"os"
	"os/exec"
	"runtime"
	"runtime/debug"
	"sort"
	"strconv"
	"strings"
	"sync"
	"time"

	"github.com/database64128/shadowsocks-go/netio"

	"verif/harness"
	"verif/vsched"
)

// ---------------------------------------------------------------------------
// draining an endpoint the way an application would

// Reader modes: Read with a 1/7-byte buffer (leftover path), Read with a buffer
// large enough for the direct path, WriteTo into a plain writer.
var modes = []string{"r-small", "r-big", "wt"}

const afterErrorReads = 6

var bigBuf = make([]byte, 65535+16) // >= the direct-read threshold of ShadowStreamConn.Read

type drained struct {
	pre    []byte // bytes returned up to and including the call that ended the stream (error or EOF)
	eof    bool   // that call reported a clean end of stream
	endErr string
	after  []byte // bytes returned by further calls after a non-EOF error
	afterN []int  // ... per call
	calls  int64
	stall  bool
}

func drain(c netio.Conn, mode string, small int, limit int) (d drained) {
	switch mode {
	case "wt":
		wt, ok := c.(io.WriterTo)
		if !ok {
			panic("connection has no WriteTo")
		}
		var s sink
		_, err := wt.WriteTo(&s)
		d.calls++
		d.pre = s.b
		if err == nil {
			d.eof = true
			return
		}
		d.endErr = err.Error()
		for i := 0; i < afterErrorReads; i++ {
			var s2 sink
			_, err := wt.WriteTo(&s2)
			d.calls++
			d.after = append(d.after, s2.b...)
			d.afterN = append(d.afterN, len(s2.b))
			if err == nil {
				break
			}
		}
		return
	}
	buf := bigBuf[:small]
	if mode == "r-big" {
		buf = bigBuf
	}
	idle := 0
	for {
		n, err := c.Read(buf)
		d.calls++
		d.pre = append(d.pre, buf[:n]...)
		if err != nil {
			if err == io.EOF {
				d.eof = true
			} else {
				d.endErr = err.Error()
			}
			break
		}
		if n == 0 {
			idle++
		} else {
			idle = 0
		}
		if idle > 64 || len(d.pre) > limit {
			d.stall = true
			return
		}
	}
	extra := afterErrorReads
	if d.eof {
		extra = 1
	}
	for i := 0; i < extra; i++ {
		n, err := c.Read(buf)
		d.calls++
		d.after = append(d.after, buf[:n]...)
		d.afterN = append(d.afterN, n)
		if err == io.EOF {
			break
		}
	}
	return
}

// ---------------------------------------------------------------------------
// oracle

type verdict struct {
	Fail    string // failure kind, "" = property held on this case
	Detail  string
	Outcome string // classification for the evidence
	SegKind string // structural position of the first byte that differs from the genuine stream
	Calls   int64
}

// judgeData is the part of the oracle common to both endpoints.  G is the
// genuine stream of the peer the endpoint believes it talks to, T what arrived.
func (e *env) judgeData(side string, G *stream, T []byte, d drained) (fail, detail string) {
	cp := commonPrefix(T, G.B)
	altered := cp != len(T) // T is not a prefix of G: some byte the reader reaches is not the genuine one
	maxDeliv := G.deliverable(cp)
	if d.stall {
		return "reader-stalls", fmt.Sprintf("reads keep returning without progress or deliver more than the stream can hold (%d bytes so far)", len(d.pre))
	}
	if n := commonPrefix(d.pre, G.Plain); n != len(d.pre) {
		return "delivered-not-prefix", fmt.Sprintf("application got %d bytes; byte %d is %#02x but the genuine peer sent %s there", len(d.pre), n, d.pre[n], byteAt(G.Plain, n))
	}
	if len(d.pre) > maxDeliv {
		return "delivered-past-altered-bytes", fmt.Sprintf("application got %d bytes although only %d were carried by chunks that arrived intact (stream differs from the genuine one at offset %d)", len(d.pre), maxDeliv, cp)
	}
	if altered && d.eof {
		return "altered-bytes-read-without-error", fmt.Sprintf("stream differs from the genuine one at offset %d, yet the reader reported a clean end of stream after %d bytes", cp, len(d.pre))
	}
	if bytes.Equal(T, G.B) {
		if !d.eof || len(d.pre) != len(G.Plain) {
			return "baseline-genuine-stream-not-delivered", fmt.Sprintf("untouched stream: got %d of %d bytes, eof=%v err=%q", len(d.pre), len(G.Plain), d.eof, d.endErr)
		}
	}
	total := append(bytes.Clone(d.pre), d.after...)
	if n := commonPrefix(total, G.Plain); n != len(total) {
		// classify the bytes around the point where the output leaves the
		// genuine data: try every call boundary up to that point, earliest first
		class := "unrecognised-bytes"
		pos := len(d.pre)
		for _, k := range append([]int{0}, d.afterN...) {
			pos += k
			if pos > n {
				break
			}
			if cl := e.classifyAfter(side, G, total[pos:], pos); cl != "unrecognised-bytes" {
				class = cl
				break
			}
		}
		return "after-error:" + class, fmt.Sprintf("after the read error %q further reads returned %d bytes (% x ...); together with the %d bytes before, byte %d is not what the genuine peer sent (%s); the bytes are %s", d.endErr, len(d.after), head(d.after, 8), len(d.pre), n, byteAt(G.Plain, n), classText[class])
	}
	return "", ""
}

var classText = map[string]string{
	"later-genuine-data":   "application data of a later chunk of the same genuine stream (the chunk in between was never delivered)",
	"other-session-data":   "application data of a different recorded session",
	"length-field-as-data": "the big-endian length field of a genuine length chunk, i.e. framing handed out as application data",
	"unrecognised-bytes":   "neither genuine data of any recorded session nor a length field",
}

// classifyAfter names the first bytes an endpoint handed out after a read error
// that are not the continuation of the genuine data (a = those bytes, delivered
// = how many genuine bytes came before), so that different mechanisms get
// different signatures.
func (e *env) classifyAfter(side string, G *stream, a []byte, delivered int) string {
	starts := func(st *stream) []int {
		out := []int{0}
		for _, s := range st.Segs {
			out = append(out, s.Cum)
		}
		return out
	}
	matchAt := func(st *stream, minOff int) bool {
		for _, off := range starts(st) {
			if off < minOff || off >= len(st.Plain) {
				continue
			}
			n := min(len(a), len(st.Plain)-off)
			if n > 0 && bytes.Equal(a[:n], st.Plain[off:off+n]) {
				return true
			}
		}
		return false
	}
	if matchAt(G, delivered+1) {
		return "later-genuine-data"
	}
	for _, s := range e.Sess {
		if st := e.streamOf(s, side); st != G && matchAt(st, 0) {
			return "other-session-data"
		}
	}
	if len(a) >= 2 {
		for _, s := range e.Sess {
			st := e.streamOf(s, side)
			prev := 0
			for _, sg := range st.Segs {
				if sg.Kind == "pay" {
					if n := sg.Cum - prev; n == int(a[0])<<8|int(a[1]) {
						return "length-field-as-data"
					}
				}
				prev = sg.Cum
			}
		}
	}
	return "unrecognised-bytes"
}

func byteAt(b []byte, i int) string {
	if i < len(b) {
		return fmt.Sprintf("%#02x", b[i])
	}
	return "nothing (end of its data)"
}

func head(b []byte, n int) []byte {
	if len(b) > n {
		return b[:n]
	}
	return b
}

// baseFor picks the genuine session whose stream T starts with (longest common
// prefix): that is "the genuine peer" for this case.  Ties go to the nominal base.
func (e *env) baseFor(side string, nominal *session, T []byte) *session {
	best, bestN := nominal, commonPrefix(T, e.streamOf(nominal, side).B)
	for _, s := range e.Sess {
		if n := commonPrefix(T, e.streamOf(s, side).B); n > bestN {
			best, bestN = s, n
		}
	}
	return best
}

func smallBuf(sh shape) int {
	if sh.Name == "big64k" {
		return 7
	}
	return 1
}

// runServer feeds T to a fresh real server.
func (e *env) runServer(nominal *session, T []byte, mode string) (v verdict) {
	defer func() {
		if r := recover(); r != nil {
			v.Fail = "panic"
			v.Detail = fmt.Sprintf("panic: %v\n%s", r, trimStack(debug.Stack()))
		}
	}()
	base := e.baseFor("server", nominal, T)
	G := &base.C2S
	cp := commonPrefix(T, G.B)
	v.SegKind = G.kindAt(cp)
	if cp == len(T) && cp == len(G.B) {
		v.SegKind = "none"
	} else if cp == len(T) {
		v.SegKind = "cut-in-" + G.kindAt(cp)
	}
	if !base.V.Held {
		v.SegKind = "foreign-key"
	}
	hsIntact := base.V.Held && cp >= G.HsEnd
	fixIntact := base.V.Held && cp >= G.FixEnd

	vsched.SetClock(replayNS)
	srv := e.newServer()
	mc := &memConn{in: T}
	req, err := srv.HandleStream(mc, nopLogger)
	v.Calls = 1
	if err != nil {
		v.Outcome = "refused"
		if hsIntact {
			v.Fail = "genuine-handshake-refused"
			v.Detail = fmt.Sprintf("handshake of %s arrived untouched (%d bytes equal, handshake is %d) but HandleStream failed: %v", base.V.Name, cp, G.HsEnd, err)
		}
		return
	}
	pc, perr := req.PendingConn.Proceed()
	if perr != nil {
		v.Outcome = "refused"
		return
	}
	if pc == netio.Conn(mc) {
		v.Outcome = "fallback"
		switch {
		case !e.Cfg.Fallback || !req.Addr.Equals(fallbackAddr):
			v.Fail = "fallback-not-configured"
			v.Detail = fmt.Sprintf("raw connection handed on towards %v without a fallback being configured", req.Addr)
		case mc.off == 0 || !bytes.Equal(req.Payload, T[:mc.off]):
			v.Fail = "fallback-payload-not-received-bytes"
			v.Detail = fmt.Sprintf("server consumed %d bytes from the connection; fallback payload has %d bytes, first difference at %d (payload %s, received %s)", mc.off, len(req.Payload), commonPrefix(req.Payload, T[:mc.off]), byteAt(req.Payload, commonPrefix(req.Payload, T[:mc.off])), byteAt(T[:mc.off], commonPrefix(req.Payload, T[:mc.off])))
		case fixIntact:
			v.Fail = "fallback-after-authentication"
			v.Detail = "fixed-length header arrived untouched under a held key, yet the connection went to the fallback"
		}
		return
	}
	v.Outcome = "request"
	if !hsIntact {
		v.Fail = "request-from-altered-handshake"
		why := fmt.Sprintf("the closest genuine handshake (%s, %d bytes) matches only the first %d bytes", base.V.Name, G.HsEnd, cp)
		if !base.V.Held && cp >= G.HsEnd {
			why = fmt.Sprintf("the handshake was made by %s under keys the server does not hold", base.V.Name)
		}
		v.Detail = fmt.Sprintf("HandleStream produced a connection request (addr %v user %q payload %d bytes) although %s", req.Addr, req.Username, len(req.Payload), why)
		return
	}
	if !req.Addr.Equals(base.Target) || req.Username != base.User || !bytes.Equal(req.Payload, base.P0) {
		v.Fail = "request-fields-differ"
		v.Detail = fmt.Sprintf("request has addr %v user %q payload %d bytes; the genuine client asked for %v as %q with %d bytes", req.Addr, req.Username, len(req.Payload), base.Target, base.User, len(base.P0))
		return
	}
	p0 := bytes.Clone(req.Payload)
	d := drain(pc, mode, smallBuf(e.Shape), len(T)+len(G.Plain)+1024)
	v.Calls += d.calls
	d.pre = append(p0, d.pre...)
	v.Fail, v.Detail = e.judgeData("server", G, T, d)
	if d.eof {
		v.Outcome = "request+eof"
		if G.insideRecord(T) {
			v.Outcome += "(stream cut inside a length/payload record)"
		}
	} else {
		v.Outcome = "request+error"
	}
	if len(d.after) > 0 {
		v.Outcome += "+resync"
	}
	return
}

// runClient re-dials the recorded client session (same salt, same request) and
// feeds T as the response.
func (e *env) runClient(x *session, T []byte, mode string) (v verdict) {
	defer func() {
		if r := recover(); r != nil {
			v.Fail = "panic"
			v.Detail = fmt.Sprintf("panic: %v\n%s", r, trimStack(debug.Stack()))
		}
	}()
	G := &x.S2C
	cp := commonPrefix(T, G.B)
	v.SegKind = G.kindAt(cp)
	if cp == len(T) && cp == len(G.B) {
		v.SegKind = "none"
	} else if cp == len(T) {
		v.SegKind = "cut-in-" + G.kindAt(cp)
	}
	cc, mc, err := e.dial(x.V)
	v.Calls = 1
	if err != nil {
		v.Fail = "baseline-dial-failed"
		v.Detail = err.Error()
		return
	}
	if !bytes.Equal(mc.written(), x.ReqHead) {
		harness.Fatal("re-dial of %s did not reproduce the recorded request (nondeterminism in the harness)", x.V.Name)
	}
	mc.in = T
	vsched.SetClock(replayNS)
	d := drain(cc, mode, smallBuf(e.Shape), len(T)+len(G.Plain)+1024)
	v.Calls += d.calls
	v.Fail, v.Detail = e.judgeData("client", G, T, d)
	switch {
	case d.eof:
		v.Outcome = "eof"
		if G.insideRecord(T) {
			v.Outcome += "(stream cut inside a header/length/payload record)"
		}
	default:
		v.Outcome = "error"
	}
	if len(d.pre) > 0 {
		v.Outcome += "+data"
	}
	if len(d.after) > 0 {
		v.Outcome += "+resync"
	}
	return
}

func trimStack(b []byte) string {
	lines := strings.Split(string(b), "\n")
	var keep []string
	for _, l := range lines {
		if strings.Contains(l, "/ss2022/") || strings.Contains(l, "shadowsocks-go/") {
			keep = append(keep, strings.TrimSpace(l))
		}
		if len(keep) >= 6 {
			break
		}
	}
	return strings.Join(keep, " | ")
}

// ---------------------------------------------------------------------------
// one unit of work = (configuration, shape, side); runs in its own process
// because the random/clock seams are process-global.

type unit struct {
	Cfg   int    `json:"cfg"`
	Shape string `json:"shape"`
	Side  string `json:"side"`
}

func (u unit) String() string { return fmt.Sprintf("%d/%s/%s", u.Cfg, u.Shape, u.Side) }

func parseUnit(s string) (unit, error) {
	p := strings.Split(s, "/")
	if len(p) != 3 {
		return unit{}, fmt.Errorf("bad unit %q", s)
	}
	n, err := strconv.Atoi(p[0])
	if err != nil || n < 0 || n >= len(allCfgs()) {
		return unit{}, fmt.Errorf("bad cfg in unit %q", s)
	}
	if _, ok := shapeByName(p[1]); !ok {
		return unit{}, fmt.Errorf("bad shape in unit %q", s)
	}
	if p[2] != "server" && p[2] != "client" {
		return unit{}, fmt.Errorf("bad side in unit %q", s)
	}
	return unit{n, p[1], p[2]}, nil
}

type caseRec struct {
	Unit unit   `json:"unit"`
	Cfg  string `json:"cfg_desc"`
	Base string `json:"base"`
	Op   op     `json:"op"`
	Mode string `json:"mode"`
}

type violRec struct {
	Sig    string  `json:"sig"`
	What   string  `json:"what"`
	Replay caseRec `json:"replay"`
}

type unitResult struct {
	Unit        string           `json:"unit"`
	Cases       int64            `json:"cases"`
	Nontrivial  int64            `json:"nontrivial"`
	Distinct    int64            `json:"distinct"`
	Streams     int64            `json:"streams"`
	Calls       int64            `json:"calls"`
	ByOp        map[string]int64 `json:"by_op"`
	Outcomes    map[string]int64 `json:"outcomes"`
	Viols       []violRec        `json:"viols"`
	Samples     []map[string]any `json:"samples"`
	Segments    map[string]any   `json:"segments"`
	Capped      bool             `json:"capped"`
	SetupFailed string           `json:"setup_failed"`
}

func deadlinePassed() bool {
	v := os.Getenv("C02_DEADLINE")
	if v == "" {
		return false
	}
	ns, err := strconv.ParseInt(v, 10, 64)
	return err == nil && time.Now().UnixNano() > ns
}

func (e *env) runCase(side string, nominal *session, T []byte, mode string) verdict {
	if side == "server" {
		return e.runServer(nominal, T, mode)
	}
	return e.runClient(nominal, T, mode)
}

// signature names the failing shape: endpoint, what went wrong, and the kind
// of structural segment holding the first byte that differs from the genuine
// stream ("foreign-key" when the whole handshake was made under keys the server
// does not hold).  Operator instance, offsets and configuration are run data
// and go into the description and the replay record instead.
func signature(side string, v verdict) string {
	if strings.HasPrefix(v.Fail, "after-error:") {
		return side + ":" + v.Fail
	}
	return side + ":" + v.Fail + "@" + strings.TrimPrefix(v.SegKind, "cut-in-")
}

func runUnit(u unit, thorough bool) *unitResult {
	res := &unitResult{Unit: u.String(), ByOp: map[string]int64{}, Outcomes: map[string]int64{}}
	cfg := allCfgs()[u.Cfg]
	sh, _ := shapeByName(u.Shape)
	e, err := newEnv(cfg, sh)
	if err != nil {
		res.SetupFailed = err.Error()
		return res
	}
	x0 := e.Sess[0]
	res.Segments = map[string]any{"request_bytes": len(x0.C2S.B), "request_segments": segDesc(x0.C2S.Segs), "response_bytes": len(x0.S2C.B), "response_segments": segDesc(x0.S2C.Segs), "sessions": len(e.Sess)}
	seen := map[[12]byte]struct{}{}
	seenSig := map[string]bool{}
	streams := map[[12]byte]struct{}{}
	n := 0
	for bi, base := range e.Sess {
		full := bi == 0 || (thorough && base.V.Held)
		if sh.Long && bi != 0 {
			continue
		}
		if u.Side == "client" && !full {
			continue // only the clients of these sessions are re-dialled; they receive everything
		}
		G := e.streamOf(base, u.Side)
		e.forEachOp(u.Side, base, full, thorough, func(o op) {
			if res.Capped {
				return
			}
			n++
			if n%256 == 0 && deadlinePassed() {
				res.Capped = true
				return
			}
			T, err := e.build(u.Side, base, o)
			if err != nil {
				harness.Fatal("build %v: %v", o, err)
			}
			ms := modes
			if sh.Long {
				ms = []string{"r-big"}
			}
			if u.Side == "server" && !sh.Long {
				// no byte is read through the tunnel unless the handshake is
				// intact, so the reader mode only matters then
				b := e.baseFor("server", base, T)
				if commonPrefix(T, b.C2S.B) < b.C2S.HsEnd {
					ms = modes[:1]
				}
			}
			hs := sha256.Sum256(T)
			streams[[12]byte(hs[:12])] = struct{}{}
			for _, mode := range ms {
				v := e.runCase(u.Side, base, T, mode)
				res.Cases++
				res.Calls += v.Calls
				res.ByOp[o.Name]++
				res.Outcomes[v.Outcome]++
				if !bytes.Equal(T, G.B) {
					res.Nontrivial++
					h := sha256.Sum256(append([]byte(mode+"|"), hs[:]...))
					seen[[12]byte(h[:12])] = struct{}{}
				}
				if len(res.Samples) < 3 && (o.Name == "flip" || o.Name == "splice" || o.Name == "dup") && res.ByOp[o.Name] == 5 {
					res.Samples = append(res.Samples, map[string]any{"config": cfg.String(), "shape": sh.Name, "endpoint": u.Side, "genuine_peer": base.V.Name, "operator": o.String(), "first_altered_segment": v.SegKind, "reader": mode, "stream_bytes": len(T), "outcome": v.Outcome})
				}
				if v.Fail == "" {
					continue
				}
				sig := signature(u.Side, v)
				if seenSig[sig] {
					continue
				}
				seenSig[sig] = true
				// a violation must reproduce identically before it is reported
				for i := 0; i < 3; i++ {
					T2, _ := e.build(u.Side, base, o)
					v2 := e.runCase(u.Side, base, T2, mode)
					if v2.Fail != v.Fail || v2.Detail != v.Detail {
						harness.Fatal("case %s %v %s did not reproduce identically (%q vs %q): nondeterminism in the harness", u, o, mode, v.Fail+": "+v.Detail, v2.Fail+": "+v2.Detail)
					}
				}
				what := fmt.Sprintf("%s side, config %s, session shape %s, genuine peer %s, operator %s (first altered byte in segment %q), reader %s: %s", u.Side, cfg, sh.Name, base.V.Name, o, v.SegKind, mode, v.Detail)
				res.Viols = append(res.Viols, violRec{sig, what, caseRec{u, cfg.String(), base.V.Name, o, mode}})
			}
		})
	}
	res.Distinct = int64(len(seen))
	res.Streams = int64(len(streams))
	return res
}

func segDesc(s []seg) []string {
	var out []string
	for _, x := range s {
		out = append(out, fmt.Sprintf("%s:%d", x.Kind, x.End-x.Off))
	}
	return out
}

// ---------------------------------------------------------------------------

func unitsFor(thorough bool) []unit {
	var out []unit
	for ci, c := range allCfgs() {
		for _, sh := range shapes {
			if sh.Thor && !thorough {
				continue
			}
			if sh.Long && (c.EIH || c.Prefix || c.Fallback || c.Seg) {
				continue // the long-session swap sweep runs on the two plain configurations (one per cipher)
			}
			if c.Seg && !thorough && sh.Name != "basic3" && sh.Name != "tiny2" {
				continue // quick: segmented-header configurations on the two small shapes only
			}
			out = append(out, unit{ci, sh.Name, "server"})
			if !c.Fallback { // the fallback is a server-only setting
				out = append(out, unit{ci, sh.Name, "client"})
			}
		}
	}
	return out
}

func runAll(c *harness.Check, units []unit) []*unitResult {
	out := make([]*unitResult, len(units))
	sem := make(chan struct{}, harness.Workers())
	var wg sync.WaitGroup
	// longest units first (big shapes), results are collected by index
	order := make([]int, len(units))
	for i := range order {
		order[i] = i
	}
	sort.SliceStable(order, func(a, b int) bool {
		return units[order[a]].Shape == "big64k" && units[order[b]].Shape != "big64k"
	})
	for _, i := range order {
		wg.Add(1)
		sem <- struct{}{}
		go func(i int) {
			defer wg.Done()
			defer func() { <-sem }()
			cmd := exec.Command(os.Args[0], "--worker", "c02", "--param", units[i].String(), "--tier", c.Tier)
			cmd.Stderr = os.Stderr
			o, err := cmd.Output()
			if err != nil {
				harness.Fatal("worker for unit %s failed: %v\n%s", units[i], err, string(head(o, 2000)))
			}
			var r unitResult
			if err := json.Unmarshal(o, &r); err != nil {
				harness.Fatal("worker for unit %s: bad output: %v", units[i], err)
			}
			out[i] = &r
		}(i)
	}
	wg.Wait()
	return out
}

func replay(c *harness.Check) {
	r, err := harness.ReplayFile(c.Replay)
	if err != nil {
		harness.Fatal("%v", err)
	}
	b, _ := json.Marshal(r)
	var rec caseRec
	if err := json.Unmarshal(b, &rec); err != nil {
		harness.Fatal("bad replay record: %v", err)
	}
	if rec.Unit.Cfg < 0 || rec.Unit.Cfg >= len(allCfgs()) {
		harness.Fatal("bad replay record: cfg")
	}
	sh, ok := shapeByName(rec.Unit.Shape)
	if !ok {
		harness.Fatal("bad replay record: shape")
	}
	cfg := allCfgs()[rec.Unit.Cfg]
	fmt.Printf("replay: %s side, config %s, shape %s, genuine peer %s, operator %s, reader %s\n", rec.Unit.Side, cfg, sh.Name, rec.Base, rec.Op, rec.Mode)
	e, err := newEnv(cfg, sh)
	if err != nil {
		fmt.Printf("VIOLATION property=C02 replay=%s\n  genuine session cannot be established: %v\n", c.Replay, err)
		os.Exit(1)
	}
	base := e.sess(rec.Base)
	if base == nil {
		harness.Fatal("bad replay record: base session")
	}
	if rec.Op.Name == "" { // setup failure that no longer fails
		fmt.Println("no violation on replay")
		os.Exit(0)
	}
	T, err := e.build(rec.Unit.Side, base, rec.Op)
	if err != nil {
		harness.Fatal("bad replay record: %v", err)
	}
	G := e.streamOf(base, rec.Unit.Side)
	fmt.Printf("genuine stream %d bytes %v; presented stream %d bytes, first difference at offset %d\n", len(G.B), segDesc(G.Segs), len(T), commonPrefix(T, G.B))
	v := e.runCase(rec.Unit.Side, base, T, rec.Mode)
	fmt.Printf("outcome: %s\n", v.Outcome)
	if v.Fail != "" {
		fmt.Printf("VIOLATION property=C02 replay=%s\n  %s: %s\n", c.Replay, v.Fail, v.Detail)
		os.Exit(1)
	}
	fmt.Println("no violation on replay")
	os.Exit(0)
}

func main() {
	if !flag.Parsed() {
		flag.Parse()
	}
	if w := flag.Lookup("worker"); w != nil && w.Value.String() == "c02" {
		u, err := parseUnit(flag.Lookup("param").Value.String())
		if err != nil {
			harness.Fatal("%v", err)
		}
		runtime.GOMAXPROCS(2)
		res := runUnit(u, flag.Lookup("tier").Value.String() == "thorough")
		b, _ := json.Marshal(res)
		os.Stdout.Write(b)
		os.Exit(0)
	}
	c := harness.Start("C02")
	if c.Replay != "" {
		replay(c)
	}
	thorough := c.Thorough()
	budget := harness.Pick(c, 10*time.Minute, 3*time.Hour)
	os.Setenv("C02_DEADLINE", strconv.FormatInt(time.Now().Add(budget).UnixNano(), 10))

	c.Rule = "one case = (configuration, session shape, endpoint, genuine session, tamper operator instance, reader mode): the tampered byte stream is presented to a fresh real server (HandleStream, then reads) or to a re-dialled real client (reads); distinct = distinct (presented byte stream, reader mode) per configuration/shape/endpoint with the untouched stream excluded"
	c.Assumptions = []string{
		"the attacker acts on the byte stream only; transport delivers what is presented in order (fragmentation of genuine traffic is C01's subject)",
		"salts, padding draw and clock are fixed per recorded session (counter-stream crypto/rand, padding hook, virtual clock); the tampered stream is presented 1 s after recording to an endpoint with an empty salt pool (replay windows are C03's subject)",
		"bit flips are dense on prefix, salt, identity header, header chunks and length chunks and on payload chunks up to the dense limit; longer payload chunks get first/middle/last-body/tag bytes",
		"reads continue for up to 6 calls after the first error, because the statement bounds every byte an endpoint ever returns",
	}
	units := unitsFor(thorough)
	if only := os.Getenv("C02_ONLY"); only != "" { // development aid: run only units whose name contains the string
		var sel []unit
		for _, u := range units {
			if strings.Contains(u.String(), only) {
				sel = append(sel, u)
			}
		}
		units = sel
		c.Cap("C02_ONLY=" + only + " restricts the run to a subset of the units")
	}
	results := runAll(c, units)

	type agg struct {
		cases, nontrivial, distinct, streams, calls int64
		byOp, outcomes                              map[string]int64
	}
	sides := map[string]*agg{"server": {byOp: map[string]int64{}, outcomes: map[string]int64{}}, "client": {byOp: map[string]int64{}, outcomes: map[string]int64{}}}
	var shapeInfo = map[string]any{}
	for i, r := range results {
		u := units[i]
		if r.SetupFailed != "" {
			c.Violation("baseline:genuine-session-cannot-be-recorded", "a genuine session between the real client and the real server over the in-memory connection fails: "+r.SetupFailed, caseRec{Unit: u, Cfg: allCfgs()[u.Cfg].String(), Base: "X0"})
			continue
		}
		if r.Capped {
			c.Cap("unit " + r.Unit + ": time budget reached before all operators were applied")
		}
		a := sides[u.Side]
		a.cases += r.Cases
		a.nontrivial += r.Nontrivial
		a.distinct += r.Distinct
		a.streams += r.Streams
		a.calls += r.Calls
		for k, v := range r.ByOp {
			a.byOp[k] += v
		}
		for k, v := range r.Outcomes {
			a.outcomes[k] += v
		}
		c.Count(r.Cases, r.Distinct, r.Calls)
		for j := int64(0); j < r.Distinct; j++ {
			c.Distinct(r.Unit+"#"+strconv.FormatInt(j, 10), true)
		}
		if stride := len(units)/12 + 1; i%stride == 0 && len(r.Samples) > 0 {
			c.Sample(r.Samples[(i/stride)%len(r.Samples)])
		}
		if u.Cfg == 12 && u.Side == "server" { // aes-128, EIH, prefix, no fallback: the layout with every kind of segment
			shapeInfo[u.Shape] = r.Segments
		}
		for _, v := range r.Viols {
			c.Violation(v.Sig, v.What, v.Replay)
		}
	}
	for _, side := range []string{"server", "client"} {
		a := sides[side]
		c.Part(side, map[string]any{"cases": a.cases, "cases_with_altered_stream": a.nontrivial, "distinct_altered_stream_x_reader": a.distinct, "distinct_presented_streams": a.streams, "calls_into_real_code": a.calls, "cases_by_operator": a.byOp, "outcomes": a.outcomes})
	}
	var cfgNames []string
	for _, cf := range allCfgs() {
		cfgNames = append(cfgNames, cf.String())
	}
	var shapeNames []string
	for _, sh := range shapes {
		if !sh.Thor || thorough {
			shapeNames = append(shapeNames, fmt.Sprintf("%s{target_domain=%v initial_payload=%d padding_draw=%d client_writes=%v server_writes=%v}", sh.Name, sh.Domain, sh.P0, sh.Pad, sh.CW, sh.SW))
		}
	}
	c.Extra["alphabet"] = map[string]any{
		"configurations":                       cfgNames,
		"session_shapes":                       shapeNames,
		"sessions":                             "per configuration and shape: X0 (user alice / the PSK), X1 (same key, other salt and data), with identity headers also X2 (user bob, held), F1 (key the server does not hold), with identity headers also F2 (held user key under a foreign identity key)",
		"operators":                            "id; cut(offset); flip(offset,bit); app(1|18 garbage bytes); drop/dup(segment, 1|2 segments); swap(i,j) all segment pairs; swap2(i) adjacent segment pairs; ins/repl(segment) garbage of the segment's size; reflect (opposite direction); subst(other session); splice(a,b,other) head of base up to boundary a + tail of other from boundary b; rsplice (client) head of other + tail of base",
		"flip_density":                         harness.Pick(c, "all 8 bits of every byte of prefix, salt, identity header, header chunks, length chunks and of variable-header/payload chunks up to 64 bytes; longer ones: bit 0 of every byte (up to 1024 bytes) and all bits of first 4, middle, last 2 body bytes and the 16 tag bytes", "all 8 bits of every byte of segments up to 4096 bytes; longer segments: all bits of first 16, middle, last 4 body bytes, all 16 tag bytes, bit 0 of every 251st byte; plus flip2 = two simultaneous flips at first/last bytes of every two segments"),
		"cut_offsets":                          harness.Pick(c, "every offset of the first 4096 bytes, then every segment boundary -1/0/+1", "every offset of the first 8192 bytes, then every segment boundary -1/0/+1"),
		"splice_pairs":                         "all boundary pairs (a,b) of base and other session",
		"full_operator_set_on":                 harness.Pick(c, "X0; other sessions as base (server side): id, subst, splice", "X0, X1 and X2 (both sides); F1/F2 as base (server side): id, subst, splice"),
		"shapes_per_configuration":             harness.Pick(c, "seg0 configurations: all quick shapes; seg1 configurations: basic3 and tiny2", "all shapes for all configurations"),
		"reads_after_first_error":              afterErrorReads,
		"reader_modes":                         modes,
		"segments_of_layout_aes128_eih_prefix": shapeInfo,
	}
	c.Extra["units"] = len(units)
	c.Finish()
}
