package main

import (
	"bytes"
	"context"
	"io"
	"net"
	"time"

	"github.com/database64128/shadowsocks-go/conn"
	"github.com/database64128/shadowsocks-go/netio"
)

// memConn is a deterministic, single-threaded in-memory stream endpoint: Read
// hands out the scripted input (as much as fits, then io.EOF), Write records
// every write as one record.  No goroutines, no timers, no blocking.
type memConn struct {
	in     []byte
	off    int
	writes [][]byte
}

var _ netio.Conn = (*memConn)(nil)

func (c *memConn) Read(b []byte) (int, error) {
	if len(b) == 0 {
		return 0, nil
	}
	if c.off >= len(c.in) {
		return 0, io.EOF
	}
	n := copy(b, c.in[c.off:])
	c.off += n
	return n, nil
}

func (c *memConn) Write(b []byte) (int, error) {
	c.writes = append(c.writes, bytes.Clone(b))
	return len(b), nil
}

func (c *memConn) written() []byte { return bytes.Join(c.writes, nil) }

type memAddr struct{}

func (memAddr) Network() string { return "mem" }
func (memAddr) String() string  { return "mem" }

func (c *memConn) Close() error                       { return nil }
func (c *memConn) CloseWrite() error                  { return nil }
func (c *memConn) LocalAddr() net.Addr                { return memAddr{} }
func (c *memConn) RemoteAddr() net.Addr               { return memAddr{} }
func (c *memConn) SetDeadline(t time.Time) error      { return nil }
func (c *memConn) SetReadDeadline(t time.Time) error  { return nil }
func (c *memConn) SetWriteDeadline(t time.Time) error { return nil }

// memDialer is the inner stream client of the ss2022 client under test: the
// "network" it dials is a memConn that records the request.
type memDialer struct{ conn *memConn }

var _ netio.StreamClient = (*memDialer)(nil)

func (d *memDialer) DialStream(ctx context.Context, addr conn.Addr, payload []byte) (netio.Conn, error) {
	d.conn = &memConn{}
	if len(payload) > 0 {
		d.conn.Write(payload)
	}
	return d.conn, nil
}

func (d *memDialer) NewStreamDialer() (netio.StreamDialer, netio.StreamDialerInfo) {
	return d, netio.StreamDialerInfo{Name: "mem", NativeInitialPayload: true}
}

// sink collects what WriteTo hands to the application.
type sink struct{ b []byte }

func (s *sink) Write(p []byte) (int, error) { s.b = append(s.b, p...); return len(p), nil }
