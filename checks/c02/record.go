package main

import (
	"bytes"
	"context"
	"fmt"
	"io"
	"net/netip"

	"github.com/database64128/shadowsocks-go/conn"
	"github.com/database64128/shadowsocks-go/netio"
	"github.com/database64128/shadowsocks-go/ss2022"
	"go.uber.org/zap"

	"verif/shim/vcrand"
	"verif/shim/vrand"
	"verif/vsched"
)

// Virtual instants: sessions are recorded at t0, every tampered variant is
// presented one second later to a fresh endpoint (empty salt pool, timestamp
// well inside the acceptance window).
const (
	t0ns     = int64(1_700_000_000)*1_000_000_000 + 500_000_000
	replayNS = t0ns + 1_000_000_000
)

var nopLogger = zap.NewNop()

// ---------------------------------------------------------------------------
// configuration matrix

type cfgSpec struct {
	KeyLen   int  // 16 = 2022-blake3-aes-128-gcm, 32 = 2022-blake3-aes-256-gcm
	EIH      bool // identity header (one iPSK, several users) or single PSK
	Prefix   bool // 8-byte unsafe request/response stream prefixes
	Fallback bool // unsafe fallback address configured on the server
	Seg      bool // AllowSegmentedFixedLengthHeader
}

func (c cfgSpec) String() string {
	b := func(v bool) int {
		if v {
			return 1
		}
		return 0
	}
	return fmt.Sprintf("aes%d;eih%d;pfx%d;fb%d;seg%d", c.KeyLen*8, b(c.EIH), b(c.Prefix), b(c.Fallback), b(c.Seg))
}

func allCfgs() []cfgSpec {
	var out []cfgSpec
	for _, kl := range []int{16, 32} {
		for _, eih := range []bool{false, true} {
			for _, pfx := range []bool{false, true} {
				for _, fb := range []bool{false, true} {
					for _, seg := range []bool{false, true} {
						out = append(out, cfgSpec{kl, eih, pfx, fb, seg})
					}
				}
			}
		}
	}
	return out
}

var (
	reqPrefix    = []byte("GET / HT")
	respPrefix   = []byte("HTTP/1.1")
	fallbackAddr = conn.AddrFromIPAndPort(netip.AddrFrom4([4]byte{127, 0, 0, 9}), 9999)
)

func key(tag byte, n int) []byte {
	k := make([]byte, n)
	for i := range k {
		k[i] = tag*17 + byte(i)*3 + 1
	}
	return k
}

// Key tags.  The server under test holds PSK 1 (no EIH) or iPSK 100 with users
// alice=1, bob=2, carol=3 (EIH).
const (
	tagIPSK        = 100
	tagForeignIPSK = 101
	tagForeignUser = 9
)

var userNames = map[byte]string{1: "alice", 2: "bob", 3: "carol", tagForeignUser: "mallory"}

// variant = who speaks: which keys, which application data, which salt stream.
type variant struct {
	Name string
	Idx  int  // selects application data pattern and the position in the deterministic random stream
	UKey byte // user / single PSK tag
	IKey byte // iPSK tag (EIH only)
	Held bool // the server under test holds these keys
}

func variantsFor(c cfgSpec) []variant {
	if !c.EIH {
		return []variant{
			{"X0", 0, 1, 0, true},
			{"X1-samekey", 1, 1, 0, true},
			{"F1-foreignkey", 3, tagForeignUser, 0, false},
		}
	}
	return []variant{
		{"X0", 0, 1, tagIPSK, true},
		{"X1-samekey", 1, 1, tagIPSK, true},
		{"X2-otheruser", 2, 2, tagIPSK, true},
		{"F1-foreignkey", 3, tagForeignUser, tagIPSK, false},
		{"F2-foreignipsk", 4, 1, tagForeignIPSK, false},
	}
}

// ---------------------------------------------------------------------------
// session shapes

type shape struct {
	Name   string
	Domain bool  // target given as domain name instead of IPv4
	P0     int   // initial payload carried in the request header
	Pad    int   // answer to the padding-length draw (clamped to its range)
	CW     []int // client writes after the request
	SW     []int // server writes (the first travels with the response header)
	Tiny   bool  // first write of each direction is the two bytes 00 02 (payload chunk as large as a length chunk)
	Thor   bool  // thorough tier only
	Long   bool  // many small chunks: only same-kind, same-size segment swaps at every distance (nonce-sequence periodicity)
}

var shapes = []shape{
	{Name: "basic3", P0: 5, Pad: 3, CW: []int{7, 2, 4}, SW: []int{6, 2, 9}},
	{Name: "tiny2", Domain: true, P0: 0, Pad: 0, CW: []int{2, 5, 2}, SW: []int{2, 5, 2}, Tiny: true},
	{Name: "nopad300", P0: 900, Pad: 0, CW: []int{300}, SW: []int{300, 1}},
	{Name: "maxpad1", Domain: true, P0: 0, Pad: 899, CW: []int{1, 1, 1}, SW: []int{1, 1, 1}},
	{Name: "five", P0: 1, Pad: 1, CW: []int{1, 2, 3, 4, 5}, SW: []int{5, 4, 3, 2, 1}, Thor: true},
	{Name: "p899", Domain: true, P0: 899, Pad: 0, CW: []int{18, 16}, SW: []int{18, 16, 2}, Thor: true},
	{Name: "long300", P0: 0, Pad: 0, CW: rep(8, 300), SW: rep(8, 300), Long: true},
	{Name: "big64k", P0: 1000, Pad: 0, CW: []int{65535, 70000}, SW: []int{70000, 65535}, Thor: true},
}

func rep(v, n int) []int {
	out := make([]int, n)
	for i := range out {
		out[i] = v
	}
	return out
}

func shapeByName(n string) (shape, bool) {
	for _, s := range shapes {
		if s.Name == n {
			return s, true
		}
	}
	return shape{}, false
}

func (s shape) target() conn.Addr {
	if s.Domain {
		return conn.MustAddrFromDomainPort("c02.example", 443)
	}
	return conn.AddrFromIPAndPort(netip.AddrFrom4([4]byte{192, 0, 2, 7}), 8080)
}

// appData is the application data of one direction of one variant: a pattern
// that differs between variants and directions, so that bytes of one session
// showing up in another are recognisable.
func appData(s shape, idx int, dir byte, sizes []int, p0 int) (all []byte, parts [][]byte) {
	total := p0
	for _, n := range sizes {
		total += n
	}
	all = make([]byte, total)
	for i := range all {
		all[i] = byte(i*7+i>>8) ^ byte(idx*59+17) ^ (dir * 0xA5)
	}
	off := p0
	for k, n := range sizes {
		if s.Tiny && k == 0 && n == 2 {
			all[off], all[off+1] = 0x00, 0x02
		}
		parts = append(parts, all[off:off+n])
		off += n
	}
	return all, parts
}

// ---------------------------------------------------------------------------
// recorded streams

type seg struct {
	Kind string // prefix salt eih fixhdr varhdr len pay resphdr
	Off  int
	End  int
	Cum  int // application bytes deliverable once everything up to End arrived intact
}

type stream struct {
	B      []byte
	Segs   []seg
	Plain  []byte
	HsEnd  int // request: end of the variable-length header chunk; response: end of the response header chunk
	FixEnd int // request: end of the fixed-length header chunk
}

func (st *stream) bounds() []int {
	out := []int{0}
	for _, s := range st.Segs {
		out = append(out, s.End)
	}
	return out
}

// deliverable returns how many application bytes are covered by segments that
// lie entirely inside the first d bytes.
func (st *stream) deliverable(d int) int {
	n := 0
	for _, s := range st.Segs {
		if s.End <= d {
			n = s.Cum
		}
	}
	return n
}

// insideRecord reports whether T is a truncation of the stream that ends
// inside a record, i.e. not at the end of the handshake or of a payload chunk
// (where an end of stream is indistinguishable from the peer closing).
func (st *stream) insideRecord(T []byte) bool {
	n := len(T)
	if n >= len(st.B) || commonPrefix(T, st.B) != n {
		return false
	}
	if n == 0 {
		return false
	}
	for _, s := range st.Segs {
		if s.End == n && (s.Kind == "pay" || s.Kind == "varhdr") {
			return false
		}
	}
	return true
}

func (st *stream) kindAt(off int) string {
	for _, s := range st.Segs {
		if off < s.End {
			return s.Kind
		}
	}
	return "end"
}

type session struct {
	V       variant
	C2S     stream
	S2C     stream
	Target  conn.Addr
	User    string
	P0      []byte
	ReqHead []byte // what DialStream itself wrote (request incl. initial payload)
}

// ---------------------------------------------------------------------------
// building real endpoints

type env struct {
	Cfg   cfgSpec
	Shape shape
	Sess  []*session
	ulm   ss2022.UserLookupMap
}

func must[T any](v T, err error) T {
	if err != nil {
		panic("c02 setup: " + err.Error())
	}
	return v
}

func (e *env) serverConfigFor(uKey, iKey byte, users []byte) (ss2022.StreamServerConfig, ss2022.UserLookupMap) {
	c := e.Cfg
	sc := ss2022.StreamServerConfig{AllowSegmentedFixedLengthHeader: c.Seg}
	var ulm ss2022.UserLookupMap
	if c.EIH {
		sc.IdentityCipherConfig = must(ss2022.NewServerIdentityCipherConfig(key(iKey, c.KeyLen), false))
		ulm = ss2022.UserLookupMap{}
		for _, u := range users {
			k := key(u, c.KeyLen)
			ulm[ss2022.PSKHash(k)] = must(ss2022.NewServerUserCipherConfig(userNames[u], k, false))
		}
	} else {
		sc.UserCipherConfig = must(ss2022.NewUserCipherConfig(key(uKey, c.KeyLen), false))
	}
	if c.Prefix {
		sc.UnsafeRequestStreamPrefix = reqPrefix
		sc.UnsafeResponseStreamPrefix = respPrefix
	}
	if c.Fallback {
		sc.UnsafeFallbackAddr = fallbackAddr
	}
	return sc, ulm
}

// newServer returns a fresh instance (empty salt pool) of the server under test.
func (e *env) newServer() *ss2022.StreamServer {
	sc, ulm := e.serverConfigFor(1, tagIPSK, []byte{1, 2, 3})
	if e.ulm == nil {
		e.ulm = ulm
	}
	s := sc.NewStreamServer()
	s.ReplaceUserLookupMap(e.ulm)
	return s
}

func (e *env) newClient(v variant, d *memDialer) *ss2022.StreamClient {
	c := e.Cfg
	var ipsks [][]byte
	if c.EIH {
		ipsks = [][]byte{key(v.IKey, c.KeyLen)}
	}
	cc := ss2022.StreamClientConfig{
		Name:                            "c02",
		InnerClient:                     d,
		Addr:                            conn.AddrFromIPAndPort(netip.AddrFrom4([4]byte{198, 51, 100, 1}), 20220),
		AllowSegmentedFixedLengthHeader: c.Seg,
		CipherConfig:                    must(ss2022.NewClientCipherConfig(key(v.UKey, c.KeyLen), ipsks, false)),
	}
	if c.Prefix {
		cc.UnsafeRequestStreamPrefix = reqPrefix
		cc.UnsafeResponseStreamPrefix = respPrefix
	}
	return cc.NewStreamClient()
}

// seedRand positions the deterministic crypto/rand stream for variant idx, so
// that every re-dial of that variant produces the recorded salt again and
// different variants get different salts.
func seedRand(idx int) {
	vcrand.Deterministic = true
	vcrand.Reset()
	if idx > 0 {
		vcrand.Read(make([]byte, 64*idx))
	}
}

func (e *env) setHooks() {
	pad := e.Shape.Pad
	vrand.Hook = func(n int) int {
		if n <= 0 {
			return 0
		}
		return min(pad, n-1)
	}
}

// dial performs a real DialStream of variant v at instant t0 and returns the
// client connection and the memConn under it.
func (e *env) dial(v variant) (netio.Conn, *memConn, error) {
	vsched.SetClock(t0ns)
	seedRand(v.Idx)
	d := &memDialer{}
	cl := e.newClient(v, d)
	all, _ := appData(e.Shape, v.Idx, 0, e.Shape.CW, e.Shape.P0)
	cc, err := cl.DialStream(context.Background(), e.Shape.target(), all[:e.Shape.P0])
	if err != nil {
		return nil, nil, err
	}
	return cc, d.conn, nil
}

// splitChunks mirrors the sender's documented chunking (at most 65535 bytes
// per payload chunk) only to know how many application bytes each recorded
// write carries; the byte sizes themselves come from the recorded writes.
func recordSession(e *env, v variant) (*session, error) {
	sh := e.Shape
	c := e.Cfg
	s := &session{V: v, Target: sh.target()}
	if c.EIH {
		s.User = userNames[v.UKey]
	}
	plainC, partsC := appData(sh, v.Idx, 0, sh.CW, sh.P0)
	plainS, partsS := appData(sh, v.Idx, 1, sh.SW, 0)
	s.P0 = plainC[:sh.P0]

	cc, mc, err := e.dial(v)
	if err != nil {
		return nil, fmt.Errorf("DialStream: %w", err)
	}
	s.ReqHead = mc.written()
	for _, p := range partsC {
		if n, err := cc.Write(p); err != nil || n != len(p) {
			return nil, fmt.Errorf("client write: n=%d err=%v", n, err)
		}
	}
	cWrites := mc.writes
	s.C2S.B = mc.written()
	s.C2S.Plain = plainC

	// the session's own server (holds this variant's keys)
	sc, ulm := e.serverConfigFor(v.UKey, v.IKey, []byte{v.UKey})
	srv := sc.NewStreamServer()
	srv.ReplaceUserLookupMap(ulm)
	sconnRaw := &memConn{in: s.C2S.B}
	req, err := srv.HandleStream(sconnRaw, nopLogger)
	if err != nil {
		return nil, fmt.Errorf("HandleStream of the genuine request: %w", err)
	}
	sconn, err := req.PendingConn.Proceed()
	if err != nil {
		return nil, err
	}
	if netio.Conn(sconnRaw) == sconn {
		return nil, fmt.Errorf("genuine request was sent to the fallback")
	}
	got := bytes.Clone(req.Payload)
	rest, err := io.ReadAll(sconn)
	if err != nil {
		return nil, fmt.Errorf("server read of the genuine stream: %w", err)
	}
	got = append(got, rest...)
	if !bytes.Equal(got, plainC) || !req.Addr.Equals(s.Target) || req.Username != s.User {
		return nil, fmt.Errorf("genuine session not delivered faithfully to the server (addr %v user %q, %d of %d bytes equal)", req.Addr, req.Username, commonPrefix(got, plainC), len(plainC))
	}
	for _, p := range partsS {
		if n, err := sconn.Write(p); err != nil || n != len(p) {
			return nil, fmt.Errorf("server write: n=%d err=%v", n, err)
		}
	}
	sWrites := sconnRaw.writes
	s.S2C.B = sconnRaw.written()
	s.S2C.Plain = plainS
	mc.in = s.S2C.B
	back, err := io.ReadAll(cc)
	if err != nil || !bytes.Equal(back, plainS) {
		return nil, fmt.Errorf("genuine response not delivered faithfully to the client (%d of %d bytes, err=%v)", commonPrefix(back, plainS), len(plainS), err)
	}

	// structural segmentation from the recorded write boundaries and the
	// documented sizes (ss2022/header.go, stream.go)
	const tag = 16
	pfx := 0
	if c.Prefix {
		pfx = 8
	}
	{
		st := &s.C2S
		off := 0
		add := func(kind string, n, cum int) {
			st.Segs = append(st.Segs, seg{kind, off, off + n, cum})
			off += n
		}
		if pfx > 0 {
			add("prefix", pfx, 0)
		}
		add("salt", c.KeyLen, 0)
		if c.EIH {
			add("eih", 16, 0)
		}
		add("fixhdr", 11+tag, 0)
		st.FixEnd = off
		w0 := len(cWrites[0])
		if w0-off < tag+1 {
			return nil, fmt.Errorf("request write too short: %d", w0)
		}
		add("varhdr", w0-off, sh.P0)
		st.HsEnd = off
		cum := sh.P0
		for _, w := range cWrites[1:] {
			n := len(w) - 2 - tag - tag
			if n <= 0 {
				return nil, fmt.Errorf("unexpected client write of %d bytes", len(w))
			}
			add("len", 2+tag, cum)
			cum += n
			add("pay", n+tag, cum)
		}
		if off != len(st.B) || cum != len(plainC) {
			return nil, fmt.Errorf("request segmentation does not add up: %d/%d bytes, %d/%d application bytes", off, len(st.B), cum, len(plainC))
		}
	}
	{
		st := &s.S2C
		off := 0
		add := func(kind string, n, cum int) {
			st.Segs = append(st.Segs, seg{kind, off, off + n, cum})
			off += n
		}
		if pfx > 0 {
			add("prefix", pfx, 0)
		}
		add("salt", c.KeyLen, 0)
		add("resphdr", 1+8+c.KeyLen+2+tag, 0)
		st.HsEnd = off
		st.FixEnd = off
		n1 := len(sWrites[0]) - off - tag
		if n1 <= 0 {
			return nil, fmt.Errorf("first response write too short: %d", len(sWrites[0]))
		}
		cum := n1
		add("pay", n1+tag, cum)
		for _, w := range sWrites[1:] {
			n := len(w) - 2 - tag - tag
			if n <= 0 {
				return nil, fmt.Errorf("unexpected server write of %d bytes", len(w))
			}
			add("len", 2+tag, cum)
			cum += n
			add("pay", n+tag, cum)
		}
		if off != len(st.B) || cum != len(plainS) {
			return nil, fmt.Errorf("response segmentation does not add up: %d/%d bytes, %d/%d application bytes", off, len(st.B), cum, len(plainS))
		}
	}
	return s, nil
}

func newEnv(c cfgSpec, sh shape) (*env, error) {
	e := &env{Cfg: c, Shape: sh}
	e.setHooks()
	for _, v := range variantsFor(c) {
		s, err := recordSession(e, v)
		if err != nil {
			return nil, fmt.Errorf("%s/%s/%s: %w", c, sh.Name, v.Name, err)
		}
		e.Sess = append(e.Sess, s)
	}
	return e, nil
}

func (e *env) sess(name string) *session {
	for _, s := range e.Sess {
		if s.V.Name == name {
			return s
		}
	}
	return nil
}

func commonPrefix(a, b []byte) int {
	n := min(len(a), len(b))
	for i := 0; i < n; i++ {
		if a[i] != b[i] {
			return i
		}
	}
	return n
}
