package main

import (
	"fmt"
)

// op is one tamper operator instance.  It is also the replay record of a case.
type op struct {
	Name  string `json:"name"`
	A     int    `json:"a"`
	B     int    `json:"b"`
	Other string `json:"other,omitempty"` // second session for splice / substitution
}

func (o op) String() string {
	if o.Other != "" {
		return fmt.Sprintf("%s(%d,%d,%s)", o.Name, o.A, o.B, o.Other)
	}
	return fmt.Sprintf("%s(%d,%d)", o.Name, o.A, o.B)
}

func garbage(n, salt int) []byte {
	b := make([]byte, n)
	for i := range b {
		b[i] = byte(0xA5 ^ (i * 13) ^ salt)
	}
	return b
}

func cat(parts ...[]byte) []byte {
	n := 0
	for _, p := range parts {
		n += len(p)
	}
	out := make([]byte, 0, n)
	for _, p := range parts {
		out = append(out, p...)
	}
	return out
}

func (e *env) streamOf(s *session, side string) *stream {
	if side == "server" {
		return &s.C2S // what a server receives
	}
	return &s.S2C // what a client receives
}

// build produces the byte stream the endpoint under test receives.
func (e *env) build(side string, base *session, o op) ([]byte, error) {
	G := e.streamOf(base, side)
	g := G.B
	bd := G.bounds()
	m := len(G.Segs)
	segOK := func(i, cnt int) error {
		if i < 0 || cnt < 1 || i+cnt > m {
			return fmt.Errorf("segment range %d+%d outside 0..%d", i, cnt, m)
		}
		return nil
	}
	switch o.Name {
	case "id":
		return cat(g), nil
	case "flip":
		if o.A < 0 || o.A >= len(g) || o.B < 0 || o.B > 7 {
			return nil, fmt.Errorf("flip outside stream")
		}
		t := cat(g)
		t[o.A] ^= 1 << uint(o.B)
		return t, nil
	case "flip2":
		if o.A < 0 || o.A >= len(g) || o.B < 0 || o.B >= len(g) {
			return nil, fmt.Errorf("flip2 outside stream")
		}
		t := cat(g)
		t[o.A] ^= 1
		t[o.B] ^= 1
		return t, nil
	case "cut":
		if o.A < 0 || o.A > len(g) {
			return nil, fmt.Errorf("cut outside stream")
		}
		return cat(g[:o.A]), nil
	case "app":
		return cat(g, garbage(o.A, 1)), nil
	case "drop":
		if err := segOK(o.A, o.B); err != nil {
			return nil, err
		}
		return cat(g[:bd[o.A]], g[bd[o.A+o.B]:]), nil
	case "dup":
		if err := segOK(o.A, o.B); err != nil {
			return nil, err
		}
		return cat(g[:bd[o.A+o.B]], g[bd[o.A]:bd[o.A+o.B]], g[bd[o.A+o.B]:]), nil
	case "swap":
		if err := segOK(o.A, 1); err != nil {
			return nil, err
		}
		if err := segOK(o.B, 1); err != nil {
			return nil, err
		}
		if o.A >= o.B {
			return nil, fmt.Errorf("swap needs a<b")
		}
		return cat(g[:bd[o.A]], g[bd[o.B]:bd[o.B+1]], g[bd[o.A+1]:bd[o.B]], g[bd[o.A]:bd[o.A+1]], g[bd[o.B+1]:]), nil
	case "swap2":
		if err := segOK(o.A, 4); err != nil {
			return nil, err
		}
		return cat(g[:bd[o.A]], g[bd[o.A+2]:bd[o.A+4]], g[bd[o.A]:bd[o.A+2]], g[bd[o.A+4]:]), nil
	case "ins":
		if err := segOK(o.A, 1); err != nil {
			return nil, err
		}
		return cat(g[:bd[o.A]], garbage(bd[o.A+1]-bd[o.A], 2), g[bd[o.A]:]), nil
	case "repl":
		if err := segOK(o.A, 1); err != nil {
			return nil, err
		}
		return cat(g[:bd[o.A]], garbage(bd[o.A+1]-bd[o.A], 3), g[bd[o.A+1]:]), nil
	case "splice", "rsplice", "subst":
		y := e.sess(o.Other)
		if y == nil {
			return nil, fmt.Errorf("unknown session %q", o.Other)
		}
		Y := e.streamOf(y, side)
		yb := Y.bounds()
		switch o.Name {
		case "subst":
			return cat(Y.B), nil
		case "splice": // head of the base session, tail of the other
			if o.A < 0 || o.A > m || o.B < 0 || o.B >= len(yb) {
				return nil, fmt.Errorf("splice boundary outside stream")
			}
			return cat(g[:bd[o.A]], Y.B[yb[o.B]:]), nil
		default: // head of the other session, tail of the base
			if o.A < 0 || o.A >= len(yb) || o.B < 0 || o.B > m {
				return nil, fmt.Errorf("rsplice boundary outside stream")
			}
			return cat(Y.B[:yb[o.A]], g[bd[o.B]:]), nil
		}
	case "reflect": // the opposite direction of the same session
		if side == "server" {
			return cat(base.S2C.B), nil
		}
		return cat(base.C2S.B), nil
	}
	return nil, fmt.Errorf("unknown operator %q", o.Name)
}

// flipPlan lists (offset, bit mask) pairs of a segment that receive bit flips.
//
// quick: every bit of every byte of prefix, salt, identity header, header and
// length chunks and of variable header / payload chunks up to 64 bytes; longer
// variable header / payload chunks get bit 0 of every byte (up to 1024 bytes)
// and all bits of the first 4, the middle, the last 2 body bytes and the tag.
// thorough: every bit of every byte of segments up to 4096 bytes; longer ones
// get all bits of the first 16, middle, last 4 body bytes and the tag, and bit
// 0 of every 251st byte.
func flipPlan(s seg, thorough bool) (offs []int, masks []byte) {
	n := s.End - s.Off
	long := s.Kind == "varhdr" || s.Kind == "pay"
	dense := 1 << 30
	if long {
		dense = 64
	}
	if thorough {
		dense = 4096
	}
	if n <= dense {
		for i := s.Off; i < s.End; i++ {
			offs = append(offs, i)
			masks = append(masks, 0xff)
		}
		return
	}
	m := map[int]byte{}
	set := func(i int, mask byte) {
		if i >= s.Off && i < s.End {
			m[i] |= mask
		}
	}
	headN, tailN := 4, 2
	if thorough {
		headN, tailN = 16, 4
	}
	for i := 0; i < headN; i++ {
		set(s.Off+i, 0xff)
	}
	set(s.Off+n/2, 0xff)
	for i := 0; i < tailN; i++ {
		set(s.End-16-1-i, 0xff)
	}
	for i := 0; i < 16; i++ {
		set(s.End-16+i, 0xff)
	}
	if thorough {
		for i := s.Off; i < s.End; i += 251 {
			set(i, 1)
		}
	} else if n <= 1024 {
		for i := s.Off; i < s.End; i++ {
			set(i, 1)
		}
	}
	for i := s.Off; i < s.End; i++ {
		if mk, ok := m[i]; ok {
			offs = append(offs, i)
			masks = append(masks, mk)
		}
	}
	return
}

// forEachOp enumerates every tamper operator instance for one base session
// and one side, simplest first.  full=false restricts to identity + splices
// (used for the secondary sessions).
func (e *env) forEachOp(side string, base *session, full, thorough bool, f func(o op)) {
	G := e.streamOf(base, side)
	bd := G.bounds()
	m := len(G.Segs)
	f(op{Name: "id"})
	if e.Shape.Long {
		// long sessions: every swap of two segments of the same kind and size, at every distance
		if full {
			for i := 0; i < m; i++ {
				for j := i + 1; j < m; j++ {
					a, b := G.Segs[i], G.Segs[j]
					if a.Kind == b.Kind && (a.Kind == "len" || a.Kind == "pay") && a.End-a.Off == b.End-b.Off {
						f(op{Name: "swap", A: i, B: j})
					}
				}
			}
		}
		return
	}
	if full {
		// truncation: every offset of the handshake and of the first chunks
		// (quick: up to 4096 bytes; thorough: up to 8192), structural offsets +-1 beyond
		denseCut := 4096
		if thorough {
			denseCut = 8192
		}
		cuts := map[int]bool{}
		for off := 0; off < len(G.B) && off <= denseCut; off++ {
			cuts[off] = true
			f(op{Name: "cut", A: off})
		}
		for _, b := range bd {
			for _, off := range []int{b - 1, b, b + 1} {
				if off >= 0 && off < len(G.B) && !cuts[off] {
					cuts[off] = true
					f(op{Name: "cut", A: off})
				}
			}
		}
		// bit flips
		for _, s := range G.Segs {
			offs, masks := flipPlan(s, thorough)
			for k, off := range offs {
				for b := 0; b < 8; b++ {
					if masks[k]&(1<<uint(b)) != 0 {
						f(op{Name: "flip", A: off, B: b})
					}
				}
			}
		}
		for _, n := range []int{1, 18} {
			f(op{Name: "app", A: n})
		}
		for cnt := 1; cnt <= 2; cnt++ {
			for i := 0; i+cnt <= m; i++ {
				f(op{Name: "drop", A: i, B: cnt})
			}
			for i := 0; i+cnt <= m; i++ {
				f(op{Name: "dup", A: i, B: cnt})
			}
		}
		for i := 0; i < m; i++ {
			for j := i + 1; j < m; j++ {
				f(op{Name: "swap", A: i, B: j})
			}
		}
		for i := 0; i+4 <= m; i++ {
			f(op{Name: "swap2", A: i})
		}
		for i := 0; i < m; i++ {
			f(op{Name: "ins", A: i})
			f(op{Name: "repl", A: i})
		}
		f(op{Name: "reflect"})
		if thorough {
			// two simultaneous faults: bit 0 of the first/last byte of two different segments
			var pts []int
			for _, sg := range G.Segs {
				pts = append(pts, sg.Off)
				if sg.End-1 > sg.Off {
					pts = append(pts, sg.End-1)
				}
			}
			for i := 0; i < len(pts); i++ {
				for j := i + 1; j < len(pts); j++ {
					f(op{Name: "flip2", A: pts[i], B: pts[j]})
				}
			}
		}
	}
	for _, y := range e.Sess {
		if y == base {
			continue
		}
		Y := e.streamOf(y, side)
		my := len(Y.Segs)
		f(op{Name: "subst", Other: y.V.Name})
		for a := 0; a <= m; a++ {
			for b := 0; b <= my; b++ {
				if a == 0 && b == 0 {
					continue // = subst
				}
				f(op{Name: "splice", A: a, B: b, Other: y.V.Name})
			}
		}
		if side == "client" {
			for a := 1; a <= my; a++ {
				for b := 0; b <= m; b++ {
					if a == my && b == m {
						continue // = subst
					}
					f(op{Name: "rsplice", A: a, B: b, Other: y.V.Name})
				}
			}
		}
	}
}
