package main

// A deterministic in-memory duplex stream connection (netio.Conn).
//
// Each direction ("half") is a FIFO of whole writes.  The reader decides the
// fragmentation: one Read returns
//
//	min(len(p), rest of the oldest queued write, distance to the next scripted boundary)
//
// bytes, where scripted boundaries are explicit cut offsets and/or a grid
// "every k bytes from offset f on".  A write is queued atomically, so the size
// of every Read depends only on the write sizes, the script and the reader's
// buffer sizes -- never on goroutine timing.  A bounded capacity only makes
// writers wait (back-pressure); it never changes what a Read returns.
//
// All blocking happens on one condition variable per case ("world"), which
// lets the world detect a true deadlock exactly: every live goroutine of the
// case is waiting and none of the wait predicates holds.

import (
	"errors"
	"io"
	"net"
	"sync"
	"time"
)

var (
	errDeadlock    = errors.New("c01pipe: deadlock (every goroutine of the case is blocked)")
	errWriteClosed = errors.New("c01pipe: write after CloseWrite")
	errRunaway     = errors.New("c01pipe: transport budget exceeded (runaway loop: far more traffic than any case needs)")
)

type world struct {
	mu      sync.Mutex
	cond    *sync.Cond
	live    int
	nextID  int
	waiters map[int]func() bool
	dead    bool
	wg      sync.WaitGroup
	panics  []string
}

// newWorld returns a world whose creator holds one "live" token, so that no
// deadlock is declared while the creator is still starting goroutines; the
// creator gives it back with release.
func newWorld() *world {
	w := &world{waiters: map[int]func() bool{}, live: 1}
	w.cond = sync.NewCond(&w.mu)
	return w
}

func (w *world) release() {
	w.mu.Lock()
	w.live--
	w.checkDeadLocked()
	w.mu.Unlock()
}

// Go starts a goroutine that belongs to the case.  onPanic runs (outside the
// lock) if f panics, so that the role's pipe ends can be shut down.
func (w *world) Go(name string, f func(), onPanic func(msg string)) {
	w.mu.Lock()
	w.live++
	w.mu.Unlock()
	w.wg.Add(1)
	go func() {
		defer w.wg.Done()
		defer func() {
			w.mu.Lock()
			w.live--
			w.checkDeadLocked()
			w.mu.Unlock()
		}()
		defer func() {
			if r := recover(); r != nil {
				msg := name + ": " + panicString(r)
				w.mu.Lock()
				w.panics = append(w.panics, msg)
				w.mu.Unlock()
				if onPanic != nil {
					onPanic(msg)
				}
			}
		}()
		f()
	}()
}

// checkDeadLocked is called with mu held.
func (w *world) checkDeadLocked() {
	if w.dead || w.live == 0 || len(w.waiters) < w.live {
		return
	}
	for _, p := range w.waiters {
		if p() {
			return
		}
	}
	w.dead = true
	w.cond.Broadcast()
}

// wait blocks (mu held) until pred holds; false = deadlock detected.
func (w *world) wait(pred func() bool) bool {
	for !pred() {
		if w.dead {
			return false
		}
		id := w.nextID
		w.nextID++
		w.waiters[id] = pred
		w.checkDeadLocked()
		if w.dead {
			delete(w.waiters, id)
			return false
		}
		w.cond.Wait()
		delete(w.waiters, id)
	}
	return true
}

// half is one direction of a connection.
type half struct {
	w      *world
	q      [][]byte
	upos   int // consumed bytes of q[0]
	queued int
	cap    int
	wclose bool
	sink   bool // reader gave up: discard everything, never block the writer

	// writer-side bookkeeping
	pre     int64 // bytes offered by the writer (before stripping)
	stripA  int64 // bytes [stripA, stripB) of the offered stream are removed (relay emulation)
	stripB  int64
	head    []byte // first stripB offered bytes (for the identity-header oracle)
	wlog    []int  // sizes of the first writes (after stripping)
	nwrites int
	off     int64 // bytes queued so far (after stripping)

	// reader-side script
	roff      int64
	cuts      []int64 // sorted boundaries
	ci        int
	every     int
	everyFrom int64
	nreads    int
}

const wlogMax = 40

// No case needs more than ~0.6 MB of wire traffic per direction or more than
// that many one-byte reads; these budgets turn runaway loops in the code under
// test into a deterministic error instead of a hang.
const (
	maxTransportOps   = 4 << 20
	maxTransportBytes = 16 << 20
)

func (h *half) nextBoundary() int64 {
	nb := int64(1) << 62
	for h.ci < len(h.cuts) && h.cuts[h.ci] <= h.roff {
		h.ci++
	}
	if h.ci < len(h.cuts) {
		nb = h.cuts[h.ci]
	}
	if h.every > 0 {
		var g int64
		if h.roff < h.everyFrom {
			g = h.everyFrom
		} else {
			g = h.everyFrom + ((h.roff-h.everyFrom)/int64(h.every)+1)*int64(h.every)
		}
		if g < nb {
			nb = g
		}
	}
	return nb
}

func (h *half) write(b []byte) (int, error) {
	h.w.mu.Lock()
	defer h.w.mu.Unlock()
	if h.wclose {
		return 0, errWriteClosed
	}
	if h.nwrites > maxTransportOps || h.pre > maxTransportBytes {
		return 0, errRunaway
	}
	total := len(b)
	data := b
	start := h.pre
	h.pre += int64(total)
	if h.stripB > h.stripA {
		if start < h.stripB {
			// keep a copy of the head of the stream
			n := int(min(h.stripB-start, int64(total)))
			h.head = append(h.head, b[:n]...)
		}
		lo, hi := max(h.stripA, start), min(h.stripB, start+int64(total))
		if lo < hi {
			d := make([]byte, 0, total-int(hi-lo))
			d = append(d, b[:lo-start]...)
			d = append(d, b[hi-start:]...)
			data = d
		}
	}
	h.nwrites++
	if len(h.wlog) < wlogMax {
		h.wlog = append(h.wlog, len(data))
	}
	if len(data) == 0 {
		return total, nil
	}
	if h.sink {
		h.off += int64(len(data))
		return total, nil
	}
	u := append([]byte(nil), data...)
	if !h.w.wait(func() bool { return h.sink || h.queued == 0 || h.queued+len(u) <= h.cap }) {
		return 0, errDeadlock
	}
	h.off += int64(len(u))
	if h.sink {
		return total, nil
	}
	h.q = append(h.q, u)
	h.queued += len(u)
	h.w.cond.Broadcast()
	return total, nil
}

func (h *half) read(p []byte) (int, error) {
	if len(p) == 0 {
		return 0, nil
	}
	h.w.mu.Lock()
	defer h.w.mu.Unlock()
	if h.nreads > maxTransportOps {
		return 0, errRunaway
	}
	if !h.w.wait(func() bool { return len(h.q) > 0 || h.wclose }) {
		return 0, errDeadlock
	}
	if len(h.q) == 0 {
		return 0, io.EOF
	}
	u := h.q[0]
	lim := int64(len(u) - h.upos)
	if int64(len(p)) < lim {
		lim = int64(len(p))
	}
	if d := h.nextBoundary() - h.roff; d < lim {
		lim = d
	}
	n := copy(p[:lim], u[h.upos:])
	// io.Reader: "it may use all of p as scratch space during the call"
	for i, e := n, min(len(p), n+24); i < e; i++ {
		p[i] = 0xA5
	}
	if len(p) > n {
		p[len(p)-1] = 0xA5
	}
	h.upos += n
	h.roff += int64(n)
	h.nreads++
	if h.upos == len(u) {
		h.q[0] = nil
		h.q = h.q[1:]
		h.upos = 0
		h.queued -= len(u)
		h.w.cond.Broadcast()
	}
	return n, nil
}

func (h *half) closeWrite() {
	h.w.mu.Lock()
	h.wclose = true
	h.w.cond.Broadcast()
	h.w.mu.Unlock()
}

// drain makes the half swallow everything from now on (the reader gave up).
func (h *half) drain() {
	h.w.mu.Lock()
	h.sink = true
	h.q = nil
	h.queued = 0
	h.upos = 0
	h.w.cond.Broadcast()
	h.w.mu.Unlock()
}

// end is one endpoint of a duplex connection; it implements netio.Conn.
type end struct {
	in, out *half
	name    string
}

type pipeAddr string

func (a pipeAddr) Network() string { return "c01pipe" }
func (a pipeAddr) String() string  { return string(a) }

func (e *end) Read(p []byte) (int, error)  { return e.in.read(p) }
func (e *end) Write(p []byte) (int, error) { return e.out.write(p) }
func (e *end) CloseWrite() error           { e.out.closeWrite(); return nil }
func (e *end) Close() error                { e.out.closeWrite(); e.in.drain(); return nil }
func (e *end) LocalAddr() net.Addr         { return pipeAddr(e.name) }
func (e *end) RemoteAddr() net.Addr        { return pipeAddr(e.name + "-peer") }
func (e *end) SetDeadline(time.Time) error { return nil }
func (e *end) SetReadDeadline(time.Time) error {
	return nil
}
func (e *end) SetWriteDeadline(time.Time) error { return nil }

// giveUp shuts the endpoint down without blocking anybody: nothing more is
// sent (peer sees end of stream) and everything still arriving is swallowed.
func (e *end) giveUp() {
	e.out.closeWrite()
	e.in.drain()
}

func newDuplex(w *world, capacity int, name string) (a, b *end, ab, ba *half) {
	ab = &half{w: w, cap: capacity}
	ba = &half{w: w, cap: capacity}
	return &end{in: ba, out: ab, name: name + "-a"}, &end{in: ab, out: ba, name: name + "-b"}, ab, ba
}
