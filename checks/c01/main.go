// C01: the Shadowsocks 2022 TCP tunnel delivers the exact byte stream both ways.
//
// Bounded-exhaustive enumeration of end-to-end sessions of the real
// ss2022.StreamClient / ss2022.StreamServer over a deterministic in-memory
// duplex connection (pipe.go).  Every case is a pure function of its
// parameters: salts come from the deterministic crypto/rand shim, padding
// lengths are enumerated extremes, the transport fragments by script, the
// clock is fixed.  The oracle (run.go) is two byte queues plus the request
// observation, written from the property statement.
//
// Cases are sharded over subprocesses because the random hooks are
// process-global.
package main

import (
	"crypto/sha256"
	"encoding/json"
	"flag"
	"fmt"
	"os"
	"os/exec"
	"runtime"
	"runtime/debug"
	"sort"
	"strings"
	"sync"
	"time"

	"verif/harness"
	"verif/vsched"
)

var (
	flagC01Shard  = flag.String("c01shard", "", "internal: i/n, run as a shard worker")
	flagC01Budget = flag.Duration("c01budget", 0, "internal: worker time budget")
)

// watchdog is a generous hang detector for busy loops in the code under test;
// it never produces a violation, only a cap.
const watchdog = 600 * time.Second

const fixedClockNS = int64(1_790_000_000) * 1_000_000_000

var clausePriority = map[string]int{}

func init() {
	for i, c := range []string{
		"panic", "deadlock", "config-error", "dial-error", "handle-error", "first-read-refused",
		"segmented-header-not-refused", "identity-header-chain", "target-mismatch", "username-mismatch",
		"request-payload-mismatch", "request-payload-extent", "relay-error", "write-error", "write-count",
		"read-error", "read-count", "read-no-progress", "no-readerfrom", "no-writerto",
		"stream-corrupt", "stream-bytes-lost", "stream-bytes-repeated", "stream-extra-bytes", "stream-truncated",
	} {
		clausePriority[c] = i
	}
}

func sortFails(fs []fail) {
	sort.SliceStable(fs, func(i, j int) bool {
		pi, pj := clausePriority[fs[i].Clause], clausePriority[fs[j].Clause]
		if pi != pj {
			return pi < pj
		}
		if fs[i].Dir != fs[j].Dir {
			return fs[i].Dir < fs[j].Dir
		}
		return fs[i].Detail < fs[j].Detail
	})
}

// signature names the failing shape: oracle clause, direction, the copy path
// of that direction, and the coarse classes of the case that select code paths.
func signature(c *Case, f fail) string {
	d := c.C2S
	if f.Dir == "s2c" {
		d = c.S2C
	}
	parts := []string{f.Clause, f.Dir, "writer=" + d.WM, "reader=" + d.RM}
	if f.Dir == "c2s" {
		R := room(c.Target)
		switch {
		case c.P == 0:
			parts = append(parts, "payload=none")
		case c.P < 900:
			parts = append(parts, "payload<900")
		case c.P <= R:
			parts = append(parts, "payload-fits-request")
		default:
			parts = append(parts, "payload-exceeds-request")
		}
	}
	if c.Chain {
		r := "chain=" + c.Relay
		if c.Wait {
			r += "+wait"
		}
		if c.Peek {
			r += "+peek0"
		}
		if c.Pre {
			r += "+pre"
		}
		parts = append(parts, r)
	}
	if len(c.C2S.Cuts)+len(c.S2C.Cuts) > 0 {
		parts = append(parts, "transport=cut")
	} else if c.C2S.Every+c.S2C.Every+c.Every2 > 0 {
		parts = append(parts, "transport=grid")
	}
	return strings.Join(parts, " ")
}

func describe(c *Case, fs []fail) string {
	b, _ := json.Marshal(c)
	var sb strings.Builder
	for i, f := range fs {
		if i > 0 {
			sb.WriteString("; ")
		}
		fmt.Fprintf(&sb, "[%s %s] %s", f.Clause, f.Dir, f.Detail)
	}
	return fmt.Sprintf("%s | target=%s case=%s", sb.String(), targetNames[c.Target], b)
}

// safeRun runs one case with a hang watchdog (a busy loop in the code under
// test cannot be detected by the pipe's deadlock detector).
func safeRun(c *Case) (res *result, hung bool) {
	done := make(chan *result, 1)
	go func() {
		defer func() {
			if r := recover(); r != nil {
				done <- &result{Fails: []fail{{"panic", "c2s", "harness goroutine: " + panicString(r)}}}
			}
		}()
		done <- runCase(c)
	}()
	select {
	case res = <-done:
		sortFails(res.Fails)
		return res, false
	case <-time.After(watchdog):
		return nil, true
	}
}

type workerViol struct {
	Idx  int    `json:"idx"`
	Sig  string `json:"sig"`
	What string `json:"what"`
	Case *Case  `json:"case"`
}

type workerOut struct {
	Cases    int64            `json:"cases"`
	Ops      int64            `json:"ops"`
	Reads    int64            `json:"reads"`
	Bytes    int64            `json:"bytes"`
	Refused  int64            `json:"refused"`
	Failing  int64            `json:"failing"`
	ByPart   map[string]int64 `json:"by_part"`
	Viols    []workerViol     `json:"viols"`
	Capped   string           `json:"capped,omitempty"`
	LastIdx  int              `json:"last_idx"`
	Enumered int              `json:"enumerated"`
	MinRuns  int64            `json:"min_runs"`
}

func workerMain(thorough bool, shard string, budget time.Duration) {
	var si, sn int
	if _, err := fmt.Sscanf(shard, "%d/%d", &si, &sn); err != nil || sn <= 0 {
		harness.Fatal("bad shard %q", shard)
	}
	runtime.GOMAXPROCS(1)
	debug.SetGCPercent(400)
	vsched.SetClock(fixedClockNS)
	out := &workerOut{ByPart: map[string]int64{}}
	seen := map[string]bool{}
	seenRaw := map[string]bool{}
	start := time.Now()
	idx := -1
	enumerate(thorough, func(c *Case) {
		idx++
		if idx%sn != si || out.Capped != "" {
			return
		}
		if budget > 0 && time.Since(start) > budget {
			out.Capped = fmt.Sprintf("time budget %v reached at case index %d", budget, idx)
			return
		}
		res, hung := safeRun(c)
		if hung {
			b, _ := json.Marshal(c)
			out.Capped = fmt.Sprintf("case index %d did not finish within 600 s (busy loop?): %s", idx, b)
			return
		}
		out.Cases++
		out.ByPart[c.Part]++
		out.Ops += res.Ops
		out.Reads += res.Reads
		out.Bytes += res.Bytes
		out.Refused += int64(len(res.Refused))
		out.LastIdx = idx
		if len(res.Fails) > 0 {
			out.Failing++
			raw := signature(c, res.Fails[0])
			if !seenRaw[raw] {
				seenRaw[raw] = true
				f := res.Fails[0]
				mc, mf, runs := minimize(c, f)
				out.MinRuns += int64(runs)
				sig := canonicalSignature(mc, mf, failClass(f.Clause), f.Dir)
				if !seen[sig] {
					seen[sig] = true
					orig, _ := json.Marshal(c)
					out.Viols = append(out.Viols, workerViol{idx, sig, describe(mc, mf) + fmt.Sprintf(" | reduced from enumerated case #%d %s", idx, orig), mc})
				}
			}
		}
	})
	out.Enumered = idx + 1
	b, _ := json.Marshal(out)
	os.Stdout.Write(b)
	os.Exit(0)
}

func replayMain(c *harness.Check) {
	r, err := harness.ReplayFile(c.Replay)
	if err != nil {
		harness.Fatal("%v", err)
	}
	b, _ := json.Marshal(r)
	var cs Case
	if err := json.Unmarshal(b, &cs); err != nil {
		harness.Fatal("bad replay record: %v", err)
	}
	vsched.SetClock(fixedClockNS)
	res, hung := safeRun(&cs)
	if hung {
		harness.Fatal("replayed case did not finish within 600 s")
	}
	fmt.Printf("replay case: %s\n", b)
	fmt.Printf("transport writes: %v\nrefused-as-configured: %v\n", res.Logs, res.Refused)
	if len(res.Fails) == 0 {
		fmt.Println("no violation on replay")
		os.Exit(0)
	}
	f0 := res.Fails[0]
	fmt.Printf("VIOLATION property=C01 replay=%s\n  signature: %s\n  %s\n", c.Replay, canonicalSignature(&cs, res.Fails, failClass(f0.Clause), f0.Dir), describe(&cs, res.Fails))
	os.Exit(1)
}

func main() {
	if !flag.Parsed() {
		flag.Parse()
	}
	if *flagC01Shard != "" {
		tier := os.Getenv("C01_TIER")
		workerMain(tier == "thorough", *flagC01Shard, *flagC01Budget)
		return
	}
	c := harness.Start("C01")
	if c.Replay != "" {
		replayMain(c)
		return
	}
	vsched.SetClock(fixedClockNS)

	n := harness.Workers()
	budget := harness.Pick(c, 20*time.Minute, 8*time.Hour) // safety net only; a loaded machine must not change the counts
	outs := make([]*workerOut, n)
	var wg sync.WaitGroup
	for i := 0; i < n; i++ {
		wg.Add(1)
		go func(i int) {
			defer wg.Done()
			cmd := exec.Command(os.Args[0], "--c01shard", fmt.Sprintf("%d/%d", i, n), "--c01budget", budget.String())
			cmd.Env = append(os.Environ(), "C01_TIER="+c.Tier)
			cmd.Stderr = os.Stderr
			o, err := cmd.Output()
			if err != nil {
				harness.Fatal("shard %d failed: %v\n%s", i, err, tailOf(string(o), 2000))
			}
			var wo workerOut
			if err := json.Unmarshal(o, &wo); err != nil {
				harness.Fatal("shard %d: bad output: %v\n%s", i, err, tailOf(string(o), 2000))
			}
			outs[i] = &wo
		}(i)
	}

	// meanwhile the coordinator enumerates the same list to count it, to
	// check that the parameter tuples are distinct and to record samples
	tEnum := time.Now()
	total := 0
	byPart := map[string]int{}
	keys := map[[12]byte]struct{}{}
	dup := 0
	enumerate(c.Thorough(), func(cs *Case) {
		total++
		byPart[cs.Part]++
		k := cs.key()
		h := sha256.Sum256([]byte(k))
		hk := [12]byte(h[:12])
		if _, ok := keys[hk]; ok {
			dup++
		} else {
			keys[hk] = struct{}{}
		}
		c.Distinct(k, true)
		if byPart[cs.Part] == 1 || byPart[cs.Part] == 1000 {
			c.Sample(cs)
		}
	})
	distinct := len(keys)
	keys = nil
	enumSecs := time.Since(tEnum).Seconds()
	wg.Wait()

	var cases, ops, reads, bytesMoved, refused, failing, minRuns int64
	ranByPart := map[string]int64{}
	var viols []workerViol
	for i, o := range outs {
		if o.Enumered != total {
			harness.Fatal("shard %d enumerated %d cases, coordinator %d (enumeration is not deterministic)", i, o.Enumered, total)
		}
		cases += o.Cases
		ops += o.Ops
		reads += o.Reads
		bytesMoved += o.Bytes
		refused += o.Refused
		failing += o.Failing
		minRuns += o.MinRuns
		for k, v := range o.ByPart {
			ranByPart[k] += v
		}
		if o.Capped != "" {
			c.Cap(fmt.Sprintf("shard %d/%d: %s", i, n, o.Capped))
		}
		viols = append(viols, o.Viols...)
	}
	// lowest case index per signature, reported in enumeration order (simplest first)
	sort.Slice(viols, func(i, j int) bool { return viols[i].Idx < viols[j].Idx })
	for _, v := range viols {
		c.Violation(v.Sig, v.What, v.Case)
	}

	c.Count(cases, int64(distinct), ops)
	c.Rule = "one case = one complete client<->server session of the real ss2022 stream client and server (or two chained tunnels with a re-encrypting relay) over a scripted in-memory transport: {tunnel config, target kind, initial payload length, padding extreme, per-direction writer mode + write sizes, reader mode + read-buffer sizes, transport cuts/grid, transport buffer size}; distinct = distinct parameter tuples (all are non-trivial: every case performs a full handshake and compares both directions with the reference byte queues); transitions = calls made on the tunnel API (DialStream, HandleStream, Write, Read, ReadFrom, WriteTo, CloseWrite)"
	c.Assumptions = []string{
		"bounded: the alphabets listed in coverage.alphabet; no claim outside them",
		"EIH depth d>1: the d-1 relay hops in front of the server are emulated by removing (and checking) their identity headers from the request stream; the repository has no relay-side identity-header code to run",
		"transport model: reliable ordered byte stream, reads return min(buffer, rest of one write, next scripted boundary); a Read may scribble over the unused part of the caller's buffer (io.Reader contract); writers regain their buffer after Write returns",
		"with AllowSegmentedFixedLengthHeader off, a transport that splits the first-read region must be refused with ErrFirstRead (configured behaviour), anything else must be delivered",
		"fixed virtual clock; deterministic salts (counter stream); padding length only at its extremes {0, max}",
	}
	c.Extra["alphabet"] = map[string]any{
		"cipher_key_sizes":           keySizes,
		"eih_depth":                  eihDepth,
		"prefix_req_resp":            harness.Pick(c, prefixQuick, prefixThorough),
		"segmented_header_allowance": segModes,
		"target_kinds":               harness.Pick(c, targetNames[:4], targetNames),
		"initial_payload_lengths":    "0,1,2,899,900,901,R-1,R,R+1,65534,65535,65536,131070,131071 with R=65535-addrLen-2 (matrix part; reduced set {0,1,900,R,R+1,65536} in quick scripts/chain parts)",
		"padding":                    "mrand.IntN answered with 0 and with n-1",
		"write_sizes":                writeSizes,
		"write_sequence_max_len":     harness.Pick(c, 2, 3),
		"writer_modes":               "w=Write calls, rf=ReadFrom(scripted reader), rfe=ReadFrom(reader that returns the last bytes together with io.EOF), mix=first piece by Write then ReadFrom",
		"readers":                    readerNames(),
		"reader_modes":               "r=Read loop over the cyclic buffer sizes, wt=WriteTo(sink), mix=one Read per listed buffer then WriteTo (what service/tcp.go does after waiting for the initial payload)",
		"transport":                  "atomic writes; grids every {1,2,7,4093} bytes; single cuts at every structural offset +-1 (prefix, salt, identity header, fixed header, tag, variable header, length chunks, payload chunks of the first 4 and the last transport write); all pairs of cuts in the handshake region; transport buffers {1, 4096, 65536, 1 MiB}",
		"chain":                      "two tunnels; relay = io.Copy (typed WriteTo fast path) | dst.ReadFrom(src) (typed ReadFrom fast path) | plain 32 KiB Read/Write loop; optional 1440-byte wait-for-payload Read before dialing",
	}
	parts := map[string]any{}
	for k, v := range byPart {
		parts[k] = map[string]any{"enumerated": v, "executed": ranByPart[k]}
	}
	c.Part("cases", map[string]any{
		"enumerated": total, "executed": cases, "duplicate_parameter_tuples": dup, "by_part": parts,
		"cases_with_a_failed_oracle_clause": failing, "refused_as_configured": refused,
		"tunnel_api_calls": ops, "transport_reads": reads, "payload_bytes_moved_and_compared": bytesMoved, "shards": n,
		"extra_runs_spent_reducing_failing_cases": minRuns, "coordinator_enumeration_seconds": enumSecs,
	})
	if cases != int64(total) && c.Exhaustive {
		c.Cap(fmt.Sprintf("executed %d of %d enumerated cases", cases, total))
	}
	c.Finish()
}

func readerNames() []string {
	var out []string
	for _, r := range readers {
		if r.bufs == nil {
			out = append(out, r.rm)
		} else {
			out = append(out, fmt.Sprintf("%s%v", r.rm, r.bufs))
		}
	}
	return out
}

func tailOf(s string, n int) string {
	if len(s) > n {
		return s[len(s)-n:]
	}
	return s
}
