package main

import (
	"fmt"
	"sort"
)

// ---------------------------------------------------------------------------
// Alphabets

var (
	keySizes = []int{16, 32}
	eihDepth = []int{0, 1, 2, 3}
	segModes = []bool{false, true}

	prefixQuick    = [][2]int{{0, 0}, {8, 5}, {70000, 66000}}
	prefixThorough = [][2]int{{0, 0}, {8, 5}, {70000, 66000}, {0, 70000}, {70000, 0}, {8, 66000}}

	writeSizes = []int{0, 1, 4096, 65535, 65536, 70000}

	// the core configurations used where the full matrix is not crossed in
	coreCfgs = []struct {
		t      Tun
		target int
	}{
		{Tun{16, 0, 0, 0, false}, 0},
		{Tun{32, 1, 8, 5, true}, 1},
		{Tun{16, 3, 70000, 66000, true}, 3},
		{Tun{32, 0, 70000, 66000, false}, 2},
		{Tun{16, 1, 0, 0, true}, 2},
		{Tun{32, 2, 8, 5, false}, 0},
		// second half (thorough, and the bigger quick parts)
		{Tun{32, 3, 0, 0, false}, 1},
		{Tun{16, 2, 70000, 66000, false}, 1},
		{Tun{32, 1, 0, 70000, false}, 3},
		{Tun{16, 0, 8, 5, true}, 3},
		{Tun{32, 2, 70000, 0, true}, 2},
		{Tun{16, 1, 8, 66000, false}, 0},
	}
)

type readerSpec struct {
	rm   string
	bufs []int
}

var readers = []readerSpec{
	{"r", []int{70000}},
	{"r", []int{65551}}, // smallest buffer read into directly
	{"r", []int{65550}},
	{"r", []int{17}},
	{"r", []int{1}},
	{"r", []int{17, 70000}},
	{"r", []int{1440, 65551}},
	{"wt", nil},
	{"mix", []int{1440}}, // service/tcp.go: wait-for-payload Read, then io.Copy
	{"mix", []int{1}},
	{"mix", []int{65551}},
	{"rcap", []int{1}}, // windows of a larger buffer (len < cap)
	{"rcap", []int{17}},
	{"rcap", []int{1440}},
}

var writerModes = []string{"w", "rf", "rfe", "mix"}

// payloadLens is the boundary set for the initial payload.
func payloadLens(target int, full bool) []int {
	R := room(target)
	if full {
		return []int{0, 1, 2, 899, 900, 901, R - 1, R, R + 1, 65534, 65535, 65536, 131070, 131071}
	}
	return []int{0, 1, 900, R, R + 1, 65536}
}

func padVariants(p int) []bool {
	if p < 900 {
		return []bool{false, true}
	}
	return []bool{false}
}

// seqs returns all sequences over alphabet of length 0..maxLen, shortest first.
func seqs(alphabet []int, maxLen int) [][]int {
	out := [][]int{{}}
	level := [][]int{{}}
	for l := 1; l <= maxLen; l++ {
		var next [][]int
		for _, s := range level {
			for _, a := range alphabet {
				next = append(next, append(append([]int{}, s...), a))
			}
		}
		out = append(out, next...)
		level = next
	}
	return out
}

type style struct {
	name     string
	c2s, s2c Dir
}

var styles = []style{
	{"rw", Dir{WM: "w", Sizes: []int{1, 65536}, RM: "r", Bufs: []int{17, 70000}}, Dir{WM: "w", Sizes: []int{4096, 70000}, RM: "r", Bufs: []int{1440, 65551}}},
	{"rf-wt", Dir{WM: "rf", Sizes: []int{1, 65536}, RM: "wt"}, Dir{WM: "rf", Sizes: []int{4096, 70000}, RM: "wt"}},
	{"mixed", Dir{WM: "rfe", Sizes: []int{70000, 1}, RM: "mix", Bufs: []int{1440}}, Dir{WM: "mix", Sizes: []int{65536, 4096}, RM: "mix", Bufs: []int{1}}},
}

func cloneDir(d Dir) Dir {
	d.Sizes = append([]int(nil), d.Sizes...)
	d.Bufs = append([]int(nil), d.Bufs...)
	d.Cuts = append([]int64(nil), d.Cuts...)
	return d
}

// namedOff is a structural offset of one direction's wire stream.
type namedOff struct {
	off  int64
	name string
	hs   bool // belongs to the handshake (first transport write)
}

// wireOffsets lists the structural offsets +-1 of one direction, from the
// protocol layout of the first write and the recorded transport writes of an
// uncut run: prefix, salt, identity header, fixed-length header and its tag,
// variable-length header (c2s) / response header and first payload chunk
// (s2c), and length chunk / payload chunk boundaries of the first three later
// transport writes and of the last one.  Ascending, without duplicates.
func wireOffsets(t Tun, dir string, wlog []int) []namedOff {
	var total int64
	for _, x := range wlog {
		total += int64(x)
	}
	var out []namedOff
	seen := map[int64]bool{}
	add := func(o int64, name string, hs bool) {
		for _, d := range []int64{-1, 0, 1} {
			x := o + d
			if x > 0 && x < total && !seen[x] {
				seen[x] = true
				n := name
				if d < 0 {
					n += "-1"
				} else if d > 0 {
					n += "+1"
				}
				out = append(out, namedOff{x, n, hs})
			}
		}
	}
	if dir == "c2s" {
		p := int64(t.Req)
		s := p + int64(t.Key)
		e := s
		if t.EIH > 0 {
			e += 16
		}
		add(p, "request-prefix-end", true)
		add(s, "salt-end", true)
		if t.EIH > 0 {
			add(e, "identity-header-end", true)
		}
		add(e+11, "fixed-header-end", true)
		add(e+27, "fixed-header-tag-end", true)
	} else {
		p := int64(t.Resp)
		s := p + int64(t.Key)
		h := s + int64(1+8+t.Key+2)
		add(p, "response-prefix-end", true)
		add(s, "salt-end", true)
		add(h, "response-header-end", true)
		add(h+16, "response-header-tag-end", true)
	}
	var start int64
	for i, n := range wlog {
		end := start + int64(n)
		if i == 0 {
			if dir == "c2s" {
				add(end-16, "variable-header-end", true)
			} else {
				add(end-16, "first-payload-end", true)
			}
			add(end, "first-write-end", true)
		} else if i <= 3 || i == len(wlog)-1 {
			w := fmt.Sprintf("write%d", i)
			if i > 3 {
				w = "last-write"
			}
			add(start+2, w+"-length-end", false)
			add(start+18, w+"-length-tag-end", false)
			add(end-16, w+"-payload-end", false)
			add(end, w+"-end", false)
		}
		start = end
	}
	sort.SliceStable(out, func(i, j int) bool { return out[i].off < out[j].off })
	return out
}

// uncut returns the case without any transport fragmentation.
func uncut(c *Case) *Case {
	d := *c
	d.C2S, d.S2C = cloneDir(c.C2S), cloneDir(c.S2C)
	d.C2S.Cuts, d.S2C.Cuts, d.C2S.Every, d.S2C.Every, d.Every2 = nil, nil, 0, 0, 0
	return &d
}

func offsetsOf(list []namedOff, hsOnly bool) (out []int64) {
	for _, x := range list {
		if !hsOnly || x.hs {
			out = append(out, x.off)
		}
	}
	return
}

// ---------------------------------------------------------------------------
// The enumeration.  Deterministic; every process (coordinator and shard
// workers) produces the identical list.

func enumerate(thorough bool, emit func(*Case)) {
	prefixes := prefixQuick
	targets := []int{0, 1, 2, 3}
	if thorough {
		prefixes = prefixThorough
		targets = []int{0, 1, 2, 3, 4}
	}
	var allCfgs []Tun
	for _, k := range keySizes {
		for _, e := range eihDepth {
			for _, p := range prefixes {
				for _, s := range segModes {
					allCfgs = append(allCfgs, Tun{k, e, p[0], p[1], s})
				}
			}
		}
	}

	// ---- part "matrix": full configuration matrix x target kinds x boundary payloads x padding extremes x styles
	for _, cfg := range allCfgs {
		for _, tg := range targets {
			for _, p := range payloadLens(tg, true) {
				for _, hi := range padVariants(p) {
					for _, st := range styles {
						emit(&Case{Part: "matrix", T1: cfg, Target: tg, P: p, PadHi: hi, C2S: cloneDir(st.c2s), S2C: cloneDir(st.s2c), Cap: 65536})
					}
				}
			}
		}
	}

	// ---- part "scripts": write-size sequences x read-buffer sequences x copy paths
	ncore := len(coreCfgs)
	maxLen := 2
	if thorough {
		maxLen = 3
	}
	sq := seqs(writeSizes, maxLen)
	sq1 := seqs(writeSizes, 1)
	for ci, cc := range coreCfgs[:ncore] {
		reduced := map[int]bool{}
		for _, p := range payloadLens(cc.target, false) {
			reduced[p] = true
		}
		for _, p := range payloadLens(cc.target, true) {
			use := sq
			if !thorough && (!reduced[p] || ci >= 6) {
				use = sq1 // quick: the other boundary payload lengths, and the second half of the core configurations, with at most one later write
			}
			for _, hi := range padVariants(p) {
				for _, s := range use {
					for _, rd := range readers {
						for _, wm := range writerModes {
							if wm == "rfe" && len(s) == 0 {
								continue // identical to rf
							}
							if !thorough && rd.rm == "r" && len(rd.bufs) == 1 && rd.bufs[0] == 1 && len(s) > 1 {
								continue // quick: one-byte read buffers only with at most one later write (cost)
							}
							d := Dir{WM: wm, Sizes: s, RM: rd.rm, Bufs: rd.bufs}
							emit(&Case{Part: "scripts", T1: cc.t, Target: cc.target, P: p, PadHi: hi, C2S: cloneDir(d), S2C: cloneDir(d), Cap: 1 << 20})
						}
					}
				}
			}
		}
	}

	// ---- part "backpressure": transport buffers of 1 byte and 4 KiB (every write waits for the reader)
	for _, cc := range coreCfgs[:ncore] {
		for _, p := range []int{0, room(cc.target) + 1} {
			for _, s := range seqs([]int{1, 65536}, 2) {
				for _, rd := range []readerSpec{readers[5], readers[7]} {
					for _, wm := range []string{"w", "rf"} {
						for _, capacity := range []int{1, 4096} {
							d := Dir{WM: wm, Sizes: s, RM: rd.rm, Bufs: rd.bufs}
							emit(&Case{Part: "backpressure", T1: cc.t, Target: cc.target, P: p, C2S: cloneDir(d), S2C: cloneDir(d), Cap: capacity})
						}
					}
				}
			}
		}
	}

	// ---- part "frag": transport fragmentation
	type fragBase struct {
		t      Tun
		target int
	}
	var bases []fragBase
	if thorough {
		for _, cfg := range allCfgs {
			for _, tg := range []int{0, 1, 2, 3} {
				bases = append(bases, fragBase{cfg, tg})
			}
		}
	} else {
		for _, cc := range coreCfgs {
			bases = append(bases, fragBase{cc.t, cc.target})
		}
	}
	for _, b := range bases {
		R := room(b.target)
		ps := []int{0, 901, R + 1}
		if thorough {
			ps = []int{0, 1, 901, R + 1, 65536}
		}
		for _, p := range ps {
			for si, st := range styles[:2] {
				base := Case{Part: "frag", T1: b.t, Target: b.target, P: p, C2S: cloneDir(st.c2s), S2C: cloneDir(st.s2c), Cap: 1 << 20}
				// grids: every k bytes in both directions
				for _, k := range []int{1, 2, 7, 4093} {
					c := base
					c.C2S, c.S2C = cloneDir(base.C2S), cloneDir(base.S2C)
					c.C2S.Every, c.S2C.Every = k, k
					emit(&c)
				}
				// single cuts at every structural offset +-1, from an uncut recording run
				rec, hung := safeRun(&base)
				if hung || rec == nil {
					rec = &result{Logs: map[string][]int{}}
				}
				c2sOffs := wireOffsets(b.t, "c2s", rec.Logs["t1.c2s"])
				s2cOffs := wireOffsets(b.t, "s2c", rec.Logs["t1.s2c"])
				c2sAll, c2sHS := offsetsOf(c2sOffs, false), offsetsOf(c2sOffs, true)
				s2cAll, s2cHS := offsetsOf(s2cOffs, false), offsetsOf(s2cOffs, true)
				for _, o := range c2sAll {
					c := base
					c.C2S, c.S2C = cloneDir(base.C2S), cloneDir(base.S2C)
					c.C2S.Cuts = []int64{o}
					emit(&c)
				}
				for _, o := range s2cAll {
					c := base
					c.C2S, c.S2C = cloneDir(base.C2S), cloneDir(base.S2C)
					c.S2C.Cuts = []int64{o}
					emit(&c)
				}
				// all pairs of cuts in the handshake region
				if si == 0 && p == ps[len(ps)-1] || thorough && p == 1 {
					for i := range c2sHS {
						for j := i + 1; j < len(c2sHS); j++ {
							c := base
							c.C2S, c.S2C = cloneDir(base.C2S), cloneDir(base.S2C)
							c.C2S.Cuts = []int64{c2sHS[i], c2sHS[j]}
							emit(&c)
						}
					}
					for i := range s2cHS {
						for j := i + 1; j < len(s2cHS); j++ {
							c := base
							c.C2S, c.S2C = cloneDir(base.C2S), cloneDir(base.S2C)
							c.S2C.Cuts = []int64{s2cHS[i], s2cHS[j]}
							emit(&c)
						}
					}
				}
			}
		}
	}

	// ---- part "chain": two tunnels, the relay re-encrypts from one to the other
	type pair struct{ i, j int }
	var pairs []pair
	for i := 0; i < 6; i++ {
		for j := 0; j < 6; j++ {
			pairs = append(pairs, pair{i, j})
		}
	}
	chainSeqs := seqs([]int{1, 4096, 65535, 65536, 70000}, 1)
	if thorough {
		chainSeqs = seqs(writeSizes, 2)
	}
	for _, pr := range pairs {
		c1, c2 := coreCfgs[pr.i], coreCfgs[pr.j]
		for _, p := range payloadLens(c1.target, thorough) {
			for _, s := range chainSeqs {
				for _, relay := range []string{"iocopy", "readfrom", "plain"} {
					for _, wait := range []bool{false, true} {
						if wait && p != 0 {
							continue // the relay only waits when the request carried no payload
						}
						for _, st := range styles[:2] {
							for _, e2 := range []int{0, 7} {
								if e2 != 0 && !thorough && relay != "iocopy" {
									continue
								}
								c := Case{Part: "chain", T1: c1.t, Chain: true, T2: c2.t, Relay: relay, Wait: wait, Every2: e2, Target: c1.target, P: p, Cap: 1 << 20}
								c.C2S = Dir{WM: st.c2s.WM, Sizes: append([]int(nil), s...), RM: st.c2s.RM, Bufs: append([]int(nil), st.c2s.Bufs...)}
								c.S2C = Dir{WM: st.s2c.WM, Sizes: append([]int(nil), s...), RM: st.s2c.RM, Bufs: append([]int(nil), st.s2c.Bufs...)}
								emit(&c)
								if e2 == 0 && !wait && (thorough || pr.i == pr.j) {
									// the relay waits for the response to start (zero-length Read) before copying it
									pk := c
									pk.Peek = true
									pk.C2S.Sizes, pk.C2S.Bufs = append([]int(nil), s...), append([]int(nil), st.c2s.Bufs...)
									pk.S2C.Sizes, pk.S2C.Bufs = append([]int(nil), s...), append([]int(nil), st.s2c.Bufs...)
									emit(&pk)
									// the relay writes something of its own to the client before it copies the response
									pw := c
									pw.Pre = true
									pw.C2S.Sizes, pw.C2S.Bufs = append([]int(nil), s...), append([]int(nil), st.c2s.Bufs...)
									pw.S2C.Sizes, pw.S2C.Bufs = append([]int(nil), s...), append([]int(nil), st.s2c.Bufs...)
									emit(&pw)
								}
							}
						}
					}
				}
			}
		}
	}
}
