package main

// Canonical signatures.  A failing case is reduced dimension by dimension
// towards the default case (fixed candidate order, greedy to a fixpoint) while
// it keeps failing in the same oracle-clause class and direction.  The
// signature is the primary clause plus the dimensions of the reduced case that
// differ from the default case, so the same defect reached from different
// cases gets the same signature, and it names the minimal failing shape.

import (
	"encoding/json"
	"fmt"
	"strings"
)

func failClass(cl string) string {
	switch {
	case strings.HasPrefix(cl, "stream-"):
		return "stream"
	case cl == "target-mismatch" || cl == "username-mismatch" || strings.HasPrefix(cl, "request-payload"):
		return "request"
	case cl == "panic" || cl == "deadlock" || cl == "first-read-refused" || cl == "segmented-header-not-refused" || cl == "identity-header-chain":
		return cl
	}
	return "error"
}

func primary(res *result, class, dir string) (fail, bool) {
	for _, f := range res.Fails {
		if failClass(f.Clause) == class && f.Dir == dir {
			return f, true
		}
	}
	return fail{}, false
}

func cloneCase(c *Case) *Case {
	b, _ := json.Marshal(c)
	var d Case
	json.Unmarshal(b, &d)
	return &d
}

var defaultDir = Dir{WM: "w", RM: "r", Bufs: []int{70000}}

func dirIsDefaultReader(d *Dir) bool {
	return d.RM == "r" && len(d.Bufs) == 1 && d.Bufs[0] == 70000
}

func readerIndex(d *Dir) int {
	for i, r := range readers {
		if r.rm == d.RM && fmt.Sprint(r.bufs) == fmt.Sprint(d.Bufs) {
			return i
		}
	}
	return len(readers)
}

// candidates lists simplifications of cur, most drastic first.
func candidates(cur *Case, dir string) []*Case {
	var out []*Case
	add := func(f func(c *Case) bool) {
		c := cloneCase(cur)
		if f(c) {
			out = append(out, c)
		}
	}
	simplifyTun := func(get func(c *Case) *Tun) {
		t := *get(cur)
		if t.Key != 16 {
			add(func(c *Case) bool { get(c).Key = 16; return true })
		}
		for e := 0; e < t.EIH; e++ {
			add(func(c *Case) bool { get(c).EIH = e; return true })
		}
		for _, v := range []int{0, 8} {
			if v < t.Req {
				add(func(c *Case) bool { get(c).Req = v; return true })
			}
		}
		for _, v := range []int{0, 5} {
			if v < t.Resp {
				add(func(c *Case) bool { get(c).Resp = v; return true })
			}
		}
		if t.Seg {
			add(func(c *Case) bool { get(c).Seg = false; return true })
		}
	}
	if cur.Chain {
		add(func(c *Case) bool {
			c.Chain, c.T2, c.Relay, c.Wait, c.Every2 = false, Tun{}, "", false, 0
			return true
		})
		add(func(c *Case) bool {
			c.T1 = c.T2
			c.Chain, c.T2, c.Relay, c.Wait, c.Every2 = false, Tun{}, "", false, 0
			return true
		})
		if cur.Every2 != 0 {
			// the second tunnel alone, keeping its transport grid
			add(func(c *Case) bool {
				c.T1 = c.T2
				c.C2S.Every, c.S2C.Every = c.Every2, c.Every2
				c.Chain, c.T2, c.Relay, c.Wait, c.Every2 = false, Tun{}, "", false, 0
				return true
			})
		}
		if cur.Wait {
			add(func(c *Case) bool { c.Wait = false; return true })
		}
		if cur.Peek {
			add(func(c *Case) bool { c.Peek = false; return true })
		}
		if cur.Pre {
			add(func(c *Case) bool { c.Pre = false; return true })
		}
		if cur.Every2 != 0 {
			add(func(c *Case) bool { c.Every2 = 0; return true })
		}
		if cur.Relay != "iocopy" {
			add(func(c *Case) bool { c.Relay = "iocopy"; return true })
		}
		if cur.Relay == "plain" {
			add(func(c *Case) bool { c.Relay = "readfrom"; return true })
		}
		simplifyTun(func(c *Case) *Tun { return &c.T2 })
	}
	var layout map[string][]namedOff
	if len(cur.C2S.Cuts)+len(cur.S2C.Cuts) > 0 || cur.C2S.Every != 0 || cur.S2C.Every != 0 {
		layout = layoutOf(cur)
	}
	for gi, get := range []func(c *Case) *Dir{func(c *Case) *Dir { return &c.C2S }, func(c *Case) *Dir { return &c.S2C }} {
		d := get(cur)
		offs := layout[[]string{"c2s", "s2c"}[gi]]
		if d.Every != 0 {
			// a grid becomes the earliest single structural cut that still fails
			for _, o := range offs {
				add(func(c *Case) bool { x := get(c); x.Every, x.Cuts = 0, []int64{o.off}; return true })
			}
			for _, k := range []int{4093, 7, 2} {
				if k > d.Every {
					add(func(c *Case) bool { get(c).Every = k; return true })
				}
			}
		}
		if len(d.Cuts) == 1 {
			for _, o := range offs {
				if o.off < d.Cuts[0] {
					add(func(c *Case) bool { get(c).Cuts = []int64{o.off}; return true })
				}
			}
		}
		if len(d.Cuts) > 0 {
			add(func(c *Case) bool { get(c).Cuts = nil; return true })
		}
		if len(d.Cuts) > 1 {
			for i := range d.Cuts {
				add(func(c *Case) bool {
					x := get(c)
					x.Cuts = append(append([]int64{}, x.Cuts[:i]...), x.Cuts[i+1:]...)
					return true
				})
			}
		}
		if d.Every != 0 {
			add(func(c *Case) bool { get(c).Every = 0; return true })
		}
	}
	// the other direction becomes trivial
	other := func(c *Case) *Dir { return &c.S2C }
	mine := func(c *Case) *Dir { return &c.C2S }
	if dir == "s2c" {
		other, mine = mine, other
	}
	if o := other(cur); len(o.Sizes) > 0 || o.WM != "w" || !dirIsDefaultReader(o) {
		add(func(c *Case) bool {
			x := other(c)
			x.Sizes, x.WM, x.RM, x.Bufs = []int{}, "w", "r", []int{70000}
			return true
		})
		if len(o.Sizes) > 0 {
			add(func(c *Case) bool { other(c).Sizes = []int{}; return true })
		}
		if o.WM != "w" {
			add(func(c *Case) bool { other(c).WM = "w"; return true })
		}
		if !dirIsDefaultReader(o) {
			add(func(c *Case) bool { x := other(c); x.RM, x.Bufs = "r", []int{70000}; return true })
		}
	}
	simplifyTun(func(c *Case) *Tun { return &c.T1 })
	for t := 0; t < cur.Target; t++ {
		// keep the payload length's position relative to the request capacity R of the target kind
		add(func(c *Case) bool {
			if d := c.P - room(c.Target); d >= -1 && d <= 1 {
				c.P = room(t) + d
			}
			c.Target = t
			return true
		})
	}
	if cur.P > 0 {
		// the initial payload becomes an ordinary first write
		for _, v := range writeSizes {
			if v > 0 {
				add(func(c *Case) bool {
					c.P, c.PadHi = 0, false
					c.C2S.Sizes = append([]int{v}, c.C2S.Sizes...)
					return len(c.C2S.Sizes) <= 3
				})
			}
		}
	}
	for _, p := range payloadLens(cur.Target, true) {
		if p < cur.P {
			add(func(c *Case) bool { c.P = p; return true })
		}
	}
	if cur.PadHi {
		add(func(c *Case) bool { c.PadHi = false; return true })
	}
	m := mine(cur)
	if m.WM != "w" {
		add(func(c *Case) bool { mine(c).WM = "w"; return true })
		if m.WM != "rf" {
			add(func(c *Case) bool { mine(c).WM = "rf"; return true })
		}
	}
	ri := readerIndex(m)
	for i := 0; i < ri && i < len(readers); i++ {
		add(func(c *Case) bool {
			x := mine(c)
			x.RM, x.Bufs = readers[i].rm, append([]int{}, readers[i].bufs...)
			return true
		})
	}
	for i := range m.Sizes {
		add(func(c *Case) bool {
			x := mine(c)
			x.Sizes = append(append([]int{}, x.Sizes[:i]...), x.Sizes[i+1:]...)
			return true
		})
	}
	for i, s := range m.Sizes {
		for _, v := range writeSizes {
			if v < s && v > 0 {
				add(func(c *Case) bool { mine(c).Sizes[i] = v; return true })
			}
		}
	}
	if cur.Cap != 1<<20 {
		add(func(c *Case) bool { c.Cap = 1 << 20; return true })
	}
	return out
}

// layoutOf records the wire structure of the case's first tunnel from an
// unfragmented run.
func layoutOf(c *Case) map[string][]namedOff {
	rec, hung := safeRun(uncut(c))
	if hung || rec == nil {
		return nil
	}
	return map[string][]namedOff{
		"c2s": wireOffsets(c.T1, "c2s", rec.Logs["t1.c2s"]),
		"s2c": wireOffsets(c.T1, "s2c", rec.Logs["t1.s2c"]),
	}
}

// wireShapeChanged says whether cand differs from cur in anything that moves
// structural offsets (everything except the cuts themselves and the readers).
func wireShapeChanged(cur, cand *Case) bool {
	a, b := cloneCase(cur), cloneCase(cand)
	for _, c := range []*Case{a, b} {
		c.C2S.Cuts, c.S2C.Cuts = nil, nil
		c.C2S.RM, c.S2C.RM, c.C2S.Bufs, c.S2C.Bufs = "", "", nil, nil
	}
	return a.key() != b.key()
}

// remapCuts rewrites dst (the candidate's cuts, same length and order as the
// current case's cuts src where they were not edited) so that each cut keeps
// its structural name.
func remapCuts(src, dst []int64, from, to []namedOff) {
	if len(src) != len(dst) {
		return
	}
	for i, o := range src {
		if dst[i] != o {
			continue // the candidate moved this cut on purpose
		}
		name := ""
		for _, x := range from {
			if x.off == o {
				name = x.name
				break
			}
		}
		if name == "" {
			continue
		}
		for _, x := range to {
			if x.name == name {
				dst[i] = x.off
				break
			}
		}
	}
}

func cutName(offs []namedOff, o int64) string {
	for _, x := range offs {
		if x.off == o {
			return x.name
		}
	}
	return fmt.Sprintf("offset%d", o)
}

// minimize reduces c; it returns the reduced case and its (sorted) failures.
func minimize(c *Case, f fail) (*Case, []fail, int) {
	class, dir := failClass(f.Clause), f.Dir
	cur := cloneCase(c)
	cur.Part = "minimized"
	res, hung := safeRun(cur)
	runs := 1
	if hung || res == nil {
		return c, []fail{f}, runs
	}
	if _, ok := primary(res, class, dir); !ok {
		return c, []fail{f}, runs
	}
	curFails := res.Fails
	for runs < 2000 {
		progressed := false
		hasCuts := len(cur.C2S.Cuts)+len(cur.S2C.Cuts) > 0
		var curLayout map[string][]namedOff
		if hasCuts {
			curLayout = layoutOf(cur)
			runs++
		}
		for _, cand := range candidates(cur, dir) {
			if hasCuts && wireShapeChanged(cur, cand) {
				// keep every cut at the same structural place of the changed wire stream
				candLayout := layoutOf(cand)
				runs++
				remapCuts(cur.C2S.Cuts, cand.C2S.Cuts, curLayout["c2s"], candLayout["c2s"])
				remapCuts(cur.S2C.Cuts, cand.S2C.Cuts, curLayout["s2c"], candLayout["s2c"])
			}
			r, hung := safeRun(cand)
			runs++
			if hung {
				continue
			}
			if _, ok := primary(r, class, dir); ok {
				cur, curFails, progressed = cand, r.Fails, true
				break
			}
		}
		if !progressed {
			break
		}
	}
	return cur, curFails, runs
}

// canonicalSignature names the reduced case: primary clause, direction, and
// every dimension that differs from the default case.
func canonicalSignature(c *Case, fs []fail, class, dir string) string {
	var p fail
	for _, f := range fs {
		if failClass(f.Clause) == class && f.Dir == dir {
			p = f
			break
		}
	}
	var parts []string
	var layout map[string][]namedOff
	tun := func(name string, t Tun) {
		if t.Key != 16 {
			parts = append(parts, fmt.Sprintf("%s.key=%d", name, t.Key))
		}
		if t.EIH != 0 {
			parts = append(parts, fmt.Sprintf("%s.eih=%d", name, t.EIH))
		}
		if t.Req != 0 {
			parts = append(parts, fmt.Sprintf("%s.reqprefix=%d", name, t.Req))
		}
		if t.Resp != 0 {
			parts = append(parts, fmt.Sprintf("%s.respprefix=%d", name, t.Resp))
		}
		if t.Seg {
			parts = append(parts, name+".segmented-allowed")
		}
	}
	if c.Chain {
		r := "chain.relay=" + c.Relay
		if c.Wait {
			r += "+wait1440"
		}
		if c.Peek {
			r += "+zero-length-read-before-s2c-copy"
		}
		if c.Pre {
			r += "+relay-writes-before-s2c-copy"
		}
		parts = append(parts, r)
		if c.Every2 != 0 {
			parts = append(parts, fmt.Sprintf("chain.grid=%d", c.Every2))
		}
	}
	tun("t1", c.T1)
	if c.Chain {
		tun("t2", c.T2)
	}
	if c.Target != 0 {
		parts = append(parts, "target="+targetNames[c.Target])
	}
	if c.P != 0 {
		R := room(c.Target)
		switch {
		case c.P >= R-1 && c.P <= R+1:
			parts = append(parts, fmt.Sprintf("payload=R%+d", c.P-R))
		default:
			parts = append(parts, fmt.Sprintf("payload=%d", c.P))
		}
	}
	if c.PadHi {
		parts = append(parts, "padding=max")
	}
	for _, x := range []struct {
		n string
		d *Dir
	}{{"c2s", &c.C2S}, {"s2c", &c.S2C}} {
		if x.d.WM != "w" {
			parts = append(parts, x.n+".writer="+x.d.WM)
		}
		if len(x.d.Sizes) > 0 {
			parts = append(parts, fmt.Sprintf("%s.sizes=%v", x.n, x.d.Sizes))
		}
		if !dirIsDefaultReader(x.d) {
			parts = append(parts, fmt.Sprintf("%s.reader=%s%v", x.n, x.d.RM, x.d.Bufs))
		}
		if len(x.d.Cuts) > 0 {
			if layout == nil {
				layout = layoutOf(c)
			}
			var names []string
			for _, o := range x.d.Cuts {
				names = append(names, cutName(layout[x.n], o))
			}
			parts = append(parts, fmt.Sprintf("%s.cut-at=%s", x.n, strings.Join(names, "&")))
		}
		if x.d.Every != 0 {
			parts = append(parts, fmt.Sprintf("%s.grid=%d", x.n, x.d.Every))
		}
	}
	if c.Cap != 1<<20 {
		parts = append(parts, fmt.Sprintf("transportbuf=%d", c.Cap))
	}
	if len(parts) == 0 {
		parts = []string{"default-case"}
	}
	s := strings.Join(parts, " ")
	s = strings.ReplaceAll(s, "[", "(")
	s = strings.ReplaceAll(s, "]", ")")
	return p.Clause + " " + p.Dir + " @ " + strings.ReplaceAll(s, " ", ",")
}
