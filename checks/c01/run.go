package main

import (
	"bytes"
	"context"
	"errors"
	"fmt"
	"io"
	"net/netip"
	"slices"
	"strings"
	"sync/atomic"

	"github.com/database64128/shadowsocks-go/conn"
	"github.com/database64128/shadowsocks-go/netio"
	"github.com/database64128/shadowsocks-go/ss2022"
	"go.uber.org/zap"

	"verif/shim/vcrand"
	"verif/shim/vrand"
)

// ---------------------------------------------------------------------------
// Case description (JSON-able; this is also the replay record)

// Tun is one tunnel configuration.
type Tun struct {
	Key  int  `json:"key"`  // 16 = aes-128, 32 = aes-256
	EIH  int  `json:"eih"`  // number of iPSKs on the client (0..3)
	Req  int  `json:"req"`  // request stream prefix length
	Resp int  `json:"resp"` // response stream prefix length
	Seg  bool `json:"seg"`  // AllowSegmentedFixedLengthHeader
}

// Dir is what happens in one direction of the end-to-end stream.
type Dir struct {
	WM    string  `json:"wm"`    // writer: w = Write calls, rf = ReadFrom(scripted reader), rfe = same, last piece returned together with io.EOF, mix = first piece by Write, rest by ReadFrom
	Sizes []int   `json:"sizes"` // sizes of the writes / reader pieces
	RM    string  `json:"rm"`    // reader: r = Read loop, wt = WriteTo(sink), mix = one Read per buffer size, then WriteTo
	Bufs  []int   `json:"bufs"`  // read buffer sizes (cyclic for r)
	Cuts  []int64 `json:"cuts,omitempty"`
	Every int     `json:"every,omitempty"`
}

// Case is one end-to-end scenario.
type Case struct {
	Part   string `json:"part"`
	T1     Tun    `json:"t1"`
	Chain  bool   `json:"chain,omitempty"`
	T2     Tun    `json:"t2"`
	Relay  string `json:"relay,omitempty"` // iocopy | readfrom | plain
	Pre    bool   `json:"pre,omitempty"`   // relay writes three bytes of its own to the client-facing tunnel before it starts copying the response
	Peek   bool   `json:"peek,omitempty"`  // relay waits for the response to start with a zero-length Read on the onward connection before it starts copying
	Wait   bool   `json:"wait,omitempty"`  // relay reads the initial payload with a 1440-byte buffer when the request carried none (as service/tcp.go does)
	Every2 int    `json:"every2,omitempty"`
	Target int    `json:"target"`
	P      int    `json:"p"`
	PadHi  bool   `json:"padhi,omitempty"`
	C2S    Dir    `json:"c2s"`
	S2C    Dir    `json:"s2c"`
	Cap    int    `json:"cap"`
}

func (c *Case) key() string { return fmt.Sprintf("%+v", *c) }

// ---------------------------------------------------------------------------
// Deterministic material

var (
	dataC2S = genData(0x9E3779B97F4A7C15, 1<<19)
	dataS2C = genData(0xD1B54A32D192ED03, 1<<19)
	prefReq = genData(0x1234567, 70000)
	prefRsp = genData(0x7654321, 70000)
)

func genData(seed uint64, n int) []byte {
	b := make([]byte, n)
	x := seed
	for i := range b {
		x += 0x9E3779B97F4A7C15
		z := x
		z = (z ^ (z >> 30)) * 0xBF58476D1CE4E5B9
		z = (z ^ (z >> 27)) * 0x94D049BB133111EB
		b[i] = byte(z ^ (z >> 31))
	}
	return b
}

func keyBytes(n int, tag byte) []byte {
	k := make([]byte, n)
	for i := range k {
		k[i] = tag + byte(i*7)
	}
	return k
}

var targetNames = []string{"ipv4", "ipv6", "domain1", "domain255", "ipv4-mapped"}

func targetAddr(kind int) conn.Addr {
	switch kind {
	case 0:
		return conn.AddrFromIPAndPort(netip.MustParseAddr("192.0.2.7"), 80)
	case 1:
		return conn.AddrFromIPAndPort(netip.MustParseAddr("2001:db8::1:2"), 443)
	case 2:
		return conn.MustAddrFromDomainPort("a", 1)
	case 3:
		return conn.MustAddrFromDomainPort(strings.Repeat("abcdefghijklmnopqrstuvwxyz0123456789-.", 7)[:255], 65535)
	default:
		return conn.AddrFromIPAndPort(netip.MustParseAddr("::ffff:198.51.100.9"), 8080)
	}
}

// socksAddrLen is the SOCKS5 address length by the protocol definition.
func socksAddrLen(kind int) int {
	switch kind {
	case 0, 4:
		return 1 + 4 + 2
	case 1:
		return 1 + 16 + 2
	case 2:
		return 1 + 1 + 1 + 2
	default:
		return 1 + 1 + 255 + 2
	}
}

// room is how much initial payload fits in the request: the variable-length
// header is one chunk of at most 65535 bytes = address + u16 padding length +
// padding + payload.
func room(kind int) int { return 65535 - socksAddrLen(kind) - 2 }

// ---------------------------------------------------------------------------
// Tunnel construction through the real constructors

type tunnel struct {
	cfg      Tun
	client   *ss2022.StreamClient
	server   *ss2022.StreamServer
	a, b     *end
	c2s, s2c *half
	user     string
	ipsks    [][]byte
	psk      []byte
}

type pipeClient struct{ e *end }

func (p *pipeClient) NewStreamDialer() (netio.StreamDialer, netio.StreamDialerInfo) {
	return p, netio.StreamDialerInfo{Name: "c01pipe", NativeInitialPayload: true}
}

func (p *pipeClient) DialStream(_ context.Context, _ conn.Addr, payload []byte) (netio.Conn, error) {
	if len(payload) > 0 {
		if _, err := p.e.Write(payload); err != nil {
			return nil, err
		}
	}
	return p.e, nil
}

var serverAddr = conn.AddrFromIPAndPort(netip.MustParseAddr("203.0.113.1"), 8388)

// firstRegion returns the number of bytes each side must get in its first
// read when segmented fixed-length headers are not allowed (protocol layout).
func (t Tun) firstRegionC2S() int64 {
	e := 0
	if t.EIH > 0 {
		e = 16
	}
	return int64(t.Req + t.Key + e + 11 + 16)
}
func (t Tun) firstRegionS2C() int64 { return int64(t.Resp + t.Key + 1 + 8 + t.Key + 2 + 16) }

func newTunnel(w *world, cfg Tun, capacity int, name string) (*tunnel, error) {
	t := &tunnel{cfg: cfg}
	t.psk = keyBytes(cfg.Key, 0x11)
	for i := 0; i < cfg.EIH; i++ {
		t.ipsks = append(t.ipsks, keyBytes(cfg.Key, 0x31+byte(i)*0x10))
	}
	ccc, err := ss2022.NewClientCipherConfig(t.psk, t.ipsks, false)
	if err != nil {
		return nil, err
	}
	t.a, t.b, t.c2s, t.s2c = newDuplex(w, capacity, name)
	cc := ss2022.StreamClientConfig{
		Name:                            name,
		InnerClient:                     &pipeClient{t.a},
		Addr:                            serverAddr,
		AllowSegmentedFixedLengthHeader: cfg.Seg,
		CipherConfig:                    ccc,
		UnsafeRequestStreamPrefix:       prefReq[:cfg.Req],
		UnsafeResponseStreamPrefix:      prefRsp[:cfg.Resp],
	}
	t.client = cc.NewStreamClient()
	sc := ss2022.StreamServerConfig{
		AllowSegmentedFixedLengthHeader: cfg.Seg,
		UnsafeRequestStreamPrefix:       prefReq[:cfg.Req],
		UnsafeResponseStreamPrefix:      prefRsp[:cfg.Resp],
	}
	var ulm ss2022.UserLookupMap
	if cfg.EIH == 0 {
		sc.UserCipherConfig, err = ss2022.NewUserCipherConfig(t.psk, false)
		if err != nil {
			return nil, err
		}
	} else {
		sc.IdentityCipherConfig, err = ss2022.NewServerIdentityCipherConfig(t.ipsks[cfg.EIH-1], false)
		if err != nil {
			return nil, err
		}
		t.user = "alice"
		ulm = ss2022.UserLookupMap{}
		for _, u := range []struct {
			name string
			psk  []byte
		}{{"bob", keyBytes(cfg.Key, 0x91)}, {"alice", t.psk}, {"carol", keyBytes(cfg.Key, 0xA1)}} {
			uc, err := ss2022.NewServerUserCipherConfig(u.name, u.psk, false)
			if err != nil {
				return nil, err
			}
			ulm[ss2022.PSKHash(u.psk)] = uc
		}
		if cfg.EIH > 1 {
			// Hops before the last one are relays that consume one identity
			// header each; they are emulated by removing those headers from
			// the byte stream (and checking them, see checkStripped).
			t.c2s.stripA = int64(cfg.Req + cfg.Key)
			t.c2s.stripB = t.c2s.stripA + 16*int64(cfg.EIH-1)
		}
	}
	t.server = sc.NewStreamServer()
	if ulm != nil {
		t.server.ReplaceUserLookupMap(ulm)
	}
	return t, nil
}

// checkStripped verifies the identity headers consumed by the emulated relays:
// header k, decrypted with the identity subkey of iPSK k, must be the hash of
// iPSK k+1.
func (t *tunnel) checkStripped() string {
	if t.cfg.EIH < 2 {
		return ""
	}
	h := t.c2s.head
	if int64(len(h)) < t.c2s.stripB {
		return fmt.Sprintf("request shorter (%d) than prefix+salt+identity headers (%d)", len(h), t.c2s.stripB)
	}
	if !bytes.Equal(h[:t.cfg.Req], prefReq[:t.cfg.Req]) {
		return "request does not start with the request stream prefix"
	}
	salt := h[t.cfg.Req : t.cfg.Req+t.cfg.Key]
	for k := 0; k < t.cfg.EIH-1; k++ {
		ic, err := ss2022.NewServerIdentityCipherConfig(t.ipsks[k], false)
		if err != nil {
			return err.Error()
		}
		blk, err := ic.TCP(salt)
		if err != nil {
			return err.Error()
		}
		var out [16]byte
		off := t.c2s.stripA + int64(16*k)
		blk.Decrypt(out[:], h[off:off+16])
		if out != ss2022.PSKHash(t.ipsks[k+1]) {
			return fmt.Sprintf("identity header %d does not decrypt (iPSK %d) to the hash of iPSK %d", k, k, k+1)
		}
	}
	return ""
}

// ---------------------------------------------------------------------------
// Result

type fail struct {
	Clause string `json:"clause"`
	Dir    string `json:"dir"`
	Detail string `json:"detail"`
}

type result struct {
	Fails   []fail
	Refused []string // directions refused as configured (segmented first read, allowance off)
	Ops     int64
	Bytes   int64
	Logs    map[string][]int // transport write sizes per half (t1.c2s, t1.s2c, t2.c2s, t2.s2c)
	Reads   int64            // transport reads
}

type runner struct {
	c   *Case
	w   *world
	ops atomic.Int64
	mu  chan struct{} // 1-slot lock for fails
	res *result
	pad bool
	// length of the payload the relay handed to the second tunnel's DialStream
	relayDialed int
	want        struct{ c2s, s2c []byte }
	sendS2C     []byte // what the far server writes (want.s2c is what the client must read)
}

func (r *runner) fail(clause, dir, format string, a ...any) {
	r.mu <- struct{}{}
	r.res.Fails = append(r.res.Fails, fail{clause, dir, fmt.Sprintf(format, a...)})
	<-r.mu
}

func panicString(v any) string {
	s := fmt.Sprint(v)
	if len(s) > 300 {
		s = s[:300]
	}
	return s
}

// ---------------------------------------------------------------------------
// Sending and receiving over a tunnel connection

type scriptReader struct {
	data    []byte
	sizes   []int
	i       int // next piece
	left    int // rest of the current piece
	eofData bool
}

func (s *scriptReader) Read(p []byte) (int, error) {
	if len(p) == 0 {
		return 0, nil
	}
	for s.left == 0 {
		if s.i >= len(s.sizes) {
			return 0, io.EOF
		}
		s.left = s.sizes[s.i]
		s.i++
		if s.left == 0 {
			return 0, nil // a legal, discouraged, empty read
		}
	}
	n := min(len(p), s.left)
	copy(p, s.data[:n])
	s.data = s.data[n:]
	s.left -= n
	if s.eofData && s.left == 0 && s.i == len(s.sizes) {
		return n, io.EOF
	}
	return n, nil
}

// sinkWriter collects what WriteTo delivers; it refuses to grow far beyond what
// was ever written by the peer, so a runaway copy loop ends deterministically.
type sinkWriter struct {
	got   []byte
	limit int
}

var errTooMuch = errors.New("c01: far more bytes delivered than were ever written")

func (s *sinkWriter) Write(p []byte) (int, error) {
	if len(s.got)+len(p) > s.limit {
		return 0, errTooMuch
	}
	s.got = append(s.got, p...)
	return len(p), nil
}

// sendAll pushes data through c according to the direction's writer mode.
// It returns false after recording a failure.
func (r *runner) sendAll(c netio.Conn, d *Dir, dir string, data []byte) bool {
	sizes := d.Sizes
	mode := d.WM
	if mode == "mix" {
		if len(sizes) == 0 {
			mode = "rf"
		} else {
			if !r.writes(c, dir, data[:sizes[0]], sizes[:1]) {
				return false
			}
			data = data[sizes[0]:]
			sizes = sizes[1:]
			mode = "rf"
		}
	}
	switch mode {
	case "w":
		return r.writes(c, dir, data, sizes)
	default:
		rf, ok := c.(io.ReaderFrom)
		if !ok {
			r.fail("no-readerfrom", dir, "%T has no ReadFrom", c)
			return false
		}
		src := &scriptReader{data: data, sizes: sizes, eofData: mode == "rfe"}
		r.ops.Add(1)
		n, err := rf.ReadFrom(src)
		if err != nil {
			r.fail("write-error", dir, "ReadFrom: %v", err)
			return false
		}
		if n != int64(len(data)) {
			r.fail("write-count", dir, "ReadFrom returned n=%d for %d bytes read from the source", n, len(data))
			return false
		}
	}
	return true
}

func (r *runner) writes(c netio.Conn, dir string, data []byte, sizes []int) bool {
	off := 0
	var tmp []byte
	for i, s := range sizes {
		tmp = append(tmp[:0], data[off:off+s]...)
		r.ops.Add(1)
		n, err := c.Write(tmp)
		// the caller owns the buffer again
		for j := range tmp {
			tmp[j] = 0x5A
		}
		if err != nil {
			r.fail("write-error", dir, "Write #%d (%d bytes): %v (n=%d)", i, s, err, n)
			return false
		}
		if n != s {
			r.fail("write-count", dir, "Write #%d of %d bytes returned n=%d, err=nil", i, s, n)
			return false
		}
		off += s
	}
	return true
}

// recvAll reads c to the end of the stream according to the reader mode.
func (r *runner) recvAll(c netio.Conn, d *Dir, dir string, wantLen int) (got []byte, ok bool) {
	limit := wantLen + 1<<17
	mode := d.RM
	bufs := d.Bufs
	if len(bufs) == 0 {
		bufs = []int{32768}
	}
	maxb := 0
	for _, b := range bufs {
		maxb = max(maxb, b)
	}
	buf := make([]byte, maxb)
	if mode == "rcap" {
		// reads into a window of a much larger buffer: spare capacity behind len(b) is not the reader's to use
		buf = make([]byte, maxb+4200)
		for i := range buf {
			buf[i] = 0xA5
		}
	}
	if mode == "r" || mode == "mix" || mode == "rcap" {
		zero := 0
		for i := 0; ; i++ {
			if mode == "mix" && i >= len(bufs) {
				break
			}
			size := bufs[i%len(bufs)]
			r.ops.Add(1)
			var n int
			var err error
			if mode == "rcap" {
				n, err = c.Read(buf[:size])
				for j := size; j < len(buf) && (i < 8 || i%1024 == 0); j++ {
					if buf[j] != 0xA5 {
						r.fail("read-wrote-beyond-buffer", dir, "Read(b) with len(b)=%d wrote to b[%d] (spare capacity behind the slice)", size, j)
						return got, false
					}
				}
			} else {
				n, err = c.Read(buf[:size:size])
			}
			if n < 0 || n > size {
				r.fail("read-count", dir, "Read(buf[%d]) returned n=%d", size, n)
				return got, false
			}
			got = append(got, buf[:n]...)
			if len(got) > limit {
				r.fail("stream-extra-bytes", dir, "%d bytes delivered and still no end of stream; only %d were written", len(got), wantLen)
				return got, false
			}
			if err == io.EOF {
				return got, true
			}
			if err != nil {
				r.fail(readErrClause(err), dir, "Read #%d (buffer %d) after %d bytes: %v", i, size, len(got), err)
				return got, false
			}
			if n == 0 {
				if zero++; zero > 1000 {
					r.fail("read-no-progress", dir, "1000 consecutive Read calls returned 0, nil after %d bytes", len(got))
					return got, false
				}
			} else {
				zero = 0
			}
		}
	}
	wt, okk := c.(io.WriterTo)
	if !okk {
		r.fail("no-writerto", dir, "%T has no WriteTo", c)
		return got, false
	}
	sink := &sinkWriter{limit: limit - len(got)}
	r.ops.Add(1)
	n, err := wt.WriteTo(sink)
	got = append(got, sink.got...)
	if errors.Is(err, errTooMuch) {
		r.fail("stream-extra-bytes", dir, "WriteTo delivered more than %d bytes; only %d were written", len(got), wantLen)
		return got, false
	}
	if err != nil {
		r.fail(readErrClause(err), dir, "WriteTo after %d bytes: %v", len(got), err)
		return got, false
	}
	if n != int64(len(sink.got)) {
		r.fail("read-count", dir, "WriteTo returned n=%d but wrote %d bytes to the sink", n, len(sink.got))
		return got, false
	}
	return got, true
}

func readErrClause(err error) string {
	if errors.Is(err, ss2022.ErrFirstRead) {
		return "first-read-refused"
	}
	if errors.Is(err, errDeadlock) {
		return "deadlock"
	}
	return "read-error"
}

// compare classifies got against want.
func (r *runner) compare(dir string, got, want []byte, what string) {
	if bytes.Equal(got, want) {
		return
	}
	n := min(len(got), len(want))
	d := 0
	for d < n && got[d] == want[d] {
		d++
	}
	switch {
	case d == len(got):
		r.fail("stream-truncated", dir, "%s: end of stream after %d of %d bytes", what, len(got), len(want))
	case d == len(want):
		r.fail("stream-extra-bytes", dir, "%s: %d bytes delivered, only %d were written", what, len(got), len(want))
	default:
		// does the remainder of got continue want somewhere later (bytes lost) or earlier (bytes repeated)?
		kind := "stream-corrupt"
		probe := got[d:min(len(got), d+32)]
		if len(probe) >= 8 {
			if j := bytes.Index(want[d:], probe); j > 0 {
				kind = "stream-bytes-lost"
				r.fail(kind, dir, "%s: first difference at offset %d: %d bytes missing there (got %d bytes, want %d)", what, d, j, len(got), len(want))
				return
			}
			if j := bytes.LastIndex(want[:d], probe); j >= 0 {
				kind = "stream-bytes-repeated"
			}
		}
		r.fail(kind, dir, "%s: first difference at offset %d (got %d bytes, want %d)", what, d, len(got), len(want))
	}
}

// ---------------------------------------------------------------------------
// Roles

var nopLogger = zap.NewNop()

func (r *runner) expectRefusal(t Tun, d *Dir, region int64) bool {
	if t.Seg {
		return false
	}
	for _, c := range d.Cuts {
		if c > 0 && c < region {
			return true
		}
	}
	return false
}

// clientSide dials through t and plays the client role of the case.
func (r *runner) clientSide(t *tunnel, gotS2C *[]byte, doneS2C *bool) {
	c := r.c
	T := targetAddr(c.Target)
	P := append([]byte(nil), r.want.c2s[:c.P]...)
	r.ops.Add(1)
	cc, err := t.client.DialStream(context.Background(), T, P)
	for i := range P {
		P[i] = 0x5A
	}
	if err != nil {
		r.fail("dial-error", "c2s", "DialStream: %v", err)
		t.a.giveUp()
		return
	}
	if cc == nil {
		r.fail("dial-error", "c2s", "DialStream returned nil, nil")
		t.a.giveUp()
		return
	}
	r.w.Go("client-reader", func() {
		got, ok := r.recvAll(cc, &c.S2C, "s2c", len(r.want.s2c))
		*gotS2C = got
		*doneS2C = ok
		if !ok {
			t.a.in.drain()
		}
	}, func(msg string) {
		r.fail("panic", "s2c", "%s", msg)
		t.a.in.drain()
	})
	if !r.sendAll(cc, &c.C2S, "c2s", r.want.c2s[c.P:]) {
		t.a.out.closeWrite()
		return
	}
	r.ops.Add(1)
	if err := cc.CloseWrite(); err != nil {
		r.fail("write-error", "c2s", "CloseWrite: %v", err)
		t.a.out.closeWrite()
	}
}

type reqObs struct {
	addr    conn.Addr
	user    string
	payload []byte
}

// handle runs HandleStream on the server end of t.
func (r *runner) handle(t *tunnel, hop string) (netio.Conn, *reqObs, bool) {
	r.ops.Add(1)
	req, err := t.server.HandleStream(t.b, nopLogger)
	if err != nil {
		switch {
		case errors.Is(err, ss2022.ErrFirstRead):
			r.fail("first-read-refused", "c2s", "%sHandleStream: %v", hop, err)
		case errors.Is(err, errDeadlock):
			r.fail("deadlock", "c2s", "%sHandleStream: %v", hop, err)
		default:
			r.fail("handle-error", "c2s", "%sHandleStream: %v", hop, err)
		}
		t.b.giveUp()
		return nil, nil, false
	}
	o := &reqObs{addr: req.Addr, user: req.Username, payload: append([]byte(nil), req.Payload...)}
	if req.PendingConn == nil {
		r.fail("handle-error", "c2s", "%sHandleStream returned no connection", hop)
		t.b.giveUp()
		return nil, o, false
	}
	sc, err := req.Proceed()
	if err != nil || sc == nil {
		r.fail("handle-error", "c2s", "%sProceed: %v", hop, err)
		t.b.giveUp()
		return nil, o, false
	}
	return sc, o, true
}

func (r *runner) checkReq(o *reqObs, t *tunnel, hop string, dialed int) {
	c := r.c
	T := targetAddr(c.Target)
	wantAddr := T
	if c.Target == 4 {
		// SOCKS5 has no IPv4-mapped form; not distinguishing it is not demanded.
		wantAddr = conn.AddrFromIPAndPort(T.IP().Unmap(), T.Port())
	}
	if !o.addr.Equals(wantAddr) || o.addr.String() != wantAddr.String() {
		r.fail("target-mismatch", "c2s", "%sserver observed target %q, client dialed %q", hop, o.addr.String(), T.String())
	}
	if o.user != t.user {
		r.fail("username-mismatch", "c2s", "%sserver observed user %q, owner is %q", hop, o.user, t.user)
	}
	fit := min(dialed, room(c.Target))
	if !bytes.Equal(o.payload, r.want.c2s[:fit]) {
		if len(o.payload) <= len(r.want.c2s) && bytes.Equal(o.payload, r.want.c2s[:len(o.payload)]) {
			r.fail("request-payload-extent", "c2s", "%srequest carried %d bytes of the %d-byte initial payload; %d fit", hop, len(o.payload), dialed, fit)
		} else {
			r.fail("request-payload-mismatch", "c2s", "%srequest payload (%d bytes) is not a prefix of the client's stream (initial payload %d bytes)", hop, len(o.payload), dialed)
		}
	}
}

// serverSide plays the final server of the case on tunnel t.
func (r *runner) serverSide(t *tunnel, obs **reqObs, gotC2S *[]byte, doneC2S *bool) {
	c := r.c
	sc, o, ok := r.handle(t, "")
	*obs = o
	if !ok {
		return
	}
	r.w.Go("server-reader", func() {
		got, ok := r.recvAll(sc, &c.C2S, "c2s", len(r.want.c2s))
		*gotC2S = got
		*doneC2S = ok
		if !ok {
			t.b.in.drain()
		}
	}, func(msg string) {
		r.fail("panic", "c2s", "%s", msg)
		t.b.in.drain()
	})
	if !r.sendAll(sc, &c.S2C, "s2c", r.sendS2C) {
		t.b.out.closeWrite()
		return
	}
	r.ops.Add(1)
	if err := sc.CloseWrite(); err != nil {
		r.fail("write-error", "s2c", "CloseWrite: %v", err)
		t.b.out.closeWrite()
	}
}

// relayGreeting is what a relay with Pre set writes to the client before the response.
const relayGreeting = "RLY"

type onlyReader struct{ io.Reader }
type onlyWriter struct{ io.Writer }

func (r *runner) relayCopy(dst, src netio.Conn, dir string) error {
	r.ops.Add(1)
	switch r.c.Relay {
	case "readfrom":
		rf, ok := dst.(io.ReaderFrom)
		if !ok {
			return fmt.Errorf("%T has no ReadFrom", dst)
		}
		_, err := rf.ReadFrom(src)
		return err
	case "plain":
		_, err := io.CopyBuffer(onlyWriter{dst}, onlyReader{src}, make([]byte, 32<<10))
		return err
	default:
		_, err := io.Copy(dst, src)
		return err
	}
}

// relaySide terminates tunnel t1 and forwards through tunnel t2 the way
// service/tcp.go does: HandleStream, (optionally wait for payload), DialStream
// with the request's payload, bidirectional copy.
func (r *runner) relaySide(t1, t2 *tunnel, obs **reqObs) {
	c := r.c
	sc, o, ok := r.handle(t1, "relay hop: ")
	*obs = o
	if !ok {
		t2.a.giveUp()
		return
	}
	payload := o.payload
	if c.Wait && len(payload) == 0 {
		buf := make([]byte, 1440)
		r.ops.Add(1)
		n, err := sc.Read(buf)
		if err != nil && err != io.EOF {
			r.fail("relay-error", "c2s", "relay's wait-for-payload Read: %v", err)
			t1.b.giveUp()
			t2.a.giveUp()
			return
		}
		payload = buf[:n]
	}
	r.relayDialed = len(payload)
	r.ops.Add(1)
	cc, err := t2.client.DialStream(context.Background(), o.addr, payload)
	if err != nil || cc == nil {
		r.fail("relay-error", "c2s", "relay DialStream: %v", err)
		t1.b.giveUp()
		t2.a.giveUp()
		return
	}
	r.w.Go("relay-s2c", func() {
		if c.Pre {
			r.ops.Add(1)
			if _, err := sc.Write([]byte(relayGreeting)); err != nil {
				r.fail("relay-error", "s2c", "relay's own write to the client-facing tunnel: %v", err)
				t2.a.in.drain()
				t1.b.out.closeWrite()
				return
			}
		}
		if c.Peek {
			r.ops.Add(1)
			if n, err := cc.Read(nil); n != 0 || (err != nil && err != io.EOF) {
				r.fail("relay-error", "s2c", "relay's zero-length Read on the onward connection: n=%d err=%v", n, err)
				t2.a.in.drain()
				t1.b.out.closeWrite()
				return
			}
		}
		if err := r.relayCopy(sc, cc, "s2c"); err != nil {
			r.fail(relayErrClause(err), "s2c", "relay copy server->client: %v", err)
			t2.a.in.drain()
			t1.b.out.closeWrite()
			return
		}
		r.ops.Add(1)
		sc.CloseWrite()
	}, func(msg string) {
		r.fail("panic", "s2c", "%s", msg)
		t2.a.in.drain()
		t1.b.out.closeWrite()
	})
	if err := r.relayCopy(cc, sc, "c2s"); err != nil {
		r.fail(relayErrClause(err), "c2s", "relay copy client->server: %v", err)
		t1.b.in.drain()
		t2.a.out.closeWrite()
		return
	}
	r.ops.Add(1)
	cc.CloseWrite()
}

func relayErrClause(err error) string {
	if errors.Is(err, ss2022.ErrFirstRead) {
		return "first-read-refused"
	}
	if errors.Is(err, errDeadlock) {
		return "deadlock"
	}
	return "relay-error"
}

// ---------------------------------------------------------------------------
// One case

func sortedCuts(c []int64) []int64 {
	out := append([]int64(nil), c...)
	slices.Sort(out)
	return out
}

func sum(a []int) (s int) {
	for _, x := range a {
		s += x
	}
	return
}

func runCase(c *Case) *result {
	res := &result{Logs: map[string][]int{}}
	r := &runner{c: c, w: newWorld(), mu: make(chan struct{}, 1), res: res}
	r.want.c2s = dataC2S[:c.P+sum(c.C2S.Sizes)]
	r.sendS2C = dataS2C[:sum(c.S2C.Sizes)]
	r.want.s2c = r.sendS2C
	if c.Pre {
		r.want.s2c = append([]byte(relayGreeting), r.sendS2C...)
	}

	vcrand.Deterministic = true
	vcrand.Reset()
	hi := c.PadHi
	vrand.Hook = func(n int) int {
		if hi {
			return n - 1
		}
		return 0
	}

	t1, err := newTunnel(r.w, c.T1, c.Cap, "t1")
	if err != nil {
		r.fail("config-error", "c2s", "%v", err)
		return res
	}
	t1.c2s.cuts, t1.c2s.every = sortedCuts(c.C2S.Cuts), c.C2S.Every
	t1.s2c.cuts, t1.s2c.every = sortedCuts(c.S2C.Cuts), c.S2C.Every
	if !c.T1.Seg {
		t1.c2s.everyFrom, t1.s2c.everyFrom = c.T1.firstRegionC2S(), c.T1.firstRegionS2C()
	}
	last := t1
	var t2 *tunnel
	if c.Chain {
		t2, err = newTunnel(r.w, c.T2, c.Cap, "t2")
		if err != nil {
			r.fail("config-error", "c2s", "%v", err)
			return res
		}
		t2.c2s.every, t2.s2c.every = c.Every2, c.Every2
		if !c.T2.Seg {
			t2.c2s.everyFrom, t2.s2c.everyFrom = c.T2.firstRegionC2S(), c.T2.firstRegionS2C()
		}
		last = t2
	}

	var (
		gotS2C, gotC2S   []byte
		doneS2C, doneC2S bool
		obsLast, obsHop  *reqObs
	)
	r.w.Go("client", func() { r.clientSide(t1, &gotS2C, &doneS2C) }, func(msg string) {
		r.fail("panic", "c2s", "%s", msg)
		t1.a.giveUp()
	})
	if c.Chain {
		r.w.Go("relay", func() { r.relaySide(t1, t2, &obsHop) }, func(msg string) {
			r.fail("panic", "c2s", "%s", msg)
			t1.b.giveUp()
			t2.a.giveUp()
		})
	}
	r.w.Go("server", func() { r.serverSide(last, &obsLast, &gotC2S, &doneC2S) }, func(msg string) {
		r.fail("panic", "s2c", "%s", msg)
		last.b.giveUp()
	})
	r.w.release()
	r.w.wg.Wait()

	// ---- oracle -----------------------------------------------------------
	refC2S := r.expectRefusal(c.T1, &c.C2S, c.T1.firstRegionC2S())
	refS2C := r.expectRefusal(c.T1, &c.S2C, c.T1.firstRegionS2C())
	var fails []fail
	sawRefC2S, sawRefS2C := false, false
	for _, f := range res.Fails {
		if f.Clause == "first-read-refused" && f.Dir == "c2s" && refC2S {
			sawRefC2S = true
			continue
		}
		if f.Clause == "first-read-refused" && f.Dir == "s2c" && refS2C {
			sawRefS2C = true
			continue
		}
		fails = append(fails, f)
	}
	res.Fails = fails
	if refC2S {
		// the whole connection is refused as configured; nothing else is demanded
		if !sawRefC2S {
			r.fail("segmented-header-not-refused", "c2s", "transport cut %v inside the %d-byte first-read region, allowance off, but the server did not refuse with ErrFirstRead", c.C2S.Cuts, c.T1.firstRegionC2S())
		} else {
			res.Refused = append(res.Refused, "c2s")
			// drop the consequences of the refusal (the client sees an empty response stream)
			var keep []fail
			for _, f := range res.Fails {
				if f.Clause == "panic" || f.Clause == "deadlock" {
					keep = append(keep, f)
				}
			}
			res.Fails = keep
		}
	} else {
		if refS2C {
			if !sawRefS2C {
				r.fail("segmented-header-not-refused", "s2c", "transport cut %v inside the %d-byte first-read region, allowance off, but the client did not refuse with ErrFirstRead", c.S2C.Cuts, c.T1.firstRegionS2C())
			} else {
				res.Refused = append(res.Refused, "s2c")
			}
		}
		if msg := t1.checkStripped(); msg != "" {
			r.fail("identity-header-chain", "c2s", "%s", msg)
		}
		if t2 != nil {
			if msg := t2.checkStripped(); msg != "" {
				r.fail("identity-header-chain", "c2s", "tunnel 2: %s", msg)
			}
		}
		if obsHop != nil {
			r.checkReq(obsHop, t1, "relay hop: ", c.P)
		}
		if obsLast != nil {
			dialed := c.P
			if c.Chain {
				dialed = r.relayDialed
			}
			r.checkReq(obsLast, last, "", dialed)
			if doneC2S {
				all := append(append([]byte(nil), obsLast.payload...), gotC2S...)
				r.compare("c2s", all, r.want.c2s, "request payload ++ bytes read by the server")
			}
		}
		if doneS2C && !(refS2C && sawRefS2C) {
			r.compare("s2c", gotS2C, r.want.s2c, "bytes read by the client")
		}
	}
	r.w.mu.Lock()
	if r.w.dead {
		found := false
		for _, f := range res.Fails {
			if f.Clause == "deadlock" {
				found = true
			}
		}
		if !found {
			res.Fails = append(res.Fails, fail{"deadlock", "c2s", "all goroutines of the case blocked"})
		}
	}
	r.w.mu.Unlock()

	res.Ops = r.ops.Load()
	res.Bytes = int64(len(r.want.c2s) + len(r.want.s2c))
	res.Logs["t1.c2s"], res.Logs["t1.s2c"] = t1.c2s.wlog, t1.s2c.wlog
	res.Reads = int64(t1.c2s.nreads + t1.s2c.nreads)
	if t2 != nil {
		res.Logs["t2.c2s"], res.Logs["t2.s2c"] = t2.c2s.wlog, t2.s2c.wlog
		res.Reads += int64(t2.c2s.nreads + t2.s2c.nreads)
	}
	return res
}
