// C12: UDP sessions end cleanly: idle eviction, restart after eviction, prompt
// shutdown.  Same environment as C11 (real relay services on real loopback
// sockets under the controlled scheduler, virtual clock), with NAT timeouts,
// Stop, failing session initialisation and failing sends in the explored
// space.
package main

import (
	"context"
	"fmt"
	"net/netip"
	"os"
	"sort"
	"strings"
	"time"

	"github.com/database64128/shadowsocks-go/conn"

	"verif/harness"
	"verif/lib/udpenv"
	"verif/shim/vrand"
	"verif/vnet/vudp"
	"verif/vsched"
)

type spec struct {
	server string
	batch  string
	kind   string // evict stopBusy stopInit reject sendErr sendErrBusy timeoutRace twoStop port0 evictTwo
}

func (s spec) String() string {
	return fmt.Sprintf("server=%s;batch=%s;kind=%s", s.server, s.batch, s.kind)
}

func parse(p string) spec {
	var s spec
	for _, kv := range strings.Split(p, ";") {
		k, v, _ := strings.Cut(kv, "=")
		switch k {
		case "server":
			s.server = v
		case "batch":
			s.batch = v
		case "kind":
			s.kind = v
		}
	}
	return s
}

const natTimeout = 60 * time.Second

func scenario(param string) vsched.Scenario {
	sp := parse(param)
	return func() (func(), func(*vsched.Exec) (string, string)) {
		var (
			env               *udpenv.Env
			buildErr          error
			notes             []string
			tableAfterEvict   = -2
			socksAfterEvict   = -2
			secondEcho        string
			stopped           bool
			leak              vudp.Report
			liveAfterStop     []string
			sessionsAfterStop int
			targetGot         string
			firstEcho         string
		)
		note := func(f string, a ...any) { notes = append(notes, fmt.Sprintf(f, a...)) }
		body := func() {
			var err error
			dflt := ""
			if sp.kind == "reject" {
				dflt = "reject"
			}
			env, err = udpenv.New(udpenv.Spec{Server: sp.server, Batch: sp.batch, NATTimeout: "60s", DefaultUDP: dflt})
			if err != nil {
				buildErr = err
				return
			}
			vudp.Hosts = map[string][]netip.Addr{}
			vudp.InjectSendErrors = sp.kind == "sendErr"
			defer func() { vudp.InjectSendErrors = false }()
			t := env.NewTarget(1)
			target := conn.AddrFromIPPort(t.Addr)
			if err := env.Start(context.Background()); err != nil {
				buildErr = err
				return
			}
			var tg vsched.Group
			tg.Go(t.Serve)
			c := env.NewClient(0, 0)
			recvEcho := func(want string) string {
				for i := 0; i < 8; i++ {
					_, pl, err := c.Recv(0)
					if err != nil && strings.HasPrefix(err.Error(), "unpack:") {
						continue // e.g. an older echo read after its timestamp went stale: not the reply we wait for
					}
					if err != nil {
						return "error: " + err.Error()
					}
					if string(pl) == want {
						return want
					}
				}
				return "other replies only"
			}
			switch sp.kind {
			case "evict":
				c.Send(target, []byte("p1"))
				firstEcho = recvEcho("echo:p1")
				vsched.Sleep(natTimeout + 5*time.Second)
				vsched.WaitIdle()
				tableAfterEvict = env.TableLen()
				socksAfterEvict = vudp.OpenRelaySockets()
				c.Send(target, []byte("p2"))
				secondEcho = recvEcho("echo:p2")
			case "evictTwo":
				// two client addresses with a session each; both idle out; both come back
				c2 := env.NewClient(1, 0)
				defer c2.Close()
				c.Send(target, []byte("p1"))
				firstEcho = recvEcho("echo:p1")
				c2.Send(target, []byte("q1"))
				if _, pl, err := c2.Recv(0); err != nil || string(pl) != "echo:q1" {
					firstEcho = fmt.Sprintf("second client: %q %v", pl, err)
				}
				vsched.Sleep(natTimeout + 5*time.Second)
				vsched.WaitIdle()
				tableAfterEvict = env.TableLen()
				socksAfterEvict = vudp.OpenRelaySockets()
				c.Send(target, []byte("p2"))
				secondEcho = recvEcho("echo:p2")
				c2.Send(target, []byte("q2"))
				if _, pl, err := c2.Recv(0); err != nil || string(pl) != "echo:q2" {
					secondEcho = fmt.Sprintf("second client: %q %v", pl, err)
				}
			case "timeoutRace":
				c.Send(target, []byte("p1"))
				firstEcho = recvEcho("echo:p1")
				vsched.Sleep(natTimeout) // the session's deadline is due at about this instant
				c.Send(target, []byte("p2"))
				vsched.Sleep(natTimeout + 5*time.Second)
				vsched.WaitIdle()
				c.Send(target, []byte("p3"))
				secondEcho = recvEcho("echo:p3")
			case "stopBusy":
				// an established session with packets in flight in both directions when Stop is called
				c.Send(target, []byte("p1"))
				firstEcho = recvEcho("echo:p1")
				c.Send(target, []byte("p2"))
				c.Send(target, []byte("p3"))
			case "sendErrBusy":
				// an established session; from then on every relay send may fail, with Stop racing the uplink
				c.Send(target, []byte("p1"))
				firstEcho = recvEcho("echo:p1")
				vudp.InjectSendErrors = true
				c.Send(target, []byte("p2"))
				c.Send(target, []byte("p3"))
			case "stopInit", "reject", "sendErr":
				// Stop races with session initialisation (routing, client session, socket)
				c.Send(target, []byte("p1"))
				if sp.kind == "sendErr" {
					c.Send(target, []byte("p2"))
				}
				if sp.kind == "reject" {
					// more datagrams of the same session arrive while the rejected session is being torn down
					c.Send(target, []byte("p2"))
					c.Send(target, []byte("p3"))
				}
			case "port0":
				// an established session, then a datagram whose destination the kernel rejects every time
				// (port 0: sendmsg fails with EINVAL), then ordinary traffic again
				c.Send(target, []byte("p1"))
				firstEcho = recvEcho("echo:p1")
				if sp.server != "direct" {
					c.Send(conn.AddrFromIPPort(netip.AddrPortFrom(t.Addr.Addr(), 0)), []byte("to-port-0"))
				}
				c.Send(target, []byte("p2"))
				secondEcho = recvEcho("echo:p2")
			case "twoStop":
				c2 := env.NewClient(1, 0)
				c.Send(target, []byte("p1"))
				c2.Send(target, []byte("q1"))
				c.Send(target, []byte("p2"))
				defer c2.Close()
			}
			// promptness: NAT timers may not fire from here on; Stop must still return
			vsched.SetClockLimit(time.Second)
			env.Stop()
			stopped = true
			vsched.SetClockLimit(0)
			liveAfterStop = vsched.LiveThreadDescs()
			sessionsAfterStop = env.OpenSessions
			c.Close()
			t.Close()
			tg.Wait()
			targetGot = t.Payloads()
			leak = vudp.Finish()
			_ = note
		}
		check := func(e *vsched.Exec) (string, string) {
			obs := fmt.Sprintf("first=%q second=%q table=%d socks=%d stopped=%v target=%s leak=%v", firstEcho, secondEcho, tableAfterEvict, socksAfterEvict, stopped, targetGot, leak.RelayLeaked)
			if env != nil {
				obs = env.Canon(obs)
			}
			if buildErr != nil {
				return obs, "harness: cannot build/start services: " + buildErr.Error()
			}
			if len(e.Panics) > 0 {
				return obs, "panic: " + env.Canon(e.Panics[0])
			}
			if e.Deadlock || e.HorizonHit {
				bl := env.Canon(strings.Join(e.Blocked, " "))
				if !stopped && strings.Contains(bl, "T0(main)@wg.Wait") {
					return obs, "Stop does not return without waiting for a NAT timeout (NAT timers frozen): " + bl
				}
				if strings.Contains(bl, "client") && strings.Contains(bl, "ReadFrom") {
					return obs, "a reply never arrived (client blocked for ever): " + bl
				}
				return obs, "deadlock or no termination: " + bl
			}
			switch sp.kind {
			case "evict", "evictTwo":
				if firstEcho != "echo:p1" {
					return obs, "first datagram was not echoed: " + firstEcho
				}
				if tableAfterEvict != 0 {
					return obs, fmt.Sprintf("session still in the table %v after the NAT timeout without client traffic", natTimeout+5*time.Second)
				}
				if socksAfterEvict != 1 {
					return obs, fmt.Sprintf("%d relay sockets open after eviction (only the listener expected)", socksAfterEvict)
				}
				if secondEcho != "echo:p2" {
					return obs, "a packet after eviction did not get a reply through a new session: " + secondEcho
				}
			case "port0":
				if firstEcho != "echo:p1" || secondEcho != "echo:p2" {
					return obs, "traffic after a datagram with an unsendable destination is no longer relayed: " + firstEcho + " / " + secondEcho
				}
			case "timeoutRace":
				if secondEcho != "echo:p3" {
					return obs, "a packet after eviction did not get a reply through a new session: " + secondEcho
				}
			}
			if !stopped {
				return obs, "Stop did not return"
			}
			var relayThreads []string
			for _, d := range liveAfterStop {
				if !strings.Contains(d, "(h)") {
					relayThreads = append(relayThreads, d)
				}
			}
			if len(relayThreads) > 0 {
				return obs, "relay goroutines still alive after Stop returned: " + env.Canon(strings.Join(relayThreads, " "))
			}
			if len(leak.RelayLeaked) > 0 {
				return obs, fmt.Sprintf("relay sockets still open after Stop: %v", leak.RelayLeaked)
			}
			if sessionsAfterStop != 0 {
				return obs, fmt.Sprintf("%d outgoing client session(s) the relay opened were never closed (for a SOCKS5 client that is a TCP control connection and a goroutine left behind)", sessionsAfterStop)
			}
			return obs, ""
		}
		return body, check
	}
}

func family(c *harness.Check) []string {
	var out []string
	for _, sv := range []string{"none", "ss2022", "ss2022mu", "socks5", "direct"} {
		for _, b := range []string{"no", "sendmmsg"} {
			for _, k := range []string{"evict", "timeoutRace", "stopBusy", "stopInit", "reject", "sendErr", "sendErrBusy", "twoStop", "port0", "evictTwo"} {
				if !c.Thorough() && (sv == "socks5" || sv == "direct") && (k == "timeoutRace" || k == "twoStop" || k == "reject") {
					continue
				}
				if !c.Thorough() && sv == "ss2022mu" && k != "evictTwo" && k != "stopBusy" && k != "sendErr" && k != "twoStop" {
					continue // multi-user server: the kinds with two sessions or in-flight work
				}
				out = append(out, spec{sv, b, k}.String())
			}
		}
	}
	sort.Strings(out)
	return out
}

func main() {
	vrand.Hook = func(n int) int { return 0 }
	vsched.MapKeyString = func(k any) string {
		if ap, ok := k.(netip.AddrPort); ok {
			return fmt.Sprint(ap.Addr().As4()[3], ":", ap.Port())
		}
		return fmt.Sprint(k)
	}
	// timers fire at quiescence (in either order when due at the same instant): letting a 60 s NAT timer
	// overtake runnable threads would model a 60 s scheduling stall, which says nothing about the relay
	harness.NoEarlyClock = true
	harness.Register("udp", scenario)
	harness.WorkerMain()
	c := harness.Start("C12")
	if c.Replay != "" {
		if harness.ReplayExploration(c) {
			os.Exit(1)
		}
		os.Exit(0)
	}
	c.Rule = "one case = one interleaving of {packet arrives, uplink packs/sends, downlink receives, NAT timer fires, Stop} on the real relay for a scenario {server protocol, batch mode, kind: idle eviction + restart, packet racing with the timeout, Stop with packets in flight, Stop during session initialisation, router rejection, failing sends (EPERM as environment deviation), two sessions}; distinct = distinct observation record"
	c.Assumptions = []string{"real loopback sockets with scheduler-mediated readiness; NAT timeouts and Stop deadlines on the virtual clock", "promptness oracle: after Stop is called no timer later than 1 s may fire, so a Stop that depends on a NAT timeout shows as a deadlock", "send failures are injected only on sockets the relay created", "outgoing client: direct only, wrapped by a counter of client sessions opened and closed (a SOCKS5 outgoing client, whose session owns a TCP control connection, is not modelled; its Close obligation is checked through the counter)"}
	c.SigOf = func(_, param, msg string) string {
		sp := parse(param)
		if i := strings.Index(msg, ": T"); i > 0 {
			msg = msg[:i] // drop the thread listing
		}
		return fmt.Sprintf("udp[kind=%s,batch=%s]: %s", sp.kind, sp.batch, msg)
	}
	params := family(c)
	// failing sends racing with Stop need three delays to reach the uplink's error path with the send
	// channel already closed, so those scenarios get the deeper bound in both tiers
	var deep, rest []string
	for _, p := range params {
		if k := parse(p).kind; k == "sendErr" || (k == "sendErrBusy" && c.Thorough()) {
			deep = append(deep, p)
		} else {
			rest = append(rest, p)
		}
	}
	results := harness.ExploreBatch("udp", rest, harness.Pick(c, 2, 3), harness.Pick(c, 40*time.Second, 3*time.Minute), true)
	results = append(results, harness.ExploreBatch("udp", deep, 3, harness.Pick(c, 60*time.Second, 3*time.Minute), true)...)
	for i, r := range results {
		if i%6 == 0 {
			c.Sample(map[string]any{"scenario": r.Param, "executions": r.Stats.Execs, "observations": len(r.Stats.Observations), "bound": r.Stats.BoundCompleted})
		}
		c.AddExploration("udp", r.Param, r.Stats, harness.Confirm(scenario(r.Param)))
	}
	c.Extra["scenarios"] = len(params)
	c.Finish()
}
