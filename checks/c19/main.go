// C19: client groups pick clients as their policy says.
//
// Part "rr" (schedules): every interleaving of 2..3 threads x 2 selections on
// the real round-robin TCP/UDP groups (the atomic index is a scheduling
// point); the multiset of clients handed out must be exactly the next n
// elements of the cycle.  Part "rand": the random groups with every answer of
// rand.IntN enumerated; only members may be returned.
//
// Part "hist" (histories): the real availability / latency / min-max-latency
// groups, built through the public ClientGroupConfig.AddClientGroup, run their
// real probe loops (workers, ticker, wait group, result rings, best scan,
// atomic switch) on the scheduler's virtual clock against fake clients whose
// probe outcome per round is scripted.  TCP groups run the real
// probe.TCPProbe over an in-memory connection; UDP groups get a scripted probe
// function (the real UDP probe needs a kernel socket).  Histories = optional
// head round + k identical filler rounds + ALL suffixes of a given depth; the
// group's answer is read during and after every round and compared with a
// reference written from the property statement.
package main

import (
	"context"
	"errors"
	"fmt"
	"io"
	"net"
	"os"
	"sort"
	"strconv"
	"strings"
	"time"

	"github.com/database64128/shadowsocks-go"
	"github.com/database64128/shadowsocks-go/clientgroups"
	"github.com/database64128/shadowsocks-go/conn"
	"github.com/database64128/shadowsocks-go/jsoncfg"
	"github.com/database64128/shadowsocks-go/netio"
	"github.com/database64128/shadowsocks-go/zerocopy"
	"go.uber.org/zap"

	"verif/harness"
	"verif/shim/vcontext"
	"verif/shim/vrand"
	"verif/vsched"
)

// ---------------------------------------------------------------------------
// probe outcomes

type outcome byte

const (
	oFail     outcome = iota // the dial / session fails at once
	o10                      // success after 10 ms
	o20                      // success after 20 ms
	o30                      // success after 30 ms
	oStatus                  // an answer arrives after 10 ms but it is not a success (HTTP 500)
	oHang                    // connected at once, the answer never arrives: fails at the timeout
	oDialHang                // the dial itself blocks until the probe's context ends
)

var outcomeNames = []string{"F", "10", "20", "30", "F500", "Fhang", "Fdialhang"}

func (o outcome) String() string { return outcomeNames[o] }
func (o outcome) ok() bool       { return o >= o10 && o <= o30 }
func (o outcome) latency() time.Duration {
	return time.Duration(o) * 10 * time.Millisecond // only for ok()
}

// duration is how long the probe occupies its worker.
func (o outcome) duration(timeout time.Duration) time.Duration {
	switch {
	case o.ok():
		return o.latency()
	case o == oStatus:
		return 10 * time.Millisecond
	case o == oHang || o == oDialHang:
		return timeout
	}
	return 0
}

var alphabets = map[string][]outcome{
	"A4": {oFail, o10, o20, o30},
	"A3": {oFail, o10, o20},
	"AK": {oFail, oStatus, oHang, oDialHang, o10, o20},
}

const (
	probeTimeout  = 5 * time.Second
	probeInterval = 30 * time.Second
	midOffset     = 5 * time.Millisecond // a Select this long after the tick is "while probes are running" iff some probe takes time
	postOffset    = 29 * time.Second     // every round is over by then (<= 5 clients x 5 s even with one worker)
)

// retention as stated by the property: 64 rounds of availability bits, 32 latency samples
func retention(policy string) int {
	if policy == "availability" {
		return 64
	}
	return 32
}

// ---------------------------------------------------------------------------
// scenario parameters

type spec struct {
	part    string // hist | rr | rand
	proto   string // tcp | udp
	policy  string
	n       int    // clients in the group
	k       int    // filler rounds
	depth   int    // suffix depth
	alpha   string // alphabet of the suffix rounds
	hs, fs  string // head set / filler set: none | small | full
	conc    int    // probe concurrency (0 = default)
	threads int    // rr: concurrent threads
	sel     int    // rr: selections per thread; rand: selections
	pre     int    // rr: sequential selections before the concurrent phase
	fix     string // explicit history "F,10/10,10/..." (samples, self test)
}

func (s spec) String() string {
	kv := []string{"part=" + s.part, "proto=" + s.proto, "policy=" + s.policy, "n=" + strconv.Itoa(s.n)}
	add := func(k string, v int) {
		if v != 0 {
			kv = append(kv, k+"="+strconv.Itoa(v))
		}
	}
	add("k", s.k)
	add("depth", s.depth)
	if s.alpha != "" {
		kv = append(kv, "alpha="+s.alpha)
	}
	if s.hs != "" {
		kv = append(kv, "hs="+s.hs)
	}
	if s.fs != "" {
		kv = append(kv, "fs="+s.fs)
	}
	add("conc", s.conc)
	add("threads", s.threads)
	add("sel", s.sel)
	add("pre", s.pre)
	if s.fix != "" {
		kv = append(kv, "fix="+s.fix)
	}
	return strings.Join(kv, ";")
}

func parseSpec(p string) spec {
	var s spec
	for _, kv := range strings.Split(p, ";") {
		k, v, _ := strings.Cut(kv, "=")
		n, _ := strconv.Atoi(v)
		switch k {
		case "part":
			s.part = v
		case "proto":
			s.proto = v
		case "policy":
			s.policy = v
		case "n":
			s.n = n
		case "k":
			s.k = n
		case "depth":
			s.depth = n
		case "alpha":
			s.alpha = v
		case "hs":
			s.hs = v
		case "fs":
			s.fs = v
		case "conc":
			s.conc = n
		case "threads":
			s.threads = n
		case "sel":
			s.sel = n
		case "pre":
			s.pre = n
		case "fix":
			s.fix = v
		}
	}
	return s
}

func pow(a, b int) int {
	r := 1
	for ; b > 0; b-- {
		r *= a
	}
	return r
}

func decodeRound(v int, a []outcome, n int) []outcome {
	r := make([]outcome, n)
	for i := 0; i < n; i++ {
		r[i] = a[v%len(a)]
		v /= len(a)
	}
	return r
}

func allRounds(a []outcome, n int) [][]outcome {
	var out [][]outcome
	for v := 0; v < pow(len(a), n); v++ {
		out = append(out, decodeRound(v, a, n))
	}
	return out
}

func uniform(o outcome, n int) []outcome {
	r := make([]outcome, n)
	for i := range r {
		r[i] = o
	}
	return r
}

func except(base outcome, n, p int, o outcome) []outcome {
	r := uniform(base, n)
	r[p] = o
	return r
}

func dedup(in [][]outcome) [][]outcome {
	seen := map[string]bool{}
	var out [][]outcome
	for _, r := range in {
		k := fmt.Sprint(r)
		if !seen[k] {
			seen[k] = true
			out = append(out, r)
		}
	}
	return out
}

// headSet: the optional first round, which the fillers later push out of the
// retained history.  nil = no head round.
func headSet(sp spec) [][]outcome {
	switch sp.hs {
	case "small":
		// one client differs from the rest, at the first or the last position,
		// for better or worse
		var hs [][]outcome
		for _, p := range []int{0, sp.n - 1} {
			hs = append(hs, except(o10, sp.n, p, oFail), except(o10, sp.n, p, o30), except(oFail, sp.n, p, o10), except(o30, sp.n, p, o10))
		}
		return append([][]outcome{nil}, dedup(hs)...)
	case "full":
		return append([][]outcome{nil}, allRounds(alphabets["A4"], sp.n)...)
	}
	return [][]outcome{nil}
}

// fillSet: the round repeated k times.
func fillSet(sp spec) [][]outcome {
	switch sp.fs {
	case "full":
		return allRounds(alphabets["A4"], sp.n)
	case "small":
		asc, desc := make([]outcome, sp.n), make([]outcome, sp.n)
		lat := []outcome{o10, o20, o30}
		for i := range asc {
			asc[i] = lat[i%3]
			desc[i] = lat[(sp.n-1-i)%3]
		}
		return dedup([][]outcome{uniform(oFail, sp.n), uniform(o10, sp.n), uniform(o30, sp.n), asc, desc, except(o10, sp.n, 0, oFail)})
	}
	return [][]outcome{uniform(o10, sp.n)}
}

func parseHistory(s string) [][]outcome {
	var h [][]outcome
	for _, rs := range strings.Split(s, "/") {
		var r []outcome
		for _, tok := range strings.Split(rs, ",") {
			for i, n := range outcomeNames {
				if n == tok {
					r = append(r, outcome(i))
				}
			}
		}
		h = append(h, r)
	}
	return h
}

func roundString(r []outcome) string {
	s := make([]string, len(r))
	for i, o := range r {
		s[i] = o.String()
	}
	return "(" + strings.Join(s, ",") + ")"
}

// historyString writes a history with runs of identical rounds collapsed.
func historyString(h [][]outcome) string {
	var parts []string
	for i := 0; i < len(h); {
		j := i
		for j < len(h) && roundString(h[j]) == roundString(h[i]) {
			j++
		}
		if j-i > 1 {
			parts = append(parts, fmt.Sprintf("%dx%s", j-i, roundString(h[i])))
		} else {
			parts = append(parts, roundString(h[i]))
		}
		i = j
	}
	return strings.Join(parts, " ")
}

// ---------------------------------------------------------------------------
// fake clients and the environment around one real group

var (
	harnessAddr = conn.MustAddrFromDomainPort("harness.invalid", 1)
	errDirect   = errors.New("c19: harness dial")
)

type env struct {
	sp        spec
	hist      [][]outcome
	t0        int64
	calls     [][]int // [round][client] probes started
	anomalies []string
	tcp       []*fakeTCP
	udp       []*fakeUDP
	tcpGroup  netio.StreamClient
	udpGroup  zerocopy.UDPClient
	services  []shadowsocks.Service
	served    int // index of the fake client that served the last harness-initiated call
}

func clientName(i int) string { return "c" + strconv.Itoa(i) }

// scripted looks up what the probe of client i that starts now must do.
func (e *env) scripted(i int) outcome {
	r := int((vsched.NowNS()-e.t0)/int64(probeInterval)) - 1
	if i < 0 || r < 0 || r >= len(e.hist) {
		e.anomalies = append(e.anomalies, fmt.Sprintf("probe of client %d outside the scripted rounds (round %d)", i, r))
		return oFail
	}
	e.calls[r][i]++
	return e.hist[r][i]
}

type fakeTCP struct {
	env *env
	idx int
}

// probeAnswered, when set, is called by a fake client right before a successful scripted probe returns to the
// probe loop's worker (the switch scenario wakes its selecting thread there).
var probeAnswered func()

func (c *fakeTCP) NewStreamDialer() (netio.StreamDialer, netio.StreamDialerInfo) {
	return c, netio.StreamDialerInfo{Name: clientName(c.idx)}
}

func (c *fakeTCP) DialStream(ctx context.Context, addr conn.Addr, payload []byte) (netio.Conn, error) {
	if addr.Equals(harnessAddr) {
		c.env.served = c.idx
		return nil, errDirect
	}
	switch o := c.env.scripted(c.idx); o {
	case oFail:
		return nil, errors.New("scripted dial failure")
	case oDialHang:
		vsched.Recv(ctx.Done())
		return nil, ctx.Err()
	case oHang:
		return &fakeConn{hang: true}, nil
	case oStatus:
		vsched.Sleep(10 * time.Millisecond)
		return &fakeConn{data: []byte("HTTP/1.1 500 Internal Server Error\r\nContent-Length: 0\r\n\r\n")}, nil
	default:
		vsched.Sleep(o.latency())
		if probeAnswered != nil {
			probeAnswered()
		}
		return &fakeConn{data: []byte("HTTP/1.1 204 No Content\r\n\r\n")}, nil
	}
}

// fakeConn is the connection a fake TCP client hands to the real probe.TCPProbe.
type fakeConn struct {
	data    []byte
	hang    bool
	rdlPast bool
	closed  bool
}

type fakeAddr struct{}

func (fakeAddr) Network() string { return "fake" }
func (fakeAddr) String() string  { return "fake" }

func (c *fakeConn) Read(p []byte) (int, error) {
	if c.hang {
		vsched.PointIf(func() bool { return c.rdlPast || c.closed }, "fakeConn.Read")
		if c.closed {
			return 0, net.ErrClosed
		}
		return 0, os.ErrDeadlineExceeded
	}
	if len(c.data) == 0 {
		return 0, io.EOF
	}
	n := copy(p, c.data)
	c.data = c.data[n:]
	return n, nil
}
func (c *fakeConn) Write(p []byte) (int, error) { return len(p), nil }
func (c *fakeConn) Close() error                { c.closed = true; return nil }
func (c *fakeConn) CloseWrite() error           { return nil }
func (c *fakeConn) LocalAddr() net.Addr         { return fakeAddr{} }
func (c *fakeConn) RemoteAddr() net.Addr        { return fakeAddr{} }
func (c *fakeConn) SetDeadline(t time.Time) error {
	return c.SetReadDeadline(t)
}
func (c *fakeConn) SetReadDeadline(t time.Time) error {
	c.rdlPast = !t.IsZero() && !t.After(vsched.Now())
	return nil
}
func (c *fakeConn) SetWriteDeadline(time.Time) error { return nil }

type fakeUDP struct {
	env *env
	idx int
}

func (c *fakeUDP) Info() zerocopy.UDPClientInfo {
	return zerocopy.UDPClientInfo{Name: clientName(c.idx)}
}

func (c *fakeUDP) NewSession(ctx context.Context) (zerocopy.UDPClientSessionInfo, zerocopy.UDPClientSession, error) {
	c.env.served = c.idx
	return zerocopy.UDPClientSessionInfo{Name: clientName(c.idx)}, zerocopy.UDPClientSession{Close: zerocopy.NoopClose}, nil
}

// probe is the scripted connectivity test of a UDP client.
func (c *fakeUDP) probe(ctx context.Context) error {
	switch o := c.env.scripted(c.idx); o {
	case oFail:
		return errors.New("scripted session failure")
	case oHang, oDialHang:
		vsched.Recv(ctx.Done())
		return ctx.Err()
	case oStatus:
		vsched.Sleep(10 * time.Millisecond)
		return errors.New("scripted bad answer")
	default:
		vsched.Sleep(o.latency())
		if probeAnswered != nil {
			probeAnswered()
		}
		return nil
	}
}

// newEnv builds n fake clients plus one decoy that is NOT in the group and the
// real group over them through the public configuration entry point.
func newEnv(sp spec, hist [][]outcome) (*env, error) {
	e := &env{sp: sp, hist: hist, served: -1}
	e.calls = make([][]int, len(hist))
	for r := range e.calls {
		e.calls[r] = make([]int, sp.n)
	}
	tcpBy := map[string]netio.StreamClient{}
	udpBy := map[string]zerocopy.UDPClient{}
	var names []string
	for i := 0; i < sp.n; i++ {
		names = append(names, clientName(i))
		e.tcp = append(e.tcp, &fakeTCP{env: e, idx: i})
		e.udp = append(e.udp, &fakeUDP{env: e, idx: i})
		tcpBy[clientName(i)] = e.tcp[i]
		udpBy[clientName(i)] = e.udp[i]
	}
	tcpBy["decoy"] = &fakeTCP{env: e, idx: -1}
	udpBy["decoy"] = &fakeUDP{env: e, idx: -1}
	pc := clientgroups.ConnectivityProbeConfig{
		Timeout:     jsoncfg.Duration(probeTimeout),
		Interval:    jsoncfg.Duration(probeInterval),
		Concurrency: sp.conc,
	}
	cfg := clientgroups.ClientGroupConfig{Name: "grp"}
	if sp.proto == "tcp" {
		cfg.TCP = clientgroups.ClientSelectionConfig[clientgroups.TCPConnectivityProbeConfig]{
			Policy:  clientgroups.ClientSelectionPolicy(sp.policy),
			Clients: names,
			Probe:   clientgroups.TCPConnectivityProbeConfig{ConnectivityProbeConfig: pc},
		}
	} else {
		cfg.UDP = clientgroups.ClientSelectionConfig[clientgroups.UDPConnectivityProbeConfig]{
			Policy:  clientgroups.ClientSelectionPolicy(sp.policy),
			Clients: names,
			Probe:   clientgroups.UDPConnectivityProbeConfig{ConnectivityProbeConfig: pc},
		}
	}
	if err := cfg.AddClientGroup(zap.NewNop(), tcpBy, udpBy, func(s shadowsocks.Service) { e.services = append(e.services, s) }); err != nil {
		return nil, err
	}
	e.tcpGroup = tcpBy["grp"]
	e.udpGroup = udpBy["grp"]
	for _, s := range e.services {
		if us, ok := s.(*clientgroups.ProbeService[zerocopy.UDPClient]); ok {
			us.VerifC19SetProbe(func(ctx context.Context, client zerocopy.UDPClient) error {
				f, ok := client.(*fakeUDP)
				if !ok {
					e.anomalies = append(e.anomalies, fmt.Sprintf("probe handed a %T", client))
					return errors.New("not a fake client")
				}
				return f.probe(ctx)
			})
		}
	}
	return e, nil
}

// selectIdx asks the real group for a client the way its users do and returns
// the configuration index of the client that answered (-1: not a member).
func (e *env) selectIdx(viaDial bool) int {
	e.served = -1
	if e.sp.proto == "tcp" {
		if viaDial {
			e.tcpGroup.DialStream(context.Background(), harnessAddr, nil)
			return e.served
		}
		d, info := e.tcpGroup.NewStreamDialer()
		f, ok := d.(*fakeTCP)
		if !ok || f.idx < 0 || f.idx >= len(e.tcp) || e.tcp[f.idx] != f || info.Name != clientName(f.idx) {
			return -1
		}
		return f.idx
	}
	info, _, _ := e.udpGroup.NewSession(context.Background())
	if e.served >= 0 && info.Name != clientName(e.served) {
		return -1
	}
	return e.served
}

// ---------------------------------------------------------------------------
// histories

type histResult struct {
	hist      [][]outcome
	setupErr  string
	initial   int
	mid, post []int
	calls     [][]int
	anomalies []string
	leak      bool
	finished  bool
}

func sleepUntil(ns int64) {
	if d := ns - vsched.NowNS(); d > 0 {
		vsched.Sleep(time.Duration(d))
	}
}

// runHistory drives one real group through hist.  Runs as thread 0 of a
// controlled execution.
func runHistory(sp spec, hist [][]outcome, res *histResult) {
	res.hist = hist
	e, err := newEnv(sp, hist)
	if err != nil {
		res.setupErr = err.Error()
		return
	}
	res.calls = e.calls
	if len(e.services) != 1 {
		res.setupErr = fmt.Sprintf("%d probe services registered, want 1", len(e.services))
		return
	}
	ctx, cancel := vcontext.WithCancel(context.Background())
	e.t0 = vsched.NowNS()
	res.initial = e.selectIdx(false)
	if err := e.services[0].Start(ctx); err != nil {
		res.setupErr = "Start: " + err.Error()
		return
	}
	for r := range hist {
		tick := e.t0 + int64(probeInterval)*int64(r+1)
		sleepUntil(tick + int64(midOffset))
		res.mid = append(res.mid, e.selectIdx(r%2 == 1))
		sleepUntil(tick + int64(postOffset))
		res.post = append(res.post, e.selectIdx(r%2 == 0))
	}
	res.anomalies = e.anomalies
	res.finished = true
	cancel()
	vsched.WaitIdle()
	if vsched.LiveThreads() > 1 {
		// the probe loop did not wind down on cancellation: not demanded by this
		// property, noted in the observation; end the execution.
		res.leak = true
		vsched.Abort()
	}
}

// reference: the client the policy must serve after round `upto` (0-based),
// written from the property statement.  Lower score = better.
func reference(policy string, hist [][]outcome, upto, n int) (int, []int64) {
	lo := upto + 1 - retention(policy)
	if lo < 0 {
		lo = 0
	}
	scores := make([]int64, n)
	for i := 0; i < n; i++ {
		for r := lo; r <= upto; r++ {
			o := hist[r][i]
			lat := int64(probeTimeout) // a failed probe counts as the timeout
			if o.ok() {
				lat = int64(o.latency())
			}
			switch policy {
			case "availability":
				if o.ok() {
					scores[i]-- // more successes = better
				}
			case "latency":
				scores[i] += lat // same number of retained rounds for everyone: sum orders like the mean
			case "min-max-latency":
				if lat > scores[i] {
					scores[i] = lat
				}
			}
		}
	}
	best := 0
	for i := 1; i < n; i++ {
		if scores[i] < scores[best] {
			best = i
		}
	}
	return best, scores
}

func scoreString(policy string, s []int64, rounds int) string {
	out := make([]string, len(s))
	for i, v := range s {
		switch policy {
		case "availability":
			out[i] = fmt.Sprintf("c%d:%d ok", i, -v)
		case "latency":
			out[i] = fmt.Sprintf("c%d:mean %v", i, time.Duration(v/int64(rounds)))
		default:
			out[i] = fmt.Sprintf("c%d:worst %v", i, time.Duration(v))
		}
	}
	return strings.Join(out, " ")
}

func firstLine(s string) string {
	s, _, _ = strings.Cut(s, "\n")
	return s
}

func execTrouble(tag string, e *vsched.Exec) string {
	if len(e.Panics) > 0 {
		return tag + " panic :: " + firstLine(e.Panics[0])
	}
	if e.Deadlock {
		return tag + " deadlock :: blocked: " + strings.Join(e.Blocked, " ")
	}
	if e.HorizonHit {
		return tag + " no-termination :: step horizon reached; live: " + strings.Join(e.Blocked, " ")
	}
	return ""
}

// judgeHistory compares what the group served with the reference.  Returns the
// observation key and "shape :: details" on violation.
func judgeHistory(sp spec, res *histResult, e *vsched.Exec) (string, string) {
	tag := sp.policy + "/" + sp.proto
	tailN := sp.depth + 1
	if sp.fix != "" {
		tailN = len(res.post)
	}
	tail := func(a []int) []int {
		if len(a) > tailN {
			return a[len(a)-tailN:]
		}
		return a
	}
	obs := fmt.Sprintf("%s n=%d k=%d init=%d post=%v mid=%v leak=%v", tag, sp.n, sp.k, res.initial, tail(res.post), tail(res.mid), res.leak)
	hs := historyString(res.hist)
	if res.setupErr != "" {
		return obs, tag + " setup :: " + res.setupErr
	}
	if e != nil {
		if t := execTrouble(tag, e); t != "" {
			return obs, t + " [history " + hs + "]"
		}
	}
	if len(res.anomalies) > 0 {
		return obs, tag + " probe-outside-round :: " + res.anomalies[0] + " [history " + hs + "]"
	}
	if res.initial < 0 {
		return obs, tag + " non-member :: before any probe the group served a client that is not one of its " + strconv.Itoa(sp.n) + " members"
	}
	prev := res.initial
	for r := range res.post {
		want, scores := reference(sp.policy, res.hist, r, sp.n)
		where := fmt.Sprintf("n=%d history %s, round %d", sp.n, historyString(res.hist[:r+1]), r+1)
		for i, cnt := range res.calls[r] {
			if cnt != 1 {
				return obs, fmt.Sprintf("%s probe-round-coverage :: %s: client c%d was probed %d times in the round (every client exactly once expected)", tag, where, i, cnt)
			}
		}
		if res.mid[r] < 0 || res.post[r] < 0 {
			return obs, fmt.Sprintf("%s non-member :: %s: the group served a client that is not one of its members", tag, where)
		}
		inProgress := false
		for _, o := range res.hist[r] {
			if o.duration(probeTimeout) > midOffset {
				inProgress = true
			}
		}
		retained := r + 1
		if retained > retention(sp.policy) {
			retained = retention(sp.policy)
		}
		if inProgress && res.mid[r] != prev {
			return obs, fmt.Sprintf("%s select-during-round-not-previous-choice :: %s: %v into the round (probes still running) the group served c%d, it was serving c%d before the round", tag, where, midOffset, res.mid[r], prev)
		}
		if got := res.post[r]; got != want {
			shape := "not-best"
			if scores[got] == scores[want] {
				shape = "tie-not-first-in-configuration-order"
			} else if r+1 > retention(sp.policy) {
				shape = "not-best-after-ring-wrap"
			}
			return obs, fmt.Sprintf("%s %s :: %s: after the round the group serves c%d, expected c%d (over the last %d rounds: %s)", tag, shape, where, got, want, retained, scoreString(sp.policy, scores, retained))
		}
		if !inProgress && res.mid[r] != want {
			return obs, fmt.Sprintf("%s select-after-instant-round :: %s: every probe failed at once, %v later the group served c%d, expected c%d", tag, where, midOffset, res.mid[r], want)
		}
		prev = res.post[r]
	}
	if !res.finished {
		return obs, tag + " incomplete :: the history did not run to its end [history " + hs + "]"
	}
	return obs, ""
}

func histScenario(param string) vsched.Scenario {
	sp := parseSpec(param)
	return func() (func(), func(*vsched.Exec) (string, string)) {
		res := &histResult{initial: -1}
		body := func() {
			var hist [][]outcome
			if sp.fix != "" {
				hist = parseHistory(sp.fix)
			} else {
				hs := headSet(sp)
				if h := hs[vsched.ChooseFree(len(hs))]; h != nil {
					hist = append(hist, h)
				}
				if sp.k > 0 {
					fs := fillSet(sp)
					f := fs[vsched.ChooseFree(len(fs))]
					for i := 0; i < sp.k; i++ {
						hist = append(hist, f)
					}
				}
				a := alphabets[sp.alpha]
				for d := 0; d < sp.depth; d++ {
					hist = append(hist, decodeRound(vsched.ChooseFree(pow(len(a), sp.n)), a, sp.n))
				}
			}
			runHistory(sp, hist, res)
		}
		return body, func(e *vsched.Exec) (string, string) { return judgeHistory(sp, res, e) }
	}
}

// histCount is the number of histories a hist spec enumerates (for cross-checking the measured count).
func histCount(sp spec) int64 {
	n := int64(len(headSet(sp)))
	if sp.k > 0 {
		n *= int64(len(fillSet(sp)))
	}
	return n * int64(pow(pow(len(alphabets[sp.alpha]), sp.n), sp.depth))
}

// ---------------------------------------------------------------------------
// round-robin under concurrent selection

func rrScenario(param string) vsched.Scenario {
	sp := parseSpec(param)
	return func() (func(), func(*vsched.Exec) (string, string)) {
		var (
			pre, post []int
			results   = make([][]int, sp.threads)
			setupErr  string
		)
		body := func() {
			e, err := newEnv(sp, nil)
			if err != nil {
				setupErr = err.Error()
				return
			}
			for j := 0; j < sp.pre; j++ {
				pre = append(pre, e.selectIdx(j%2 == 1))
			}
			var g vsched.Group
			for t := 0; t < sp.threads; t++ {
				g.Go(func() {
					for s := 0; s < sp.sel; s++ {
						results[t] = append(results[t], e.selectIdx((t+s)%2 == 1))
					}
				})
			}
			g.Wait()
			for j := 0; j < 2; j++ {
				post = append(post, e.selectIdx(j%2 == 0))
			}
		}
		check := func(e *vsched.Exec) (string, string) {
			tag := "round-robin/" + sp.proto
			obs := fmt.Sprintf("%s n=%d pre=%v threads=%v post=%v", tag, sp.n, pre, results, post)
			if setupErr != "" {
				return obs, tag + " setup :: " + setupErr
			}
			if t := execTrouble(tag, e); t != "" {
				return obs, t
			}
			desc := fmt.Sprintf("n=%d, %d sequential selections then %d threads x %d selections", sp.n, sp.pre, sp.threads, sp.sel)
			total := sp.threads * sp.sel
			for _, v := range append(append([]int{}, pre...), post...) {
				if v < 0 {
					return obs, tag + " non-member :: " + desc + ": a sequential selection returned a client outside the group"
				}
			}
			if len(post) != 2 {
				return obs, tag + " incomplete :: the selections did not finish"
			}
			// where the cycle starts is not demanded: the first sequential selection
			// (or, without one, the selection after the concurrent phase) fixes it
			start := 0
			if len(pre) > 0 {
				start = pre[0]
			} else {
				start = ((post[0]-total)%sp.n + sp.n) % sp.n
			}
			for j, v := range pre {
				if w := (start + j) % sp.n; v != w {
					return obs, fmt.Sprintf("%s sequential-order :: %s: sequential selections returned %v, cyclic configuration order from c%d gives c%d at #%d", tag, desc, pre, start, w, j+1)
				}
			}
			want := make([]int, sp.n)
			for j := 0; j < total; j++ {
				want[(start+sp.pre+j)%sp.n]++
			}
			got := make([]int, sp.n)
			for _, rs := range results {
				if len(rs) != sp.sel {
					return obs, tag + " incomplete :: a selecting thread did not finish"
				}
				for _, v := range rs {
					if v < 0 {
						return obs, tag + " non-member :: " + desc + ": a concurrent selection returned a client outside the group"
					}
					got[v]++
				}
			}
			if fmt.Sprint(got) != fmt.Sprint(want) {
				return obs, fmt.Sprintf("%s concurrent-multiset :: %s: the concurrent selections handed out clients with multiplicities %v, the next %d elements of the cycle have %v (per-thread results %v, then %v)", tag, desc, got, total, want, results, post)
			}
			for j, v := range post {
				if w := (start + sp.pre + total + j) % sp.n; v != w {
					return obs, fmt.Sprintf("%s order-after-concurrent-phase :: %s: selection #%d after the concurrent phase returned c%d, the cycle continues with c%d (per-thread results %v)", tag, desc, j+1, v, w, results)
				}
			}
			return obs, ""
		}
		return body, check
	}
}

// ---------------------------------------------------------------------------
// random

var intnAsked []int

// intnHook answers the repository's rand.IntN: inside a controlled execution
// every value 0..n-1 is an (unbounded, free) enumerated choice.
func intnHook(n int) int {
	if n <= 0 {
		panic("invalid argument to IntN")
	}
	if !vsched.On() {
		return 0
	}
	intnAsked = append(intnAsked, n)
	return vsched.ChooseFree(n)
}

func randScenario(param string) vsched.Scenario {
	sp := parseSpec(param)
	return func() (func(), func(*vsched.Exec) (string, string)) {
		var (
			results  []int
			asked    []int
			setupErr string
		)
		body := func() {
			intnAsked = nil
			e, err := newEnv(sp, nil)
			if err != nil {
				setupErr = err.Error()
				return
			}
			for j := 0; j < sp.sel; j++ {
				results = append(results, e.selectIdx(j%2 == 1))
			}
			asked = append([]int(nil), intnAsked...)
		}
		check := func(e *vsched.Exec) (string, string) {
			tag := "random/" + sp.proto
			obs := fmt.Sprintf("%s n=%d results=%v asked=%v", tag, sp.n, results, asked)
			if setupErr != "" {
				return obs, tag + " setup :: " + setupErr
			}
			if t := execTrouble(tag, e); t != "" {
				return obs, t
			}
			if len(results) != sp.sel {
				return obs, tag + " incomplete :: selections did not finish"
			}
			for j, v := range results {
				if v < 0 {
					return obs, fmt.Sprintf("%s non-member :: n=%d: selection #%d returned a client outside the group (IntN asked with %v)", tag, sp.n, j+1, asked)
				}
			}
			return obs, ""
		}
		return body, check
	}
}

// ---------------------------------------------------------------------------
// folding worker results into the evidence

type agg struct {
	name                              string
	execs, steps, choice              int64
	obs                               map[string]bool
	shards                            int
	expected                          int64
	deadlocks, horizons, panics       int64
	minBound                          int
	exhaustive                        bool
	params                            []string
	maxChoices                        int
	leaks                             int64
	bounding                          string
	boundAttempted                    int
	extra                             map[string]any
	executionsByDeviation             map[int]int64
	histRoundsMin, histRoundsMax, cnt int
}

type pendingViol struct {
	shape, details, scenario, param string
	v                               vsched.Violation
}

func fold(c *harness.Check, scenario string, fn harness.ScenarioFn, rs []harness.BatchResult, groupOf func(spec) string, aggs map[string]*agg, order *[]string, viols *[]pendingViol) {
	for _, r := range rs {
		sp := parseSpec(r.Param)
		st := r.Stats
		g := groupOf(sp)
		a := aggs[g]
		if a == nil {
			a = &agg{name: g, obs: map[string]bool{}, minBound: 1 << 30, exhaustive: true, executionsByDeviation: map[int]int64{}}
			aggs[g] = a
			*order = append(*order, g)
		}
		a.shards++
		a.execs += st.Execs
		a.steps += st.Steps
		a.choice += st.ChoicePoints
		a.deadlocks += st.Deadlocks
		a.horizons += st.Horizons
		a.panics += st.PanicExecs
		a.bounding = st.Bounding
		a.boundAttempted = st.Bound
		if st.BoundCompleted < a.minBound {
			a.minBound = st.BoundCompleted
		}
		if st.MaxChoices > a.maxChoices {
			a.maxChoices = st.MaxChoices
		}
		for k, v := range st.ByDeviation {
			a.executionsByDeviation[k] += v
		}
		if sp.part == "hist" {
			a.expected += histCount(sp)
		}
		for k, n := range st.Observations {
			a.obs[k] = true
			c.Distinct(scenario+"|"+k, true)
			if strings.Contains(k, "leak=true") {
				a.leaks += n
			}
		}
		if !st.Exhaustive {
			a.exhaustive = false
			c.Cap(fmt.Sprintf("%s(%s): %s; deviation bound %d completed", scenario, r.Param, st.CapReason, st.BoundCompleted))
		} else if sp.part == "hist" && st.Execs != histCount(sp) {
			harness.Fatal("hist(%s): %d executions, the stated enumeration has %d histories", r.Param, st.Execs, histCount(sp))
		}
		c.Count(st.Execs, int64(len(st.Observations)), st.Steps)
		if sp.part != "hist" && (sp.n == 3 && sp.pre <= 1 && sp.threads <= 3 && sp.sel <= 3) && sp.proto == "tcp" {
			var keys []string
			for k := range st.Observations {
				keys = append(keys, k)
			}
			sort.Strings(keys)
			if len(keys) > 3 {
				keys = append(keys[:2], keys[len(keys)-1])
			}
			c.Sample(map[string]any{"kind": sp.part + " (some of the distinct observations of one parameterisation)", "param": r.Param, "executions": st.Execs, "distinct_observations": len(st.Observations), "observations": keys})
		}
		for _, v := range st.Violations {
			shape, details, _ := strings.Cut(v.Msg, " :: ")
			*viols = append(*viols, pendingViol{shape, details, scenario, r.Param, v})
		}
	}
}

// roundOf extracts the failing round number from a history violation's details (0 if none).
func roundOf(details string) int {
	_, rest, ok := strings.Cut(details, ", round ")
	if !ok {
		return 0
	}
	n := 0
	for _, ch := range rest {
		if ch < '0' || ch > '9' {
			break
		}
		n = n*10 + int(ch-'0')
	}
	return n
}

func reportViolations(c *harness.Check, fns map[string]harness.ScenarioFn, viols []pendingViol) {
	// smallest written-out counterexample per shape first
	sort.SliceStable(viols, func(i, j int) bool {
		a, b := viols[i], viols[j]
		if a.shape != b.shape {
			return a.shape < b.shape
		}
		if ra, rb := roundOf(a.details), roundOf(b.details); ra != rb {
			return ra < rb
		}
		if len(a.details) != len(b.details) {
			return len(a.details) < len(b.details)
		}
		if a.details != b.details {
			return a.details < b.details
		}
		return a.param < b.param
	})
	seen := map[string]bool{}
	for _, p := range viols {
		if seen[p.shape] {
			continue
		}
		seen[p.shape] = true
		if !harness.Confirm(fns[p.scenario](p.param))(p.v) {
			harness.Fatal("violation %q of %s(%s) did not reproduce identically on replay (nondeterminism in the harness) choices=%v", p.shape, p.scenario, p.param, p.v.Choices)
		}
		c.Violation(p.shape, p.details, map[string]any{"scenario": p.scenario, "param": p.param, "choices": p.v.Choices, "ns": p.v.Ns, "observation": p.v.Obs, "message": p.v.Msg})
	}
}

// ---------------------------------------------------------------------------

var scenarioFns = map[string]harness.ScenarioFn{"hist": limited(histScenario), "rr": limited(rrScenario), "rand": limited(randScenario), "switch": limited(switchScenario)}

// switchScenario: selections that run concurrently with the probe loop's switch of the selected client.  The
// history makes the best client change at the end of a round; a second thread asks the group for a client at
// the moment each round's last probe is answered, so that under the explorer its selections are interleaved
// with the evaluation of the round and the switch in every way the preemption bound allows.  Whatever it gets must be one member
// of the group: for TCP the dialer and the info returned together must belong to the same client.
func switchScenario(param string) vsched.Scenario {
	sp := parseSpec(param)
	return func() (func(), func(*vsched.Exec) (string, string)) {
		var (
			got      []int
			setupErr string
			final    int
		)
		hist := parseHistory(sp.fix)
		body := func() {
			e, err := newEnv(sp, hist)
			if err != nil {
				setupErr = err.Error()
				return
			}
			if len(e.services) != 1 {
				setupErr = fmt.Sprintf("%d probe services registered, want 1", len(e.services))
				return
			}
			ctx, cancel := vcontext.WithCancel(context.Background())
			e.t0 = vsched.NowNS()
			if err := e.services[0].Start(ctx); err != nil {
				setupErr = "Start: " + err.Error()
				return
			}
			// every round of these histories has exactly one successful probe, and it is the last to finish: when
			// its answer arrives the worker hands the result to the loop, which evaluates the round and switches.
			// The selecting thread becomes runnable at that very moment (a timer would not do: the virtual clock
			// fires timers one at a time at quiescence, so two timers due at one instant never overlap).
			answered := 0
			probeAnswered = func() { answered++ }
			defer func() { probeAnswered = nil }()
			var g vsched.Group
			g.Go(func() {
				for r := range hist {
					vsched.PointIf(func() bool { return answered > r }, "selector.wait")
					got = append(got, e.selectIdx(false), e.selectIdx(false))
				}
			})
			g.Wait()
			sleepUntil(e.t0 + int64(probeInterval)*int64(len(hist)) + int64(postOffset))
			final = e.selectIdx(false)
			cancel()
			vsched.WaitIdle()
			if vsched.LiveThreads() > 1 {
				vsched.Abort()
			}
		}
		check := func(ex *vsched.Exec) (string, string) {
			tag := sp.policy + "/" + sp.proto + " concurrent-switch"
			obs := fmt.Sprintf("%s n=%d history=%s got=%v final=%d", tag, sp.n, sp.fix, got, final)
			if setupErr != "" {
				return obs, tag + " setup :: " + setupErr
			}
			if t := execTrouble(tag, ex); t != "" {
				return obs, t
			}
			for i, v := range got {
				if v < 0 || v >= sp.n {
					return obs, fmt.Sprintf("%s not-a-member :: selection %d, made while the probe loop was switching clients, returned something that is no single member of the group (for TCP: the dialer of one client with the info of another)", tag, i)
				}
			}
			want, _ := reference(sp.policy, hist, len(hist)-1, sp.n)
			if final != want {
				return obs, fmt.Sprintf("%s not-best :: after the last round the group serves client %d, the policy says %d", tag, final, want)
			}
			return obs, ""
		}
		return body, check
	}
}

// limited keeps a shard worker from recording the same failing shape over and
// over (a broken scan fails on most histories; each record carries the whole
// choice list): only the first few failures of a shape are reported as such by
// one worker process, later ones only show in the observation key.  Replays
// and confirmations (limit off) always report.
var (
	limitOn    bool
	shapeCount = map[string]int{}
)

func limited(fn harness.ScenarioFn) harness.ScenarioFn {
	return func(param string) vsched.Scenario {
		sc := fn(param)
		return func() (func(), func(*vsched.Exec) (string, string)) {
			body, check := sc()
			return body, func(e *vsched.Exec) (string, string) {
				obs, msg := check(e)
				if msg == "" || !limitOn {
					return obs, msg
				}
				shape, _, _ := strings.Cut(msg, " :: ")
				shapeCount[shape]++
				if shapeCount[shape] > 4 {
					return obs + " VIOLATES " + shape, ""
				}
				return obs, msg
			}
		}
	}
}

func replay(c *harness.Check) {
	r, err := harness.ReplayFile(c.Replay)
	if err != nil {
		harness.Fatal("%v", err)
	}
	name, _ := r["scenario"].(string)
	param, _ := r["param"].(string)
	fn := scenarioFns[name]
	if fn == nil {
		harness.Fatal("replay names unknown scenario %q", name)
	}
	e, obs, msg := vsched.RunOnce(fn(param), harness.Ints(r["choices"]), harness.Ints(r["ns"]), 0, false)
	fmt.Printf("replay scenario=%s param=%s choices=%v\nobservation: %s\n", name, param, r["choices"], obs)
	if e.Diverged != "" {
		harness.Fatal("replay diverged: %s", e.Diverged)
	}
	if msg != "" {
		fmt.Printf("VIOLATION property=C19 replay=%s\n  %s\n", c.Replay, msg)
		os.Exit(1)
	}
	fmt.Println("no violation on replay")
	os.Exit(0)
}

// selfTest: a recorded non-trivial history run twice must give identical observations.
func selfTest(c *harness.Check) {
	for _, sp := range []spec{
		{part: "hist", proto: "tcp", policy: "min-max-latency", n: 2, fix: "30,10/" + strings.TrimSuffix(strings.Repeat("10,20/", 31), "/") + "/10,20/F,10"},
		{part: "hist", proto: "udp", policy: "availability", n: 3, fix: "F,10,10/10,F,Fhang/F500,F,20"},
		{part: "hist", proto: "tcp", policy: "latency", n: 2, conc: 1, fix: "Fhang,10/Fdialhang,F500/20,10"},
	} {
		var first string
		for i := 0; i < 2; i++ {
			e, obs, msg := vsched.RunOnce(histScenario(sp.String()), nil, nil, 0, false)
			if e.Diverged != "" {
				harness.Fatal("self test diverged: %s", e.Diverged)
			}
			if i == 0 {
				first = obs + "|" + msg
				c.Sample(map[string]any{"kind": "history (self test, written out)", "group": sp.policy + "/" + sp.proto, "clients": sp.n, "concurrency": sp.conc, "history_rounds": historyString(parseHistory(sp.fix)), "observation": obs, "scheduling_steps": e.Steps, "violation": msg})
			} else if first != obs+"|"+msg {
				harness.Fatal("determinism self test failed for %s:\n%s\n%s", sp, first, obs+"|"+msg)
			}
		}
	}
}

func main() {
	vrand.Hook = intnHook
	for n, f := range scenarioFns {
		harness.Register(n, f)
	}
	limitOn = true // only matters inside a shard worker: WorkerMain does not return there
	harness.WorkerMain()
	limitOn = false
	c := harness.Start("C19")
	if c.Replay != "" {
		replay(c)
	}
	thorough := c.Thorough()
	c.Rule = "hist: one case = one probe-outcome history (optional head round + k identical filler rounds + one suffix) driven through one real group; every execution is a different history; distinct_nontrivial counts distinct (policy, protocol, group size, k, served-client trace over the suffix) records. rr: one case = one complete interleaving of the selecting threads at atomic-operation granularity; rand: one case = one vector of rand.IntN answers."
	c.Assumptions = []string{
		"sequential consistency; round-robin interleavings complete (preemption bound >= number of scheduling points)",
		"histories run on the virtual clock in the zero-deviation schedule (time advances only when every thread is blocked), so a successful probe's measured latency is exactly its scripted latency",
		"latencies are multiples of 1 ms and the timeout is 5 s, so the integer mean over 32 slots is exact",
		"UDP groups: probe function scripted through overlay_static/clientgroups/c19_export.go (the real UDP probe needs a kernel socket); TCP groups run the real probe.TCPProbe over an in-memory connection",
		"retention taken from the property: 64 rounds (availability), 32 rounds (latency, min-max-latency)",
		"not demanded: behaviour after 2^63 round-robin selections; at which member the round-robin cycle starts; which member random returns; winding down of the probe loop after cancellation (noted as leak)",
	}
	selfTest(c)
	cleanup := stableBinary()

	aggs := map[string]*agg{}
	var order []string
	var viols []pendingViol
	// hang protection only: generous enough that a loaded machine does not cap a
	// run (a cap would make the counts depend on the load)
	budget := harness.Pick(c, 90*time.Minute, 8*time.Hour)

	// ---- round-robin: all interleavings
	var rrParams []string
	type ts struct{ t, s int }
	shapes := []ts{{2, 2}, {3, 2}}
	maxN := 3
	if thorough {
		shapes = append(shapes, ts{2, 3}, ts{3, 3}, ts{4, 2})
		maxN = 5
	}
	maxPoints := 0
	for _, proto := range []string{"tcp", "udp"} {
		for n := 1; n <= maxN; n++ {
			for _, sh := range shapes {
				for _, pre := range dedupInts([]int{0, 1, n}) {
					rrParams = append(rrParams, spec{part: "rr", proto: proto, policy: "round-robin", n: n, threads: sh.t, sel: sh.s, pre: pre}.String())
					if p := sh.t * (sh.s + 1); p > maxPoints {
						maxPoints = p
					}
				}
			}
		}
	}
	fold(c, "rr", scenarioFns["rr"], harness.ExploreBatch("rr", rrParams, maxPoints, budget, false), func(sp spec) string {
		return fmt.Sprintf("round-robin/%s %d threads x %d selections", sp.proto, sp.threads, sp.sel)
	}, aggs, &order, &viols)

	// ---- selections concurrent with the probe loop's switch of the selected client
	var swParams []string
	for _, proto := range []string{"tcp", "udp"} {
		swParams = append(swParams,
			spec{part: "switch", proto: proto, policy: "availability", n: 2, fix: "10,F/F,10/F,10"}.String(),
			spec{part: "switch", proto: proto, policy: "latency", n: 2, fix: "10,10/F,10/F,10"}.String(),
			spec{part: "switch", proto: proto, policy: "min-max-latency", n: 2, fix: "10,10/F,10/F,10"}.String())
	}
	// timers fire at quiescence only: a probe worker stalled for tens of milliseconds would legitimately measure
	// a different latency, and the reference for the final selection assumes the scripted ones
	harness.NoEarlyClock = true
	fold(c, "switch", scenarioFns["switch"], harness.ExploreBatch("switch", swParams, harness.Pick(c, 2, 3), harness.Pick(c, 2*time.Minute, 20*time.Minute), false), func(sp spec) string {
		return sp.policy + "/" + sp.proto + " concurrent-switch"
	}, aggs, &order, &viols)
	harness.NoEarlyClock = false

	// ---- random: every IntN answer
	var randParams []string
	for _, proto := range []string{"tcp", "udp"} {
		for n := 1; n <= 5; n++ {
			randParams = append(randParams, spec{part: "rand", proto: proto, policy: "random", n: n, sel: harness.Pick(c, 3, 4)}.String())
		}
	}
	fold(c, "rand", scenarioFns["rand"], harness.ExploreBatch("rand", randParams, 0, budget, true), func(sp spec) string {
		return "random/" + sp.proto
	}, aggs, &order, &viols)

	// ---- histories
	hp := histParams(thorough)
	fold(c, "hist", scenarioFns["hist"], harness.ExploreBatch("hist", hp, 0, budget, true), func(sp spec) string {
		g := fmt.Sprintf("%s/%s n=%d alphabet=%s heads=%s fillers=%s suffix-depth=%d", sp.policy, sp.proto, sp.n, sp.alpha, sp.hs, sp.fs, sp.depth)
		if sp.conc != 0 {
			g += fmt.Sprintf(" concurrency=%d", sp.conc)
		}
		return g
	}, aggs, &order, &viols)

	for _, g := range order {
		a := aggs[g]
		m := map[string]any{
			"executions": a.execs, "scheduling_steps": a.steps, "choice_points": a.choice, "shards": a.shards,
			"distinct_observations": len(a.obs), "deadlocks": a.deadlocks, "horizon_hits": a.horizons, "panic_executions": a.panics,
			"exhaustive": a.exhaustive, "bounding": a.bounding, "deviation_bound_completed": a.minBound, "deviation_bound_attempted": a.boundAttempted,
		}
		if a.expected > 0 {
			m["histories_in_stated_enumeration"] = a.expected
			m["probe_loops_not_wound_down_after_cancel"] = a.leaks
		} else {
			m["executions_by_deviations"] = a.executionsByDeviation
		}
		c.Part(g, m)
	}
	c.Extra["outcome_alphabets"] = map[string]any{"A4": "F (dial fails at once), 10, 20, 30 ms success", "A3": "F, 10, 20", "AK": "F, F500 (HTTP 500 after 10 ms), Fhang (no answer: fails at the 5 s timeout), Fdialhang (dial blocks until the deadline), 10, 20"}
	c.Extra["k_values"] = kValues
	c.Extra["head_sets"] = map[string]any{"none": "no head round", "small": "no head, or one round in which the first or the last client differs from the others (F vs 10, 30 vs 10, 10 vs F, 10 vs 30)", "full": "no head or any of the 4^n rounds"}
	c.Extra["filler_sets"] = map[string]any{"small": "all F, all 10, all 30, ascending 10/20/30, descending, (F,10,..,10)", "full": "all 4^n rounds"}
	c.Extra["timing"] = "interval 30 s, timeout 5 s; the group is asked 5 ms after every tick (probes running) and 29 s after it (round over)"
	reportViolations(c, scenarioFns, viols)
	cleanup()
	c.Finish()
}

// stableBinary copies this executable to a private temporary file and makes
// the shard workers start from the copy: the build cache the binary lives in
// is pruned by concurrent ./check invocations, which would make a later
// worker start fail in the middle of a long run.
func stableBinary() func() {
	src, err := os.Open(os.Args[0])
	if err != nil {
		return func() {}
	}
	defer src.Close()
	tmp, err := os.CreateTemp("", "c19-bin-*")
	if err != nil {
		return func() {}
	}
	if _, err := io.Copy(tmp, src); err != nil || tmp.Chmod(0o755) != nil || tmp.Close() != nil {
		os.Remove(tmp.Name())
		return func() {}
	}
	os.Args[0] = tmp.Name()
	return func() { os.Remove(tmp.Name()) }
}

func dedupInts(a []int) []int {
	seen := map[int]bool{}
	var out []int
	for _, v := range a {
		if !seen[v] {
			seen[v] = true
			out = append(out, v)
		}
	}
	return out
}

var kValues = []int{0, 30, 31, 32, 33, 62, 63, 64, 65}

var policies = []string{"availability", "latency", "min-max-latency"}

// histParams lists the history shards, most expensive first.
func histParams(thorough bool) []string {
	var sps []spec
	add := func(sp spec) {
		sp.part = "hist"
		sps = append(sps, sp)
	}
	for _, pol := range policies {
		for _, k := range kValues {
			if !thorough {
				// TCP, real TCP probe
				add(spec{proto: "tcp", policy: pol, n: 2, k: k, depth: 2, alpha: "A4", hs: "small", fs: "small"})
				add(spec{proto: "tcp", policy: pol, n: 3, k: k, depth: 1, alpha: "A4", hs: "small", fs: "small"})
				if k == 0 {
					add(spec{proto: "tcp", policy: pol, n: 1, k: k, depth: 3, alpha: "A4", hs: "none"})
					add(spec{proto: "tcp", policy: pol, n: 2, k: k, depth: 3, alpha: "A4", hs: "none"})
					add(spec{proto: "tcp", policy: pol, n: 3, k: k, depth: 2, alpha: "A4", hs: "none"})
					add(spec{proto: "tcp", policy: pol, n: 2, k: k, depth: 2, alpha: "AK", hs: "none"})
					add(spec{proto: "tcp", policy: pol, n: 3, k: k, depth: 2, alpha: "A3", hs: "none", conc: 1})
					add(spec{proto: "udp", policy: pol, n: 2, k: k, depth: 3, alpha: "A4", hs: "none"})
					add(spec{proto: "udp", policy: pol, n: 2, k: k, depth: 2, alpha: "AK", hs: "none"})
				}
				if k == 32 || k == 64 {
					add(spec{proto: "tcp", policy: pol, n: 1, k: k, depth: 1, alpha: "A4", hs: "small", fs: "small"})
					add(spec{proto: "tcp", policy: pol, n: 3, k: k, depth: 1, alpha: "A3", hs: "small", fs: "small", conc: 1})
				}
				if k == retention(pol) {
					add(spec{proto: "tcp", policy: pol, n: 3, k: k, depth: 2, alpha: "A4", hs: "none", fs: "small"})
				}
				// UDP groups (same generic selector, separate constructors)
				add(spec{proto: "udp", policy: pol, n: 2, k: k, depth: 2, alpha: "A4", hs: "small", fs: "small"})
				continue
			}
			add(spec{proto: "tcp", policy: pol, n: 2, k: k, depth: 2, alpha: "A4", hs: "full", fs: "full"})
			add(spec{proto: "tcp", policy: pol, n: 2, k: k, depth: 3, alpha: "A4", hs: "none", fs: "full"})
			add(spec{proto: "tcp", policy: pol, n: 3, k: k, depth: 2, alpha: "A4", hs: "none", fs: "small"})
			add(spec{proto: "tcp", policy: pol, n: 3, k: k, depth: 1, alpha: "A4", hs: "full", fs: "small"})
			add(spec{proto: "tcp", policy: pol, n: 4, k: k, depth: 1, alpha: "A3", hs: "small", fs: "small"})
			add(spec{proto: "tcp", policy: pol, n: 5, k: k, depth: 1, alpha: "A3", hs: "small", fs: "small"})
			add(spec{proto: "udp", policy: pol, n: 2, k: k, depth: 2, alpha: "A4", hs: "small", fs: "small"})
			add(spec{proto: "udp", policy: pol, n: 3, k: k, depth: 1, alpha: "A4", hs: "small", fs: "small"})
			if k == 0 {
				add(spec{proto: "tcp", policy: pol, n: 1, k: k, depth: 4, alpha: "A4", hs: "none"})
				add(spec{proto: "tcp", policy: pol, n: 2, k: k, depth: 4, alpha: "A4", hs: "none"})
				add(spec{proto: "tcp", policy: pol, n: 3, k: k, depth: 3, alpha: "A4", hs: "none"})
				add(spec{proto: "tcp", policy: pol, n: 4, k: k, depth: 2, alpha: "A4", hs: "none"})
				add(spec{proto: "tcp", policy: pol, n: 5, k: k, depth: 2, alpha: "A3", hs: "none"})
				add(spec{proto: "tcp", policy: pol, n: 2, k: k, depth: 3, alpha: "AK", hs: "none"})
				add(spec{proto: "tcp", policy: pol, n: 3, k: k, depth: 3, alpha: "A3", hs: "none", conc: 1})
				add(spec{proto: "udp", policy: pol, n: 2, k: k, depth: 4, alpha: "A4", hs: "none"})
				add(spec{proto: "udp", policy: pol, n: 3, k: k, depth: 2, alpha: "AK", hs: "none"})
			}
			if k == 32 || k == 64 {
				add(spec{proto: "tcp", policy: pol, n: 1, k: k, depth: 2, alpha: "A4", hs: "full", fs: "full"})
				add(spec{proto: "tcp", policy: pol, n: 3, k: k, depth: 2, alpha: "A3", hs: "small", fs: "small", conc: 1})
			}
		}
	}
	cost := func(sp spec) int64 { return histCount(sp) * int64(sp.k+sp.depth+2) * int64(sp.n+1) }
	sort.SliceStable(sps, func(i, j int) bool { return cost(sps[i]) > cost(sps[j]) })
	out := make([]string, len(sps))
	for i, sp := range sps {
		out[i] = sp.String()
	}
	return out
}
