// Part D of check C05: "a payload that cannot fit is refused rather than truncated" through the relay's
// batched downlink, under the controlled scheduler.
//
// Part C drives the running relay one packet at a time, so a receive batch of the downlink never holds a
// refused datagram together with a good one.  Whether two datagrams land in one recvmmsg batch is a
// scheduling matter, so here the real service (built from JSON through service.Config.Manager by
// lib/udpenv) runs under vsched: an echo target answers every datagram with one that cannot fit the client
// path (1480 bytes for MTU 1500) immediately followed by the echo, and every interleaving of {target
// sends, downlink receives a batch, downlink sends, client reads} within the delay bound is executed.
// Oracle (from the statement): every datagram the client receives unpacks to exactly one of the echoes,
// payload and source address identical - never a prefix of the refused payload, never an empty or stale
// datagram - and every echo arrives.
package main

import (
	"context"
	"fmt"
	"net/netip"
	"sort"
	"strings"
	"time"

	"github.com/database64128/shadowsocks-go/conn"

	"verif/harness"
	"verif/lib/udpenv"
	"verif/shim/vrand"
	"verif/vnet/vudp"
	"verif/vsched"
)

type batchSpec struct{ server, batch string }

func (s batchSpec) String() string { return "server=" + s.server + ";batch=" + s.batch }

func parseBatchSpec(p string) (s batchSpec) {
	for _, kv := range strings.Split(p, ";") {
		k, v, _ := strings.Cut(kv, "=")
		switch k {
		case "server":
			s.server = v
		case "batch":
			s.batch = v
		}
	}
	return
}

func batchScenario(param string) vsched.Scenario {
	sp := parseBatchSpec(param)
	const per = 3
	return func() (func(), func(*vsched.Exec) (string, string)) {
		var (
			env      *udpenv.Env
			buildErr error
			got      []string
			sent     []string
			target   *udpenv.Target
			stopped  bool
		)
		body := func() {
			var err error
			env, err = udpenv.New(udpenv.Spec{Server: sp.server, Batch: sp.batch, Client: "direct"})
			if err != nil {
				buildErr = err
				return
			}
			vudp.Hosts = map[string][]netip.Addr{}
			target = env.NewTarget(1)
			target.OversizeFirst = true
			if err := env.Start(context.Background()); err != nil {
				buildErr = err
				return
			}
			var tg vsched.Group
			tg.Go(target.Serve)
			c := env.NewClient(0, 0)
			dst := conn.AddrFromIPPort(target.Addr)
			for k := 0; k < per; k++ {
				p := fmt.Sprintf("d%d", k)
				if err := c.Send(dst, []byte(p)); err != nil {
					got = append(got, "send error: "+err.Error())
					continue
				}
				sent = append(sent, p)
			}
			for range sent {
				src, pl, err := c.Recv(0)
				if err != nil {
					got = append(got, "unpack error: "+err.Error())
					break
				}
				got = append(got, fmt.Sprintf("%s from %s", pl, src))
			}
			c.Close()
			env.Stop()
			stopped = true
			target.Close()
			tg.Wait()
			vudp.Finish()
		}
		check := func(e *vsched.Exec) (string, string) {
			obs := fmt.Sprintf("got=%q stopped=%v", got, stopped)
			if env != nil {
				obs = env.Canon(obs)
			}
			if buildErr != nil {
				return obs, "harness: cannot build/start services: " + buildErr.Error()
			}
			if len(e.Panics) > 0 {
				return obs, "panic: " + env.Canon(e.Panics[0])
			}
			if e.Deadlock || e.HorizonHit {
				return obs, "an echo that fits never arrived behind a refused datagram (or the run did not terminate): " + env.Canon(strings.Join(e.Blocked, " "))
			}
			want := map[string]bool{}
			for _, p := range sent {
				w := "echo:" + p
				if sp.server != "direct" {
					w += " from " + target.Addr.String()
				}
				want[w] = true
			}
			for _, g := range got {
				if sp.server == "direct" {
					g, _, _ = strings.Cut(g, " from ")
				}
				if strings.HasPrefix(g, "Z") {
					return obs, "the client received a truncated piece of the datagram that cannot fit: " + env.Canon(g)[:min(len(g), 40)]
				}
				if !want[g] {
					return obs, "the client received a datagram that is not one of the echoes (payload and source identical): " + env.Canon(g)[:min(len(g), 60)]
				}
				delete(want, g)
			}
			if len(want) > 0 {
				return obs, fmt.Sprintf("%d echoes that fit did not arrive", len(want))
			}
			return obs, ""
		}
		return body, check
	}
}

// roamScenario: one Shadowsocks 2022 session reaches a dual-stack listener first from an IPv4 address and
// then, session unchanged, from an IPv6 address.  The size limit of a reply follows the address it is sent
// to: MTU-28 towards the IPv4 address, MTU-48 towards the IPv6 one.  The target answers "size:N" with N
// bytes; with MTU 1500 and an IPv4 reply source the packed reply is N+58 bytes, so N=1414 is the largest
// reply the IPv4 address may get and N=1394 the largest the IPv6 address may get.
func roamScenario(param string) vsched.Scenario {
	sp := parseBatchSpec(param)
	return func() (func(), func(*vsched.Exec) (string, string)) {
		var (
			env      *udpenv.Env
			buildErr error
			got      []string
			stopped  bool
		)
		body := func() {
			var err error
			env, err = udpenv.New(udpenv.Spec{Server: sp.server, Batch: sp.batch, Client: "direct", DualStack: true})
			if err != nil {
				buildErr = err
				return
			}
			vudp.Hosts = map[string][]netip.Addr{}
			target := env.NewTarget(1)
			if err := env.Start(context.Background()); err != nil {
				buildErr = err
				return
			}
			var tg vsched.Group
			tg.Go(target.Serve)
			c := env.NewClient(0, 0)
			dst := conn.AddrFromIPPort(target.Addr)
			recv := func() {
				_, pl, err := c.Recv(0)
				switch {
				case err != nil:
					got = append(got, "error: "+err.Error())
				case len(pl) > 0 && pl[0] == 'R':
					got = append(got, fmt.Sprintf("R*%d", len(pl)))
				default:
					got = append(got, string(pl))
				}
			}
			c.Send(dst, []byte("size:1414"))
			recv()
			c.RebindV6()
			c.Send(dst, []byte("size:1394"))
			recv()
			c.Send(dst, []byte("size:1395")) // one byte too many for the IPv6 address: must be refused
			c.Send(dst, []byte("size:1414")) // fits the old address only: must be refused
			c.Send(dst, []byte("d-sentinel"))
			recv()
			c.Close()
			env.Stop()
			stopped = true
			target.Close()
			tg.Wait()
			vudp.Finish()
		}
		check := func(e *vsched.Exec) (string, string) {
			obs := fmt.Sprintf("got=%q stopped=%v", got, stopped)
			if env != nil {
				obs = env.Canon(obs)
			}
			if buildErr != nil {
				return obs, "harness: cannot build/start services: " + buildErr.Error()
			}
			if len(e.Panics) > 0 {
				return obs, "panic: " + env.Canon(e.Panics[0])
			}
			if e.Deadlock || e.HorizonHit {
				return obs, "a reply that fits never arrived (or the run did not terminate): " + env.Canon(strings.Join(e.Blocked, " "))
			}
			want := []string{"R*1414", "R*1394", "echo:d-sentinel"}
			for i, g := range got {
				if i >= len(want) || g != want[i] {
					if strings.HasPrefix(g, "R*") && i == 2 {
						return obs, "a reply larger than the limit of the IPv6 address it was sent to (MTU-48) was delivered after the client moved from IPv4 to IPv6: " + g
					}
					return obs, fmt.Sprintf("reply %d is %s, want %s", i, env.Canon(g), want[min(i, len(want)-1)])
				}
			}
			if len(got) != len(want) {
				return obs, fmt.Sprintf("%d replies, want %d", len(got), len(want))
			}
			return obs, ""
		}
		return body, check
	}
}

func roamFamily() []string {
	return []string{batchSpec{"ss2022", "no"}.String(), batchSpec{"ss2022", "sendmmsg"}.String(), batchSpec{"ss2022mu", "no"}.String(), batchSpec{"ss2022mu", "sendmmsg"}.String()}
}

func batchFamily() []string {
	var out []string
	for _, sv := range []string{"none", "socks5", "ss2022", "direct"} {
		for _, b := range []string{"no", "sendmmsg"} {
			out = append(out, batchSpec{sv, b}.String())
		}
	}
	sort.Strings(out)
	return out
}

func registerBatch() {
	vrand.Hook = func(n int) int { return 0 }
	vsched.MapKeyString = func(k any) string {
		if ap, ok := k.(netip.AddrPort); ok {
			return fmt.Sprint(ap.Addr().As4()[3], ":", ap.Port())
		}
		return fmt.Sprint(k)
	}
	harness.NoEarlyClock = true // timer orders are not part of this property
	harness.Register("relaybatch", batchScenario)
	harness.Register("relayroam", roamScenario)
}

// runBatchPart explores part D and folds its results into the check.
func runBatchPart(c *harness.Check) (execs int64, steps int64) {
	params := batchFamily()
	obsAll := map[string]bool{}
	for _, r := range harness.ExploreBatch("relaybatch", params, harness.Pick(c, 2, 3), harness.Pick(c, 60*time.Second, 10*time.Minute), true) {
		execs += int64(r.Stats.Execs)
		steps += int64(r.Stats.Steps)
		for o := range r.Stats.Observations {
			obsAll[r.Param+"|"+o] = true
		}
		c.AddExploration("relaybatch", r.Param, r.Stats, harness.Confirm(batchScenario(r.Param)))
	}
	for _, r := range harness.ExploreBatch("relayroam", roamFamily(), harness.Pick(c, 1, 2), harness.Pick(c, 60*time.Second, 10*time.Minute), true) {
		execs += int64(r.Stats.Execs)
		steps += int64(r.Stats.Steps)
		for o := range r.Stats.Observations {
			obsAll[r.Param+"|roam|"+o] = true
		}
		c.AddExploration("relayroam", r.Param, r.Stats, harness.Confirm(roamScenario(r.Param)))
	}
	c.Part("D-relay-batch", map[string]any{"scenarios": len(params) + len(roamFamily()), "executions": execs, "scheduling_steps": steps, "distinct_observations": len(obsAll),
		"what": "real relay service under the controlled scheduler; the target answers each of 3 datagrams with a 1480-byte datagram that cannot fit followed by the echo; every interleaving within the delay bound of target sends, downlink batch receives/sends and client reads"})
	return
}
