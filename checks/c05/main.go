// C05: UDP packets survive pack/unpack unchanged and never exceed the path MTU.
//
// Bounded-exhaustive enumeration over the real packers/unpackers of ss2022 and
// direct (direct / Shadowsocks none / SOCKS5), obtained through the real
// service constructors (service.ClientConfig.UDPClient, ServerConfig.UDPRelay):
//
//	part A  codec round trips (client -> server and server -> client) with the
//	        payload placed from "exactly the header" to "generous" headroom;
//	part B  relay re-packing in place (uplink: server unpacker -> client packer,
//	        downlink: client unpacker -> server packer) for every
//	        (server protocol x client protocol) pair in the packet buffer
//	        layout the service itself computes;
//	part C  (live.go) boundary payloads through the running relay loops on
//	        loopback sockets, both batch modes.
//
// Every case runs the real code (A, B: on a canary-filled buffer) and is
// compared with a reference written from the wire formats (SIP022 UDP, RFC 1928
// UDP request header, Shadowsocks "none" address prefix) and the property
// statement.  Nothing is sampled: the hooks for padding length (vrand.Hook),
// salts (vcrand) and the clock (vsched.SetClock) make every run identical.
//
// Process layout: the parent shards the units of parts A and B over one worker
// process per core (the hooks are process-global) and runs part C in one more
// process; results are merged in unit order, so verdict and counts do not
// depend on the number of cores.
package main

import (
	"bytes"
	"context"
	"crypto/aes"
	"crypto/cipher"
	"encoding/json"
	"flag"
	"fmt"
	"net"
	"net/netip"
	"os"
	"os/exec"
	"runtime"
	"runtime/debug"
	"runtime/pprof"
	"sort"
	"strings"
	"sync"
	"time"

	shadowsocks "github.com/database64128/shadowsocks-go"
	"github.com/database64128/shadowsocks-go/conn"
	"github.com/database64128/shadowsocks-go/direct"
	"github.com/database64128/shadowsocks-go/service"
	"github.com/database64128/shadowsocks-go/ss2022"
	"github.com/database64128/shadowsocks-go/stats"
	"github.com/database64128/shadowsocks-go/zerocopy"
	"go.uber.org/zap"

	"verif/harness"
	"verif/shim/vcrand"
	"verif/shim/vrand"
	"verif/vsched"
)

// ---------------------------------------------------------------------------
// Alphabet

type fam int

const (
	fam4 fam = iota
	fam4in6
	fam6
)

var famNames = []string{"ipv4", "ipv4-mapped", "ipv6"}

func famIP(f fam, last byte) netip.Addr {
	v4 := netip.AddrFrom4([4]byte{192, 0, 2, last})
	switch f {
	case fam4:
		return v4
	case fam4in6:
		return netip.AddrFrom16(v4.As16())
	}
	return netip.AddrFrom16([16]byte{0x20, 0x01, 0x0d, 0xb8, 0, 0, 0, 0, 0, 0, 0, 0, 0, 0, 0, last})
}

// akind is an address kind of the alphabet.
type akind struct {
	K string // ip4 | ip4in6 | ip6 | dom
	N int    // domain length
	V int    // domain content pattern
}

func (a akind) String() string {
	if a.K == "dom" {
		return fmt.Sprintf("dom%d/p%d", a.N, a.V)
	}
	return a.K
}

// wireLen is the reference length of the SOCKS address of this kind
// (RFC 1928: ATYP + 4|16|1+n + port).  An IPv4-mapped IPv6 address is sent as IPv4.
func (a akind) wireLen() int {
	switch a.K {
	case "ip4", "ip4in6":
		return 1 + 4 + 2
	case "ip6":
		return 1 + 16 + 2
	}
	return 1 + 1 + a.N + 2
}

func (a akind) ip() netip.Addr {
	switch a.K {
	case "ip4":
		return famIP(fam4, 77)
	case "ip4in6":
		return famIP(fam4in6, 78)
	}
	return famIP(fam6, 79)
}

func (a akind) connAddr(port uint16) conn.Addr {
	if a.K != "dom" {
		return conn.AddrFromIPAndPort(a.ip(), port)
	}
	b := make([]byte, a.N)
	for i := range b {
		switch a.V {
		case 0:
			b[i] = 'a' + byte((i*7+a.N)%26)
		default:
			b[i] = byte(i*37 + a.N + 1) // every byte value incl. 0x00, ':' and 0xff
		}
	}
	return conn.MustAddrFromDomainPort(string(b), port)
}

const (
	kSS = iota
	kNone
	kSocks5
	kDirect
)

type codec struct {
	Name   string
	Family string
	Kind   int
	EIH    int
	KeyLen int
}

func (c codec) protocol() string {
	switch c.Kind {
	case kSS:
		if c.KeyLen == 32 {
			return "2022-blake3-aes-256-gcm"
		}
		return "2022-blake3-aes-128-gcm"
	case kNone:
		return "none"
	case kSocks5:
		return "socks5"
	}
	return "direct"
}

var allCodecs = []codec{
	{"ss2022-128-eih0", "ss2022", kSS, 0, 16},
	{"ss2022-128-eih1", "ss2022", kSS, 1, 16},
	{"ss2022-128-eih2", "ss2022", kSS, 2, 16},
	{"ss2022-128-eih3", "ss2022", kSS, 3, 16},
	{"none", "none", kNone, 0, 0},
	{"socks5", "socks5", kSocks5, 0, 0},
	{"direct", "direct", kDirect, 0, 0},
	{"ss2022-256-eih0", "ss2022", kSS, 0, 32},
	{"ss2022-256-eih1", "ss2022", kSS, 1, 32},
	{"ss2022-256-eih3", "ss2022", kSS, 3, 32},
}

func codecByName(n string) codec {
	for _, c := range allCodecs {
		if c.Name == n {
			return c
		}
	}
	harness.Fatal("unknown codec %q", n)
	return codec{}
}

// Keys.  The server that talks to a client codec is single-user for EIH 0 and
// multi-user (one identity header, iPSK = the client's last iPSK) otherwise;
// clients with 2..3 identity headers reach it through reference relays that
// peel one header each (peel).
func pskFor(keyLen int, seed byte) []byte {
	b := make([]byte, keyLen)
	for i := range b {
		b[i] = seed + byte(i)*7
	}
	return b
}

func uPSK(c codec) []byte { return pskFor(c.KeyLen, 0x11) }
func iPSK(c codec, i int) []byte {
	return pskFor(c.KeyLen, 0x31+byte(i)*0x20)
}

// ---------------------------------------------------------------------------
// Reference model (written from the wire formats, not from the code)

const (
	refSepHeader   = 16        // session ID + packet ID, one AES block
	refEIH         = 16        // one identity header
	refTag         = 16        // AEAD tag
	refClientFixed = 1 + 8 + 2 // type, timestamp, padding length
	refServerFixed = 1 + 8 + 8 + 2
)

// refC2S: bytes a client message needs in front of / behind the payload with no padding.
func refC2S(c codec, addrLen int) (front, rear int) {
	switch c.Kind {
	case kSS:
		return refSepHeader + refEIH*c.EIH + refClientFixed + addrLen, refTag
	case kNone:
		return addrLen, 0
	case kSocks5:
		return 3 + addrLen, 0
	}
	return 0, 0
}

// refS2C: the same for a server message.
func refS2C(c codec, addrLen int) (front, rear int) {
	switch c.Kind {
	case kSS:
		return refSepHeader + refServerFixed + addrLen, refTag
	case kNone:
		return addrLen, 0
	case kSocks5:
		return 3 + addrLen, 0
	}
	return 0, 0
}

// refMax: largest UDP payload on a path with this MTU towards this address
// (IPv4 header 20, IPv6 header 40 (+8 jumbo option above 65575), UDP header 8).
func refMax(mtu int, a netip.Addr) int {
	if a.Is4() || a.Is4In6() {
		return mtu - 20 - 8
	}
	if mtu > 65575 {
		return mtu - 40 - 8 - 8
	}
	return mtu - 40 - 8
}

func sameConnAddr(want, got conn.Addr) bool {
	if !got.IsValid() || want.Port() != got.Port() {
		return false
	}
	if want.IsIP() {
		return got.IsIP() && want.IP().Unmap() == got.IP().Unmap()
	}
	return got.IsDomain() && want.Domain() == got.Domain()
}

func sameAddrPort(want, got netip.AddrPort) bool {
	return want.Port() == got.Port() && want.Addr().Unmap() == got.Addr().Unmap()
}

// ---------------------------------------------------------------------------
// Buffers

const scratchSize = 1 << 19

var (
	canaryRef  = make([]byte, scratchSize)
	payloadRef = make([]byte, scratchSize)
	scratchA   = make([]byte, scratchSize)
	scratchB   = make([]byte, scratchSize)
	scratchC   = make([]byte, scratchSize)
)

func init() {
	x := uint64(0x9e3779b97f4a7c15)
	for i := range canaryRef {
		canaryRef[i] = byte(0xC3 ^ i ^ (i >> 8) ^ (i >> 15))
		x ^= x << 13
		x ^= x >> 7
		x ^= x << 17
		payloadRef[i] = byte(x >> 32)
	}
}

// canaryBuf returns scratch[:n:n] filled with the canary pattern.
func canaryBuf(scratch []byte, n int) []byte {
	if n > len(scratch) {
		harness.Fatal("buffer of %d bytes exceeds scratch", n)
	}
	b := scratch[:n:n]
	copy(b, canaryRef[:n])
	return b
}

// intact reports whether b[a:z] still holds the canary.
func intact(b []byte, a, z int) bool {
	a = max(a, 0)
	z = min(z, len(b))
	if a >= z {
		return true
	}
	return bytes.Equal(b[a:z], canaryRef[a:z])
}

func firstDiff(b []byte, a, z int) int {
	a = max(a, 0)
	z = min(z, len(b))
	for i := a; i < z; i++ {
		if b[i] != canaryRef[i] {
			return i
		}
	}
	return -1
}

// ---------------------------------------------------------------------------
// Hooks

var hook struct {
	choice int // 0: IntN -> 0, 1: IntN -> n-1, 2: IntN -> n/2
	calls  int
	n      int
}

func installHooks() {
	vcrand.Deterministic = true
	vcrand.Reset()
	vsched.SetClock(1_750_000_000 * int64(time.Second))
	vrand.Hook = func(n int) int {
		hook.calls++
		hook.n = n
		switch hook.choice {
		case 0:
			return 0
		case 1:
			return n - 1
		}
		return n / 2
	}
}

// ---------------------------------------------------------------------------
// Real endpoints, built through the service constructors

var (
	lcc    = conn.NewListenConfigCache()
	dcache = conn.NewDialerCache()
	nop    = zap.NewNop()
	bg     = context.Background()
)

func policyField(name string) ss2022.PaddingPolicyField {
	f, err := ss2022.NewPaddingPolicyField(name)
	if err != nil {
		harness.Fatal("padding policy %q: %v", name, err)
	}
	return f
}

func udpClientFor(c codec, mtu int, server netip.AddrPort, policy string) zerocopy.UDPClient {
	cc := service.ClientConfig{Name: c.Name, Protocol: c.protocol(), EnableUDP: true, MTU: mtu}
	if c.Kind != kDirect {
		cc.Endpoint = conn.AddrFromIPPort(server)
	}
	if c.Kind == kSS {
		cc.PSK = uPSK(c)
		for i := 0; i < c.EIH; i++ {
			cc.IPSKs = append(cc.IPSKs, iPSK(c, i))
		}
		cc.PaddingPolicy = policyField(policy)
	}
	if err := cc.Initialize(nil, lcc, dcache, nop); err != nil {
		harness.Fatal("client config %s: %v", c.Name, err)
	}
	cli, err := cc.UDPClient()
	if err != nil {
		harness.Fatal("UDPClient %s: %v", c.Name, err)
	}
	return cli
}

type clientEnd struct {
	codec  codec
	cli    zerocopy.UDPClient
	info   zerocopy.UDPClientSessionInfo
	sess   zerocopy.UDPClientSession
	server netip.AddrPort
}

// A SOCKS5 UDP session keeps a TCP control connection open; the harness gives
// it a loopback connection whose other end stays silent.
var (
	tcpLn    *net.TCPListener
	cleanups []func()
)

func tcpPair() (*net.TCPConn, *net.TCPConn) {
	if tcpLn == nil {
		ln, err := net.ListenTCP("tcp4", &net.TCPAddr{IP: net.IPv4(127, 0, 0, 1)})
		if err != nil {
			harness.Fatal("loopback TCP listener: %v", err)
		}
		tcpLn = ln
	}
	c, err := net.DialTCP("tcp4", nil, tcpLn.Addr().(*net.TCPAddr))
	if err != nil {
		harness.Fatal("loopback TCP dial: %v", err)
	}
	s, err := tcpLn.AcceptTCP()
	if err != nil {
		harness.Fatal("loopback TCP accept: %v", err)
	}
	return c, s
}

func runCleanups() {
	for _, f := range cleanups {
		f()
	}
	cleanups = nil
}

func newClientEnd(c codec, mtu int, server netip.AddrPort, policy string) *clientEnd {
	e := &clientEnd{codec: c, server: server}
	e.cli = udpClientFor(c, mtu, server, policy)
	var err error
	if c.Kind == kSocks5 {
		var ok bool
		tc, peer := tcpPair()
		e.info, e.sess, ok, err = direct.C05Socks5Session(bg, e.cli, tc, conn.AddrFromIPPort(server))
		if !ok {
			harness.Fatal("socks5 client has unexpected type %T", e.cli)
		}
		closeSess := e.sess.Close
		cleanups = append(cleanups, func() {
			if closeSess != nil {
				closeSess() // expires the control connection's read deadline; the session's goroutine closes it
			}
			peer.Close()
		})
	} else {
		e.info, e.sess, err = e.cli.NewSession(bg)
	}
	if err != nil {
		harness.Fatal("NewSession %s: %v", c.Name, err)
	}
	return e
}

type serverEnd struct {
	codec   codec
	layout  service.C05RelayLayout
	svc     shadowsocks.Service
	natUnp  map[netip.AddrPort]zerocopy.ServerUnpacker
	sessUnp map[uint64]zerocopy.ServerUnpacker
	packers map[zerocopy.ServerUnpacker]zerocopy.ServerPacker
}

// newServerEnd builds the real UDP relay service for a server protocol with
// ServerConfig.UDPRelay and takes its server object and packet buffer layout.
func newServerEnd(c codec, mtu int, policy string, maxClientHR zerocopy.Headroom, tunnel conn.Addr, targetOnly bool) *serverEnd {
	sc := service.ServerConfig{
		Name:         "srv-" + c.Name,
		Protocol:     c.protocol(),
		UDPListeners: []service.UDPListenerConfig{{ListenerConfig: service.ListenerConfig{Network: "udp", Address: "127.0.0.1:0"}, UDPPerfConfig: service.UDPPerfConfig{BatchMode: srvBatch}}},
		MTU:          mtu,
	}
	switch c.Kind {
	case kSS:
		sc.PaddingPolicy = policyField(policy)
		if c.EIH == 0 {
			sc.PSK = uPSK(c)
		} else {
			sc.PSK = iPSK(c, c.EIH-1)
			sc.UPSKStorePath = "c05-users-are-installed-directly"
		}
	case kDirect:
		sc.TunnelRemoteAddress = tunnel
		sc.TunnelUDPTargetOnly = targetOnly
	}
	if err := sc.Initialize(nil, lcc, stats.Config{}, srvRouter, nop, 0); err != nil {
		harness.Fatal("server config %s: %v", c.Name, err)
	}
	svc, err := sc.UDPRelay(nop, maxClientHR)
	if err != nil {
		harness.Fatal("UDPRelay %s: %v", c.Name, err)
	}
	l, ok := service.C05LayoutOf(svc)
	if !ok {
		harness.Fatal("UDPRelay %s returned %T", c.Name, svc)
	}
	if c.Kind == kSS && c.EIH > 0 {
		us, ok := l.SessionServer.(*ss2022.UDPServer)
		if !ok {
			harness.Fatal("session server is %T", l.SessionServer)
		}
		ucc, err := ss2022.NewServerUserCipherConfig("user", uPSK(c), true)
		if err != nil {
			harness.Fatal("user cipher config: %v", err)
		}
		us.ReplaceUserLookupMap(ss2022.UserLookupMap{ss2022.PSKHash(uPSK(c)): ucc})
	}
	return &serverEnd{codec: c, layout: l, svc: svc,
		natUnp: map[netip.AddrPort]zerocopy.ServerUnpacker{}, sessUnp: map[uint64]zerocopy.ServerUnpacker{}, packers: map[zerocopy.ServerUnpacker]zerocopy.ServerPacker{}}
}

// unpack follows the relays' receive path (udp_nat.go / udp_session.go
// recvFromServerConn*): look the session up by source address or by the
// session ID in the separate header, create the unpacker on first sight, unpack in place.
func (s *serverEnd) unpack(b []byte, from netip.AddrPort, start, n int) (target conn.Addr, ps, pl int, unp zerocopy.ServerUnpacker, ops int, err error) {
	if s.layout.NATServer != nil {
		unp = s.natUnp[from]
		if unp == nil {
			unp, err = s.layout.NATServer.NewUnpacker()
			if err != nil {
				return
			}
		}
		target, ps, pl, err = unp.UnpackInPlace(b, from, start, n)
		ops = 1
		if err == nil {
			s.natUnp[from] = unp
		}
		return
	}
	pkt := b[start : start+n]
	csid, err := s.layout.SessionServer.SessionInfo(pkt)
	ops = 1
	if err != nil {
		return
	}
	unp = s.sessUnp[csid]
	if unp == nil {
		unp, _, err = s.layout.SessionServer.NewUnpacker(pkt, csid)
		ops++
		if err != nil {
			return
		}
	}
	target, ps, pl, err = unp.UnpackInPlace(b, from, start, n)
	ops++
	if err == nil {
		s.sessUnp[csid] = unp
	}
	return
}

func (s *serverEnd) packerFor(unp zerocopy.ServerUnpacker) zerocopy.ServerPacker {
	if p := s.packers[unp]; p != nil {
		return p
	}
	p, err := unp.NewPacker()
	if err != nil {
		harness.Fatal("NewPacker: %v", err)
	}
	s.packers[unp] = p
	return p
}

// peel is the reference behaviour of the k-1 intermediate relays of SIP022
// extensible identity headers: decrypt the separate header with the relay's
// iPSK, decrypt the first identity header, require that it names the next
// iPSK, re-encrypt the separate header with the next iPSK and drop the header.
type peelKeys struct {
	blocks   []cipher.Block
	hashes   [][16]byte
	sep, eih [16]byte
}

var peelCache = map[string]*peelKeys{}

func peel(c codec, pkt []byte) ([]byte, error) {
	pk := peelCache[c.Name]
	if pk == nil {
		pk = &peelKeys{}
		for i := 0; i < c.EIH; i++ {
			b, err := aes.NewCipher(iPSK(c, i))
			if err != nil {
				return nil, err
			}
			pk.blocks = append(pk.blocks, b)
			pk.hashes = append(pk.hashes, ss2022.PSKHash(iPSK(c, i)))
		}
		peelCache[c.Name] = pk
	}
	for i := 0; i < c.EIH-1; i++ {
		if len(pkt) < 32 {
			return nil, fmt.Errorf("packet of %d bytes has no identity header %d", len(pkt), i)
		}
		cur, next := pk.blocks[i], pk.blocks[i+1]
		sep, eih := &pk.sep, &pk.eih
		cur.Decrypt(sep[:], pkt[:16])
		cur.Decrypt(eih[:], pkt[16:32])
		for j := range eih {
			eih[j] ^= sep[j]
		}
		if *eih != pk.hashes[i+1] {
			return nil, fmt.Errorf("identity header %d does not carry the hash of iPSK %d", i, i+1)
		}
		// in place: the consumed identity header's slot takes the re-encrypted separate header
		next.Encrypt(pkt[16:32], sep[:])
		pkt = pkt[16:]
	}
	return pkt, nil
}

// ---------------------------------------------------------------------------
// Guarded calls (a panic in the code under test is an observation)

type packRes struct {
	dest       netip.AddrPort
	start, len int
	err        error
	panic      string
}

func guard(f func()) (p string) {
	defer func() {
		if r := recover(); r != nil {
			p = fmt.Sprint(r)
			if len(p) > 160 {
				p = p[:160]
			}
		}
	}()
	f()
	return ""
}

func clientPack(p zerocopy.ClientPacker, b []byte, target conn.Addr, ps, pl int) (r packRes) {
	r.panic = guard(func() { r.dest, r.start, r.len, r.err = p.PackInPlace(bg, b, target, ps, pl) })
	return
}

func serverPack(p zerocopy.ServerPacker, b []byte, src netip.AddrPort, ps, pl, maxLen int) (r packRes) {
	r.panic = guard(func() { r.start, r.len, r.err = p.PackInPlace(b, src, ps, pl, maxLen) })
	return
}

type unpackRes struct {
	target conn.Addr
	src    netip.AddrPort
	ps, pl int
	unp    zerocopy.ServerUnpacker
	ops    int
	err    error
	panic  string
}

func serverUnpack(s *serverEnd, b []byte, from netip.AddrPort, start, n int) (r unpackRes) {
	r.panic = guard(func() { r.target, r.ps, r.pl, r.unp, r.ops, r.err = s.unpack(b, from, start, n) })
	return
}

func clientUnpack(u zerocopy.ClientUnpacker, b []byte, from netip.AddrPort, start, n int) (r unpackRes) {
	r.ops = 1
	r.panic = guard(func() { r.src, r.ps, r.pl, r.err = u.UnpackInPlace(b, from, start, n) })
	return
}

// ---------------------------------------------------------------------------
// Units of work

type unit struct {
	Part   string `json:"part"`   // A-c2s | A-s2c | B-up | B-down
	Codec  string `json:"codec"`  // A: the codec; B: the relay's client (upstream) codec
	Server string `json:"server"` // B: the relay's server codec
	MTU    int    `json:"mtu"`    // A: path MTU; B: server MTU
	CMTU   int    `json:"cmtu"`   // B: client MTU
	Fam    int    `json:"fam"`    // A-c2s: server address family; A-s2c, B-down: downstream client family; B-up: upstream server family
	Policy string `json:"policy"` // padding policy of the packer under test
	PS     string `json:"ps"`     // A: payloadStart mode
	Layout string `json:"layout"` // B-up: "min" (only this client configured) | "max" (every client codec configured)
	InPad  string `json:"inpad"`  // B: padding of the incoming packet: none | max
	Lens   string `json:"lens"`   // all | edges:<k>
	Addrs  string `json:"addrs"`  // name of the address-kind set
	Ports  string `json:"ports"`  // name of the port set
}

func (u unit) String() string {
	switch u.Part {
	case "A-c2s", "A-s2c":
		return fmt.Sprintf("%s codec=%s mtu=%d peerfam=%s policy=%s payloadStart=%s lens=%s addrs=%s ports=%s", u.Part, u.Codec, u.MTU, famNames[u.Fam], u.Policy, u.PS, u.Lens, u.Addrs, u.Ports)
	case "B-up":
		return fmt.Sprintf("%s server=%s client=%s mtu=%d/%d layout=%s upstreamfam=%s policy=%s inpad=%s lens=%s addrs=%s ports=%s", u.Part, u.Server, u.Codec, u.MTU, u.CMTU, u.Layout, famNames[u.Fam], u.Policy, u.InPad, u.Lens, u.Addrs, u.Ports)
	}
	return fmt.Sprintf("%s server=%s client=%s mtu=%d/%d downstreamfam=%s policy=%s inpad=%s lens=%s ports=%s", u.Part, u.Server, u.Codec, u.MTU, u.CMTU, famNames[u.Fam], u.Policy, u.InPad, u.Lens, u.Ports)
}

var addrSets = map[string][]akind{
	"std": {{"ip4", 0, 0}, {"ip4in6", 0, 0}, {"ip6", 0, 0}, {"dom", 1, 0}, {"dom", 2, 0}, {"dom", 254, 0}, {"dom", 255, 0}},
	"ip":  {{"ip4", 0, 0}, {"ip4in6", 0, 0}, {"ip6", 0, 0}},
}

func init() {
	// every domain length 1..255 (two content patterns at the ends)
	var all []akind
	for n := 1; n <= 255; n++ {
		all = append(all, akind{"dom", n, 0})
	}
	all = append(all, akind{"dom", 1, 1}, akind{"dom", 64, 1}, akind{"dom", 255, 1})
	addrSets["alldom"] = all
	addrSets["wide"] = append(append([]akind{}, addrSets["std"]...), akind{"dom", 3, 1}, akind{"dom", 63, 0}, akind{"dom", 64, 1}, akind{"dom", 128, 0}, akind{"dom", 253, 1})
}

var portSets = map[string][]uint16{
	"std":   {0, 1, 53, 65535},
	"relay": {53, 65535},
	"one":   {53},
}

var lensBuf []int

// lensFor returns the payload lengths of a unit for a maximum payload; the
// result is valid until the next call.
func lensFor(spec string, maxP int) []int {
	hi := max(maxP+2, 0)
	out := lensBuf[:0]
	defer func() { lensBuf = out[:0] }()
	if k, ok := strings.CutPrefix(spec, "edges:"); ok {
		var n int
		fmt.Sscanf(k, "%d", &n)
		for l := 0; l <= min(n, hi); l++ {
			out = append(out, l)
		}
		for l := max(n+1, maxP-n); l <= hi; l++ {
			out = append(out, l)
		}
		return out
	}
	for l := 0; l <= hi; l++ {
		out = append(out, l)
	}
	return out
}

func psFor(mode string, need, hrFront, mtu int) int {
	switch mode {
	case "exact":
		return need
	case "exact+1":
		return need + 1
	case "headroom":
		return hrFront
	}
	return hrFront + mtu // generous: the MTU budget, not the front space, limits padding
}

// ---------------------------------------------------------------------------
// Worker state

type vrec struct {
	Sig    string         `json:"sig"`
	What   string         `json:"what"`
	Replay map[string]any `json:"replay"`
}

type unitResult struct {
	Idx      int              `json:"idx"`
	Cases    int64            `json:"cases"`
	Ops      int64            `json:"ops"`
	Outcomes map[string]int64 `json:"outcomes"`
	Classes  map[string]int64 `json:"classes"`
	Viols    []vrec           `json:"viols,omitempty"`
	Sample   map[string]any   `json:"sample,omitempty"`
	Secs     float64          `json:"secs"`
}

type runner struct {
	tier    string
	u       unit
	idx     int
	res     *unitResult
	seen    map[string]bool
	ord     int64 // ordinal of the current case within the unit
	stopAt  int64 // replay: stop after this ordinal (-1: run everything)
	verbose bool
	cs      caseDesc
	classes map[[2]string]int64
	// the address of the current case (for reports)
	wantTarget conn.Addr
	wantSrc    netip.AddrPort
	class      string // address kind : port of the current case
	refused    string // outcome name of an expected refusal at the current packer
}

// caseDesc is the current case; it is formatted only when something is reported.
type caseDesc struct {
	what string // "target" | "source"
	ak   akind
	port uint16
	pl   int
	pad  int
}

func (c caseDesc) String() string {
	if c.what == "" {
		return "unit setup"
	}
	if c.pl < 0 {
		return fmt.Sprintf("%s=%s port=%d (layout)", c.what, c.ak, c.port)
	}
	return fmt.Sprintf("%s=%s port=%d payloadLen=%d pad=%s", c.what, c.ak, c.port, c.pl, padName(c.pad))
}

func (r *runner) outcome(class, o string) {
	r.res.Outcomes[o]++
	r.classes[[2]string{class, o}]++
}

func (r *runner) violate(sig string, what func() string) {
	r.res.Outcomes["violation"]++
	if r.seen[sig] {
		return
	}
	r.seen[sig] = true
	w := fmt.Sprintf("%s; unit {%s}; case {%s}", what(), r.u, r.cs)
	r.res.Viols = append(r.res.Viols, vrec{Sig: sig, What: w, Replay: map[string]any{"tier": r.tier, "unit": r.u, "ordinal": r.ord, "case": r.cs.String(), "signature": sig}})
	if r.verbose {
		fmt.Printf("  observed: [%s] %s\n", sig, w)
	}
}

func (r *runner) done() bool { return r.stopAt >= 0 && r.ord > r.stopAt }

// ---------------------------------------------------------------------------
// Part A, client -> server

// checkPacked validates what a packer returned against the reference.
// need* are the unpadded header sizes, maxSize the reference MTU bound, owned*
// the headroom the packer declared.  It returns false when the packet must not
// be handed to the peer.
func (r *runner) checkPacked(where, family string, b []byte, res packRes, ps, pl, needFront, needRear, maxSize int, hr zerocopy.Headroom, prevZ int) bool {
	sig := func(shape string) string { return where + "/" + shape + "/packer=" + family }
	fits := needFront+pl+needRear <= maxSize
	// PackInPlace(b, ..., payloadStart, payloadLen) may use everything in front of
	// the payload (ss2022 pads into whatever room there is) and its declared rear
	// headroom behind it; nothing further behind, except where the previous stage
	// of a relay legitimately wrote
	ownedZ := ps + pl + hr.Rear
	checkOutside := func(z int) {
		z = max(z, prevZ)
		if !intact(b, z, len(b)) {
			i := firstDiff(b, z, len(b))
			r.violate(sig("wrote-behind-declared-rear-headroom"), func() string {
				return fmt.Sprintf("byte %d of the %d-byte buffer changed; payload [%d,%d), declared rear headroom %d, returned packet [%d,%d) err=%v", i, len(b), ps, ps+pl, hr.Rear, res.start, res.start+res.len, res.err)
			})
		}
	}
	if res.panic != "" {
		r.violate(sig("pack-panic"), func() string {
			return fmt.Sprintf("PackInPlace panicked: %s (payload [%d,%d) in a %d-byte buffer, unpadded packet %d, limit %d)", res.panic, ps, ps+pl, len(b), needFront+pl+needRear, maxSize)
		})
		return false
	}
	if res.err != nil {
		checkOutside(ownedZ)
		if fits {
			r.violate(sig("fitting-payload-refused"), func() string {
				return fmt.Sprintf("PackInPlace refused (%v) a payload of %d bytes whose unpadded packet is %d <= limit %d; %d bytes were free in front of the payload, %d needed", res.err, pl, needFront+pl+needRear, maxSize, ps, needFront)
			})
		} else {
			r.outcome(r.class, r.refused)
		}
		return false
	}
	if !fits {
		r.violate(sig("oversize-accepted"), func() string {
			return fmt.Sprintf("PackInPlace accepted a payload of %d bytes: packet of %d bytes (unpadded %d) exceeds the limit %d for this MTU and address family", pl, res.len, needFront+pl+needRear, maxSize)
		})
		return false
	}
	if res.start < 0 || res.len < 0 || res.start+res.len > len(b) {
		r.violate(sig("packet-out-of-buffer"), func() string {
			return fmt.Sprintf("packet [%d,%d) is outside the %d-byte buffer", res.start, res.start+res.len, len(b))
		})
		return false
	}
	if res.len > maxSize {
		r.violate(sig("packet-exceeds-mtu"), func() string {
			return fmt.Sprintf("packed %d bytes (payload %d, unpadded %d) > limit %d", res.len, pl, needFront+pl+needRear, maxSize)
		})
		return false
	}
	if res.start+res.len != ps+pl+needRear || res.len < needFront+pl+needRear {
		r.violate(sig("packet-range-wrong"), func() string {
			return fmt.Sprintf("packet [%d,%d) does not wrap payload [%d,%d) with a %d-byte header (+padding) and %d-byte trailer", res.start, res.start+res.len, ps, ps+pl, needFront, needRear)
		})
		return false
	}
	checkOutside(max(ownedZ, res.start+res.len))
	if needRear > hr.Rear {
		r.violate(sig("declared-rear-headroom-too-small"), func() string {
			return fmt.Sprintf("the packet needs %d bytes behind the payload, the packer declares %d", needRear, hr.Rear)
		})
	}
	return true
}

// checkUnpacked validates a peer's view of a packet placed at b[at:at+n].
func (r *runner) checkUnpacked(where, family string, b []byte, res unpackRes, at, n, pl int, addrOK bool) bool {
	sig := func(shape string) string { return where + "/" + shape + "/unpacker=" + family }
	if res.panic != "" {
		r.violate(sig("unpack-panic"), func() string { return "UnpackInPlace panicked: " + res.panic })
		return false
	}
	if res.err != nil {
		r.violate(sig("valid-packet-rejected"), func() string {
			return fmt.Sprintf("the peer rejected a freshly packed %d-byte packet: %v", n, res.err)
		})
		return false
	}
	if !intact(b, 0, at) || !intact(b, at+n, len(b)) {
		r.violate(sig("unpack-wrote-outside-packet"), func() string {
			return fmt.Sprintf("unpacking packet [%d,%d) changed byte %d / %d outside it", at, at+n, firstDiff(b, 0, at), firstDiff(b, at+n, len(b)))
		})
	}
	if res.pl != pl {
		r.violate(sig("payload-length-changed"), func() string {
			return fmt.Sprintf("payload of %d bytes came out as %d bytes", pl, res.pl)
		})
		return false
	}
	if res.ps < at || res.ps+res.pl > at+n {
		r.violate(sig("payload-outside-packet"), func() string {
			return fmt.Sprintf("payload [%d,%d) is not inside packet [%d,%d)", res.ps, res.ps+res.pl, at, at+n)
		})
		return false
	}
	if !bytes.Equal(b[res.ps:res.ps+res.pl], payloadRef[:pl]) {
		r.violate(sig("payload-changed"), func() string {
			return fmt.Sprintf("payload of %d bytes differs after the round trip", pl)
		})
		return false
	}
	if !addrOK {
		r.violate(sig("address-changed"), func() string {
			if res.src.IsValid() {
				return fmt.Sprintf("address %s came out as %s", r.wantSrc, res.src)
			}
			return fmt.Sprintf("address %s came out as %s", r.wantTarget, res.target)
		})
		return false
	}
	return true
}

func (r *runner) padLoop(f func() (consultedN int)) {
	for pc := 0; pc < 3; pc++ {
		hook.choice = pc
		n := f()
		// the other choices differ only if the packer asked for a random number in a range wider than this
		if n <= pc+1 || r.done() {
			return
		}
	}
}

func padName(pc int) string { return [...]string{"min", "max", "mid"}[pc] }

func (r *runner) runAC2S() {
	u := r.u
	r.refused = "refused-too-big"
	c := codecByName(u.Codec)
	server := netip.AddrPortFrom(famIP(fam(u.Fam), 1), 8388)
	from := netip.AddrPortFrom(famIP(fam4, 9), 40000)
	ce := newClientEnd(c, u.MTU, server, u.Policy)
	hr := ce.info.PackerHeadroom
	if ih := ce.cli.Info().PackerHeadroom; ih != hr || ce.sess.Packer.ClientPackerInfo().Headroom != hr {
		r.violate("codec-c2s/headroom-declarations-disagree/packer="+c.Family, func() string {
			return fmt.Sprintf("client info %v, session info %v, packer info %v", ih, hr, ce.sess.Packer.ClientPackerInfo().Headroom)
		})
	}
	var se *serverEnd
	if c.Kind != kDirect {
		se = newServerEnd(c, u.MTU, "NoPadding", hr, conn.Addr{}, false)
	}
	for _, ak := range addrSets[u.Addrs] {
		if c.Kind == kDirect && ak.K == "dom" {
			continue // a direct client resolves domain targets through DNS; not a codec matter
		}
		nf, nr := refC2S(c, ak.wireLen())
		for _, port := range portSets[u.Ports] {
			target := ak.connAddr(port)
			r.wantTarget = target
			dest := server
			if c.Kind == kDirect {
				dest = target.IPPort()
			}
			maxSize := refMax(u.MTU, dest.Addr())
			r.class = fmt.Sprintf("%s:%d", ak, port)
			class := r.class
			var pl int
			oneCase := func() int {
				r.ord++
				if r.done() {
					return 0
				}
				r.res.Cases++
				hook.calls, hook.n = 0, 0
				r.cs = caseDesc{"target", ak, port, pl, hook.choice}
				ps := psFor(u.PS, nf, hr.Front, u.MTU)
				if ps < nf {
					r.violate("codec-c2s/declared-headroom-too-small/packer="+c.Family, func() string {
						return fmt.Sprintf("declared front headroom %d < %d bytes the header needs", hr.Front, nf)
					})
					return 0
				}
				b := canaryBuf(scratchA, ps+pl+hr.Rear)
				copy(b[ps:], payloadRef[:pl])
				res := clientPack(ce.sess.Packer, b, target, ps, pl)
				r.res.Ops++
				consulted := 0
				if hook.calls > 0 {
					consulted = hook.n
				}
				if !r.checkPacked("codec-c2s", c.Family, b, res, ps, pl, nf, nr, maxSize, hr, ps+pl) {
					return consulted
				}
				if !sameAddrPort(dest, res.dest) || (c.Kind != kDirect && res.dest != server) {
					r.violate("codec-c2s/destination-wrong/packer="+c.Family, func() string {
						return fmt.Sprintf("packet addressed to %s, expected %s", res.dest, dest)
					})
					return consulted
				}
				if c.Kind == kDirect {
					if res.start != ps || res.len != pl || !bytes.Equal(b[ps:ps+pl], payloadRef[:pl]) {
						r.violate("codec-c2s/payload-changed/packer=direct", func() string { return "a direct packet is not the payload itself" })
						return consulted
					}
					r.outcome(class, "roundtrip-ok")
					if mp := maxSize - nf - nr; r.res.Sample == nil && pl == mp {
						r.sample(pl, mp, res, nil)
					}
					return consulted
				}
				// the peer: packet crosses the network into the server's receive buffer
				pkt := b[res.start : res.start+res.len]
				if c.EIH > 1 {
					var err error
					pkt, err = peel(c, pkt)
					if err != nil {
						r.violate("codec-c2s/identity-headers-wrong/packer=ss2022", func() string { return err.Error() })
						return consulted
					}
				}
				const at = 5
				pb := canaryBuf(scratchB, at+len(pkt))
				copy(pb[at:], pkt)
				ur := serverUnpack(se, pb, from, at, len(pkt))
				r.res.Ops += int64(ur.ops)
				if r.checkUnpacked("codec-c2s", c.Family, pb, ur, at, len(pkt), pl, ur.err == nil && ur.panic == "" && sameConnAddr(target, ur.target)) {
					r.outcome(class, "roundtrip-ok")
					if mp := maxSize - nf - nr; r.res.Sample == nil && pl == mp {
						r.sample(pl, mp, res, nil)
					}
				}
				return consulted
			}
			for _, pl = range lensFor(u.Lens, maxSize-nf-nr) {
				r.padLoop(oneCase)
				if r.done() {
					return
				}
			}
		}
	}
}

// sample keeps one boundary case per unit for the evidence file.
func (r *runner) sample(pl, maxP int, res packRes, extra map[string]any) {
	if r.res.Sample != nil || pl != maxP {
		return
	}
	r.res.Sample = map[string]any{"unit": r.u.String(), "case": r.cs.String(), "max_payload_by_reference": maxP, "packet_start": res.start, "packet_len": res.len, "result": "round trip identical, packet within limit, canary intact"}
	for k, v := range extra {
		r.res.Sample[k] = v
	}
}

// ---------------------------------------------------------------------------
// Part A, server -> client

// establish sends one client packet so that the server has a session and a packer for it.
func establish(ce *clientEnd, se *serverEnd, from netip.AddrPort) (zerocopy.ServerUnpacker, error) {
	c := ce.codec
	target := conn.AddrFromIPAndPort(famIP(fam4, 50), 443)
	hr := ce.info.PackerHeadroom
	b := canaryBuf(scratchA, hr.Front+1+hr.Rear)
	b[hr.Front] = 0x55
	res := clientPack(ce.sess.Packer, b, target, hr.Front, 1)
	if res.err != nil || res.panic != "" {
		return nil, fmt.Errorf("first packet: pack failed: %v %s", res.err, res.panic)
	}
	pkt := b[res.start : res.start+res.len]
	if c.EIH > 1 {
		var err error
		if pkt, err = peel(c, pkt); err != nil {
			return nil, err
		}
	}
	pb := canaryBuf(scratchB, len(pkt))
	copy(pb, pkt)
	ur := serverUnpack(se, pb, from, 0, len(pkt))
	if ur.err != nil || ur.panic != "" {
		return nil, fmt.Errorf("first packet: unpack failed: %v %s", ur.err, ur.panic)
	}
	return ur.unp, nil
}

func (r *runner) runAS2C() {
	u := r.u
	r.refused = "refused-too-big"
	c := codecByName(u.Codec)
	server := netip.AddrPortFrom(famIP(fam4, 1), 8388)
	client := netip.AddrPortFrom(famIP(fam(u.Fam), 9), 40000)
	ce := newClientEnd(c, u.MTU, server, "NoPadding")
	maxSize := refMax(u.MTU, client.Addr())
	if got := zerocopy.MaxPacketSizeForAddr(u.MTU, client.Addr()); got != maxSize {
		r.violate("max-packet-size-for-addr", func() string {
			return fmt.Sprintf("MaxPacketSizeForAddr(%d, %s) = %d, reference %d", u.MTU, client.Addr(), got, maxSize)
		})
	}
	var sp zerocopy.ServerPacker
	var hr zerocopy.Headroom
	if c.Kind != kDirect {
		se := newServerEnd(c, u.MTU, u.Policy, ce.info.PackerHeadroom, conn.Addr{}, false)
		unp, err := establish(ce, se, client)
		if err != nil {
			r.violate("codec-s2c/session-setup-failed/"+c.Family, func() string { return err.Error() })
			return
		}
		sp = se.packerFor(unp)
		hr = sp.ServerPackerInfo().Headroom
	}
	for _, ak := range addrSets["ip"] {
		nf, nr := refS2C(c, ak.wireLen())
		for _, port := range portSets[u.Ports] {
			src := netip.AddrPortFrom(ak.ip(), port)
			r.wantSrc = src
			r.class = fmt.Sprintf("%s:%d", ak, port)
			class := r.class
			var pl int
			oneCase := func() int {
				r.ord++
				if r.done() {
					return 0
				}
				r.res.Cases++
				hook.calls, hook.n = 0, 0
				r.cs = caseDesc{"source", ak, port, pl, hook.choice}
				const at = 5
				var pkt []byte
				var res packRes
				consulted := 0
				from := server
				if c.Kind == kDirect {
					// no server packer: the packet is the payload, received from src itself
					if pl > maxSize {
						r.outcome(class, "refused-too-big")
						return 0
					}
					pkt, from = payloadRef[:pl], src
					res = packRes{start: 0, len: pl}
				} else {
					ps := psFor(u.PS, nf, hr.Front, u.MTU)
					if ps < nf {
						r.violate("codec-s2c/declared-headroom-too-small/packer="+c.Family, func() string {
							return fmt.Sprintf("declared front headroom %d < %d bytes the header needs", hr.Front, nf)
						})
						return 0
					}
					b := canaryBuf(scratchA, ps+pl+hr.Rear)
					copy(b[ps:], payloadRef[:pl])
					res = serverPack(sp, b, src, ps, pl, zerocopy.MaxPacketSizeForAddr(u.MTU, client.Addr()))
					r.res.Ops++
					if hook.calls > 0 {
						consulted = hook.n
					}
					if !r.checkPacked("codec-s2c", c.Family, b, res, ps, pl, nf, nr, maxSize, hr, ps+pl) {
						return consulted
					}
					pkt = b[res.start : res.start+res.len]
				}
				pb := canaryBuf(scratchB, at+len(pkt))
				copy(pb[at:], pkt)
				ur := clientUnpack(ce.sess.Unpacker, pb, from, at, len(pkt))
				r.res.Ops++
				if r.checkUnpacked("codec-s2c", c.Family, pb, ur, at, len(pkt), pl, sameAddrPort(src, ur.src)) {
					r.outcome(class, "roundtrip-ok")
					if mp := maxSize - nf - nr; r.res.Sample == nil && pl == mp {
						r.sample(pl, mp, res, nil)
					}
				}
				return consulted
			}
			for _, pl = range lensFor(u.Lens, maxSize-nf-nr) {
				r.padLoop(oneCase)
				if r.done() {
					return
				}
			}
		}
	}
}

// ---------------------------------------------------------------------------
// Part B: relay worlds

// relayWorld is one relay (server codec S, client codec C) with the two outer
// ends the harness drives: a downstream client speaking S and an upstream
// server speaking C.
type relayWorld struct {
	S, C      codec
	D         *clientEnd // downstream client (nil when the relay server is "direct")
	Cc        *clientEnd // the relay's upstream client session
	U         *serverEnd // upstream server (nil when the relay client is "direct")
	relays    map[string]*serverEnd
	maxHR     zerocopy.Headroom
	relayMTU  int
	srvPolicy string
	dsAddr    netip.AddrPort // downstream client's address as the relay sees it
	relayAddr netip.AddrPort // relay's listening address as the downstream client sees it
	usAddr    netip.AddrPort // upstream server's address
	natAddr   netip.AddrPort // relay's outgoing address as the upstream server sees it
}

var maxHRCache = map[string]zerocopy.Headroom{}

// configuredClientsHeadroom is what service.Config.Manager computes over the
// configured clients: MaxHeadroom over every client's Info().PackerHeadroom.
func configuredClientsHeadroom(codecs []codec, mtu int) zerocopy.Headroom {
	var names []string
	for _, c := range codecs {
		names = append(names, c.Name)
	}
	key := strings.Join(names, ",")
	if h, ok := maxHRCache[key]; ok {
		return h
	}
	var h zerocopy.Headroom
	for _, c := range codecs {
		h = zerocopy.MaxHeadroom(h, udpClientFor(c, mtu, netip.AddrPortFrom(famIP(fam4, 2), 1), "NoPadding").Info().PackerHeadroom)
	}
	maxHRCache[key] = h
	return h
}

func newRelayWorld(u unit, tierCodecs []codec) *relayWorld {
	w := &relayWorld{S: codecByName(u.Server), C: codecByName(u.Codec), relays: map[string]*serverEnd{}, relayMTU: u.MTU}
	dsFam, usFam := fam4, fam4
	dPolicy, uPolicy := "NoPadding", "NoPadding"
	cPolicy, sPolicy := "NoPadding", "NoPadding"
	if u.Part == "B-up" {
		usFam = fam(u.Fam)
		cPolicy = u.Policy
		if u.InPad == "max" {
			dPolicy = "PadAll"
		}
	} else {
		dsFam = fam(u.Fam)
		sPolicy = u.Policy
		if u.InPad == "max" {
			uPolicy = "PadAll"
		}
	}
	w.srvPolicy = sPolicy
	w.dsAddr = netip.AddrPortFrom(famIP(dsFam, 9), 40000)
	w.relayAddr = netip.AddrPortFrom(famIP(fam4, 1), 8388)
	w.usAddr = netip.AddrPortFrom(famIP(usFam, 3), 8389)
	w.natAddr = netip.AddrPortFrom(famIP(usFam, 1), 50000)
	w.Cc = newClientEnd(w.C, u.CMTU, w.usAddr, cPolicy)
	if u.Layout == "max" {
		w.maxHR = configuredClientsHeadroom(tierCodecs, u.CMTU)
	} else {
		w.maxHR = w.Cc.cli.Info().PackerHeadroom
	}
	if w.S.Kind != kDirect {
		w.D = newClientEnd(w.S, u.MTU, w.relayAddr, dPolicy)
	}
	if w.C.Kind != kDirect {
		w.U = newServerEnd(w.C, u.CMTU, uPolicy, zerocopy.Headroom{}, conn.Addr{}, false)
	}
	return w
}

// relay returns the relay's server end; a "direct" server is per tunnel address.
func (w *relayWorld) relay(tunnel conn.Addr, targetOnly bool) *serverEnd {
	key := ""
	if w.S.Kind == kDirect {
		key = fmt.Sprintf("%s/%v", tunnel, targetOnly)
	}
	if s := w.relays[key]; s != nil {
		return s
	}
	s := newServerEnd(w.S, w.relayMTU, w.srvPolicy, w.maxHR, tunnel, targetOnly)
	w.relays[key] = s
	return s
}

// withHookChoice runs f with another padding answer (the outer ends pad to the
// maximum when their policy pads) and restores the hook state of the case.
func withHookChoice(choice int, f func()) {
	saved := hook
	hook.choice = choice
	f()
	hook = saved
}

func (r *runner) runBUp(tierCodecs []codec) {
	u := r.u
	r.refused = "forward-refused-too-big"
	w := newRelayWorld(u, tierCodecs)
	S, C := w.S, w.C
	pair := S.Name + "->" + C.Name
	cliHR := w.Cc.sess.Packer.ClientPackerInfo().Headroom
	for _, ak := range addrSets[u.Addrs] {
		if C.Kind == kDirect && ak.K == "dom" {
			continue
		}
		// what the downstream client needs to send it, what the relay client needs to forward it
		dnf, dnr := refC2S(S, ak.wireLen())
		cnf, cnr := refC2S(C, ak.wireLen())
		for _, port := range portSets[u.Ports] {
			target := ak.connAddr(port)
			r.wantTarget = target
			R := w.relay(target, false)
			L := R.layout
			if L.BufSize < L.FrontHeadroom+L.RecvSize || L.FrontHeadroom < 0 {
				r.ord++
				r.cs = caseDesc{"target", ak, port, -1, 0}
				r.violate("relay-uplink/buffer-layout-inconsistent", func() string {
					return fmt.Sprintf("%s: front headroom %d + receive size %d do not fit the %d-byte packet buffer", pair, L.FrontHeadroom, L.RecvSize, L.BufSize)
				})
				continue
			}
			upDest := w.usAddr
			if C.Kind == kDirect {
				upDest = target.IPPort()
			}
			cMax := refMax(u.CMTU, upDest.Addr())
			dMax := refMax(u.MTU, w.relayAddr.Addr())
			maxP := dMax - dnf - dnr
			if S.Kind == kDirect {
				maxP = L.RecvSize
			}
			r.class = fmt.Sprintf("%s:%d", ak, port)
			class := r.class
			var pl int
			oneCase := func() int {
				r.ord++
				if r.done() {
					return 0
				}
				r.res.Cases++
				r.cs = caseDesc{"target", ak, port, pl, hook.choice}
				// 1. the downstream client sends
				var pkt []byte
				if S.Kind == kDirect {
					pkt = payloadRef[:pl]
				} else {
					dhr := w.D.info.PackerHeadroom
					db := canaryBuf(scratchC, dhr.Front+pl+dhr.Rear)
					copy(db[dhr.Front:], payloadRef[:pl])
					var dres packRes
					withHookChoice(1, func() { dres = clientPack(w.D.sess.Packer, db, target, dhr.Front, pl) })
					r.res.Ops++
					if dres.err != nil || dres.panic != "" {
						r.outcome(class, "ingress-not-sendable")
						return 0
					}
					pkt = db[dres.start : dres.start+dres.len]
				}
				n := len(pkt)
				if n > L.RecvSize {
					r.outcome(class, "ingress-truncated-by-recv-size")
					return 0
				}
				// 2. the relay receives into its packet buffer and unpacks in place
				b := canaryBuf(scratchA, L.BufSize)
				copy(b[L.FrontHeadroom:], pkt)
				ur := serverUnpack(R, b, w.dsAddr, L.FrontHeadroom, n)
				r.res.Ops += int64(ur.ops)
				wantTarget := target
				if !r.checkUnpacked("relay-uplink", S.Family, b, ur, L.FrontHeadroom, n, pl, ur.err == nil && ur.panic == "" && sameConnAddr(wantTarget, ur.target)) {
					return 0
				}
				// 3. the relay's client packs in place
				hook.calls, hook.n = 0, 0
				res := clientPack(w.Cc.sess.Packer, b, ur.target, ur.ps, ur.pl)
				r.res.Ops++
				consulted := 0
				if hook.calls > 0 {
					consulted = hook.n
				}
				if !r.checkPacked("relay-uplink", C.Family, b, res, ur.ps, ur.pl, cnf, cnr, cMax, cliHR, L.FrontHeadroom+n) {
					return consulted
				}
				if !sameAddrPort(upDest, res.dest) {
					r.violate("relay-uplink/destination-wrong/packer="+C.Family, func() string {
						return fmt.Sprintf("packet addressed to %s, expected %s", res.dest, upDest)
					})
					return consulted
				}
				// 4. the upstream server unpacks
				out := b[res.start : res.start+res.len]
				if C.Kind == kDirect {
					if !bytes.Equal(out, payloadRef[:pl]) {
						r.violate("relay-uplink/payload-changed/packer=direct", func() string { return "the forwarded packet is not the payload" })
						return consulted
					}
					r.outcome(class, "relayed-ok")
					if mp := min(maxP, cMax-cnf-cnr); r.res.Sample == nil && pl == mp {
						r.sample(pl, mp, res, map[string]any{"relay_buffer": fmt.Sprintf("front %d, recv %d, size %d", L.FrontHeadroom, L.RecvSize, L.BufSize)})
					}
					return consulted
				}
				if C.EIH > 1 {
					var err error
					if out, err = peel(C, out); err != nil {
						r.violate("relay-uplink/identity-headers-wrong/packer=ss2022", func() string { return err.Error() })
						return consulted
					}
				}
				const at = 3
				pb := canaryBuf(scratchB, at+len(out))
				copy(pb[at:], out)
				ur2 := serverUnpack(w.U, pb, w.natAddr, at, len(out))
				r.res.Ops += int64(ur2.ops)
				if r.checkUnpacked("relay-uplink-peer", C.Family, pb, ur2, at, len(out), pl, ur2.err == nil && ur2.panic == "" && sameConnAddr(target, ur2.target)) {
					r.outcome(class, "relayed-ok")
					if mp := min(maxP, cMax-cnf-cnr); r.res.Sample == nil && pl == mp {
						r.sample(pl, mp, res, map[string]any{"relay_buffer": fmt.Sprintf("front %d, recv %d, size %d", L.FrontHeadroom, L.RecvSize, L.BufSize)})
					}
				}
				return consulted
			}
			for _, pl = range lensFor(u.Lens, maxP) {
				r.padLoop(oneCase)
				if r.done() {
					return
				}
			}
		}
	}
}

func (r *runner) runBDown(tierCodecs []codec) {
	u := r.u
	r.refused = "forward-refused-too-big"
	w := newRelayWorld(u, tierCodecs)
	S, C := w.S, w.C
	pair := S.Name + "->" + C.Name
	tunnel := conn.AddrFromIPAndPort(famIP(fam4, 50), 443)
	R := w.relay(tunnel, false)
	// establish the sessions with one uplink packet each
	var sp zerocopy.ServerPacker
	{
		var unp zerocopy.ServerUnpacker
		var err error
		if S.Kind == kDirect {
			b := canaryBuf(scratchA, 1)
			ur := serverUnpack(R, b, w.dsAddr, 0, 1)
			unp, err = ur.unp, ur.err
		} else {
			unp, err = establish(w.D, R, w.dsAddr)
		}
		if err != nil || unp == nil {
			r.violate("relay-downlink/session-setup-failed/"+S.Family, func() string { return fmt.Sprint(err) })
			return
		}
		sp = R.packerFor(unp)
	}
	var up zerocopy.ServerPacker
	if C.Kind != kDirect {
		unp, err := establish(w.Cc, w.U, w.natAddr)
		if err != nil {
			r.violate("relay-downlink/session-setup-failed/"+C.Family, func() string { return fmt.Sprint(err) })
			return
		}
		up = w.U.packerFor(unp)
	}
	// the downlink packet buffer, as relayNatConnToServerConn* lay it out
	spHR := sp.ServerPackerInfo().Headroom
	hr := zerocopy.UDPRelayHeadroom(spHR, w.Cc.sess.Unpacker.ClientUnpackerInfo().Headroom)
	recvSize := w.Cc.sess.MaxPacketSize
	bufSize := hr.Front + recvSize + hr.Rear
	maxClientPacketSize := zerocopy.MaxPacketSizeForAddr(R.layout.MTU, w.dsAddr.Addr())
	sMax := refMax(u.MTU, w.dsAddr.Addr())
	if maxClientPacketSize != sMax {
		r.violate("max-packet-size-for-addr", func() string {
			return fmt.Sprintf("MaxPacketSizeForAddr(%d, %s) = %d, reference %d", R.layout.MTU, w.dsAddr.Addr(), maxClientPacketSize, sMax)
		})
	}
	if hr.Front < 0 || hr.Rear < 0 {
		r.violate("relay-downlink/buffer-layout-inconsistent", func() string {
			return fmt.Sprintf("%s: relay headroom %+v is negative", pair, hr)
		})
		return
	}
	uMax := refMax(u.CMTU, w.natAddr.Addr())
	for _, ak := range addrSets["ip"] {
		unf, unr := refS2C(C, ak.wireLen())
		snf, snr := refS2C(S, ak.wireLen())
		for _, port := range portSets[u.Ports] {
			src := netip.AddrPortFrom(ak.ip(), port)
			r.wantSrc = src
			r.class = fmt.Sprintf("%s:%d", ak, port)
			class := r.class
			maxP := uMax - unf - unr
			if C.Kind == kDirect {
				maxP = recvSize
			}
			var pl int
			oneCase := func() int {
				r.ord++
				if r.done() {
					return 0
				}
				r.res.Cases++
				r.cs = caseDesc{"source", ak, port, pl, hook.choice}
				// 1. the upstream server replies
				var pkt []byte
				from := w.usAddr
				if C.Kind == kDirect {
					pkt, from = payloadRef[:pl], src
				} else {
					uhr := up.ServerPackerInfo().Headroom
					ub := canaryBuf(scratchC, uhr.Front+pl+uhr.Rear)
					copy(ub[uhr.Front:], payloadRef[:pl])
					var ures packRes
					withHookChoice(1, func() { ures = serverPack(up, ub, src, uhr.Front, pl, uMax) })
					r.res.Ops++
					if ures.err != nil || ures.panic != "" {
						r.outcome(class, "ingress-not-sendable")
						return 0
					}
					pkt = ub[ures.start : ures.start+ures.len]
				}
				n := len(pkt)
				if n > recvSize {
					r.outcome(class, "ingress-truncated-by-recv-size")
					return 0
				}
				// 2. the relay's client unpacks in place
				b := canaryBuf(scratchA, bufSize)
				copy(b[hr.Front:], pkt)
				ur := clientUnpack(w.Cc.sess.Unpacker, b, from, hr.Front, n)
				r.res.Ops++
				if !r.checkUnpacked("relay-downlink", C.Family, b, ur, hr.Front, n, pl, sameAddrPort(src, ur.src)) {
					return 0
				}
				// 3. the relay's server packs in place for the downstream client
				hook.calls, hook.n = 0, 0
				res := serverPack(sp, b, ur.src, ur.ps, ur.pl, maxClientPacketSize)
				r.res.Ops++
				consulted := 0
				if hook.calls > 0 {
					consulted = hook.n
				}
				if !r.checkPacked("relay-downlink", S.Family, b, res, ur.ps, ur.pl, snf, snr, sMax, spHR, hr.Front+n) {
					return consulted
				}
				// 4. the downstream client unpacks
				out := b[res.start : res.start+res.len]
				if S.Kind == kDirect {
					if !bytes.Equal(out, payloadRef[:pl]) {
						r.violate("relay-downlink/payload-changed/packer=direct", func() string { return "the forwarded packet is not the payload" })
						return consulted
					}
					r.outcome(class, "relayed-ok")
					if mp := min(maxP, sMax-snf-snr); r.res.Sample == nil && pl == mp {
						r.sample(pl, mp, res, map[string]any{"relay_buffer": fmt.Sprintf("front %d, recv %d, rear %d", hr.Front, recvSize, hr.Rear)})
					}
					return consulted
				}
				const at = 3
				pb := canaryBuf(scratchB, at+len(out))
				copy(pb[at:], out)
				ur2 := clientUnpack(w.D.sess.Unpacker, pb, w.relayAddr, at, len(out))
				r.res.Ops++
				if r.checkUnpacked("relay-downlink-peer", S.Family, pb, ur2, at, len(out), pl, sameAddrPort(src, ur2.src)) {
					r.outcome(class, "relayed-ok")
					if mp := min(maxP, sMax-snf-snr); r.res.Sample == nil && pl == mp {
						r.sample(pl, mp, res, map[string]any{"relay_buffer": fmt.Sprintf("front %d, recv %d, rear %d", hr.Front, recvSize, hr.Rear)})
					}
				}
				return consulted
			}
			for _, pl = range lensFor(u.Lens, maxP) {
				r.padLoop(oneCase)
				if r.done() {
					return
				}
			}
		}
	}
}

// ---------------------------------------------------------------------------
// Enumeration of units per tier

type tierSpec struct {
	codecs []codec
	units  []unit
}

func isSS(c codec) bool { return c.Kind == kSS }

// relay server codecs: a client codec with at most one identity header has a
// server of its own protocol in this repository.
func relayServers(codecs []codec) []codec {
	var out []codec
	for _, c := range codecs {
		if c.Kind != kSS || c.EIH <= 1 {
			out = append(out, c)
		}
	}
	return out
}

func buildTier(tier string) tierSpec {
	var t tierSpec
	policies := []string{"NoPadding", "PadPlainDNS", "PadAll"}
	add := func(u unit) { t.units = append(t.units, u) }
	partA := func(codecs []codec, mtus []int, lens, addrs, ports string, psModes []string) {
		for _, c := range codecs {
			pols := []string{"NoPadding"}
			if isSS(c) {
				pols = policies
			}
			modes := psModes
			if c.Kind == kDirect {
				modes = []string{"exact", "generous"}
			}
			for _, mtu := range mtus {
				for f := fam4; f <= fam6; f++ {
					for _, pol := range pols {
						for _, ps := range modes {
							add(unit{Part: "A-c2s", Codec: c.Name, MTU: mtu, Fam: int(f), Policy: pol, PS: ps, Lens: lens, Addrs: addrs, Ports: ports})
							if c.Kind != kDirect || ps == "exact" {
								add(unit{Part: "A-s2c", Codec: c.Name, MTU: mtu, Fam: int(f), Policy: pol, PS: ps, Lens: lens, Addrs: "ip", Ports: ports})
							}
						}
					}
				}
			}
		}
	}
	allFams := []fam{fam4, fam4in6, fam6}
	partB := func(codecs []codec, mtuPairs [][2]int, lens, addrs, ports string, relayPolicies []string, layouts []string, fams []fam) {
		for _, s := range relayServers(codecs) {
			for _, c := range codecs {
				if s.Kind == kSS && c.Kind == kSS && s.KeyLen != c.KeyLen && s.KeyLen == 32 {
					continue // key length does not interact across the relay; keep one mixed direction
				}
				for _, mp := range mtuPairs {
					for _, f := range fams {
						upPols, downPols := []string{"NoPadding"}, []string{"NoPadding"}
						if isSS(c) {
							upPols = relayPolicies
						}
						if isSS(s) {
							downPols = relayPolicies
						}
						upIn, downIn := []string{"none"}, []string{"none"}
						if isSS(s) {
							upIn = []string{"none", "max"}
						}
						if isSS(c) {
							downIn = []string{"none", "max"}
						}
						for _, lay := range layouts {
							for _, pol := range upPols {
								for _, in := range upIn {
									add(unit{Part: "B-up", Server: s.Name, Codec: c.Name, MTU: mp[0], CMTU: mp[1], Fam: int(f), Policy: pol, Layout: lay, InPad: in, Lens: lens, Addrs: addrs, Ports: ports})
								}
							}
						}
						for _, pol := range downPols {
							for _, in := range downIn {
								add(unit{Part: "B-down", Server: s.Name, Codec: c.Name, MTU: mp[0], CMTU: mp[1], Fam: int(f), Policy: pol, InPad: in, Lens: lens, Addrs: "ip", Ports: ports})
							}
						}
					}
				}
			}
		}
	}
	psModes := []string{"exact", "exact+1", "headroom", "generous"}
	switch tier {
	case "quick":
		t.codecs = allCodecs[:7]
		partA(t.codecs, []int{1280, 1500}, "all", "wide", "std", psModes)
		partB(t.codecs, [][2]int{{1280, 1280}, {1500, 1500}, {1500, 1280}, {1280, 1500}}, "all", "std", "relay", policies, []string{"min", "max"}, allFams)
	default:
		t.codecs = allCodecs
		small := []int{1280, 1492, 1500}
		partA(t.codecs, small, "all", "wide", "std", psModes)
		partA(t.codecs[:7], small, "edges:40", "alldom", "one", []string{"exact", "headroom"})
		partA(t.codecs[:7], []int{9000}, "all", "std", "std", psModes)
		partA(t.codecs[:7], []int{65535}, "edges:300", "std", "std", psModes)
		partA(t.codecs[:7], []int{65535}, "all", "std", "one", []string{"headroom"})
		partA(t.codecs[:7], []int{131072}, "edges:64", "std", "one", []string{"exact", "headroom", "generous"})
		partB(t.codecs, [][2]int{{1280, 1280}, {1492, 1492}, {1500, 1500}, {1500, 1280}, {1280, 1500}, {1492, 1500}, {1500, 1492}}, "all", "std", "std", policies, []string{"min", "max"}, allFams)
		partB(t.codecs[:7], [][2]int{{9000, 9000}, {9000, 1500}, {1500, 9000}}, "all", "std", "relay", []string{"PadPlainDNS", "PadAll"}, []string{"min", "max"}, allFams)
		partB(t.codecs[:7], [][2]int{{65535, 65535}, {65535, 1500}, {1280, 65535}}, "edges:300", "std", "relay", []string{"PadPlainDNS", "PadAll"}, []string{"min", "max"}, allFams)
		partB(t.codecs[:7], [][2]int{{1500, 1500}}, "edges:40", "alldom", "one", []string{"PadAll"}, []string{"min", "max"}, allFams)
		partB(t.codecs[:7], [][2]int{{65535, 65535}}, "all", "ip", "one", []string{"PadAll"}, []string{"min"}, []fam{fam4})
	}
	return t
}

func runUnit(tier string, t tierSpec, idx int, stopAt int64, verbose bool) *unitResult {
	start := time.Now()
	u := t.units[idx]
	r := &runner{tier: tier, u: u, idx: idx, stopAt: stopAt, verbose: verbose, seen: map[string]bool{}, classes: map[[2]string]int64{},
		res: &unitResult{Idx: idx, Outcomes: map[string]int64{}, Classes: map[string]int64{}}}
	installHooks()
	defer runCleanups()
	p := guard(func() {
		switch u.Part {
		case "A-c2s":
			r.runAC2S()
		case "A-s2c":
			r.runAS2C()
		case "B-up":
			r.runBUp(t.codecs)
		case "B-down":
			r.runBDown(t.codecs)
		default:
			harness.Fatal("unknown part %q", u.Part)
		}
	})
	if p != "" {
		// a panic outside the guarded calls: in a constructor or in the harness
		r.violate("panic-outside-pack-unpack/"+u.Part, func() string { return "panic while building or driving the unit: " + p })
	}
	for k, v := range r.classes {
		r.res.Classes[k[0]+"|"+k[1]] = v
	}
	r.res.Secs = time.Since(start).Seconds()
	return r.res
}

// ---------------------------------------------------------------------------
// main: shard the units over worker processes, merge deterministically

func workerMain(tier, shard string) {
	var i, n int
	fmt.Sscanf(shard, "%d/%d", &i, &n)
	if n <= 0 {
		harness.Fatal("bad shard %q", shard)
	}
	// one case at a time per process (the hooks are process-global); the
	// parent runs one worker per core
	runtime.GOMAXPROCS(2)
	debug.SetGCPercent(400)
	if pf := os.Getenv("C05_CPUPROFILE"); pf != "" {
		if f, err := os.Create(pf); err == nil {
			pprof.StartCPUProfile(f)
			defer pprof.StopCPUProfile()
		}
	}
	t := buildTier(tier)
	enc := json.NewEncoder(os.Stdout)
	deadline := time.Time{}
	if d, err := time.ParseDuration(flag.Lookup("budget").Value.String()); err == nil && d > 0 {
		deadline = time.Now().Add(d)
	}
	for idx := range t.units {
		if idx%n != i {
			continue
		}
		if !deadline.IsZero() && time.Now().After(deadline) {
			enc.Encode(&unitResult{Idx: -1 - idx})
			continue
		}
		enc.Encode(runUnit(tier, t, idx, -1, false))
	}
}

func unitOf(rec map[string]any) (u unit, ord int64, sig string) {
	ub, _ := json.Marshal(rec["unit"])
	if err := json.Unmarshal(ub, &u); err != nil {
		harness.Fatal("replay unit: %v", err)
	}
	switch o := rec["ordinal"].(type) {
	case float64:
		ord = int64(o)
	case int64:
		ord = o
	}
	sig, _ = rec["signature"].(string)
	return
}

func reproduces(tier string, v vrec) bool {
	u, ord, sig := unitOf(v.Replay)
	t := buildTier(tier)
	t.units = []unit{u}
	for _, w := range runUnit(tier, t, 0, ord, false).Viols {
		if w.Sig == sig {
			return true
		}
	}
	return false
}

func liveReproduces(tier string, inst liveInst, sig string) bool {
	outs, crashed, _ := runLivePart(tier, &inst, 0)
	if crashed != nil {
		return false
	}
	for _, o := range outs {
		for _, v := range o.Viols {
			if v.Sig == sig {
				return true
			}
		}
	}
	return false
}

func replayMain(c *harness.Check) {
	rec, err := harness.ReplayFile(c.Replay)
	if err != nil {
		harness.Fatal("%v", err)
	}
	if sc, _ := rec["scenario"].(string); sc == "relaybatch" || sc == "relayroam" {
		if harness.ReplayExploration(c) {
			os.Exit(1)
		}
		os.Exit(0)
	}
	tier, _ := rec["tier"].(string)
	if part, _ := rec["part"].(string); part == "C-live" {
		var inst liveInst
		ib, _ := json.Marshal(rec["inst"])
		if err := json.Unmarshal(ib, &inst); err != nil {
			harness.Fatal("replay instance: %v", err)
		}
		want, _ := rec["signature"].(string)
		fmt.Printf("replaying instance {%s}\n", inst)
		outs, crashed, st := runLivePart(tier, &inst, 0)
		if crashed != nil {
			fmt.Printf("VIOLATION property=C05 replay=%s\n  signature: %s\n  the process running the relay died: %s [%s]\n", c.Replay, crashSignature(st), panicLine(st), crashFrames(st))
			os.Exit(1)
		}
		for _, o := range outs {
			for _, v := range o.Viols {
				if v.Sig == want || want == "" {
					fmt.Printf("VIOLATION property=C05 replay=%s\n  signature: %s\n  %s\n", c.Replay, v.Sig, v.What)
					os.Exit(1)
				}
			}
		}
		for _, o := range outs {
			for _, v := range o.Viols {
				fmt.Printf("VIOLATION property=C05 replay=%s\n  signature: %s (recorded: %s)\n  %s\n", c.Replay, v.Sig, want, v.What)
				os.Exit(1)
			}
		}
		fmt.Println("no violation on replay")
		os.Exit(0)
	}
	u, iord, sig := unitOf(rec)
	ord := float64(iord)
	t := buildTier(tier)
	t.units = []unit{u}
	fmt.Printf("replaying unit {%s} up to case #%d {%v}\n", u, int64(ord), rec["case"])
	res := runUnit(tier, t, 0, int64(ord), true)
	for _, v := range res.Viols {
		if v.Sig == sig {
			fmt.Printf("VIOLATION property=C05 replay=%s\n  signature: %s\n  %s\n", c.Replay, v.Sig, v.What)
			os.Exit(1)
		}
	}
	if len(res.Viols) > 0 {
		v := res.Viols[0]
		fmt.Printf("VIOLATION property=C05 replay=%s\n  signature: %s (recorded: %s)\n  %s\n", c.Replay, v.Sig, sig, v.What)
		os.Exit(1)
	}
	fmt.Println("no violation on replay")
	os.Exit(0)
}

func main() {
	if !flag.Parsed() {
		flag.Parse()
	}
	registerBatch()
	switch w := flag.Lookup("worker").Value.String(); w {
	case "":
	case "relaybatch", "relayroam":
		harness.WorkerMain()
		return
	case "c05live":
		var only *liveInst
		if sh := flag.Lookup("shard").Value.String(); strings.HasPrefix(sh, "{") {
			only = &liveInst{}
			if err := json.Unmarshal([]byte(sh), only); err != nil {
				harness.Fatal("bad live instance %q: %v", sh, err)
			}
		}
		from := 0
		fmt.Sscanf(flag.Lookup("bound").Value.String(), "%d", &from)
		liveWorkerMain(flag.Lookup("param").Value.String(), only, from)
		return
	default:
		workerMain(flag.Lookup("param").Value.String(), flag.Lookup("shard").Value.String())
		return
	}
	c := harness.Start("C05")
	if c.Replay != "" {
		replayMain(c)
	}
	t := buildTier(c.Tier)
	nw := harness.Workers()
	budget := harness.Pick(c, 10*time.Minute, 6*time.Hour)
	results := make([]*unitResult, len(t.units))
	var mu sync.Mutex
	var wg sync.WaitGroup
	for i := 0; i < nw; i++ {
		wg.Add(1)
		go func(i int) {
			defer wg.Done()
			cmd := exec.Command(os.Args[0], "--worker", "c05", "--param", c.Tier, "--shard", fmt.Sprintf("%d/%d", i, nw), "--budget", budget.String())
			cmd.Stderr = os.Stderr
			out, err := cmd.Output()
			if err != nil {
				harness.Fatal("worker %d failed: %v\n%s", i, err, tailOf(string(out), 1500))
			}
			dec := json.NewDecoder(bytes.NewReader(out))
			for dec.More() {
				var ur unitResult
				if err := dec.Decode(&ur); err != nil {
					harness.Fatal("worker %d: bad output: %v", i, err)
				}
				mu.Lock()
				if ur.Idx < 0 {
					results[-1-ur.Idx] = nil
				} else {
					results[ur.Idx] = &ur
				}
				mu.Unlock()
			}
		}(i)
	}
	var (
		liveOuts    []*liveOut
		liveCrashes []liveCrash
	)
	wg.Add(1)
	go func() {
		defer wg.Done()
		liveOuts, liveCrashes = runLiveAll(c.Tier)
	}()
	wg.Wait()
	runBatchPart(c)
	if len(liveOuts) > 0 {
		o := liveOuts[len(liveOuts)/2]
		c.Sample(map[string]any{"unit": o.Inst.String(), "cases": o.Cases, "outcomes": o.Outcomes, "result": "every boundary payload either arrived unchanged on the far side of the running relay or was dropped exactly when the reference says it cannot fit"})
	}

	type agg struct {
		units, cases, ops int64
		outcomes          map[string]int64
		secs              float64
	}
	parts := map[string]*agg{}
	confirmed := map[string]bool{}
	skipped := 0
	var totalCases, totalOps, delivered int64
	for idx, ur := range results {
		u := t.units[idx]
		if ur == nil {
			skipped++
			continue
		}
		a := parts[u.Part]
		if a == nil {
			a = &agg{outcomes: map[string]int64{}}
			parts[u.Part] = a
		}
		a.units++
		a.cases += ur.Cases
		a.ops += ur.Ops
		a.secs += ur.Secs
		for k, v := range ur.Outcomes {
			a.outcomes[k] += v
		}
		totalCases += ur.Cases
		totalOps += ur.Ops
		delivered += ur.Outcomes["roundtrip-ok"] + ur.Outcomes["relayed-ok"]
		for k := range ur.Classes {
			c.Distinct(u.String()+"|"+k, true)
		}
		for _, v := range ur.Viols {
			if confirmed[v.Sig] {
				continue
			}
			confirmed[v.Sig] = true
			// re-run the unit from a fresh world up to that case: the same
			// violation must show again, otherwise the harness is not deterministic
			if len(confirmed) <= 60 && !reproduces(c.Tier, v) {
				harness.Fatal("violation %q did not reproduce on an identical re-run (nondeterminism in the harness): %s", v.Sig, v.What)
			}
			c.Violation(v.Sig, v.What, v.Replay)
		}
		if ur.Sample != nil && (idx%97 == 0 || u.Part[0] == 'B' && idx%89 == 0) {
			c.Sample(ur.Sample)
		}
	}
	// part C
	{
		la := &agg{outcomes: map[string]int64{}}
		for _, o := range liveOuts {
			la.units++
			la.cases += o.Cases
			la.ops += o.Ops
			for k, v := range o.Outcomes {
				la.outcomes[k] += v
				c.Distinct(o.Inst.String()+"|"+k, true)
			}
			totalCases += o.Cases
			totalOps += o.Ops
			if o.Capped != "" {
				c.Cap(o.Capped)
			}
			for _, v := range o.Viols {
				if confirmed[v.Sig] {
					continue
				}
				confirmed[v.Sig] = true
				if !liveReproduces(c.Tier, o.Inst, v.Sig) {
					harness.Fatal("live violation %q did not reproduce on a re-run of {%s}: %s", v.Sig, o.Inst, v.What)
				}
				c.Violation(v.Sig, v.What, v.Replay)
			}
		}
		for _, cr := range liveCrashes {
			sig := crashSignature(cr.stderr)
			c.Violation(sig, fmt.Sprintf("the process running the relay died: %s [%s]; instance {%s}", panicLine(cr.stderr), crashFrames(cr.stderr), cr.inst),
				map[string]any{"tier": c.Tier, "part": "C-live", "inst": cr.inst, "signature": sig})
		}
		if n := len(liveInstances(c.Tier)); len(liveOuts)+len(liveCrashes) < n {
			c.Cap(fmt.Sprintf("part C: %d of %d instances run (stopped after %d crashes)", len(liveOuts), n, len(liveCrashes)))
		}
		parts["C-live"] = la
	}
	if skipped > 0 {
		c.Cap(fmt.Sprintf("time budget %s: %d of %d units not run", budget, skipped, len(t.units)))
	}
	if delivered == 0 && c.Violations() == 0 {
		harness.Fatal("no packet completed a round trip: the harness is broken")
	}
	c.Count(totalCases, totalCases, totalOps)
	var names []string
	for k := range parts {
		names = append(names, k)
	}
	sort.Strings(names)
	for _, k := range names {
		a := parts[k]
		c.Part(k, map[string]any{"units": a.units, "cases": a.cases, "pack_unpack_calls": a.ops, "outcomes": a.outcomes, "cpu_seconds": int(a.secs)})
	}
	var cn []string
	for _, cd := range t.codecs {
		cn = append(cn, cd.Name)
	}
	c.Extra["codecs"] = cn
	c.Extra["units"] = len(t.units)
	c.Extra["alphabet"] = map[string]any{
		"address_kinds": map[string]any{"std": kindNames(addrSets["std"]), "wide": kindNames(addrSets["wide"]), "alldom": "domain lengths 1..255 + 3 binary-content domains", "ip": kindNames(addrSets["ip"])},
		"ports":         portSets,
		"payload_start": "exact = header bytes needed (no padding possible) | exact+1 | headroom = the packer's declared front headroom | generous = headroom + MTU",
		"padding":       "policies NoPadding, PadPlainDNS, PadAll; every call of mrand.IntN(n) is answered with 0, n-1 and n/2 (separate cases)",
		"payload_len":   "all: every length 0..max+2 where max is the largest payload the sender may emit for this address; edges:k: 0..k and max-k..max+2",
		"families":      famNames,
		"relay_layout":  "min: only the pair's client is configured; max: every client codec of the tier is configured (MaxHeadroom over their Info().PackerHeadroom, as service.Config.Manager does)",
	}
	c.Rule = "one case = one (unit, address kind, port, payload length, padding answer) tuple executed on the real code; a unit fixes part, codec(s), MTU(s), address family of the peer, padding policy, payloadStart mode / relay layout, incoming padding. All tuples are distinct by construction (states = cases); distinct_nontrivial counts (unit, address kind, port, outcome) classes; transitions = PackInPlace/UnpackInPlace/SessionInfo/NewUnpacker calls on the real code. Part D: one case = one interleaving (delay-bounded, iterative) of the real relay with a refused datagram directly followed by one that fits. Part C: one case = one (relay instance {server, client, MTUs, batch mode}, direction, address kind, port, boundary payload length) sent through the running relay."
	c.Assumptions = []string{
		"uplink relay buffer layout (front headroom, receive size, buffer size) and server objects are read from the service returned by the real ServerConfig.UDPRelay through overlay_static/service/c05_export.go; client sessions come from the real ClientConfig.UDPClient + NewSession (SOCKS5: the real newSession without the TCP control connection)",
		"downlink relay buffer = UDPRelayHeadroom(serverPacker.Headroom, clientUnpacker.Headroom).Front + clientSession.MaxPacketSize + .Rear and maxClientPacketSize = MaxPacketSizeForAddr(server MTU, client address): composed in the harness from the real functions exactly as the four relayNatConnToServerConn* loops do inline; those loops themselves (receive offsets, downlink buffer, maxClientPacketSize) are executed by part C on loopback sockets with boundary payload lengths, in both batch modes",
		"part C decides forwarded/dropped by packet order (a marker packet follows every packet on the same path), never by a timeout; a marker that does not arrive within 60 s caps the run; a panic in a relay goroutine kills that worker process and is reported as a violation for the instance that was running",
		"a packet longer than the receive size is truncated by the kernel and dropped by the relay (MSG_TRUNC); such cases are counted, not judged",
		"clients with 2..3 identity headers are checked against reference SIP022 relays (peel one header each, written in the harness) in front of the real multi-user server",
		"not demanded: preservation of the IPv4-mapped form of an address (the SOCKS address format has no such form; the code documents the conversion): addresses are compared after Unmap; that padding is actually applied when the policy says so; contents of bytes in front of the payload (PackInPlace may use all of b[:payloadStart]; ss2022 pads into whatever room there is, beyond its declared 900-byte padding headroom) and inside the declared rear headroom",
		"part D (scheduler-controlled): real relay service on loopback sockets with scheduler-mediated readiness; a refused datagram directly followed by one that fits, in every receive-batch split the delay bound allows; outgoing client direct only",
		"out of alphabet: direct client with domain targets (DNS), direct server with tunnelUDPTargetOnly (C18), transparent proxy relay, MTU > 65575 except edges in thorough",
	}
	c.Finish()
}

func kindNames(ks []akind) []string {
	var out []string
	for _, k := range ks {
		out = append(out, k.String())
	}
	return out
}

func tailOf(s string, n int) string {
	if len(s) > n {
		return s[len(s)-n:]
	}
	return s
}
