// Part C of check C05: the same property through the real relay loops.
//
// Parts A and B call packers and unpackers directly.  The downlink packet
// buffer of a relay, and the offsets at which the relay loops receive and
// unpack, exist only inside the four relayNatConnToServerConn* /
// recvFromServerConn* loops of package service.  Here a real relay service
// (ServerConfig.UDPRelay + Start, both batch modes) runs on loopback sockets
// between a downstream client and an upstream server that are driven by the
// harness with the real codec objects.  Boundary payload lengths are
// enumerated; every packet is followed by a small marker packet on the same
// path, so "was forwarded" / "was dropped" is decided by packet order, never
// by a timeout (a marker that does not arrive within a minute is a capped run).
package main

import (
	"bufio"
	"bytes"
	"context"
	"encoding/json"
	"fmt"
	"io"
	"net"
	"net/netip"
	"os"
	"os/exec"
	"sort"
	"strings"
	"time"

	"github.com/database64128/shadowsocks-go/conn"
	"github.com/database64128/shadowsocks-go/router"
	"github.com/database64128/shadowsocks-go/service"
	"github.com/database64128/shadowsocks-go/zerocopy"

	"verif/harness"
	"verif/shim/vcrand"
	"verif/shim/vrand"
	"verif/vsched"
)

type liveInst struct {
	Server string `json:"server"`
	Codec  string `json:"codec"`
	MTU    int    `json:"mtu"`
	CMTU   int    `json:"cmtu"`
	Batch  string `json:"batch"` // "no" | "sendmmsg"
}

func (i liveInst) String() string {
	return fmt.Sprintf("C-live server=%s client=%s mtu=%d/%d batch=%s", i.Server, i.Codec, i.MTU, i.CMTU, i.Batch)
}

type liveOut struct {
	Kind     string           `json:"kind"` // begin | end
	Inst     liveInst         `json:"inst"`
	Cases    int64            `json:"cases"`
	Ops      int64            `json:"ops"`
	Outcomes map[string]int64 `json:"outcomes,omitempty"`
	Viols    []vrec           `json:"viols,omitempty"`
	Capped   string           `json:"capped,omitempty"`
}

// options consulted by newServerEnd when a relay is to be started for real
var (
	srvRouter *router.Router
	srvBatch  string
)

func liveInstances(tier string) []liveInst {
	codecs := allCodecs[:7]
	pairs := [][2]int{{1280, 1280}, {1500, 1280}, {1280, 1500}}
	if tier == "thorough" {
		pairs = append(pairs, [2]int{1500, 1500}, [2]int{9000, 1500}, [2]int{1500, 9000}, [2]int{65535, 65535})
	}
	var out []liveInst
	for _, s := range relayServers(codecs) {
		for _, c := range codecs {
			for _, p := range pairs {
				for _, b := range []string{"no", "sendmmsg"} {
					out = append(out, liveInst{s.Name, c.Name, p[0], p[1], b})
				}
			}
		}
	}
	return out
}

const liveWait = 60 * time.Second

type liveRun struct {
	inst liveInst
	tier string
	out  *liveOut
	seen map[string]bool
	cs   string
}

func (l *liveRun) violate(sig string, what string) {
	l.out.Outcomes["violation"]++
	if l.seen[sig] {
		return
	}
	l.seen[sig] = true
	l.out.Viols = append(l.out.Viols, vrec{Sig: sig, What: fmt.Sprintf("%s; instance {%s}; case {%s}", what, l.inst, l.cs),
		Replay: map[string]any{"tier": l.tier, "part": "C-live", "inst": l.inst, "case": l.cs, "signature": sig}})
}

// edgeLens returns 0..2 and two below .. two above each boundary.
func edgeLens(bounds ...int) []int {
	set := map[int]bool{0: true, 1: true, 2: true}
	for _, b := range bounds {
		for d := -2; d <= 2; d++ {
			if b+d >= 0 {
				set[b+d] = true
			}
		}
	}
	var out []int
	for k := range set {
		out = append(out, k)
	}
	sort.Ints(out)
	return out
}

func markerPayload(seq int) []byte { return []byte{0xFE, 'M', byte(seq >> 8), byte(seq)} }

func isMarker(p []byte, seq int) bool { return bytes.Equal(p, markerPayload(seq)) }

// socks5Control is a minimal SOCKS5 server side for UDP ASSOCIATE (RFC 1928):
// method negotiation without authentication, then a success reply carrying the
// UDP relay address.
func socks5Control(ln *net.TCPListener, udp netip.AddrPort) {
	for {
		c, err := ln.AcceptTCP()
		if err != nil {
			return
		}
		go func() {
			defer c.Close()
			var b [512]byte
			if _, err := io.ReadFull(c, b[:2]); err != nil {
				return
			}
			if _, err := io.ReadFull(c, b[:int(b[1])]); err != nil {
				return
			}
			c.Write([]byte{5, 0})
			if _, err := io.ReadFull(c, b[:4]); err != nil {
				return
			}
			n := 4 + 2
			switch b[3] {
			case 4:
				n = 16 + 2
			case 3:
				if _, err := io.ReadFull(c, b[:1]); err != nil {
					return
				}
				n = int(b[0]) + 2
			}
			if _, err := io.ReadFull(c, b[:n]); err != nil {
				return
			}
			a := udp.Addr().As4()
			c.Write([]byte{5, 0, 0, 1, a[0], a[1], a[2], a[3], byte(udp.Port() >> 8), byte(udp.Port())})
			io.Copy(io.Discard, c) // the association lives as long as this connection
		}()
	}
}

func runLive(tier string, inst liveInst) *liveOut {
	out := &liveOut{Kind: "end", Inst: inst, Outcomes: map[string]int64{}}
	l := &liveRun{inst: inst, tier: tier, out: out, seen: map[string]bool{}}
	S, C := codecByName(inst.Server), codecByName(inst.Codec)
	lo := netip.AddrFrom4([4]byte{127, 0, 0, 1})
	ctx, cancel := context.WithCancel(context.Background())
	defer cancel()
	defer runCleanups()

	up, err := net.ListenUDP("udp4", net.UDPAddrFromAddrPort(netip.AddrPortFrom(lo, 0)))
	if err != nil {
		harness.Fatal("upstream socket: %v", err)
	}
	defer up.Close()
	upAddr := netip.AddrPortFrom(lo, up.LocalAddr().(*net.UDPAddr).AddrPort().Port())
	dn, err := net.ListenUDP("udp4", net.UDPAddrFromAddrPort(netip.AddrPortFrom(lo, 0)))
	if err != nil {
		harness.Fatal("downstream socket: %v", err)
	}
	defer dn.Close()
	dnAddr := netip.AddrPortFrom(lo, dn.LocalAddr().(*net.UDPAddr).AddrPort().Port())

	endpoint := upAddr
	if C.Kind == kSocks5 {
		ln, err := net.ListenTCP("tcp4", &net.TCPAddr{IP: net.IPv4(127, 0, 0, 1)})
		if err != nil {
			harness.Fatal("socks5 control listener: %v", err)
		}
		defer ln.Close()
		go socks5Control(ln, upAddr)
		endpoint = ln.Addr().(*net.TCPAddr).AddrPort()
	}

	// the relay: real client, real router with that client as default route, real server, started
	cli := udpClientFor(C, inst.CMTU, endpoint, "PadPlainDNS")
	rt, err := (&router.Config{}).Router(nop, nil, nil, nil, map[string]zerocopy.UDPClient{C.Name: cli}, map[string]int{"srv-" + S.Name: 0})
	if err != nil {
		harness.Fatal("router: %v", err)
	}
	defer rt.Close()
	fixedTarget := conn.AddrFromIPPort(netip.AddrPortFrom(netip.AddrFrom4([4]byte{192, 0, 2, 77}), 53))
	if C.Kind == kDirect {
		fixedTarget = conn.AddrFromIPPort(upAddr) // a direct client sends to the target itself
	}
	srvRouter, srvBatch = rt, inst.Batch
	relay := newServerEnd(S, inst.MTU, "PadPlainDNS", cli.Info().PackerHeadroom, fixedTarget, false)
	srvRouter, srvBatch = nil, ""
	if err := relay.svc.Start(ctx); err != nil {
		harness.Fatal("relay start: %v", err)
	}
	stopped := false
	stop := func() {
		if !stopped {
			stopped = true
			relay.svc.Stop()
		}
	}
	defer stop()
	relayAddr, err := netip.ParseAddrPort(service.C05ListenAddr(relay.svc))
	if err != nil {
		harness.Fatal("relay listen address %q: %v", service.C05ListenAddr(relay.svc), err)
	}

	// the ends the harness drives
	var D *clientEnd
	if S.Kind != kDirect {
		D = newClientEnd(S, inst.MTU, relayAddr, "PadPlainDNS")
	}
	var U *serverEnd
	if C.Kind != kDirect {
		U = newServerEnd(C, inst.CMTU, "PadPlainDNS", zerocopy.Headroom{}, conn.Addr{}, false)
	}
	v4 := lo
	cMax, sMax := refMax(inst.CMTU, v4), refMax(inst.MTU, v4)
	recvUp := relay.layout.RecvSize

	sendDown := func(target conn.Addr, payload []byte) (n int, ok bool) {
		if S.Kind == kDirect {
			dn.WriteToUDPAddrPort(payload, relayAddr)
			return len(payload), true
		}
		hr := D.info.PackerHeadroom
		b := canaryBuf(scratchC, hr.Front+len(payload)+hr.Rear)
		copy(b[hr.Front:], payload)
		res := clientPack(D.sess.Packer, b, target, hr.Front, len(payload))
		out.Ops++
		if res.err != nil || res.panic != "" {
			return 0, false
		}
		dn.WriteToUDPAddrPort(b[res.start:res.start+res.len], relayAddr)
		return res.len, true
	}

	var (
		natAddr netip.AddrPort
		upUnp   zerocopy.ServerUnpacker
		rbuf    = make([]byte, 1<<17)
	)
	type arrival struct {
		n       int
		target  conn.Addr
		payload []byte
		err     string
	}
	// readUp reads the upstream socket until the marker seq shows up.
	readUp := func(seq int) (got []arrival, ok bool) {
		for {
			up.SetReadDeadline(time.Now().Add(liveWait))
			n, from, err := up.ReadFromUDPAddrPort(rbuf)
			if err != nil {
				return got, false
			}
			from = netip.AddrPortFrom(from.Addr().Unmap(), from.Port())
			natAddr = from
			a := arrival{n: n}
			if C.Kind == kDirect {
				a.target, a.payload = fixedTarget, append([]byte(nil), rbuf[:n]...)
			} else {
				pkt := rbuf[:n]
				if C.EIH > 1 {
					var perr error
					if pkt, perr = peel(C, pkt); perr != nil {
						a.err = perr.Error()
					}
				}
				if a.err == "" {
					pb := canaryBuf(scratchB, len(pkt))
					copy(pb, pkt)
					ur := serverUnpack(U, pb, from, 0, len(pkt))
					out.Ops += int64(ur.ops)
					if ur.err != nil || ur.panic != "" {
						a.err = fmt.Sprintf("%v %s", ur.err, ur.panic)
					} else {
						upUnp = ur.unp
						a.target, a.payload = ur.target, append([]byte(nil), pb[ur.ps:ur.ps+ur.pl]...)
					}
				}
			}
			if a.err == "" && isMarker(a.payload, seq) {
				return got, true
			}
			got = append(got, a)
		}
	}

	seq := 0
	akinds := []akind{{"ip4", 0, 0}, {"ip6", 0, 0}, {"dom", 255, 0}}
	if S.Kind == kDirect || C.Kind == kDirect {
		akinds = []akind{{"fixed", 0, 0}} // the target is the tunnel address / the upstream socket
	}
	// ---- uplink
	for _, ak := range akinds {
		for _, port := range []uint16{53, 65535} {
			target := fixedTarget
			alen := 7
			if ak.K != "fixed" {
				target, alen = ak.connAddr(port), ak.wireLen()
			} else if port != 53 {
				continue
			}
			dnf, dnr := refC2S(S, alen)
			cnf, cnr := refC2S(C, alen)
			maxD := sMax - dnf - dnr
			if S.Kind == kDirect {
				maxD = recvUp
			}
			for _, pl := range edgeLens(maxD, cMax-cnf-cnr) {
				if pl > maxD+2 {
					continue
				}
				seq++
				out.Cases++
				l.cs = fmt.Sprintf("uplink target=%s port=%d payloadLen=%d", ak, target.Port(), pl)
				n, sent := sendDown(target, payloadRef[:pl])
				if !sent {
					out.Outcomes["ingress-not-sendable"]++
					continue
				}
				if _, ok := sendDown(fixedTarget, markerPayload(seq)); !ok {
					harness.Fatal("cannot send a marker packet")
				}
				got, ok := readUp(seq)
				if !ok {
					out.Capped = fmt.Sprintf("%s: the marker after {%s} did not reach the upstream server within %s", inst, l.cs, liveWait)
					return out
				}
				expect := n <= recvUp && cnf+pl+cnr <= cMax
				switch {
				case len(got) > 1:
					l.violate("live-uplink/packet-duplicated", fmt.Sprintf("%d packets arrived for one", len(got)))
				case len(got) == 0 && expect:
					l.violate("live-uplink/fitting-payload-dropped/client="+C.Family, fmt.Sprintf("a %d-byte payload (packet %d <= receive size %d, forwarded packet %d <= limit %d) did not reach the upstream server", pl, n, recvUp, cnf+pl+cnr, cMax))
				case len(got) == 0:
					out.Outcomes["dropped-too-big"]++
				case got[0].err != "":
					l.violate("live-uplink/forwarded-packet-invalid/client="+C.Family, "the upstream server rejected the forwarded packet: "+got[0].err)
				case !expect:
					l.violate("live-uplink/oversize-forwarded/client="+C.Family, fmt.Sprintf("a payload of %d bytes was forwarded as a %d-byte packet; limit %d", pl, got[0].n, cMax))
				case got[0].n > cMax:
					l.violate("live-uplink/packet-exceeds-mtu/client="+C.Family, fmt.Sprintf("forwarded packet of %d bytes > limit %d", got[0].n, cMax))
				case !bytes.Equal(got[0].payload, payloadRef[:pl]) || !sameConnAddr(target, got[0].target):
					l.violate("live-uplink/payload-or-address-changed/client="+C.Family, fmt.Sprintf("sent %d bytes to %s, the upstream server saw %d bytes to %s", pl, target, len(got[0].payload), got[0].target))
				default:
					out.Outcomes["relayed-ok"]++
				}
			}
		}
	}
	if !natAddr.IsValid() {
		harness.Fatal("%s: no packet ever reached the upstream server", inst)
	}

	// ---- downlink
	var upPacker zerocopy.ServerPacker
	if C.Kind != kDirect {
		upPacker = U.packerFor(upUnp)
	}
	sendUp := func(src netip.AddrPort, payload []byte) (n int, ok bool) {
		if C.Kind == kDirect {
			up.WriteToUDPAddrPort(payload, natAddr)
			return len(payload), true
		}
		hr := upPacker.ServerPackerInfo().Headroom
		b := canaryBuf(scratchC, hr.Front+len(payload)+hr.Rear)
		copy(b[hr.Front:], payload)
		res := serverPack(upPacker, b, src, hr.Front, len(payload), cMax)
		out.Ops++
		if res.err != nil || res.panic != "" {
			return 0, false
		}
		up.WriteToUDPAddrPort(b[res.start:res.start+res.len], natAddr)
		return res.len, true
	}
	type darrival struct {
		n       int
		src     netip.AddrPort
		payload []byte
		err     string
	}
	readDown := func(seq int) (got []darrival, ok bool) {
		for {
			dn.SetReadDeadline(time.Now().Add(liveWait))
			n, _, err := dn.ReadFromUDPAddrPort(rbuf)
			if err != nil {
				return got, false
			}
			a := darrival{n: n}
			if S.Kind == kDirect {
				a.payload = append([]byte(nil), rbuf[:n]...)
			} else {
				pb := canaryBuf(scratchB, n)
				copy(pb, rbuf[:n])
				ur := clientUnpack(D.sess.Unpacker, pb, relayAddr, 0, n)
				out.Ops++
				if ur.err != nil || ur.panic != "" {
					a.err = fmt.Sprintf("%v %s", ur.err, ur.panic)
				} else {
					a.src, a.payload = ur.src, append([]byte(nil), pb[ur.ps:ur.ps+ur.pl]...)
				}
			}
			if a.err == "" && isMarker(a.payload, seq) {
				return got, true
			}
			got = append(got, a)
		}
	}
	recvDown := cMax // the relay's receive size on its outgoing socket: the client session's MaxPacketSize
	markerSrc := netip.AddrPortFrom(netip.AddrFrom4([4]byte{192, 0, 2, 77}), 53)
	skinds := []akind{{"ip4", 0, 0}, {"ip6", 0, 0}}
	if C.Kind == kDirect {
		skinds = []akind{{"fixed", 0, 0}} // the source is the upstream socket itself
	}
	for _, ak := range skinds {
		for _, port := range []uint16{53, 65535} {
			src := upAddr
			alen := 7
			if ak.K != "fixed" {
				src, alen = netip.AddrPortFrom(ak.ip(), port), ak.wireLen()
			} else if port != 53 {
				continue
			}
			unf, unr := refS2C(C, alen)
			snf, snr := refS2C(S, alen)
			maxU := cMax - unf - unr
			for _, pl := range edgeLens(maxU, sMax-snf-snr) {
				if pl > maxU+2 {
					continue
				}
				seq++
				out.Cases++
				l.cs = fmt.Sprintf("downlink source=%s port=%d payloadLen=%d", ak, src.Port(), pl)
				n, sent := sendUp(src, payloadRef[:pl])
				if !sent {
					out.Outcomes["ingress-not-sendable"]++
					continue
				}
				if _, ok := sendUp(markerSrc, markerPayload(seq)); !ok {
					harness.Fatal("cannot send a marker reply")
				}
				got, ok := readDown(seq)
				if !ok {
					out.Capped = fmt.Sprintf("%s: the marker after {%s} did not reach the downstream client within %s", inst, l.cs, liveWait)
					return out
				}
				expect := n <= recvDown && snf+pl+snr <= sMax
				switch {
				case len(got) > 1:
					l.violate("live-downlink/packet-duplicated", fmt.Sprintf("%d packets arrived for one", len(got)))
				case len(got) == 0 && expect:
					l.violate("live-downlink/fitting-payload-dropped/server="+S.Family, fmt.Sprintf("a %d-byte payload (packet %d <= receive size %d, forwarded packet %d <= limit %d) did not reach the downstream client", pl, n, recvDown, snf+pl+snr, sMax))
				case len(got) == 0:
					out.Outcomes["dropped-too-big"]++
				case got[0].err != "":
					l.violate("live-downlink/forwarded-packet-invalid/server="+S.Family, "the downstream client rejected the forwarded packet: "+got[0].err)
				case !expect:
					l.violate("live-downlink/oversize-forwarded/server="+S.Family, fmt.Sprintf("a payload of %d bytes was forwarded as a %d-byte packet; limit %d", pl, got[0].n, sMax))
				case got[0].n > sMax:
					l.violate("live-downlink/packet-exceeds-mtu/server="+S.Family, fmt.Sprintf("forwarded packet of %d bytes > limit %d", got[0].n, sMax))
				case !bytes.Equal(got[0].payload, payloadRef[:pl]) || (S.Kind != kDirect && !sameAddrPort(src, got[0].src)):
					l.violate("live-downlink/payload-or-address-changed/server="+S.Family, fmt.Sprintf("sent %d bytes from %s, the downstream client saw %d bytes from %s", pl, src, len(got[0].payload), got[0].src))
				default:
					out.Outcomes["relayed-ok"]++
				}
			}
		}
	}
	_ = dnAddr
	stop()
	return out
}

func installLiveHooks() {
	// relay goroutines call these concurrently: constant, stateless answers only
	vsched.ClearClock()
	vcrand.Deterministic = false
	vrand.Hook = func(n int) int { return n - 1 } // pad to the maximum whenever the policy pads
}

func liveWorkerMain(tier string, only *liveInst, from int) {
	installLiveHooks()
	enc := json.NewEncoder(os.Stdout)
	insts := liveInstances(tier)
	if only != nil {
		insts = []liveInst{*only}
	} else {
		insts = insts[min(from, len(insts)):]
	}
	for _, inst := range insts {
		enc.Encode(&liveOut{Kind: "begin", Inst: inst})
		enc.Encode(runLive(tier, inst))
	}
}

// runLivePart runs part C in a subprocess (a panic in a relay goroutine takes
// the process down; that is an observation about the case that was running).
type liveCrash struct {
	inst   liveInst
	stderr string
}

// runLiveAll runs every instance; after a crash it goes on behind the crashed instance.
func runLiveAll(tier string) (outs []*liveOut, crashes []liveCrash) {
	total := len(liveInstances(tier))
	from := 0
	for from < total && len(crashes) < 8 {
		o, crashed, st := runLivePart(tier, nil, from)
		outs = append(outs, o...)
		if crashed == nil {
			break
		}
		crashes = append(crashes, liveCrash{*crashed, st})
		from += len(o) + 1
	}
	return
}

func runLivePart(tier string, only *liveInst, from int) (outs []*liveOut, crashed *liveInst, stderrTail string) {
	args := []string{"--worker", "c05live", "--param", tier, "--bound", fmt.Sprint(from)}
	if only != nil {
		b, _ := json.Marshal(only)
		args = append(args, "--shard", string(b))
	}
	cmd := exec.Command(os.Args[0], args...)
	var errb bytes.Buffer
	cmd.Stderr = &errb
	so, err := cmd.StdoutPipe()
	if err != nil {
		harness.Fatal("live worker: %v", err)
	}
	if err := cmd.Start(); err != nil {
		harness.Fatal("live worker: %v", err)
	}
	var begun *liveInst
	sc := bufio.NewScanner(so)
	sc.Buffer(make([]byte, 1<<20), 1<<24)
	for sc.Scan() {
		var o liveOut
		if json.Unmarshal(sc.Bytes(), &o) != nil {
			continue
		}
		if o.Kind == "begin" {
			i := o.Inst
			begun = &i
			continue
		}
		begun = nil
		outs = append(outs, &o)
	}
	werr := cmd.Wait()
	if werr != nil {
		st := errb.String()
		if strings.Contains(st, "HARNESS-ERROR") || begun == nil {
			harness.Fatal("live worker failed: %v\n%s", werr, tailOf(st, 3000))
		}
		return outs, begun, st
	}
	return outs, nil, ""
}

func panicLine(stderr string) string {
	for _, ln := range strings.Split(stderr, "\n") {
		if strings.HasPrefix(ln, "panic:") || strings.HasPrefix(ln, "fatal error:") {
			return ln
		}
	}
	return tailOf(stderr, 300)
}

// crashFrames keeps the frames of the repository from a goroutine dump.
func crashFrames(stderr string) string {
	var out []string
	for _, ln := range strings.Split(stderr, "\n") {
		if strings.Contains(ln, "shadowsocks-go/") && strings.Contains(ln, "(") && !strings.HasPrefix(strings.TrimSpace(ln), "/") && len(out) < 4 {
			f := strings.TrimSpace(ln)
			if j := strings.LastIndex(f, "("); j > 0 {
				f = f[:j]
			}
			out = append(out, strings.TrimPrefix(f, "github.com/database64128/shadowsocks-go/"))
		}
	}
	return strings.Join(out, " <- ")
}

// crashSignature names the crash by the innermost function of the repository.
func crashSignature(stderr string) string {
	for _, ln := range strings.Split(stderr, "\n") {
		if i := strings.Index(ln, "shadowsocks-go/"); i >= 0 && strings.Contains(ln, "(") && !strings.HasPrefix(strings.TrimSpace(ln), "/") {
			f := ln[i+len("shadowsocks-go/"):]
			if j := strings.LastIndex(f, "("); j > 0 {
				f = f[:j]
			}
			return "live-relay/process-crashed/" + f
		}
	}
	return "live-relay/process-crashed"
}
