// C08: users are identified by key; the accepted key set tracks credential
// changes.  A real cred.ManagedServer is wired to a real SS2022 TCP server and
// UDP server.  Part 1: every operation history to a stated depth (each run on
// the controlled scheduler so the 5 s save debounce runs on the virtual
// clock), oracle at every quiescent state.  Part 2: all interleavings
// (deviation-bounded) of two or three concurrent operations.
package main

import (
	"bytes"
	"context"
	"encoding/base64"
	"encoding/json"
	"fmt"
	"io"
	"net"
	"net/netip"
	"os"
	"os/exec"
	"path/filepath"
	"sort"
	"strconv"
	"strings"
	"sync"
	"time"

	"github.com/database64128/shadowsocks-go/conn"
	"github.com/database64128/shadowsocks-go/cred"
	"github.com/database64128/shadowsocks-go/netio"
	"github.com/database64128/shadowsocks-go/ss2022"
	"go.uber.org/zap"

	"verif/harness"
	vcontext "verif/shim/vcontext"
	"verif/shim/vrand"
	"verif/vsched"
)

var pskLen = 16

func keyN(i int) []byte {
	b := make([]byte, pskLen)
	for j := range b {
		b[j] = byte(i*37 + j)
	}
	return b
}

var users = []string{"u1", "u2"}

const nKeys = 3

type bufConn struct{ r *bytes.Reader }

func (c *bufConn) Read(b []byte) (int, error) {
	if c.r.Len() == 0 {
		return 0, io.EOF
	}
	return c.r.Read(b)
}
func (c *bufConn) Write(b []byte) (int, error)        { return len(b), nil }
func (c *bufConn) Close() error                       { return nil }
func (c *bufConn) CloseWrite() error                  { return nil }
func (c *bufConn) LocalAddr() net.Addr                { return nil }
func (c *bufConn) RemoteAddr() net.Addr               { return nil }
func (c *bufConn) SetDeadline(t time.Time) error      { return nil }
func (c *bufConn) SetReadDeadline(t time.Time) error  { return nil }
func (c *bufConn) SetWriteDeadline(t time.Time) error { return nil }

type capClient struct{ got []byte }

func (c *capClient) DialStream(ctx context.Context, addr conn.Addr, payload []byte) (netio.Conn, error) {
	c.got = append([]byte(nil), payload...)
	return &bufConn{r: bytes.NewReader(nil)}, nil
}
func (c *capClient) NewStreamDialer() (netio.StreamDialer, netio.StreamDialerInfo) {
	return c, netio.StreamDialerInfo{}
}

var target = conn.AddrFromIPPort(netip.MustParseAddrPort("127.0.0.1:80"))

type env struct {
	ms   *cred.ManagedServer
	tcp  *ss2022.StreamServer
	udp  *ss2022.UDPServer
	path string
	ipsk []byte
	mode string // both tcp udp
}

func must[T any](v T, err error) T {
	if err != nil {
		panic(err)
	}
	return v
}

func fileDoc(m map[string][]byte) []byte {
	o := map[string]string{}
	for u, k := range m {
		o[u] = base64.StdEncoding.EncodeToString(k)
	}
	b, _ := json.MarshalIndent(o, "", "    ")
	return append(b, '\n')
}

func newEnv(path, mode string) *env {
	e := &env{path: path, mode: mode, ipsk: keyN(9)}
	os.WriteFile(path, fileDoc(map[string][]byte{"u1": keyN(0)}), 0o644)
	os.Remove(path + ".tmp")
	var tcs, ucs *ss2022.CredStore
	if mode != "udp" {
		e.tcp = (&ss2022.StreamServerConfig{IdentityCipherConfig: must(ss2022.NewServerIdentityCipherConfig(e.ipsk, mode != "tcp"))}).NewStreamServer()
		tcs = &e.tcp.CredStore
	}
	if mode != "tcp" {
		e.udp = ss2022.NewUDPServer(0, ss2022.UserCipherConfig{}, must(ss2022.NewServerIdentityCipherConfig(e.ipsk, true)), ss2022.NoPadding)
		ucs = &e.udp.CredStore
	}
	e.ms = must(cred.NewManager(zap.NewNop()).RegisterServer("s", path, pskLen, tcs, ucs))
	return e
}

// probe reports whether key k is accepted for a new TCP connection / UDP
// session through a real handshake, and which user it is attributed to.
func (e *env) probe(k []byte) (acc [2]bool, who [2]string) {
	ccc := must(ss2022.NewClientCipherConfig(k, [][]byte{e.ipsk}, e.mode != "tcp"))
	if e.tcp != nil {
		cc := &capClient{}
		cl := (&ss2022.StreamClientConfig{Name: "c", InnerClient: cc, Addr: target, CipherConfig: ccc}).NewStreamClient()
		if _, err := cl.DialStream(context.Background(), target, []byte("x")); err != nil {
			panic(err)
		}
		req, err := e.tcp.HandleStream(&bufConn{r: bytes.NewReader(cc.got)}, zap.NewNop())
		if err == nil {
			acc[0], who[0] = true, req.Username
		}
	}
	if e.udp != nil {
		uc := ss2022.NewUDPClient("c", "udp", target, 1500, conn.ListenConfig{}, 0, ccc, ss2022.NoPadding)
		_, sess, err := uc.NewSession(context.Background())
		if err != nil {
			panic(err)
		}
		buf := make([]byte, 2048)
		front := uc.Info().PackerHeadroom.Front
		copy(buf[front:], "payload")
		_, ps, pl, err := sess.Packer.PackInPlace(context.Background(), buf, target, front, 7)
		if err != nil {
			panic(err)
		}
		pkt := buf[ps : ps+pl]
		csid, err := e.udp.SessionInfo(pkt)
		if err == nil {
			up, name, err := e.udp.NewUnpacker(pkt, csid)
			if err == nil {
				if _, _, _, err = up.UnpackInPlace(buf, netip.MustParseAddrPort("127.0.0.1:1"), ps, pl); err == nil {
					acc[1], who[1] = true, name
				}
			}
		}
	}
	return
}

type opT struct {
	Kind string `json:"kind"` // add update delete edit reload
	User int    `json:"user"`
	Key  int    `json:"key"`
}

func (o opT) String() string {
	switch o.Kind {
	case "add", "update":
		return fmt.Sprintf("%s(%s,K%d)", o.Kind, users[o.User], o.Key)
	case "delete":
		return fmt.Sprintf("delete(%s)", users[o.User])
	case "edit":
		return fmt.Sprintf("editFileAndReload(%s)", editNames[o.Key])
	}
	return "reload"
}

var editNames = []string{"A{u1:K0}", "B{u1:K1,u2:K0}", "dup{u1:K0,u2:K0}", "malformed"}

func editDoc(i int) []byte {
	switch i {
	case 0:
		return fileDoc(map[string][]byte{"u1": keyN(0)})
	case 1:
		return fileDoc(map[string][]byte{"u1": keyN(1), "u2": keyN(0)})
	case 2:
		return fileDoc(map[string][]byte{"u1": keyN(0), "u2": keyN(0)})
	}
	return []byte(`{"u1": "AAAA`)
}

func alphabet() []opT {
	var out []opT
	for u := range users {
		for k := 0; k < nKeys; k++ {
			out = append(out, opT{"add", u, k})
		}
	}
	for u := range users {
		for k := 0; k < nKeys; k++ {
			out = append(out, opT{"update", u, k})
		}
	}
	for u := range users {
		out = append(out, opT{"delete", u, 0})
	}
	for i := range editNames {
		out = append(out, opT{"edit", 0, i})
	}
	out = append(out, opT{"reload", 0, 0})
	return out
}

// apply performs the operation; returns whether the file is now an externally
// written document that failed to load.
func (e *env) apply(o opT) (externalBad bool, err error) {
	switch o.Kind {
	case "add":
		err = e.ms.AddCredential(users[o.User], keyN(o.Key))
	case "update":
		err = e.ms.UpdateCredential(users[o.User], keyN(o.Key))
	case "delete":
		err = e.ms.DeleteCredential(users[o.User])
	case "edit":
		os.WriteFile(e.path, editDoc(o.Key), 0o644)
		err = e.ms.LoadFromFile()
		return err != nil, err
	case "reload":
		err = e.ms.LoadFromFile()
		return err != nil, err
	}
	return false, err
}

// oracle compares the three views at a quiescent state.
func (e *env) oracle(fileExternalBad bool) (sig, msg string) {
	listed := map[string][]byte{}
	for _, uc := range e.ms.Credentials() {
		listed[uc.Name] = uc.UPSK
	}
	owners := func(k []byte) []string {
		var o []string
		for u, lk := range listed {
			if bytes.Equal(lk, k) {
				o = append(o, u)
			}
		}
		sort.Strings(o)
		return o
	}
	ls := listedString(listed)
	for ki := 0; ki < nKeys; ki++ {
		k := keyN(ki)
		acc, who := e.probe(k)
		ow := owners(k)
		for t, tn := range []string{"TCP", "UDP"} {
			if (t == 0 && e.tcp == nil) || (t == 1 && e.udp == nil) {
				continue
			}
			switch {
			case acc[t] && len(ow) == 0:
				return "unlisted-key-accepted", fmt.Sprintf("%s accepts key K%d (as user %q) although the API lists %s", tn, ki, who[t], ls)
			case !acc[t] && len(ow) > 0:
				return "listed-key-refused", fmt.Sprintf("%s refuses key K%d although the API lists it for %v (listed: %s)", tn, ki, ow, ls)
			case acc[t] && len(ow) > 1:
				return "one-key-listed-for-two-users", fmt.Sprintf("key K%d is listed for users %v; %s attributes the session to %q and cannot attribute it to the other", ki, ow, tn, who[t])
			case acc[t] && who[t] != ow[0]:
				return "session-attributed-to-wrong-user", fmt.Sprintf("%s attributes key K%d to %q, the API lists it for %q", tn, ki, who[t], ow[0])
			}
		}
	}
	if fileExternalBad {
		return "", ""
	}
	b, err := os.ReadFile(e.path)
	if err != nil {
		return "store-file-unreadable", err.Error()
	}
	var fm map[string][]byte
	if err := json.Unmarshal(b, &fm); err != nil {
		return "store-file-not-a-document", fmt.Sprintf("store file is not a complete document: %v", err)
	}
	if listedString(fm) != ls {
		return "store-file-differs-from-listed-set", fmt.Sprintf("store file holds %s, the API lists %s", listedString(fm), ls)
	}
	// a restart must load the same set
	ms2, err := cred.NewManager(zap.NewNop()).RegisterServer("s", e.path, pskLen, nil, nil)
	if err != nil {
		return "saved-store-refused-at-restart", fmt.Sprintf("the saved store (%s) is refused at restart: %v", ls, err)
	}
	l2 := map[string][]byte{}
	for _, uc := range ms2.Credentials() {
		l2[uc.Name] = uc.UPSK
	}
	if listedString(l2) != ls {
		return "restart-loads-different-set", fmt.Sprintf("restart loads %s, the API listed %s", listedString(l2), ls)
	}
	return "", ""
}

func listedString(m map[string][]byte) string {
	var p []string
	for u, k := range m {
		ki := "?"
		for i := 0; i < nKeys; i++ {
			if bytes.Equal(k, keyN(i)) {
				ki = strconv.Itoa(i)
			}
		}
		p = append(p, u+":K"+ki)
	}
	sort.Strings(p)
	return "{" + strings.Join(p, ",") + "}"
}

var workDir string

// runHistory runs one history under the scheduler's default schedule.
func runHistory(mode string, hist []opT) (sig, msg string, steps int) {
	path := filepath.Join(workDir, "h.json")
	sc := func() (func(), func(*vsched.Exec) (string, string)) {
		body := func() {
			e := newEnv(path, mode)
			ctx, cancel := vcontext.WithCancel(vcontext.Background())
			e.ms.Start(ctx)
			bad := false
			for i, o := range hist {
				b, _ := e.apply(o)
				if o.Kind == "edit" || o.Kind == "reload" {
					bad = b
				} else {
					// a successful API change is followed by a save that replaces an externally bad file
				}
				settle()
				if !bad || o.Kind == "add" || o.Kind == "update" || o.Kind == "delete" {
					// after an API change that succeeded the file has been rewritten; detect by reading
				}
				steps++
				fb := bad && !savedSince(e, hist[:i+1])
				if s, m := e.oracle(fb); s != "" {
					sig, msg = s, fmt.Sprintf("history %v: %s", hist[:i+1], m)
					break
				}
			}
			cancel()
			e.ms.Stop()
		}
		return body, func(ex *vsched.Exec) (string, string) {
			if len(ex.Panics) > 0 {
				return "", "panic: " + ex.Panics[0]
			}
			if ex.Deadlock || ex.HorizonHit {
				return "", "deadlock: " + strings.Join(ex.Blocked, " ")
			}
			return "", ""
		}
	}
	_, _, v := vsched.RunOnce(sc, nil, nil, 0, false)
	if v != "" && sig == "" {
		sig, msg = "history-"+strings.SplitN(v, ":", 2)[0], fmt.Sprintf("history %v: %s", hist, v)
	}
	return
}

// savedSince: after an externally bad file, has a later successful API change
// (which rewrites the file) happened?  Determined from the file itself: if it
// parses, it has been rewritten.
func savedSince(e *env, _ []opT) bool {
	b, err := os.ReadFile(e.path)
	if err != nil {
		return false
	}
	var fm map[string][]byte
	return json.Unmarshal(b, &fm) == nil && !bytes.Equal(b, editDoc(2))
}

type shardOut struct {
	Histories, Steps int64
	Viol             map[string]hv
}
type hv struct {
	Msg  string
	Mode string
	Hist []opT
}

func runShard(mode string, depth, shard, n int) *shardOut {
	out := &shardOut{Viol: map[string]hv{}}
	al := alphabet()
	var hist []opT
	var rec func()
	rec = func() {
		if len(hist) > 0 {
			sig, msg, st := runHistory(mode, hist)
			out.Histories++
			out.Steps += int64(st)
			if sig != "" {
				if _, ok := out.Viol[sig]; !ok {
					out.Viol[sig] = hv{msg, mode, append([]opT(nil), hist...)}
				}
				return
			}
		}
		if len(hist) == depth {
			return
		}
		for i, a := range al {
			if len(hist) == 0 && i%n != shard {
				continue
			}
			hist = append(hist, a)
			rec()
			hist = hist[:len(hist)-1]
		}
	}
	rec()
	return out
}

// settle lets the save debounce run to completion.  Each round is longer than
// the 5 s cooldown; starving the saver through a whole round costs the
// explorer one deviation, so bound+2 rounds always reach quiescence.
func settle() {
	for i := 0; i < 5; i++ {
		vsched.Sleep(6 * time.Second)
		vsched.WaitIdle()
	}
}

// --- concurrent operations -----------------------------------------------------

var concSets = map[string][][]opT{
	"rotate-rotate":   {{{"update", 0, 1}}, {{"update", 0, 2}}},
	"add-delete":      {{{"add", 1, 1}}, {{"delete", 1, 0}}},
	"delete-update":   {{{"delete", 0, 0}}, {{"update", 0, 1}}},
	"reload-add":      {{{"edit", 0, 1}}, {{"add", 1, 2}}},
	"reload-update":   {{{"edit", 0, 1}}, {{"update", 0, 2}}},
	"add-add-samekey": {{{"add", 1, 1}}, {{"update", 0, 1}}},
	"three-ops":       {{{"add", 1, 1}}, {{"update", 0, 2}}, {{"delete", 1, 0}}},
	"two-each":        {{{"add", 1, 1}, {"update", 1, 2}}, {{"update", 0, 2}, {"delete", 0, 0}}},
}

func concScenario(param string) vsched.Scenario {
	mode := "both"
	name := param
	if i := strings.IndexByte(param, '@'); i >= 0 {
		name, mode = param[:i], param[i+1:]
	}
	set := concSets[name]
	return func() (func(), func(*vsched.Exec) (string, string)) {
		var sig, msg string
		done := false
		body := func() {
			path := filepath.Join(workDir, "c-"+param+".json")
			e := newEnv(path, mode)
			ctx, cancel := vcontext.WithCancel(vcontext.Background())
			e.ms.Start(ctx)
			var g vsched.Group
			bad := false
			for _, ops := range set {
				g.Go(func() {
					for _, o := range ops {
						b, _ := e.apply(o)
						if o.Kind == "edit" && b {
							bad = true
						}
					}
				})
			}
			g.Wait()
			settle()
			fb := bad && !savedSince(e, nil)
			// an external edit racing with API saves may be overwritten or not; the file
			// view is compared only when no external edit is part of the scenario
			for _, ops := range set {
				for _, o := range ops {
					if o.Kind == "edit" {
						fb = true
					}
				}
			}
			sig, msg = e.oracle(fb)
			cancel()
			e.ms.Stop()
			done = true
		}
		return body, func(ex *vsched.Exec) (string, string) {
			obs := fmt.Sprintf("done=%v sig=%s", done, sig)
			if len(ex.Panics) > 0 {
				return obs, "panic: " + ex.Panics[0]
			}
			if ex.Deadlock || ex.HorizonHit {
				return obs, "deadlock: " + strings.Join(ex.Blocked, " ")
			}
			if sig != "" {
				return obs + " " + msg, sig
			}
			return obs, ""
		}
	}
}

func main() {
	vrand.Hook = func(n int) int { return 0 }
	harness.Register("concurrent", concScenario)
	workDir = harness.TempDir("c08")
	defer os.RemoveAll(workDir)
	if s := os.Getenv("C08_SHARD"); s != "" {
		var mode string
		var depth, i, n int
		fmt.Sscanf(s, "%s %d %d %d %d", &mode, &pskLen, &depth, &i, &n)
		json.NewEncoder(os.Stdout).Encode(runShard(mode, depth, i, n))
		os.RemoveAll(workDir)
		return
	}
	harness.WorkerMain()
	c := harness.Start("C08")
	if c.Replay != "" {
		r, err := harness.ReplayFile(c.Replay)
		if err != nil {
			harness.Fatal("%v", err)
		}
		code := 0
		if r["kind"] == "history" {
			var h hv
			b, _ := json.Marshal(r["history"])
			json.Unmarshal(b, &h)
			sig, msg, _ := runHistory(h.Mode, h.Hist)
			if sig != "" {
				fmt.Printf("VIOLATION property=C08 replay=%s\n  %s\n", c.Replay, msg)
				code = 1
			} else {
				fmt.Println("no violation on replay")
			}
		} else if harness.ReplayExploration(c) {
			code = 1
		}
		os.RemoveAll(workDir)
		os.Exit(code)
	}
	c.Rule = "history part: one case = one operation history over {add,update}x{u1,u2}x{K0,K1,K2}, delete{u1,u2}, editFileAndReload{A,B,duplicate-key,malformed}, reload, from the initial store {u1:K0}; after every operation the save debounce is let run (virtual 6 s) and the three views are compared: keys accepted by a real TCP handshake and a real UDP first packet (with attribution), keys listed by the API, keys in the store file (and loadable at restart). schedule part: 2-3 threads x 1-2 operations, same oracle at quiescence."
	c.Assumptions = []string{"sequential consistency; scheduling points at lock/atomic/channel operations only (plain memory accesses between two synchronisation operations are not interleaved)", "file view is not compared while the file on disk is an externally written document that failed to load"}
	depth := harness.Pick(c, 3, 4)
	modes := []string{"both"}
	sizes := []int{16}
	if c.Thorough() {
		modes = []string{"both", "tcp", "udp"}
		sizes = []int{16, 32}
	}
	n := harness.Workers()
	for _, mode := range modes {
		for _, sz := range sizes {
			if sz == 32 && mode != "both" {
				continue
			}
			outs := make([]*shardOut, n)
			var wg sync.WaitGroup
			for i := 0; i < n; i++ {
				wg.Add(1)
				go func(i int) {
					defer wg.Done()
					cmd := exec.Command(os.Args[0])
					cmd.Env = append(os.Environ(), fmt.Sprintf("C08_SHARD=%s %d %d %d %d", mode, sz, depth, i, n))
					cmd.Stderr = os.Stderr
					b, err := cmd.Output()
					if err != nil {
						harness.Fatal("history shard %d failed: %v\n%s", i, err, b)
					}
					var o shardOut
					if err := json.Unmarshal(b, &o); err != nil {
						harness.Fatal("history shard %d: %v", i, err)
					}
					outs[i] = &o
				}(i)
			}
			wg.Wait()
			var hs, steps int64
			for _, o := range outs {
				hs += o.Histories
				steps += o.Steps
				for sig, v := range o.Viol {
					c.Violation(sig, v.Msg, map[string]any{"kind": "history", "history": v})
				}
			}
			c.Count(hs, steps, steps*int64(nKeys)*2)
			for i := int64(0); i < hs; i++ {
				c.Distinct(fmt.Sprintf("%s/%d/h%d", mode, sz, i), true)
			}
			c.Part(fmt.Sprintf("histories(%s,psk%d)", mode, sz), map[string]any{"depth": depth, "alphabet_size": len(alphabet()), "histories": hs, "quiescent_states_checked": steps})
		}
	}
	c.Sample(map[string]any{"history": []string{"add(u2,K0)", "delete(u1)"}, "meaning": "u2 gets the key u1 already owns; deleting u1 must not disable u2"})
	var params []string
	for k := range concSets {
		params = append(params, k)
	}
	sort.Strings(params)
	if c.Thorough() {
		for _, k := range []string{"rotate-rotate", "add-delete", "reload-add"} {
			params = append(params, k+"@tcp", k+"@udp")
		}
	}
	// the three-thread and two-operations-per-thread scenarios get one deviation less
	var light, heavy []string
	for _, p := range params {
		if strings.HasPrefix(p, "three-ops") || strings.HasPrefix(p, "two-each") {
			heavy = append(heavy, p)
		} else {
			light = append(light, p)
		}
	}
	results := harness.ExploreBatch("concurrent", light, harness.Pick(c, 2, 3), harness.Pick(c, 90*time.Second, 8*time.Minute), false)
	results = append(results, harness.ExploreBatch("concurrent", heavy, harness.Pick(c, 1, 2), harness.Pick(c, 90*time.Second, 8*time.Minute), false)...)
	for _, r := range results {
		c.Sample(map[string]any{"scenario": r.Param, "threads": fmt.Sprint(concSets[strings.Split(r.Param, "@")[0]]), "executions": r.Stats.Execs, "observations": len(r.Stats.Observations)})
		c.AddExploration("concurrent", r.Param, r.Stats, harness.Confirm(concScenario(r.Param)))
	}
	os.RemoveAll(workDir)
	c.Finish()
}
