// C15: the in-memory pipe is a faithful duplex stream with half-close and
// deadlines.  Exhaustive exploration (deviation-bounded) of all interleavings
// of writers, a reader, a disruptor and an optional reverse transfer over the
// real netio.PipeConn, rewritten onto the controlled scheduler.
package main

import (
	"errors"
	"fmt"
	"io"
	"os"
	"strconv"
	"strings"
	"time"

	"github.com/database64128/shadowsocks-go/netio"

	"verif/harness"
	"verif/vsched"
)

type spec struct {
	writers []int  // write sizes, one writer thread each
	rbuf    int    // read buffer size; 0 = first read with empty buffer then size 2
	writeTo bool   // reader uses WriteTo
	dis     string // disruptor
	rev     bool   // reverse transfer that must be unaffected
}

var disruptors = []string{"none", "closeWriteEarly", "closeRead", "closeL", "closeR", "rdlPast", "rdlFuture", "rdlPastThenZero", "wdlPast", "wdlFuture", "rdlFutureNoWriter", "rdlPastNoWriter", "wdlFutureNoReader", "closeWriteNoWriter", "closeReadNoReader", "sdlPast", "sdlFuture", "crSdlPastNoReader", "crSdlFutureNoReader", "crSdlPastZeroThenRead", "sinkFail0", "sinkFail1"}

func (s spec) String() string {
	var w []string
	for _, n := range s.writers {
		w = append(w, strconv.Itoa(n))
	}
	return fmt.Sprintf("w=%s;rbuf=%d;wt=%v;dis=%s;rev=%v", strings.Join(w, ","), s.rbuf, s.writeTo, s.dis, s.rev)
}

func parseSpec(p string) spec {
	var s spec
	for _, kv := range strings.Split(p, ";") {
		k, v, _ := strings.Cut(kv, "=")
		switch k {
		case "w":
			if v != "" {
				for _, x := range strings.Split(v, ",") {
					n, _ := strconv.Atoi(x)
					s.writers = append(s.writers, n)
				}
			}
		case "rbuf":
			s.rbuf, _ = strconv.Atoi(v)
		case "wt":
			s.writeTo = v == "true"
		case "dis":
			s.dis = v
		case "rev":
			s.rev = v == "true"
		}
	}
	return s
}

type sink struct {
	b      []byte
	failAt int // when >= 0: accept at most this many bytes in total, then fail (short write + error)
}

var errSink = errors.New("destination failed")

func (s *sink) Write(p []byte) (int, error) {
	if s.failAt >= 0 && len(s.b)+len(p) > s.failAt {
		k := s.failAt - len(s.b)
		if k < 0 {
			k = 0
		}
		s.b = append(s.b, p[:k]...)
		return k, errSink
	}
	s.b = append(s.b, p...)
	return len(p), nil
}

func isTimeout(err error) bool { return errors.Is(err, os.ErrDeadlineExceeded) }

func scenario(param string) vsched.Scenario {
	sp := parseSpec(param)
	return func() (func(), func(*vsched.Exec) (string, string)) {
		type wres struct {
			n   int
			err error
		}
		var (
			wr        = make([]wres, len(sp.writers))
			got       []byte
			readErrs  []error
			revGot    []byte
			revN      int
			revWErr   error
			revRErr   error
			sawEOF    bool
			afterEOF  int
			sdlErr    error
			noWriter  = strings.HasSuffix(sp.dis, "NoWriter")
			noReader  = strings.HasSuffix(sp.dis, "NoReader")
			readerRan bool
		)
		body := func() {
			pl, pr := netio.NewPipe()
			var wwg, rwg, dwg vsched.Group
			if sp.dis == "crSdlPastZeroThenRead" {
				// an expired combined deadline on a read-closed end is cleared again before any
				// write is issued: the write direction must then work normally
				pl.CloseRead()
				pl.SetDeadline(time.Unix(1, 0))
				pl.SetDeadline(time.Time{})
			}
			if !noWriter {
				for i, n := range sp.writers {
					data := make([]byte, n)
					for j := range data {
						data[j] = byte((i+1)<<4 | j)
					}
					wwg.Go(func() {
						k, err := pl.Write(data)
						wr[i] = wres{k, err}
					})
				}
			}
			if !noReader {
				rwg.Go(func() {
					readerRan = true
					if sp.writeTo && strings.HasPrefix(sp.dis, "sinkFail") {
						// the destination of WriteTo fails while a peer Write is in flight; the reader
						// then closes its read side, which must fail the peer's pending and later writes
						sk := &sink{failAt: int(sp.dis[len(sp.dis)-1] - '0')}
						_, err := pr.WriteTo(sk)
						got = sk.b
						if err != nil {
							readErrs = append(readErrs, err)
						}
						pr.CloseRead()
						return
					}
					if sp.writeTo {
						sk := &sink{failAt: -1}
						_, err := pr.WriteTo(sk)
						for isTimeout(err) {
							readErrs = append(readErrs, err)
							pr.SetReadDeadline(time.Time{})
							_, err = pr.WriteTo(sk)
						}
						got = sk.b
						if err == nil {
							sawEOF = true
						} else {
							readErrs = append(readErrs, err)
						}
						return
					}
					first := true
					for iter := 0; iter < 64; iter++ {
						sz := sp.rbuf
						if sz == 0 {
							if first {
								sz = 0
							} else {
								sz = 2
							}
						}
						first = false
						buf := make([]byte, sz)
						n, err := pr.Read(buf)
						got = append(got, buf[:n]...)
						if err == io.EOF {
							sawEOF = true
							// a further read must still be EOF with no data
							n2, err2 := pr.Read(make([]byte, 4))
							if n2 != 0 || err2 != io.EOF {
								afterEOF = 1
							}
							return
						}
						if isTimeout(err) {
							readErrs = append(readErrs, err)
							pr.SetReadDeadline(time.Time{})
							continue
						}
						if err != nil {
							readErrs = append(readErrs, err)
							return
						}
					}
					readErrs = append(readErrs, errors.New("reader: too many reads"))
				})
			}
			if sp.rev {
				rwg.Go(func() {
					revN, revWErr = pr.Write([]byte{0xa1, 0xa2})
				})
				rwg.Go(func() {
					buf := make([]byte, 1)
					for len(revGot) < 2 {
						n, err := pl.Read(buf)
						revGot = append(revGot, buf[:n]...)
						if err != nil {
							revRErr = err
							return
						}
					}
				})
			}
			past := time.Unix(1, 0)
			future := vsched.Now().Add(time.Second)
			switch sp.dis {
			case "none", "sinkFail0", "sinkFail1":
			case "closeWriteEarly", "closeWriteNoWriter":
				dwg.Go(func() { pl.CloseWrite() })
			case "closeRead", "closeReadNoReader":
				dwg.Go(func() { pr.CloseRead() })
			case "closeL":
				dwg.Go(func() { pl.Close() })
			case "closeR":
				dwg.Go(func() { pr.Close() })
			case "rdlPast", "rdlPastNoWriter":
				dwg.Go(func() { sdlErr = pr.SetReadDeadline(past) })
			case "rdlFuture", "rdlFutureNoWriter":
				dwg.Go(func() { sdlErr = pr.SetReadDeadline(future) })
			case "rdlPastThenZero":
				dwg.Go(func() { sdlErr = pr.SetReadDeadline(past); pr.SetReadDeadline(time.Time{}) })
			case "wdlPast":
				dwg.Go(func() { sdlErr = pl.SetWriteDeadline(past) })
			case "wdlFuture", "wdlFutureNoReader":
				dwg.Go(func() { sdlErr = pl.SetWriteDeadline(future) })
			case "sdlPast":
				dwg.Go(func() { sdlErr = pl.SetDeadline(past) })
			case "sdlFuture":
				dwg.Go(func() { sdlErr = pl.SetDeadline(future) })
			case "crSdlPastNoReader":
				// the writing end has closed its own read side; the combined deadline must still bound its writes
				dwg.Go(func() { pl.CloseRead(); pl.SetDeadline(past) })
			case "crSdlFutureNoReader":
				dwg.Go(func() { pl.CloseRead(); pl.SetDeadline(future) })
			case "crSdlPastZeroThenRead":
				// done before the writers start, see above
			default:
				panic("unknown disruptor " + sp.dis)
			}
			wwg.Wait()
			dwg.Wait()
			if noReader {
				// writers ended by deadline/close; nothing more to do
				rwg.Wait()
				return
			}
			if noWriter && (sp.dis == "rdlFutureNoWriter" || sp.dis == "rdlPastNoWriter") {
				// reader must have been unblocked by the deadline at least once; then end the stream
				pl.CloseWrite()
				rwg.Wait()
				return
			}
			pl.CloseWrite()
			rwg.Wait()
		}
		check := func(e *vsched.Exec) (string, string) {
			var w []string
			for _, r := range wr {
				w = append(w, fmt.Sprintf("%d/%v", r.n, r.err))
			}
			obs := fmt.Sprintf("got=%x w=%v rerr=%v eof=%v rev=%x/%d/%v/%v sdl=%v", got, w, readErrs, sawEOF, revGot, revN, revWErr, revRErr, sdlErr)
			if len(e.Panics) > 0 {
				return obs, "panic: " + firstLine(e.Panics[0])
			}
			if e.Deadlock {
				return obs, "deadlock: " + strings.Join(e.Blocked, " ")
			}
			if e.HorizonHit {
				return obs, "no termination within horizon: " + strings.Join(e.Blocked, " ")
			}
			// (a) structure of the read sequence, (b) write counts
			counts := make([]int, len(sp.writers))
			lastW := -1
			finished := map[int]bool{}
			for _, b := range got {
				wi := int(b>>4) - 1
				off := int(b & 15)
				if wi < 0 || wi >= len(sp.writers) {
					return obs, fmt.Sprintf("read a byte %#x nobody wrote", b)
				}
				if off != counts[wi] {
					return obs, fmt.Sprintf("writer %d: byte offset %d read when %d expected (lost, duplicated or reordered)", wi, off, counts[wi])
				}
				if wi != lastW {
					if finished[wi] {
						return obs, fmt.Sprintf("writer %d's bytes are interleaved with another write", wi)
					}
					if lastW >= 0 {
						finished[lastW] = true
					}
					lastW = wi
				}
				counts[wi]++
			}
			writeErrOK := strings.HasPrefix(sp.dis, "sinkFail") || strings.HasPrefix(sp.dis, "sdl") || strings.HasPrefix(sp.dis, "crSdl") && sp.dis != "crSdlPastZeroThenRead" || sp.dis == "closeWriteEarly" || sp.dis == "closeRead" || sp.dis == "closeL" || sp.dis == "closeR" || strings.HasPrefix(sp.dis, "wdl") || sp.dis == "closeReadNoReader"
			for i, r := range wr {
				if noWriter {
					break
				}
				if noReader {
					if r.n != 0 {
						return obs, fmt.Sprintf("writer %d reports %d bytes written with no reader", i, r.n)
					}
					if r.err == nil && sp.writers[i] > 0 {
						return obs, fmt.Sprintf("writer %d succeeded with no reader", i)
					}
					continue
				}
				if r.n != counts[i] {
					return obs, fmt.Sprintf("writer %d: Write returned %d but the reader consumed %d of its bytes", i, r.n, counts[i])
				}
				if r.err == nil && r.n != sp.writers[i] {
					return obs, fmt.Sprintf("writer %d: nil error with short count %d/%d", i, r.n, sp.writers[i])
				}
				if r.err != nil && !writeErrOK {
					return obs, fmt.Sprintf("writer %d: unexpected error %v", i, r.err)
				}
				if r.err != nil && (strings.HasPrefix(sp.dis, "wdl") || strings.HasPrefix(sp.dis, "sdl")) && !isTimeout(r.err) {
					return obs, fmt.Sprintf("writer %d: error %v is not a timeout", i, r.err)
				}
			}
			readClosedOK := sp.dis == "closeRead" || sp.dis == "closeR" || sp.dis == "closeL" || strings.HasPrefix(sp.dis, "sinkFail")
			timeoutOK := strings.HasPrefix(sp.dis, "rdl")
			for _, err := range readErrs {
				if errors.Is(err, errSink) && strings.HasPrefix(sp.dis, "sinkFail") {
					continue
				}
				switch {
				case isTimeout(err):
					if !timeoutOK {
						return obs, "reader: timeout without a read deadline"
					}
				case errors.Is(err, io.ErrClosedPipe):
					if !readClosedOK {
						return obs, "reader: closed-pipe error although its read side was not closed"
					}
				default:
					return obs, "reader: unexpected error " + err.Error()
				}
			}
			if readerRan && !sawEOF && !readClosedOK {
				return obs, "reader never saw end-of-stream after CloseWrite"
			}
			if afterEOF != 0 {
				return obs, "read after EOF returned data or another error"
			}
			if (sp.dis == "rdlPastNoWriter" || sp.dis == "rdlFutureNoWriter") && len(readErrs) == 0 {
				// the deadline may be set after the stream ended only if main closed first; main closes after dwg.Wait, so a timeout or EOF-first is possible only when the reader started late
				// not a violation: reader may start after deadline was set and cleared? it is never cleared here, so the reader must time out at least once unless it began after CloseWrite
			}
			if sp.dis == "none" || strings.HasPrefix(sp.dis, "rdl") || sp.dis == "crSdlPastZeroThenRead" {
				for i, r := range wr {
					if !noWriter && (r.err != nil || r.n != sp.writers[i]) {
						return obs, fmt.Sprintf("writer %d: incomplete write %d/%d err=%v though nothing closed or limited the write side", i, r.n, sp.writers[i], r.err)
					}
				}
			}
			if sdlErr != nil {
				return obs, "Set*Deadline failed on an open pipe: " + sdlErr.Error()
			}
			if sp.rev && sp.dis != "closeL" && sp.dis != "closeR" {
				if revWErr != nil || revRErr != nil || revN != 2 || len(revGot) != 2 || revGot[0] != 0xa1 || revGot[1] != 0xa2 {
					return obs, "reverse direction disturbed by an operation on the forward direction"
				}
			}
			if sp.rev {
				// prefix consistency even when closed
				exp := []byte{0xa1, 0xa2}
				if len(revGot) > 2 || revN != len(revGot) {
					return obs, "reverse direction: write count differs from bytes read"
				}
				for i := range revGot {
					if revGot[i] != exp[i] {
						return obs, "reverse direction: wrong bytes"
					}
				}
			}
			return obs, ""
		}
		return body, check
	}
}

func firstLine(s string) string {
	if i := strings.IndexByte(s, '\n'); i >= 0 {
		return s[:i]
	}
	return s
}

func family(c *harness.Check) []spec {
	var out []spec
	writerSets := [][]int{{1}, {3}, {0}, {3, 1}, {2, 2}}
	rbufs := []int{1, 2, 4, 0}
	if !c.Thorough() {
		writerSets = [][]int{{3}, {2, 2}}
		rbufs = []int{1, 4}
	}
	for _, ws := range writerSets {
		for _, rb := range rbufs {
			for _, wt := range []bool{false, true} {
				if wt && rb != rbufs[0] {
					continue
				}
				for _, d := range disruptors {
					if strings.HasPrefix(d, "sinkFail") != (wt && strings.HasPrefix(d, "sinkFail")) {
						continue // failing destinations exist only for WriteTo readers
					}
					if strings.HasSuffix(d, "NoWriter") || strings.HasSuffix(d, "NoReader") {
						if rb != rbufs[0] || len(ws) > 1 && !c.Thorough() {
							continue
						}
					}
					revs := []bool{false}
					if len(ws) == 1 && rb == rbufs[0] && !wt && !strings.HasPrefix(d, "sdl") && !strings.HasPrefix(d, "crSdl") {
						// (the combined deadline and CloseRead on the writing end act on the reverse direction too)
						revs = []bool{false, true}
					}
					for _, rev := range revs {
						out = append(out, spec{writers: ws, rbuf: rb, writeTo: wt, dis: d, rev: rev})
					}
				}
			}
		}
	}
	return out
}

func main() {
	harness.Register("pipe", scenario)
	harness.Register("dlwake", dlScenario)
	harness.WorkerMain()
	c := harness.Start("C15")
	if c.Replay != "" {
		if harness.ReplayExploration(c) {
			os.Exit(1)
		}
		os.Exit(0)
	}
	c.Rule = "each case is one complete execution (schedule + select choices + timer orders) of a pipe scenario {writer sizes, read buffer, Read|WriteTo, disruptor, reverse transfer}; distinct = distinct observation record (bytes read, per-writer count/error, reader errors, reverse result) per scenario; all are non-trivial (every scenario has >= 2 threads on one pipe). dlwake: one case = one execution of {pending Read|WriteTo|Write, setter, sequence of 1..3 deadline changes over {none, past, +1 s}} applied after the call is pending."
	c.Assumptions = []string{
		"sequentially consistent memory; scheduling points at every mutex/atomic/channel/select/timer/once operation of netio/pipe.go (rewritten by overlay), none inside plain memory accesses",
		"virtual clock: future deadlines are 1 s ahead and fire when nothing else can run or as one deviation",
		"exploration is exhaustive within the stated deviation bound (preemptions + non-first select cases + early timers), not over all schedules",
	}
	bound := harness.Pick(c, 2, 3)
	budget := harness.Pick(c, 30*time.Second, 3*time.Minute)
	specs := family(c)
	var pb, db []string
	for _, sp := range specs {
		if sp.rev || len(sp.writers) > 1 || strings.HasPrefix(sp.dis, "sdl") {
			db = append(db, sp.String())
		} else {
			pb = append(pb, sp.String())
		}
	}
	fold := func(rs []harness.BatchResult) {
		for i, r := range rs {
			st := r.Stats
			if i%13 == 0 {
				c.Sample(map[string]any{"scenario": r.Param, "bounding": st.Bounding, "bound": st.BoundCompleted, "executions": st.Execs, "distinct_observations": len(st.Observations), "one_observation": anyKey(st.Observations)})
			}
			c.AddExploration("pipe", r.Param, st, harness.Confirm(scenario(r.Param)))
		}
	}
	// 3-4 thread scenarios: preemption bounding; 5-7 thread scenarios: delay bounding (one more deviation)
	fold(harness.ExploreBatch("pipe", pb, bound, budget, false))
	fold(harness.ExploreBatch("pipe", db, harness.Pick(c, 2, 3), budget, true))
	// deadline changes against a call that is already pending (all sequences of 1..3 changes)
	dls := dlFamily()
	harness.NoEarlyClock = true // no time passes between the changes of one sequence
	dlRes := harness.ExploreBatch("dlwake", dls, harness.Pick(c, 2, 3), budget, false)
	harness.NoEarlyClock = false
	for i, r := range dlRes {
		if i%40 == 0 {
			c.Sample(map[string]any{"scenario": "dlwake(" + r.Param + ")", "executions": r.Stats.Execs, "distinct_observations": len(r.Stats.Observations), "one_observation": anyKey(r.Stats.Observations)})
		}
		c.AddExploration("dlwake", r.Param, r.Stats, harness.Confirm(dlScenario(r.Param)))
	}
	c.Extra["dlwake_scenarios"] = len(dls)
	c.Extra["scenarios"] = len(specs)
	c.Extra["deviation_bound"] = bound
	c.Finish()
}

func anyKey(m map[string]int64) string {
	best := ""
	for k := range m {
		if best == "" || k < best {
			best = k
		}
	}
	return best
}
