// dlwake: "a deadline unblocks a pending call with a timeout error" for calls that are already blocked when
// the deadline changes, over every short sequence of deadline changes.
//
// One thread is blocked in Read, WriteTo (read deadline) or Write (write deadline) on a pipe whose peer does
// nothing.  Once it is blocked, a second thread applies a sequence of 1..3 deadline changes drawn from
// {Z: no deadline, P: a time in the past, F: one second ahead on the virtual clock}, through the specific
// setter or through SetDeadline.  Reference: the pending call ends with a timeout error iff the sequence
// contains P (the call is woken the moment P is set) or ends with F (the timer fires); otherwise the call stays
// blocked until the harness closes the pipe, and must then end with a non-timeout result.  The changes of one
// sequence are applied without any time passing between them (this batch is explored with timers firing at
// quiescence only), so an F that is replaced by Z or by a later F must not fire: a deadline that was cleared
// or moved is no longer in force.
package main

import (
	"fmt"
	"strings"
	"time"

	"github.com/database64128/shadowsocks-go/netio"

	"verif/vsched"
)

type dlSpec struct {
	op     string // read writeTo write
	setter string // own both
	seq    string // e.g. "ZP"
}

func (s dlSpec) String() string { return "op=" + s.op + ";setter=" + s.setter + ";seq=" + s.seq }

func parseDL(p string) (s dlSpec) {
	for _, kv := range strings.Split(p, ";") {
		k, v, _ := strings.Cut(kv, "=")
		switch k {
		case "op":
			s.op = v
		case "setter":
			s.setter = v
		case "seq":
			s.seq = v
		}
	}
	return
}

func dlScenario(param string) vsched.Scenario {
	sp := parseDL(param)
	return func() (func(), func(*vsched.Exec) (string, string)) {
		var (
			opErr      error
			opN        int64
			opDone     bool
			doneBefore bool // the call had ended before the harness closed the pipe
			setErr     error
		)
		body := func() {
			pl, pr := netio.NewPipe()
			end := pr // the end whose call is pending
			if sp.op == "write" {
				end = pl
			}
			var g, d vsched.Group
			g.Go(func() {
				switch sp.op {
				case "read":
					n, err := end.Read(make([]byte, 4))
					opN, opErr = int64(n), err
				case "writeTo":
					opN, opErr = end.WriteTo(&sink{failAt: -1})
				case "write":
					n, err := end.Write([]byte{1, 2, 3})
					opN, opErr = int64(n), err
				}
				opDone = true
			})
			d.Go(func() {
				vsched.WaitIdle() // the call is pending now
				for _, ch := range sp.seq {
					var t time.Time
					switch ch {
					case 'P':
						t = time.Unix(1, 0)
					case 'F':
						t = vsched.Now().Add(time.Second)
					}
					var err error
					switch {
					case sp.setter == "both":
						err = end.SetDeadline(t)
					case sp.op == "write":
						err = end.SetWriteDeadline(t)
					default:
						err = end.SetReadDeadline(t)
					}
					if err != nil && setErr == nil {
						setErr = err
					}
				}
			})
			d.Wait()
			vsched.Sleep(2 * time.Second) // past every F
			vsched.WaitIdle()
			doneBefore = opDone
			pl.Close()
			pr.Close()
			g.Wait()
		}
		check := func(e *vsched.Exec) (string, string) {
			obs := fmt.Sprintf("n=%d err=%v doneBeforeClose=%v set=%v", opN, opErr, doneBefore, setErr)
			if len(e.Panics) > 0 {
				return obs, "panic: " + e.Panics[0]
			}
			if e.Deadlock || e.HorizonHit {
				return obs, "deadlock or no termination: " + strings.Join(e.Blocked, " ")
			}
			if setErr != nil {
				return obs, "Set*Deadline failed on an open pipe: " + setErr.Error()
			}
			wantTimeout := strings.Contains(sp.seq, "P") || strings.HasSuffix(sp.seq, "F")
			switch {
			case wantTimeout && !doneBefore:
				return obs, "a pending " + sp.op + " was not unblocked by the deadline (it ended only when the pipe was closed)"
			case wantTimeout && !isTimeout(opErr):
				return obs, fmt.Sprintf("a pending %s ended with %v, not a timeout", sp.op, opErr)
			case wantTimeout && opN != 0:
				return obs, fmt.Sprintf("a pending %s that timed out reports %d bytes", sp.op, opN)
			case !wantTimeout && doneBefore:
				return obs, fmt.Sprintf("a pending %s ended (%v) although no deadline was in force", sp.op, opErr)
			case !wantTimeout && isTimeout(opErr):
				return obs, "a pending " + sp.op + " timed out although the deadline had been cleared"
			}
			return obs, ""
		}
		return body, check
	}
}

func dlFamily() []string {
	var seqs []string
	var rec func(string)
	rec = func(p string) {
		if len(p) > 0 {
			seqs = append(seqs, p)
		}
		if len(p) == 3 {
			return
		}
		for _, ch := range "ZPF" {
			rec(p + string(ch))
		}
	}
	rec("")
	var out []string
	for _, op := range []string{"read", "writeTo", "write"} {
		for _, st := range []string{"own", "both"} {
			for _, sq := range seqs {
				out = append(out, dlSpec{op, st, sq}.String())
			}
		}
	}
	return out
}
