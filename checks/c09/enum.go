package main

import (
	"fmt"
	"net/netip"
	"sort"
)

// ---------------------------------------------------------------------------
// Request alphabet.  Each of the 7 request dimensions has "reduced" values
// (two per dimension, six for the target dimension; their full product is
// always run) and "extra" boundary values (run as sweeps around baselines).

type target struct {
	host string
	beh  [2]behaviour
}

func ans(s string) behaviour { return behaviour{Kind: "ans", IP: netip.MustParseAddr(s)} }

var (
	bNoaddr = behaviour{Kind: "noaddr"}
	bFail   = behaviour{Kind: "fail"}
	bOther  = behaviour{Kind: "other"}
	aBoth   = ans("10.9.9.9")        // in 10.0.0.0/8 and in 10.9.0.0/16
	aP1     = ans("10.1.1.1")        // in 10.0.0.0/8 only
	aOut    = ans("8.8.8.8")         // in neither
	aMapped = ans("::ffff:10.9.9.9") // IPv4-mapped form of aBoth
	aV6     = ans("2001:db8::5")     // in psA only
)

type dims struct {
	nets    []string
	servers []int
	users   []string
	sports  []uint16
	saddrs  []netip.Addr
	dports  []uint16
	targets []target
	nRed    [7]int
	short   [7][]int // indices of the extras used in two-dimensional sweeps
}

func (d *dims) n(k int) int {
	switch k {
	case 0:
		return len(d.nets)
	case 1:
		return len(d.servers)
	case 2:
		return len(d.users)
	case 3:
		return len(d.sports)
	case 4:
		return len(d.saddrs)
	case 5:
		return len(d.dports)
	}
	return len(d.targets)
}

func (d *dims) mk(ix [7]int) request {
	t := d.targets[ix[6]]
	r := request{Net: d.nets[ix[0]], Server: d.servers[ix[1]], User: d.users[ix[2]],
		Src: netip.AddrPortFrom(d.saddrs[ix[4]], d.sports[ix[3]]), Host: t.host, TPort: d.dports[ix[5]], Beh: t.beh}
	r.fix()
	return r
}

var (
	srcAddrs = addrs("10.1.2.3", "11.0.0.1", // reduced: in / out of every source prefix spec
		"::ffff:10.1.2.3", "::ffff:11.0.0.1", "9.255.255.255", "10.0.0.0", "10.255.255.255", "11.0.0.0", "::ffff:9.255.255.255",
		"2001:db8::1", "2001:db9::1", "2001:db7:ffff:ffff:ffff:ffff:ffff:ffff", "172.16.0.1", "172.32.0.0")
	allTargets   []target
	shortTargets []int
)

func addrs(l ...string) []netip.Addr {
	var o []netip.Addr
	for _, s := range l {
		o = append(o, netip.MustParseAddr(s))
	}
	return o
}

func init() {
	contrary := func(b behaviour) behaviour {
		if b == aOut {
			return aBoth
		}
		return aOut
	}
	// reduced
	allTargets = []target{
		{"10.9.9.9", [2]behaviour{aBoth, aOut}},
		{"8.8.8.8", [2]behaviour{aBoth, aOut}},
		{"example.com", [2]behaviour{aBoth, aOut}},
		{"example.com", [2]behaviour{aOut, aBoth}},
		{"example.org", [2]behaviour{aBoth, aOut}},
		{"example.org", [2]behaviour{aOut, aBoth}},
	}
	seen := map[string]bool{}
	key := func(t target) string { return t.host + "|" + t.beh[0].String() + "|" + t.beh[1].String() }
	for _, t := range allTargets {
		seen[key(t)] = true
	}
	add := func(t target, short bool) {
		if seen[key(t)] {
			return
		}
		seen[key(t)] = true
		if short {
			shortTargets = append(shortTargets, len(allTargets))
		}
		allTargets = append(allTargets, t)
	}
	// extra IP targets: one-prefix-only, IPv4-mapped, prefix edges, IPv6
	for i, ip := range []string{"10.1.1.1", "::ffff:10.9.9.9", "::ffff:8.8.8.8", "2001:db8::1", "9.255.255.255", "10.0.0.0", "10.255.255.255", "11.0.0.0",
		"10.8.255.255", "10.9.0.0", "10.9.255.255", "10.10.0.0", "2001:db9::1", "172.16.0.1"} {
		add(target{ip, [2]behaviour{aBoth, aOut}}, i < 4)
	}
	// extra domain targets x resolver behaviours
	var behs [][2]behaviour
	for _, b := range []behaviour{aBoth, aP1, aOut, aMapped, aV6} {
		behs = append(behs, [2]behaviour{b, contrary(b)})
	}
	behs = append(behs, [2]behaviour{bNoaddr, aBoth}, [2]behaviour{bNoaddr, bFail}, [2]behaviour{bOther, aBoth})
	for _, b := range []behaviour{aBoth, aP1, aOut, aMapped, bNoaddr, bOther, bFail} {
		behs = append(behs, [2]behaviour{bFail, b})
	}
	shortBeh := map[[2]behaviour]bool{{aP1, aOut}: true, {aMapped, aOut}: true, {bNoaddr, aBoth}: true, {bFail, aBoth}: true, {bFail, aOut}: true, {bFail, bFail}: true}
	for _, d := range domainUniverse {
		for _, b := range behs {
			add(target{d, b}, shortBeh[b] && (d == "example.com" || d == "example.org") || (d != "example.com" && d != "example.org" && b == [2]behaviour{aBoth, aOut}))
		}
	}
}

// portValues: reduced 443 (in every spec) and 8080 (in none), then 0, 1, 2,
// 65535 and both sides of every range edge of the given specs.
func portValues(specs []*portSpec, allEdges bool) (vals []uint16, short []int) {
	vals = []uint16{443, 8080}
	seen := map[uint16]bool{443: true, 8080: true}
	add := func(p int, sh bool) {
		if p < 0 || p > 65535 || seen[uint16(p)] {
			return
		}
		seen[uint16(p)] = true
		if sh {
			short = append(short, len(vals))
		}
		vals = append(vals, uint16(p))
	}
	for _, p := range []int{0, 1, 2, 65535} {
		add(p, true)
	}
	for _, s := range specs {
		if s == nil {
			continue
		}
		for i, r := range s.Ref {
			edge := i < 2 || i >= len(s.Ref)-2
			if !allEdges && !edge {
				continue
			}
			for _, p := range []int{r[0] - 1, r[0], r[1], r[1] + 1} {
				add(p, i == 0 || i == len(s.Ref)-1)
			}
		}
	}
	return
}

func dimsFor(c *cfgSpec, allEdges bool) *dims {
	d := &dims{nets: []string{"tcp", "udp"}, servers: []int{0, 1}, users: []string{"a", "b", "", "ab"}, saddrs: srcAddrs, targets: allTargets}
	var fp, tp []*portSpec
	for i := range c.Routes {
		fp = append(fp, c.Routes[i].FromPorts)
		tp = append(tp, c.Routes[i].ToPorts)
	}
	d.sports, d.short[3] = portValues(fp, allEdges)
	d.dports, d.short[5] = portValues(tp, allEdges)
	d.nRed = [7]int{2, 2, 2, 2, 2, 2, 6}
	d.short[2] = []int{2, 3}
	d.short[4] = []int{2, 3, 4, 5, 9}
	d.short[6] = shortTargets
	return d
}

// ---------------------------------------------------------------------------
// Running one configuration against its request set.

type cfgStats struct {
	evals, nondefinite, errorsSeen, rejects, panics, defaults, routed int64
	loadFailed                                                        bool
	failures                                                          []*failure // first few, in enumeration order
	failCount                                                         map[string]int64
	reps                                                              map[string]int64
}

const keepPerCfg = 2

func (w *worker) runCfg(c *cfgSpec, pairSweeps, allEdges bool) *cfgStats {
	st := &cfgStats{failCount: map[string]int64{}, reps: map[string]int64{}}
	b := w.build(c, 2)
	if b.rt == nil {
		st.loadFailed = true
		return st
	}
	defer b.rt.Close()
	for _, l := range b.rt.C09CriterionTypes() {
		for _, t := range l {
			st.reps[t]++
		}
	}
	cc := compile(c)
	d := dimsFor(c, allEdges)
	nr := len(c.Routes)
	baselines := make([]*[7]int, nr+1)
	one := func(ix [7]int, core bool) {
		rq := d.mk(ix)
		allowed, decisive := cc.route(&rq)
		res := w.exec(b.rt, &rq)
		st.evals++
		if decisive < 0 {
			st.nondefinite++
		} else if core && baselines[decisive] == nil {
			cp := ix
			baselines[decisive] = &cp
		}
		switch {
		case res.got == oPanic:
			st.panics++
		case res.got == oError:
			st.errorsSeen++
		case res.got == oReject:
			st.rejects++
		case decisive == nr:
			st.defaults++
		default:
			st.routed++
		}
		if class, detail := judge(cc, &rq, &res, allowed); class != "" {
			st.failCount[class]++
			if len(st.failures) < keepPerCfg || (class != "panic-port0" && st.failCount[class] <= keepPerCfg) {
				st.failures = append(st.failures, &failure{class: class, cfg: c, rq: rq, got: res.got, allowed: allowed, detail: detail})
			}
		}
	}
	// core: full product of the reduced values
	var ix [7]int
	var rec func(k int)
	rec = func(k int) {
		if k == 7 {
			one(ix, true)
			return
		}
		for v := 0; v < d.nRed[k]; v++ {
			ix[k] = v
			rec(k + 1)
		}
	}
	rec(0)
	// sweeps around one baseline per route that can definitely match (and the default)
	seen := map[[7]int]bool{}
	for _, bl := range baselines {
		if bl == nil {
			continue
		}
		for k := 0; k < 7; k++ {
			for v := d.nRed[k]; v < d.n(k); v++ {
				p := *bl
				p[k] = v
				if !seen[p] {
					seen[p] = true
					one(p, false)
				}
			}
		}
		if !pairSweeps {
			continue
		}
		for k := 0; k < 7; k++ {
			for l := k + 1; l < 7; l++ {
				for _, v := range d.short[k] {
					for _, u := range d.short[l] {
						p := *bl
						p[k], p[l] = v, u
						if !seen[p] {
							seen[p] = true
							one(p, false)
						}
					}
				}
			}
		}
	}
	return st
}

// ---------------------------------------------------------------------------
// Vocabulary of single-route configurations.

type variant func(*routeSpec)

type vocab struct {
	net, client, servers, users, fromPorts, from, toPorts, dest []variant
}

func withInv(absent bool, vs ...func(r *routeSpec, inv bool)) []variant {
	var out []variant
	if absent {
		out = append(out, func(*routeSpec) {})
	}
	for _, v := range vs {
		for _, inv := range []bool{false, true} {
			out = append(out, func(r *routeSpec) { v(r, inv) })
		}
	}
	return out
}

func portVariants(specs []*portSpec, from bool) []variant {
	var fs []func(*routeSpec, bool)
	for _, p := range specs {
		if from {
			fs = append(fs, func(r *routeSpec, inv bool) { r.FromPorts, r.InvFromPorts = p, inv })
		} else {
			fs = append(fs, func(r *routeSpec, inv bool) { r.ToPorts, r.InvToPorts = p, inv })
		}
	}
	return withInv(true, fs...)
}

func makeVocab(level int) *vocab { // 0 = trimmed (full product), 1 = base, 2 = extended
	v := &vocab{}
	for _, n := range []string{"", "tcp", "udp"} {
		v.net = append(v.net, func(r *routeSpec) { r.Network = n })
	}
	for _, c := range []string{"c1", "reject"} {
		v.client = append(v.client, func(r *routeSpec) { r.Client = c })
	}
	sv := [][]string{{"s0"}}
	uv := [][]string{{"a"}}
	ports := []*portSpec{pSingle, pR2, pR16, pR17}
	if level == 0 {
		ports = []*portSpec{pSingle, pR16, pR17}
	}
	if level == 2 {
		sv = append(sv, []string{"s1"}, []string{"s0", "s1"})
		uv = append(uv, []string{"a", "b"}, []string{""})
		ports = []*portSpec{pSingle, pSingleStr, pPair, pR2, pR2mix, pR16, pR17, pR17list, pR40, pAlmostAll}
	}
	var sf, uf []func(*routeSpec, bool)
	for _, l := range sv {
		sf = append(sf, func(r *routeSpec, inv bool) { r.Servers, r.InvServers = l, inv })
	}
	for _, l := range uv {
		uf = append(uf, func(r *routeSpec, inv bool) { r.Users, r.InvUsers = l, inv })
	}
	v.servers, v.users = withInv(true, sf...), withInv(true, uf...)
	v.fromPorts, v.toPorts = portVariants(ports, true), portVariants(ports, false)

	ff := []func(*routeSpec, bool){func(r *routeSpec, inv bool) { r.FromPrefixes, r.InvFrom = []string{"10.0.0.0/8"}, inv }}
	if level >= 1 {
		ff = append(ff, func(r *routeSpec, inv bool) { r.FromPrefixSets, r.InvFrom = []string{"psA"}, inv })
	}
	if level == 2 {
		ff = append(ff,
			func(r *routeSpec, inv bool) {
				r.FromPrefixes, r.FromPrefixSets, r.InvFrom = []string{"2001:db8::/32"}, []string{"psB"}, inv
			},
			func(r *routeSpec, inv bool) { r.FromPrefixes, r.InvFrom = []string{"10.1.2.3/32", "10.0.0.0/8"}, inv },
			func(r *routeSpec, inv bool) { r.FromPrefixes, r.InvFrom = []string{"10.0.0.0/9", "10.128.0.0/9"}, inv })
	}
	v.from = withInv(true, ff...)

	// destination group: domains x expectation x prefixes x noresolve x resolver
	doms := []func(*routeSpec, bool){
		func(r *routeSpec, inv bool) { r.ToDomains, r.InvDomains = []string{"example.com"}, inv },
		func(r *routeSpec, inv bool) { r.ToDomainSets, r.InvDomains = []string{"dsSuffix"}, inv },
		func(r *routeSpec, inv bool) { r.ToDomainSets, r.InvDomains = []string{"dsOverlap"}, inv },
	}
	exps := []func(*routeSpec, bool){func(r *routeSpec, inv bool) { r.ExpPrefixes, r.InvExp = []string{"10.9.0.0/16"}, inv }}
	tos := []func(*routeSpec, bool){func(r *routeSpec, inv bool) { r.ToPrefixes, r.InvTo = []string{"10.0.0.0/8"}, inv }}
	if level == 2 {
		doms = append(doms,
			func(r *routeSpec, inv bool) { r.ToDomains, r.InvDomains = manyDomains(), inv },
			func(r *routeSpec, inv bool) { r.ToDomainSets, r.InvDomains = []string{"dsBig"}, inv },
			func(r *routeSpec, inv bool) { r.ToDomainSets, r.InvDomains = []string{"dsKw"}, inv },
			func(r *routeSpec, inv bool) { r.ToDomainSets, r.InvDomains = []string{"dsRe"}, inv },
			func(r *routeSpec, inv bool) {
				r.ToDomains, r.ToDomainSets, r.InvDomains = []string{"www.example.com"}, []string{"dsRe", "dsKw"}, inv
			})
		exps = append(exps, func(r *routeSpec, inv bool) { r.ExpPrefixSets, r.InvExp = []string{"psExp"}, inv })
		tos = append(tos,
			func(r *routeSpec, inv bool) { r.ToPrefixSets, r.InvTo = []string{"psA"}, inv },
			func(r *routeSpec, inv bool) {
				r.ToPrefixes, r.ToPrefixSets, r.InvTo = []string{"10.0.0.0/9"}, []string{"psB"}, inv
			})
	}
	domV := withInv(true, doms...)
	expV := withInv(true, exps...)
	toV := withInv(true, tos...)
	resolversFor := []string{"", "r1"}
	if level >= 1 {
		resolversFor = []string{"", "r0", "r1"}
	}
	for di, dv := range domV {
		for ei, ev := range expV {
			if di == 0 && ei != 0 {
				continue // an expectation needs domain conditions (rejected at load; see load part)
			}
			for ti, tv := range toV {
				for _, dis := range []bool{false, true} {
					if dis && ti == 0 && level < 2 {
						continue // noresolve without IP conditions: only in the extended vocabulary
					}
					resolving := ei != 0 || (ti != 0 && !dis)
					rs := []string{""}
					if resolving {
						rs = resolversFor
					}
					for _, rn := range rs {
						v.dest = append(v.dest, func(r *routeSpec) {
							dv(r)
							ev(r)
							tv(r)
							r.Disable = dis
							r.Resolver = rn
						})
					}
				}
			}
		}
	}
	return v
}

func product(kinds [][]variant, emit func(*cfgSpec)) {
	var rec func(k int, r routeSpec)
	rec = func(k int, r routeSpec) {
		if k == len(kinds) {
			if r.Client == "" {
				r.Client = "c1"
			}
			r.Name = "r1"
			emit(&cfgSpec{Routes: []routeSpec{r}, DefaultTCP: "c0", DefaultUDP: "c0", Clients: 2})
			return
		}
		for _, v := range kinds[k] {
			n := r
			v(&n)
			rec(k+1, n)
		}
	}
	rec(0, routeSpec{})
}

func count(kinds [][]variant) int64 {
	n := int64(1)
	for _, k := range kinds {
		n *= int64(len(k))
	}
	return n
}

// ---------------------------------------------------------------------------
// Route lists.

func coreRoutes() []routeSpec {
	return []routeSpec{
		{Network: "tcp"},
		{Servers: []string{"s0"}},
		{Users: []string{"a"}, InvUsers: true},
		{FromPorts: pR17},
		{FromPrefixes: []string{"10.0.0.0/8"}},
		{ToPorts: pSingle, Client: "reject"},
		{ToPorts: pR16, InvToPorts: true},
		{ToDomains: []string{"example.com"}},
		{ToDomainSets: []string{"dsSuffix"}, ExpPrefixes: []string{"10.9.0.0/16"}},
		{ToPrefixes: []string{"10.0.0.0/8"}},
		{ToPrefixes: []string{"10.0.0.0/8"}, Disable: true, InvTo: true, Client: "reject"},
		{ToDomains: []string{"example.org"}, ToPrefixSets: []string{"psA"}, Resolver: "r1", Network: "udp"},
	}
}

type defaultSpec struct{ tcp, udp string }

var listDefaults = []defaultSpec{{"c0", "c0"}, {"reject", "reject"}, {"", ""}, {"c0", "reject"}}

// lists emits every ordered selection of k distinct core routes; the route at
// position i (1-based) routes to client c<i> unless it is a reject route.
func lists(k int, emit func(*cfgSpec)) {
	core := coreRoutes()
	var rec func(sel []int)
	rec = func(sel []int) {
		if len(sel) == k {
			for _, d := range listDefaults {
				c := &cfgSpec{DefaultTCP: d.tcp, DefaultUDP: d.udp, Clients: k + 1}
				if c.Clients < 2 {
					c.Clients = 2
				}
				for pos, ci := range sel {
					r := core[ci]
					r.Name = fmt.Sprintf("r%d-core%d", pos+1, ci)
					if r.Client == "" {
						r.Client = fmt.Sprintf("c%d", pos+1)
					}
					c.Routes = append(c.Routes, r)
				}
				emit(c)
			}
			return
		}
	next:
		for i := range core {
			for _, s := range sel {
				if s == i {
					continue next
				}
			}
			rec(append(sel, i))
		}
	}
	rec(nil)
}

// defaultsPart: how the default is chosen with one or two clients configured.
func defaultsPart(emit func(*cfgSpec)) {
	// client maps of different sizes (a client that speaks only one of the protocols): each default follows
	// the map of its own protocol
	for _, sz := range [][2]int{{2, 1}, {1, 2}} {
		for _, t := range []string{"", "c0", "reject"} {
			for _, u := range []string{"", "c0", "reject"} {
				for _, routes := range [][]routeSpec{nil, {{Name: "r1", Client: "reject", ToPorts: pSingle}}} {
					emit(&cfgSpec{Routes: routes, DefaultTCP: t, DefaultUDP: u, Clients: 2, TCPClients: sz[0], UDPClients: sz[1]})
				}
			}
		}
	}
	for _, clients := range []int{1, 2} {
		names := []string{"", "c0", "reject"}
		if clients == 2 {
			names = append(names, "c1")
		}
		for _, t := range names {
			for _, u := range names {
				for _, routes := range [][]routeSpec{nil, {{Name: "r1", Client: "reject", ToPorts: pSingle}}, {{Name: "r1", Client: "c0", Users: []string{"a"}}}} {
					emit(&cfgSpec{Routes: routes, DefaultTCP: t, DefaultUDP: u, Clients: clients})
				}
			}
		}
	}
}

func sortedKeys(m map[string]int64) []string {
	var l []string
	for k := range m {
		l = append(l, k)
	}
	sort.Strings(l)
	return l
}
