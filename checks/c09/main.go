// C09: routing picks the first route whose documented conditions all hold.
//
// Bounded-exhaustive enumeration of router configurations (real loader:
// JSON text -> router.Config -> Config.Router) times requests (real
// Router.GetTCPClient / GetUDPClient), compared with a reference written from
// the property statement, the RouteConfig field comments and the README
// (ref.go).  No sampling.  See c.Rule / c.Assumptions for the alphabet, the
// bounds and what the reference does not demand.
package main

import (
	"encoding/json"
	"fmt"
	"os"
	"runtime"
	"sort"
	"strings"
	"sync"
	"time"

	"verif/harness"
)

type item struct {
	seq int
	cfg *cfgSpec
}

type partResult struct {
	name                                          string
	configs, loadFailed, evals, nondefinite       int64
	errorsSeen, rejects, panics, defaults, routed int64
	failCount                                     map[string]int64
	reps                                          map[string]int64
	failures                                      []seqFailure
	capped                                        bool
	wall                                          float64
}

type seqFailure struct {
	seq int
	f   *failure
}

var deadline time.Time

// runPart feeds the configurations produced by gen to worker goroutines and
// merges their statistics; failures are ordered by configuration sequence
// number so that the report does not depend on scheduling.
func runPart(c *harness.Check, dir, name string, pairSweeps, allEdges bool, gen func(emit func(*cfgSpec))) *partResult {
	start := time.Now()
	pr := &partResult{name: name, failCount: map[string]int64{}, reps: map[string]int64{}}
	ch := make(chan []item, 64)
	var mu sync.Mutex
	var wg sync.WaitGroup
	nw := runtime.NumCPU()
	for i := 0; i < nw; i++ {
		wg.Add(1)
		go func() {
			defer wg.Done()
			w := newWorker(dir)
			for batch := range ch {
				loc := &partResult{failCount: map[string]int64{}, reps: map[string]int64{}}
				for _, it := range batch {
					st := w.runCfg(it.cfg, pairSweeps, allEdges)
					loc.configs++
					if st.loadFailed {
						loc.loadFailed++
						loc.failures = append(loc.failures, seqFailure{it.seq, &failure{class: "load", cfg: it.cfg}})
						continue
					}
					loc.evals += st.evals
					loc.nondefinite += st.nondefinite
					loc.errorsSeen += st.errorsSeen
					loc.rejects += st.rejects
					loc.panics += st.panics
					loc.defaults += st.defaults
					loc.routed += st.routed
					for k, v := range st.failCount {
						loc.failCount[k] += v
					}
					for k, v := range st.reps {
						loc.reps[k] += v
					}
					for _, f := range st.failures {
						loc.failures = append(loc.failures, seqFailure{it.seq, f})
					}
					c.Distinct(name+"|"+it.cfg.key(), true)
				}
				mu.Lock()
				pr.configs += loc.configs
				pr.loadFailed += loc.loadFailed
				pr.evals += loc.evals
				pr.nondefinite += loc.nondefinite
				pr.errorsSeen += loc.errorsSeen
				pr.rejects += loc.rejects
				pr.panics += loc.panics
				pr.defaults += loc.defaults
				pr.routed += loc.routed
				for k, v := range loc.failCount {
					pr.failCount[k] += v
				}
				for k, v := range loc.reps {
					pr.reps[k] += v
				}
				pr.failures = append(pr.failures, loc.failures...)
				// keep memory bounded and the kept set deterministic: lowest sequence numbers per class
				if len(pr.failures) > 4000 {
					pr.failures = trimFailures(pr.failures)
				}
				mu.Unlock()
			}
		}()
	}
	seq := 0
	var batch []item
	gen(func(cfg *cfgSpec) {
		if pr.capped {
			return
		}
		batch = append(batch, item{seq, cfg})
		seq++
		if len(batch) == 64 {
			if time.Now().After(deadline) {
				pr.capped = true
				return
			}
			ch <- batch
			batch = nil
		}
	})
	if len(batch) > 0 && !pr.capped {
		ch <- batch
	}
	close(ch)
	wg.Wait()
	pr.failures = trimFailures(pr.failures)
	pr.wall = time.Since(start).Seconds()
	if pr.capped {
		c.Cap(fmt.Sprintf("part %s stopped by the time budget after %d configurations", name, pr.configs))
	}
	return pr
}

// trimFailures keeps, per class, the 40 failures with the lowest sequence numbers.
func trimFailures(l []seqFailure) []seqFailure {
	sort.SliceStable(l, func(i, j int) bool { return l[i].seq < l[j].seq })
	n := map[string]int{}
	var out []seqFailure
	for _, f := range l {
		if n[f.f.class] < 40 {
			n[f.f.class]++
			out = append(out, f)
		}
	}
	return out
}

// report turns a part's failures into violations (shrunk, canonical signature).
func report(c *harness.Check, dir string, pr *partResult, port0 *port0Summary) {
	w := newWorker(dir)
	shrunk := map[string]bool{}
	for _, sf := range pr.failures {
		f := sf.f
		if f.class == "load" {
			b := w.build(f.cfg, 2)
			what := fmt.Sprintf("a configuration of the enumeration was not accepted by the loader: %s : err=%v panic=%v", f.cfg.configJSON("."), b.err, b.panicV)
			c.Violation("load-failed: "+f.cfg.shape(), what, map[string]any{"kind": "load", "config": f.cfg})
			continue
		}
		k := f.class + "|" + f.cfg.shape() + "|" + reqShape(&f.rq)
		if shrunk[k] {
			continue
		}
		shrunk[k] = true
		m := w.shrink(f)
		sig := m.signature()
		if sig == "port0-bitset-criterion" {
			port0.add(m, dir)
			continue
		}
		c.Violation(sig, m.what(dir), m.replay())
	}
	port0.cases += pr.failCount["panic-port0"]
}

type port0Summary struct {
	cases   int64
	sides   map[string]bool
	example *failure
	what    string
}

func (p *port0Summary) add(f *failure, dir string) {
	r := f.cfg.Routes[0]
	if r.FromPorts != nil {
		p.sides["source port 0 under fromPorts/fromPortRanges"] = true
	}
	if r.ToPorts != nil {
		p.sides["destination port 0 under toPorts/toPortRanges"] = true
	}
	if p.example == nil {
		p.example = f
		p.what = f.what(dir)
	}
}

func (pr *partResult) evidence() map[string]any {
	fc := map[string]any{}
	for _, k := range sortedKeys(pr.failCount) {
		fc[k] = pr.failCount[k]
	}
	return map[string]any{
		"configurations": pr.configs, "requests_executed": pr.evals, "wall_s": pr.wall,
		"requests_with_slack_in_reference":          pr.nondefinite,
		"observed":                                  map[string]any{"routed_to_route_client": pr.routed, "default_route": pr.defaults, "ErrRejected": pr.rejects, "error": pr.errorsSeen, "panic": pr.panics},
		"cases_not_permitted_by_reference_by_class": fc,
	}
}

// ---------------------------------------------------------------------------
// Configurations that must be rejected at load.

type loadCase struct {
	name      string
	json      string
	resolvers int
}

func loadCases() []loadCase {
	r := func(body string) string {
		return `{"defaultTCPClientName":"c0","defaultUDPClientName":"c0","routes":[{"name":"r1",` + body + `}]}`
	}
	return []loadCase{
		{"fromGeoIPCountries without database", r(`"client":"c1","fromGeoIPCountries":["US"]`), 2},
		{"toGeoIPCountries without database", r(`"client":"c1","toGeoIPCountries":["US"]`), 2},
		{"toGeoIPCountries(noresolve) without database", r(`"client":"c1","toGeoIPCountries":["US"],"disableNameResolutionForIPRules":true`), 2},
		{"toMatchedDomainExpectedGeoIPCountries without database", r(`"client":"c1","toDomains":["example.com"],"toMatchedDomainExpectedGeoIPCountries":["US"]`), 2},
		{"inverted GeoIP without database", r(`"client":"c1","fromGeoIPCountries":["US"],"invertFromGeoIPCountries":true`), 2},
		{"missing GeoIP database file", `{"geoLite2CountryDbPath":"/nonexistent/Country.mmdb","defaultTCPClientName":"c0","defaultUDPClientName":"c0"}`, 2},
		{"unknown client", r(`"client":"nope"`), 2},
		{"empty client", r(`"client":""`), 2},
		{"unknown default TCP client", `{"defaultTCPClientName":"nope","defaultUDPClientName":"c0"}`, 2},
		{"unknown default UDP client", `{"defaultTCPClientName":"c0","defaultUDPClientName":"nope"}`, 2},
		{"unknown server", r(`"client":"c1","fromServers":["nope"]`), 2},
		{"unknown resolver", r(`"client":"c1","resolver":"nope","toPrefixes":["10.0.0.0/8"]`), 2},
		{"unknown domain set", r(`"client":"c1","toDomainSets":["nope"]`), 2},
		{"unknown source prefix set", r(`"client":"c1","fromPrefixSets":["nope"]`), 2},
		{"unknown destination prefix set", r(`"client":"c1","toPrefixSets":["nope"]`), 2},
		{"unknown expected prefix set", r(`"client":"c1","toDomains":["example.com"],"toMatchedDomainExpectedPrefixSets":["nope"]`), 2},
		{"invalid network", r(`"client":"c1","network":"icmp"`), 2},
		{"port 0 in fromPorts", r(`"client":"c1","fromPorts":[0]`), 2},
		{"port 0 in toPorts", r(`"client":"c1","toPorts":[443,0]`), 2},
		{"port 0 in fromPortRanges", r(`"client":"c1","fromPortRanges":"0"`), 2},
		{"range from 0 in toPortRanges", r(`"client":"c1","toPortRanges":"0-5"`), 2},
		{"reversed range", r(`"client":"c1","toPortRanges":"5-1"`), 2},
		{"port above 65535", r(`"client":"c1","toPortRanges":"65536"`), 2},
		{"garbage port ranges", r(`"client":"c1","fromPortRanges":"80,,443"`), 2},
		{"IP conditions for domains without any resolver", r(`"client":"c1","toPrefixes":["10.0.0.0/8"]`), 0},
		{"expected prefixes without any resolver", r(`"client":"c1","toDomains":["example.com"],"toMatchedDomainExpectedPrefixes":["10.0.0.0/8"]`), 0},
		{"expected prefixes without domain conditions", r(`"client":"c1","toMatchedDomainExpectedPrefixes":["10.0.0.0/8"]`), 2},
	}
}

// ---------------------------------------------------------------------------

func replay(c *harness.Check, dir string) {
	r, err := harness.ReplayFile(c.Replay)
	if err != nil {
		harness.Fatal("%v", err)
	}
	b, _ := json.Marshal(r)
	var rec struct {
		Kind    string   `json:"kind"`
		Config  *cfgSpec `json:"config"`
		Request request  `json:"request"`
		Name    string   `json:"name"`
		JSON    string   `json:"json"`
		Res     int      `json:"resolvers"`
	}
	if err := json.Unmarshal(b, &rec); err != nil {
		harness.Fatal("bad replay record: %v", err)
	}
	w := newWorker(dir)
	switch rec.Kind {
	case "case":
		rec.Request.fix()
		fmt.Printf("config:  %s\nrequest: %s\n", rec.Config.configJSON("."), rec.Request.String())
		f, loaded := w.runCase(rec.Config, &rec.Request)
		if !loaded {
			bl := w.build(rec.Config, 2)
			fmt.Printf("configuration does not load: err=%v panic=%v\nVIOLATION property=C09 replay=%s\n", bl.err, bl.panicV, c.Replay)
			cleanupExit(dir, 1)
		}
		if f != nil {
			fmt.Printf("VIOLATION property=C09 replay=%s\n  %s\n  observed %s %s; reference allows %s\n", c.Replay, f.signature(), outcomeNames(f.got), f.detail, outcomeNames(f.allowed))
			cleanupExit(dir, 1)
		}
	case "load":
		if bl := w.build(rec.Config, 2); bl.rt == nil {
			fmt.Printf("VIOLATION property=C09 replay=%s\n  configuration does not load: err=%v panic=%v\n", c.Replay, bl.err, bl.panicV)
			cleanupExit(dir, 1)
		}
	case "load-reject":
		if msg := runLoadCase(w, loadCase{rec.Name, rec.JSON, rec.Res}); msg != "" {
			fmt.Printf("VIOLATION property=C09 replay=%s\n  %s\n", c.Replay, msg)
			cleanupExit(dir, 1)
		}
	default:
		harness.Fatal("unknown replay kind %q", rec.Kind)
	}
	fmt.Println("no violation on replay")
	cleanupExit(dir, 0)
}

func cleanupExit(dir string, code int) {
	os.RemoveAll(dir)
	os.Exit(code)
}

func main() {
	c := harness.Start("C09")
	dir, err := os.MkdirTemp("", "c09-sets-")
	if err != nil {
		harness.Fatal("%v", err)
	}
	writeSetFiles(dir)
	if c.Replay != "" {
		replay(c, dir)
	}
	thorough := c.Thorough()
	deadline = time.Now().Add(harness.Pick(c, 20*time.Minute, 5*time.Hour))

	c.Rule = "one case = (router configuration loaded by the real loader from JSON text, one request) -> Router.GetTCPClient/GetUDPClient; compared with the reference's set of permitted outcomes (client identity | ErrRejected | error) plus resolver-usage rules. " +
		"Request set per configuration: full product of the reduced values of the 7 request dimensions (protocol{tcp,udp} x server{s0,s1} x user{a,b} x source port{443,8080} x source address{10.1.2.3,11.0.0.1} x target port{443,8080} x target{IP in/out, example.com and example.org with r0 answering in/out}) = 384 requests, " +
		"plus one-dimensional sweeps (thorough, for side products and lists: also two-dimensional sweeps over short boundary lists) of all boundary values (users \"\",\"ab\"; ports 0,1,2,65535 and both sides of every configured range edge; IPv4-mapped, prefix-edge and IPv6 sources; IPv4-mapped/edge/IPv6 IP targets; 4 domains x 15 two-resolver behaviours: answer in both/one/no prefix, IPv4-mapped answer, IPv6 answer, no address, non-lookup error, lookup failure with every second-resolver behaviour) around one baseline request per route that can definitely match and one for the default route. " +
		"distinct = distinct configurations (every request of a configuration is distinct by construction)."
	c.Assumptions = []string{
		"GeoIP criteria are NOT exercised for matching: no MaxMind database exists in the image; only 'GeoIP criterion without database is rejected at load' is checked",
		"not demanded: evaluation order between conditions (if a resolver failure and a definitely-false condition coexist in one route, both 'error' and 'route skipped' are accepted; if a destination kind is definitely true and another needs a failing lookup, both 'match' and 'error' are accepted)",
		"not demanded: which error value a failed resolution yields; whether a second resolver is asked after the first answers 'no address' or fails with a non-lookup error (error, or the second resolver's verdict, are accepted)",
		"not demanded: meaning of invertToDomains combined with toMatchedDomainExpected* (both not(domain and expectation) and (not domain) and expectation accepted)",
		"demanded: inverted conditions are the plain negation (an IP target satisfies inverted toDomains; with disableNameResolutionForIPRules a domain target satisfies inverted toPrefixes)",
		"demanded: default unset with exactly one client configured = that client; unset with two clients = ErrRejected",
		"domain matching is exercised on a 4-name universe (exact, subdomain, look-alike without label boundary, unrelated); case folding and trailing dots are C10's subject",
		"server universe is two servers; source/target universe as listed in the rule",
	}

	port0 := &port0Summary{sides: map[string]bool{}}
	var parts []*partResult
	run := func(name string, pairSweeps, allEdges bool, gen func(emit func(*cfgSpec))) {
		pr := runPart(c, dir, name, pairSweeps, allEdges, gen)
		parts = append(parts, pr)
		report(c, dir, pr, port0)
		ev := pr.evidence()
		ev["two_dimensional_sweeps"] = pairSweeps
		c.Part(name, ev)
		c.Count(pr.evals, pr.configs, pr.evals+pr.configs)
		fmt.Fprintf(os.Stderr, "part %-22s configs=%-8d requests=%-11d notPermitted=%v wall=%.1fs\n", name, pr.configs, pr.evals, pr.failCount, pr.wall)
	}

	base := makeVocab(1)
	ext := makeVocab(2)
	trim := makeVocab(0)
	none := []variant{func(*routeSpec) {}}
	side := harness.Pick(c, base, ext)

	// 1. source-side product (all destination kinds absent)
	srcKinds := [][]variant{side.net, side.client, side.servers, side.users, side.fromPorts, side.from}
	run("single/source-side", thorough, true, func(emit func(*cfgSpec)) { product(srcKinds, emit) })
	// 2. destination-side product (all source kinds absent)
	dstKinds := [][]variant{side.net, side.client, side.toPorts, side.dest}
	run("single/dest-side", thorough, true, func(emit func(*cfgSpec)) { product(dstKinds, emit) })
	// 3. every source-kind variant with every destination-kind variant
	run("single/cross-pairs", thorough, true, func(emit func(*cfgSpec)) {
		for _, a := range [][]variant{base.servers[1:], base.users[1:], base.fromPorts[1:], base.from[1:]} {
			for _, b := range [][]variant{base.toPorts[1:], base.dest[1:]} {
				product([][]variant{base.net, a, b}, emit)
			}
		}
	})
	// 4. full product of all kinds
	fullKinds := [][]variant{trim.net, trim.client, trim.servers, trim.users, trim.fromPorts, trim.from, trim.toPorts, trim.dest}
	if thorough {
		fullKinds = [][]variant{base.net, base.client, base.servers, base.users, base.fromPorts, base.from, base.toPorts, base.dest}
	} else {
		// quick: trimmed vocabulary, client fixed (its interaction with every
		// kind is in parts 1-3)
		fullKinds[1] = none
	}
	run("single/full-product", false, thorough, func(emit func(*cfgSpec)) { product(fullKinds, emit) })
	// 5. route lists
	run("lists/0-1-routes+defaults", true, true, defaultsPart)
	run("lists/pairs", thorough, true, func(emit func(*cfgSpec)) { lists(2, emit) })
	run("lists/triples", thorough, !thorough, func(emit func(*cfgSpec)) { lists(3, emit) })
	if thorough {
		run("lists/quadruples", false, false, func(emit func(*cfgSpec)) { lists(4, emit) })
	}

	// 6. load rejection
	w := newWorker(dir)
	var lcNames []string
	for _, lc := range loadCases() {
		lcNames = append(lcNames, lc.name)
		if msg := runLoadCase(w, lc); msg != "" {
			c.Violation("load-accepts: "+lc.name, msg, map[string]any{"kind": "load-reject", "name": lc.name, "json": lc.json, "resolvers": lc.res()})
		}
		c.Count(1, 1, 1)
		c.Distinct("load|"+lc.name, true)
	}
	c.Part("load-rejection", map[string]any{"cases": lcNames, "oracle": "Config.Router returns an error (no router, no panic)"})

	// port 0 under the bit-set representation: one defect, one signature
	if port0.example != nil {
		var sides []string
		for s := range port0.sides {
			sides = append(sides, s)
		}
		sort.Strings(sides)
		c.Violation("port0-bitset-criterion",
			fmt.Sprintf("a request with port 0 panics (portset.ErrZeroPort from PortSet.Contains via Router.match) instead of producing a verdict when a route's port condition has more than 16 ranges (bit-set representation); seen for: %s; %d enumerated cases; minimal: %s",
				strings.Join(sides, " and "), port0.cases, port0.what), port0.example.replay())
	}

	// representation tally
	reps := map[string]int64{}
	var tot partResult
	for _, p := range parts {
		for k, v := range p.reps {
			reps[strings.TrimPrefix(k, "!")] += v
		}
		tot.configs += p.configs
		tot.evals += p.evals
		tot.nondefinite += p.nondefinite
	}
	repEv := map[string]any{}
	for _, k := range sortedKeys(reps) {
		repEv[strings.TrimPrefix(strings.TrimPrefix(k, "*"), "router.")] = reps[k]
	}
	for _, need := range []string{"router.SourcePortCriterion", "router.SourcePortRangeSetCriterion", "*router.SourcePortSetCriterion", "router.DestPortCriterion", "router.DestPortRangeSetCriterion", "*router.DestPortSetCriterion",
		"router.DestDomainCriterion", "router.DestDomainExpectedIPCriterion", "*router.DestIPCriterion", "router.DestResolvedIPCriterion", "*router.SourceIPCriterion", "router.CriterionGroupOR"} {
		if reps[need] == 0 {
			c.Cap("criterion representation " + need + " was never produced by the loader for any enumerated configuration")
		}
	}
	c.Extra["criterion_representations_built"] = repEv
	c.Extra["geoip"] = "GeoIP criteria (fromGeoIPCountries, toGeoIPCountries, toMatchedDomainExpectedGeoIPCountries) cannot be exercised for matching: there is no MaxMind database in the image. Only the load-time rejection of GeoIP criteria without a database is checked (part load-rejection)."
	c.Extra["bounds"] = map[string]any{
		"quick":    "source-side and dest-side products over the base vocabulary; cross pairs (every source-kind variant x every destination-kind variant x network); full product of all 8 kinds over the trimmed vocabulary with the client fixed; route lists: 0-1 routes x all default/client-count combinations, all ordered pairs and triples of the 12 core routes x 4 defaults; one-dimensional boundary sweeps",
		"thorough": "side products over the extended vocabulary with two-dimensional sweeps; full product of all 8 kinds over the base vocabulary; lists up to ordered quadruples; all range edges in port sweeps",
	}
	c.Extra["totals"] = map[string]any{"configurations": tot.configs, "requests": tot.evals, "requests_where_reference_permits_more_than_one_outcome_or_is_order_dependent": tot.nondefinite}
	c.Extra["vocabulary"] = map[string]any{
		"port_specs":                   portLabels(),
		"prefix_sets":                  prefixSetDefs,
		"domain_sets":                  map[string]any{"dsSuffix": domainSetDefs["dsSuffix"], "dsKw": domainSetDefs["dsKw"], "dsRe": domainSetDefs["dsRe"], "dsOverlap": domainSetDefs["dsOverlap"], "dsBig": "20 domain: rules + 6 suffix: rules (map + trie matchers), contains example.com both ways"},
		"variant_counts_quick_side":    vocabCounts(base),
		"variant_counts_thorough_side": vocabCounts(ext),
		"variant_counts_trimmed":       vocabCounts(trim),
		"core_routes_for_lists":        coreShapes(),
	}
	ex := cfgSpec{Routes: []routeSpec{{Name: "r1", Client: "c1", FromPorts: pR17, InvFromPorts: true, ToDomainSets: []string{"dsSuffix"}, ExpPrefixes: []string{"10.9.0.0/16"}, ToPrefixes: []string{"10.0.0.0/8"}, InvTo: true}}, DefaultTCP: "c0", DefaultUDP: "c0", Clients: 2}
	c.Sample(map[string]any{"config": json.RawMessage(ex.configJSON(".")), "shape": ex.shape(), "requests": "384 core + sweeps", "example_request": "udp server=s1 user=\"b\" src=[::ffff:10.1.2.3]:1019 target=www.example.com:443 resolvers{r0:fail r1:ans:::ffff:10.9.9.9}"})
	for _, p := range parts {
		c.Sample(map[string]any{"part": p.name, "configurations": p.configs, "requests": p.evals})
	}
	os.RemoveAll(dir)
	c.Finish()
}

func (l loadCase) res() int { return l.resolvers }

func runLoadCase(w *worker, lc loadCase) (msg string) {
	var spec cfgSpec
	_ = spec
	b := w.buildRaw([]byte(lc.json), lc.resolvers)
	switch {
	case b.panicV != nil:
		return fmt.Sprintf("loading %s panics: %v", lc.json, b.panicV)
	case b.err == nil || b.rt != nil:
		return fmt.Sprintf("configuration with %s is accepted at load: %s", lc.name, lc.json)
	}
	return ""
}

func portLabels() map[string]any {
	m := map[string]any{}
	for l, p := range portSpecsByLabel {
		m[l] = map[string]any{"list": p.List, "ranges": p.Ranges, "ports": p.portCount(), "maximal_ranges": p.rangeCount(), "documented_representation": p.rep()}
	}
	return m
}

func vocabCounts(v *vocab) map[string]int {
	return map[string]int{"network": len(v.net), "client": len(v.client), "fromServers": len(v.servers), "fromUsers": len(v.users), "fromPorts": len(v.fromPorts), "fromPrefixes": len(v.from), "toPorts": len(v.toPorts), "destination(domains x expectation x prefixes x noresolve x resolver)": len(v.dest)}
}

func coreShapes() []string {
	var s []string
	for _, r := range coreRoutes() {
		s = append(s, r.shape())
	}
	return s
}
