package main

import (
	"encoding/json"
	"fmt"
	"net/netip"
	"os"
	"path/filepath"
	"sort"
	"strings"
)

// ---------------------------------------------------------------------------
// Universe (fixed, finite).

var serverNames = []string{"s0", "s1"}

// Named sets.  The files given to the real loader and the reference matcher
// are both produced from these tables.
var prefixSetDefs = map[string][]string{
	"psA":   {"10.0.0.0/8", "2001:db8::/32", "172.16.0.0/12"},
	"psB":   {"10.0.0.0/8"},
	"psExp": {"10.9.0.0/16"},
}

var domainSetDefs = map[string][]string{
	"dsSuffix": {"suffix:example.com"},
	"dsKw":     {"keyword:xample.c"},
	"dsRe":     {`regexp:^(www\.)?example\.com$`},
	"dsBig":    bigDomainSet(),
	// suffix rules only (trie matcher), a longer suffix first and then the shorter one that covers it
	"dsOverlap": {"suffix:zone0.test", "suffix:zone1.test", "suffix:zone2.test", "suffix:www.example.com", "suffix:example.com"},
}

// bigDomainSet has 20 domain rules (> MaxLinearDomains) and 6 suffix rules
// (> MaxLinearSuffixes) so that the loader picks the map and trie matchers.
func bigDomainSet() []string {
	var l []string
	for i := 0; i < 19; i++ {
		l = append(l, fmt.Sprintf("domain:host%d.test", i))
	}
	l = append(l, "domain:example.com")
	for i := 0; i < 4; i++ {
		l = append(l, fmt.Sprintf("suffix:zone%d.test", i))
	}
	// a longer suffix first, then the shorter one that covers it (the trie must replace the longer branch)
	l = append(l, "suffix:www.example.com", "suffix:example.com")
	return l
}

// manyDomains is a toDomains list above MaxLinearDomains.
func manyDomains() []string {
	var l []string
	for i := 0; i < 16; i++ {
		l = append(l, fmt.Sprintf("host%d.test", i))
	}
	return append(l, "example.com")
}

var domainUniverse = []string{"example.com", "www.example.com", "notexample.com", "example.org"}

func writeSetFiles(dir string) {
	for n, l := range prefixSetDefs {
		must(os.WriteFile(filepath.Join(dir, n+".txt"), []byte("# prefix set "+n+"\n"+strings.Join(l, "\n")+"\n"), 0o644))
	}
	for n, l := range domainSetDefs {
		must(os.WriteFile(filepath.Join(dir, n+".txt"), []byte(strings.Join(l, "\n")+"\n"), 0o644))
	}
}

func must(err error) {
	if err != nil {
		panic(err)
	}
}

func (c *cfgSpec) nTCP() int {
	if c.TCPClients != 0 {
		return c.TCPClients
	}
	return c.Clients
}

func (c *cfgSpec) nUDP() int {
	if c.UDPClients != 0 {
		return c.UDPClients
	}
	return c.Clients
}

// ---------------------------------------------------------------------------
// Specifications (JSON-able; what replay files carry).

// portSpec is one way of writing a port condition.  Ref is the reference
// meaning (inclusive ranges); List/Ranges are what goes into the config.
type portSpec struct {
	Label  string   `json:"label"`
	List   []uint16 `json:"list,omitempty"`
	Ranges string   `json:"ranges,omitempty"`
	Ref    [][2]int `json:"ref"`
}

func (p *portSpec) contains(port uint16) bool {
	for _, r := range p.Ref {
		if int(port) >= r[0] && int(port) <= r[1] {
			return true
		}
	}
	return false
}

// rangeCount is the number of maximal runs in Ref (Ref is kept normalised).
func (p *portSpec) rangeCount() int { return len(p.Ref) }
func (p *portSpec) portCount() int {
	n := 0
	for _, r := range p.Ref {
		n += r[1] - r[0] + 1
	}
	return n
}

// rep is the representation route.go documents for this many ports/ranges.
func (p *portSpec) rep() string {
	switch {
	case p.portCount() == 1:
		return "port"
	case p.rangeCount() <= 16:
		return "rangeset"
	default:
		return "bitset"
	}
}

// mkPorts builds a portSpec from a list and a range string; Ref is computed by
// a plain 65536-entry boolean table (reference, independent of package portset).
func mkPorts(label string, list []uint16, ranges string) *portSpec {
	var in [65536]bool
	for _, p := range list {
		in[p] = true
	}
	if ranges != "" {
		for _, part := range strings.Split(ranges, ",") {
			var a, b int
			if strings.Contains(part, "-") {
				fmt.Sscanf(part, "%d-%d", &a, &b)
			} else {
				fmt.Sscanf(part, "%d", &a)
				b = a
			}
			for i := a; i <= b; i++ {
				in[i] = true
			}
		}
	}
	ps := &portSpec{Label: label, List: list, Ranges: ranges}
	for i := 0; i < 65536; {
		if !in[i] {
			i++
			continue
		}
		j := i
		for j+1 < 65536 && in[j+1] {
			j++
		}
		ps.Ref = append(ps.Ref, [2]int{i, j})
		i = j + 1
	}
	return ps
}

const r16str = "1,3-4,63-64,127-130,443,1000,1002,1004,1006,1008,1010,1012,1014,1016,65533,65535"

// Every port spec contains 443 and does not contain 8080 (the two "reduced"
// request ports).
var (
	pSingle    = mkPorts("single", []uint16{443}, "")
	pSingleStr = mkPorts("single-str", nil, "443")
	pPair      = mkPorts("one-range-2", nil, "443-444")
	pR2        = mkPorts("r2", nil, "1-443,65535")
	pR2mix     = mkPorts("r2-list+str", []uint16{443, 444}, "445-500,600")
	pR16       = mkPorts("r16", nil, r16str)
	pR17       = mkPorts("r17", nil, r16str+",1018")
	pR17list   = mkPorts("r17-list", []uint16{1, 3, 5, 7, 9, 63, 65, 127, 129, 443, 1000, 1002, 4096, 4098, 65531, 65533, 65535}, "")
	pR40       = mkPorts("r40", nil, r40str())
	pAlmostAll = mkPorts("all-but-8080", nil, "1-8079,8081-65535")
)

func r40str() string {
	var l []string
	for i := 0; i < 39; i++ {
		l = append(l, fmt.Sprint(61+i*64)+"-"+fmt.Sprint(66+i*64))
	}
	return strings.Join(l, ",") + ",443"
}

var portSpecsByLabel = map[string]*portSpec{}

func init() {
	for _, p := range []*portSpec{pSingle, pSingleStr, pPair, pR2, pR2mix, pR16, pR17, pR17list, pR40, pAlmostAll} {
		portSpecsByLabel[p.Label] = p
		if !p.contains(443) || p.contains(8080) {
			panic("port spec vocabulary broken: " + p.Label)
		}
	}
}

type routeSpec struct {
	Name     string `json:"name"`
	Network  string `json:"network,omitempty"`
	Client   string `json:"client"`
	Resolver string `json:"resolver,omitempty"`

	Servers    []string `json:"fromServers,omitempty"`
	InvServers bool     `json:"invertFromServers,omitempty"`
	Users      []string `json:"fromUsers,omitempty"`
	InvUsers   bool     `json:"invertFromUsers,omitempty"`

	FromPorts    *portSpec `json:"fromPorts,omitempty"`
	InvFromPorts bool      `json:"invertFromPorts,omitempty"`

	FromPrefixes   []string `json:"fromPrefixes,omitempty"`
	FromPrefixSets []string `json:"fromPrefixSets,omitempty"`
	InvFrom        bool     `json:"invertFromPrefixes,omitempty"`

	ToPorts    *portSpec `json:"toPorts,omitempty"`
	InvToPorts bool      `json:"invertToPorts,omitempty"`

	ToDomains    []string `json:"toDomains,omitempty"`
	ToDomainSets []string `json:"toDomainSets,omitempty"`
	InvDomains   bool     `json:"invertToDomains,omitempty"`

	ExpPrefixes   []string `json:"toMatchedDomainExpectedPrefixes,omitempty"`
	ExpPrefixSets []string `json:"toMatchedDomainExpectedPrefixSets,omitempty"`
	InvExp        bool     `json:"invertToMatchedDomainExpectedPrefixes,omitempty"`

	ToPrefixes   []string `json:"toPrefixes,omitempty"`
	ToPrefixSets []string `json:"toPrefixSets,omitempty"`
	InvTo        bool     `json:"invertToPrefixes,omitempty"`

	Disable bool `json:"disableNameResolutionForIPRules,omitempty"`
}

func (r *routeSpec) hasFrom() bool    { return len(r.FromPrefixes)+len(r.FromPrefixSets) > 0 }
func (r *routeSpec) hasDomains() bool { return len(r.ToDomains)+len(r.ToDomainSets) > 0 }
func (r *routeSpec) hasExp() bool     { return len(r.ExpPrefixes)+len(r.ExpPrefixSets) > 0 }
func (r *routeSpec) hasTo() bool      { return len(r.ToPrefixes)+len(r.ToPrefixSets) > 0 }
func (r *routeSpec) resolving() bool  { return r.hasExp() || (r.hasTo() && !r.Disable) }

// shape is the canonical short description used in violation signatures.
func (r *routeSpec) shape() string {
	var s []string
	inv := func(b bool) string {
		if b {
			return "!inv"
		}
		return ""
	}
	if r.Network != "" {
		s = append(s, "net="+r.Network)
	}
	if r.Client == "reject" {
		s = append(s, "client=reject")
	}
	if len(r.Servers) > 0 {
		s = append(s, "fromServers"+inv(r.InvServers))
	}
	if len(r.Users) > 0 {
		s = append(s, "fromUsers"+inv(r.InvUsers))
	}
	if r.FromPorts != nil {
		s = append(s, "fromPorts="+r.FromPorts.Label+"("+r.FromPorts.rep()+")"+inv(r.InvFromPorts))
	}
	if r.hasFrom() {
		k := "fromPrefixes"
		if len(r.FromPrefixSets) > 0 {
			k = "fromPrefixSets"
			if len(r.FromPrefixes) > 0 {
				k = "fromPrefixes+Sets"
			}
		}
		s = append(s, k+inv(r.InvFrom))
	}
	if r.ToPorts != nil {
		s = append(s, "toPorts="+r.ToPorts.Label+"("+r.ToPorts.rep()+")"+inv(r.InvToPorts))
	}
	if r.hasDomains() {
		k := "toDomains"
		if len(r.ToDomainSets) > 0 {
			k = "toDomainSets[" + strings.Join(r.ToDomainSets, ",") + "]"
			if len(r.ToDomains) > 0 {
				k = "toDomains+" + k
			}
		} else if len(r.ToDomains) > 16 {
			k = "toDomains(>16)"
		}
		s = append(s, k+inv(r.InvDomains))
	}
	if r.hasExp() {
		s = append(s, "expectedPrefixes"+inv(r.InvExp))
	}
	if r.hasTo() {
		k := "toPrefixes"
		if len(r.ToPrefixSets) > 0 {
			k = "toPrefixSets"
		}
		if r.Disable {
			k += "(noresolve)"
		}
		s = append(s, k+inv(r.InvTo))
	} else if r.Disable {
		s = append(s, "noresolve")
	}
	if r.Resolver != "" {
		s = append(s, "resolver="+r.Resolver)
	}
	if len(s) == 0 {
		return "unconditional"
	}
	return strings.Join(s, ",")
}

// cfgSpec is one router configuration plus its environment.
type cfgSpec struct {
	Routes     []routeSpec `json:"routes"`
	DefaultTCP string      `json:"defaultTCPClientName"`
	DefaultUDP string      `json:"defaultUDPClientName"`
	Clients    int         `json:"clients"` // client maps hold c0..c(Clients-1)
	// TCPClients / UDPClients, when non-zero, give the two client maps different sizes (a client that only
	// speaks one of the protocols is in one map only)
	TCPClients int `json:"tcpClients,omitempty"`
	UDPClients int `json:"udpClients,omitempty"`
}

func (c *cfgSpec) key() string {
	b, _ := json.Marshal(c)
	return string(b)
}

func (c *cfgSpec) shape() string {
	var s []string
	for i := range c.Routes {
		s = append(s, c.Routes[i].shape())
	}
	d := ""
	if c.DefaultTCP != "c0" || c.DefaultUDP != "c0" {
		d = fmt.Sprintf(" default(tcp=%q,udp=%q,clients=%d)", c.DefaultTCP, c.DefaultUDP, c.Clients)
		if c.TCPClients != 0 || c.UDPClients != 0 {
			d = fmt.Sprintf(" default(tcp=%q,udp=%q,tcpClients=%d,udpClients=%d)", c.DefaultTCP, c.DefaultUDP, c.nTCP(), c.nUDP())
		}
	}
	return "routes[" + strings.Join(s, " ; ") + "]" + d
}

func (c *cfgSpec) clone() *cfgSpec {
	n := *c
	n.Routes = append([]routeSpec(nil), c.Routes...)
	return &n
}

// configJSON renders the spec with the documented key names (docs/config.json,
// field tags in router/route.go); the real loader parses this text.
func (c *cfgSpec) configJSON(dir string) []byte {
	m := map[string]any{}
	if c.DefaultTCP != "" {
		m["defaultTCPClientName"] = c.DefaultTCP
	}
	if c.DefaultUDP != "" {
		m["defaultUDPClientName"] = c.DefaultUDP
	}
	ds, ps := map[string]bool{}, map[string]bool{}
	var routes []map[string]any
	for i := range c.Routes {
		r := &c.Routes[i]
		rm := map[string]any{"name": r.Name, "client": r.Client}
		set := func(k string, v any) { rm[k] = v }
		if r.Network != "" {
			set("network", r.Network)
		}
		if r.Resolver != "" {
			set("resolver", r.Resolver)
		}
		if len(r.Servers) > 0 {
			set("fromServers", r.Servers)
		}
		if len(r.Users) > 0 {
			set("fromUsers", r.Users)
		}
		if r.FromPorts != nil {
			if len(r.FromPorts.List) > 0 {
				set("fromPorts", r.FromPorts.List)
			}
			if r.FromPorts.Ranges != "" {
				set("fromPortRanges", r.FromPorts.Ranges)
			}
		}
		if len(r.FromPrefixes) > 0 {
			set("fromPrefixes", r.FromPrefixes)
		}
		if len(r.FromPrefixSets) > 0 {
			set("fromPrefixSets", r.FromPrefixSets)
		}
		if r.ToPorts != nil {
			if len(r.ToPorts.List) > 0 {
				set("toPorts", r.ToPorts.List)
			}
			if r.ToPorts.Ranges != "" {
				set("toPortRanges", r.ToPorts.Ranges)
			}
		}
		if len(r.ToDomains) > 0 {
			set("toDomains", r.ToDomains)
		}
		if len(r.ToDomainSets) > 0 {
			set("toDomainSets", r.ToDomainSets)
		}
		if len(r.ExpPrefixes) > 0 {
			set("toMatchedDomainExpectedPrefixes", r.ExpPrefixes)
		}
		if len(r.ExpPrefixSets) > 0 {
			set("toMatchedDomainExpectedPrefixSets", r.ExpPrefixSets)
		}
		if len(r.ToPrefixes) > 0 {
			set("toPrefixes", r.ToPrefixes)
		}
		if len(r.ToPrefixSets) > 0 {
			set("toPrefixSets", r.ToPrefixSets)
		}
		for k, b := range map[string]bool{
			"disableNameResolutionForIPRules": r.Disable, "invertFromServers": r.InvServers, "invertFromUsers": r.InvUsers,
			"invertFromPorts": r.InvFromPorts, "invertFromPrefixes": r.InvFrom, "invertToPorts": r.InvToPorts,
			"invertToDomains": r.InvDomains, "invertToMatchedDomainExpectedPrefixes": r.InvExp, "invertToPrefixes": r.InvTo,
		} {
			if b {
				set(k, true)
			}
		}
		for _, n := range r.ToDomainSets {
			ds[n] = true
		}
		for _, l := range [][]string{r.FromPrefixSets, r.ExpPrefixSets, r.ToPrefixSets} {
			for _, n := range l {
				ps[n] = true
			}
		}
		routes = append(routes, rm)
	}
	if len(routes) > 0 {
		m["routes"] = routes
	}
	names := func(s map[string]bool) []string {
		var l []string
		for n := range s {
			l = append(l, n)
		}
		sort.Strings(l)
		return l
	}
	var dsl, psl []map[string]any
	for _, n := range names(ds) {
		dsl = append(dsl, map[string]any{"name": n, "type": "text", "path": filepath.Join(dir, n+".txt")})
	}
	for _, n := range names(ps) {
		psl = append(psl, map[string]any{"name": n, "path": filepath.Join(dir, n+".txt")})
	}
	if dsl != nil {
		m["domainSets"] = dsl
	}
	if psl != nil {
		m["prefixSets"] = psl
	}
	b, err := json.Marshal(m)
	must(err)
	return b
}

// ---------------------------------------------------------------------------
// Requests.

type behaviour struct {
	Kind string     `json:"kind"` // ans | noaddr | fail | other
	IP   netip.Addr `json:"ip,omitzero"`
}

func (b behaviour) String() string {
	if b.Kind == "ans" {
		return "ans:" + b.IP.String()
	}
	return b.Kind
}

type request struct {
	Net    string         `json:"net"` // tcp | udp
	Server int            `json:"server"`
	User   string         `json:"user"`
	Src    netip.AddrPort `json:"src"`
	Host   string         `json:"targetHost"` // IP literal or domain
	TPort  uint16         `json:"targetPort"`
	Beh    [2]behaviour   `json:"resolvers"` // scripted behaviour of r0, r1 for this request

	ip netip.Addr // valid iff target is an IP
}

func (r *request) fix() {
	if ip, err := netip.ParseAddr(r.Host); err == nil {
		r.ip = ip
	} else {
		r.ip = netip.Addr{}
	}
}

func (r *request) isIP() bool { return r.ip.IsValid() }

func (r *request) String() string {
	s := fmt.Sprintf("%s server=s%d user=%q src=%s target=%s:%d", r.Net, r.Server, r.User, r.Src, r.Host, r.TPort)
	if !r.isIP() {
		s += fmt.Sprintf(" resolvers{r0:%s r1:%s}", r.Beh[0], r.Beh[1])
	}
	return s
}
