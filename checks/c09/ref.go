package main

import (
	"net/netip"
	"regexp"
	"strings"
)

// Reference model, written from the C09 statement, the field comments of
// router.RouteConfig and the README.  Three-valued with sets: every condition
// evaluates to a set of permitted results ⊆ {T, F, E} (E = the request must
// fail with an error because a needed name resolution failed).  Sets appear
// only where the statement does not fix an evaluation order (short-circuit
// slack) or where the documentation is ambiguous (listed in main.go).
const (
	vT uint8 = 1
	vF uint8 = 2
	vE uint8 = 4
)

func b2v(b bool) uint8 {
	if b {
		return vT
	}
	return vF
}

func vNot(s uint8) uint8 {
	var o uint8
	if s&vT != 0 {
		o |= vF
	}
	if s&vF != 0 {
		o |= vT
	}
	return o | s&vE
}

// vAnd: all hold.  T needs every operand T; F if some operand may be F; E if
// some operand may be E (no evaluation order is demanded).
func vAnd(ops ...uint8) uint8 {
	o := vT
	for _, s := range ops {
		if s&vT == 0 {
			o &^= vT
		}
		o |= s & (vF | vE)
	}
	return o
}

// vOr: any holds.
func vOr(ops ...uint8) uint8 {
	o := vF
	for _, s := range ops {
		if s&vF == 0 {
			o &^= vF
		}
		o |= s & (vT | vE)
	}
	return o
}

// Outcome bits of a whole request.
const (
	oReject uint16 = 1 << 8
	oError  uint16 = 1 << 9
	oPanic  uint16 = 1 << 10
)

func oClient(i int) uint16 { return 1 << uint(i) } // client c<i>, i < 8

func outcomeNames(m uint16) string {
	var s []string
	for i := 0; i < 8; i++ {
		if m&oClient(i) != 0 {
			if i == 0 {
				s = append(s, "client c0 (default)")
			} else {
				s = append(s, "client c"+string(rune('0'+i)))
			}
		}
	}
	if m&oReject != 0 {
		s = append(s, "ErrRejected")
	}
	if m&oError != 0 {
		s = append(s, "error")
	}
	if m&oPanic != 0 {
		s = append(s, "panic")
	}
	if len(s) == 0 {
		return "nothing"
	}
	return strings.Join(s, " | ")
}

// ---------------------------------------------------------------------------

var regexpCache = map[string]*regexp.Regexp{}

func init() {
	for _, l := range domainSetDefs {
		for _, line := range l {
			if v, ok := strings.CutPrefix(line, "regexp:"); ok {
				regexpCache[v] = regexp.MustCompile(v)
			}
		}
	}
}

// refRuleMatch is the README's meaning of the four rule kinds.
func refRuleMatch(line, d string) bool {
	switch {
	case strings.HasPrefix(line, "domain:"):
		return d == line[7:]
	case strings.HasPrefix(line, "suffix:"):
		return d == line[7:] || strings.HasSuffix(d, "."+line[7:])
	case strings.HasPrefix(line, "keyword:"):
		return strings.Contains(d, line[8:])
	case strings.HasPrefix(line, "regexp:"):
		return regexpCache[line[7:]].MatchString(d)
	}
	panic("bad rule " + line)
}

type cRoute struct {
	s         *routeSpec
	from      []netip.Prefix
	exp       []netip.Prefix
	to        []netip.Prefix
	dom       map[string]bool // domain universe -> matches toDomains ∪ toDomainSets
	resolvers []int           // resolvers this route may consult, in order
	clientBit uint16
}

type cCfg struct {
	spec   *cfgSpec
	routes []cRoute
	defTCP uint16 // outcome of the default route
	defUDP uint16
	// resolvers any route of this configuration may consult for a domain target
	mayConsult [2]bool
}

func prefixes(lits []string, sets []string) []netip.Prefix {
	var out []netip.Prefix
	for _, l := range lits {
		out = append(out, netip.MustParsePrefix(l))
	}
	for _, n := range sets {
		for _, l := range prefixSetDefs[n] {
			out = append(out, netip.MustParsePrefix(l))
		}
	}
	return out
}

func inPrefixes(ps []netip.Prefix, a netip.Addr) bool {
	a = a.Unmap() // an IPv4-mapped IPv6 address is the IPv4 address
	for _, p := range ps {
		if p.Contains(a) {
			return true
		}
	}
	return false
}

func clientOutcome(name string) uint16 {
	if name == "reject" {
		return oReject
	}
	return oClient(int(name[1] - '0'))
}

func defaultOutcome(name string, clients int) uint16 {
	switch name {
	case "reject":
		return oReject
	case "":
		if clients == 1 {
			return oClient(0) // the sole client (README server examples have no router section)
		}
		return oReject // nothing to route to
	}
	return clientOutcome(name)
}

func compile(c *cfgSpec) *cCfg {
	cc := &cCfg{spec: c, defTCP: defaultOutcome(c.DefaultTCP, c.nTCP()), defUDP: defaultOutcome(c.DefaultUDP, c.nUDP())}
	cc.routes = make([]cRoute, len(c.Routes))
	for i := range c.Routes {
		s := &c.Routes[i]
		r := &cc.routes[i]
		r.s = s
		r.from = prefixes(s.FromPrefixes, s.FromPrefixSets)
		r.exp = prefixes(s.ExpPrefixes, s.ExpPrefixSets)
		r.to = prefixes(s.ToPrefixes, s.ToPrefixSets)
		r.clientBit = clientOutcome(s.Client)
		if s.hasDomains() {
			r.dom = map[string]bool{}
			for _, d := range domainUniverse {
				m := false
				for _, x := range s.ToDomains { // "Match requests to these domain targets"
					m = m || x == d
				}
				for _, n := range s.ToDomainSets {
					for _, line := range domainSetDefs[n] {
						m = m || refRuleMatch(line, d)
					}
				}
				r.dom[d] = m
			}
		}
		switch s.Resolver { // "use this resolver ... If unspecified, use all resolvers by order"
		case "":
			r.resolvers = []int{0, 1}
		case "r0":
			r.resolvers = []int{0}
		case "r1":
			r.resolvers = []int{1}
		}
		if s.resolving() {
			for _, k := range r.resolvers {
				cc.mayConsult[k] = true
			}
		}
	}
	return cc
}

// resolveAndTest: the target (IP, or domain through the route's resolvers) is
// in ps; inv negates.  A failed resolution is E whatever inv says.
func (r *cRoute) resolveAndTest(ps []netip.Prefix, rq *request, inv bool) uint8 {
	if rq.isIP() {
		return b2v(inPrefixes(ps, rq.ip) != inv)
	}
	var out uint8
	done := false
loop:
	for _, k := range r.resolvers {
		b := rq.Beh[k]
		switch b.Kind {
		case "fail": // this resolver could not look the name up: next one
		case "ans":
			out |= b2v(inPrefixes(ps, b.IP) != inv)
			done = true
			break loop
		default: // "noaddr", "other": a resolver failure -> error.  Whether a later
			// resolver may still be asked is not documented: both readings allowed.
			out |= vE
		}
	}
	if !done {
		out |= vE // no resolver produced an address
	}
	return out
}

// match evaluates one route.
func (r *cRoute) match(rq *request) uint8 {
	s := r.s
	conds := make([]uint8, 0, 8)
	if s.Network != "" {
		conds = append(conds, b2v(s.Network == rq.Net))
	}
	if len(s.Servers) > 0 {
		in := false
		for _, n := range s.Servers {
			in = in || n == serverNames[rq.Server]
		}
		conds = append(conds, b2v(in != s.InvServers))
	}
	if len(s.Users) > 0 {
		in := false
		for _, u := range s.Users {
			in = in || u == rq.User
		}
		conds = append(conds, b2v(in != s.InvUsers))
	}
	if s.FromPorts != nil {
		conds = append(conds, b2v(s.FromPorts.contains(rq.Src.Port()) != s.InvFromPorts))
	}
	if s.hasFrom() { // source-address kinds OR-ed (only the prefix kind is available without GeoIP)
		conds = append(conds, b2v(inPrefixes(r.from, rq.Src.Addr()) != s.InvFrom))
	}
	if s.ToPorts != nil {
		conds = append(conds, b2v(s.ToPorts.contains(rq.TPort) != s.InvToPorts))
	}
	if s.hasDomains() || s.hasTo() { // destination kinds OR-ed
		var kinds []uint8
		if s.hasDomains() {
			dm := !rq.isIP() && r.dom[rq.Host]
			if !s.hasExp() {
				kinds = append(kinds, b2v(dm != s.InvDomains))
			} else {
				x := r.resolveAndTest(r.exp, rq, s.InvExp)
				a := vAnd(b2v(dm), x) // "require the matched domain target to resolve to ..."
				if !s.InvDomains {
					kinds = append(kinds, a)
				} else {
					// inverted domains together with an expectation on the
					// "matched domain" is not pinned down by the comments:
					// accept not(domain∧expectation) and (not domain)∧expectation.
					kinds = append(kinds, vNot(a)|vAnd(b2v(!dm), x))
				}
			}
		}
		if s.hasTo() {
			if s.Disable {
				kinds = append(kinds, b2v((rq.isIP() && inPrefixes(r.to, rq.ip)) != s.InvTo))
			} else {
				kinds = append(kinds, r.resolveAndTest(r.to, rq, s.InvTo))
			}
		}
		conds = append(conds, vOr(kinds...))
	}
	return vAnd(conds...)
}

// route gives the permitted outcomes and, when the verdict is forced by a
// definite match of one route (all earlier routes definitely not matching),
// that route's index (len(routes) = default), else -1.
func (c *cCfg) route(rq *request) (allowed uint16, decisive int) {
	definite := true
	for i := range c.routes {
		m := c.routes[i].match(rq)
		if m&vT != 0 {
			allowed |= c.routes[i].clientBit
		}
		if m&vE != 0 {
			allowed |= oError
		}
		if m&vF == 0 {
			if definite && m == vT {
				return allowed, i
			}
			return allowed, -1
		}
		if m != vF {
			definite = false
		}
	}
	if rq.Net == "tcp" {
		allowed |= c.defTCP
	} else {
		allowed |= c.defUDP
	}
	if definite {
		return allowed, len(c.routes)
	}
	return allowed, -1
}
