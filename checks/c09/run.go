package main

import (
	"context"
	"encoding/json"
	"errors"
	"fmt"
	"net/netip"
	"strings"

	"github.com/database64128/shadowsocks-go/conn"
	"github.com/database64128/shadowsocks-go/dns"
	"github.com/database64128/shadowsocks-go/netio"
	"github.com/database64128/shadowsocks-go/portset"
	"github.com/database64128/shadowsocks-go/router"
	"github.com/database64128/shadowsocks-go/zerocopy"
	"go.uber.org/zap"
)

// Fake clients, identified by index.
type fakeTCP struct{ idx int }

func (f *fakeTCP) DialStream(ctx context.Context, addr conn.Addr, payload []byte) (netio.Conn, error) {
	return nil, errors.New("fake client")
}
func (f *fakeTCP) NewStreamDialer() (netio.StreamDialer, netio.StreamDialerInfo) {
	return f, netio.StreamDialerInfo{Name: fmt.Sprintf("c%d", f.idx)}
}

type fakeUDP struct{ idx int }

func (f *fakeUDP) Info() zerocopy.UDPClientInfo {
	return zerocopy.UDPClientInfo{Name: fmt.Sprintf("c%d", f.idx)}
}
func (f *fakeUDP) NewSession(ctx context.Context) (zerocopy.UDPClientSessionInfo, zerocopy.UDPClientSession, error) {
	return zerocopy.UDPClientSessionInfo{}, zerocopy.UDPClientSession{}, errors.New("fake client")
}

var errOther = errors.New("scripted resolver error (not dns.ErrLookup)")

// Scripted resolver: behaviour is set per request by the worker.
type resolver struct {
	idx int
	w   *worker
}

func (r *resolver) LookupIP(ctx context.Context, name string) (netip.Addr, error) {
	r.w.calls[r.idx]++
	if name != r.w.wantName {
		r.w.foreignName = name
	}
	b := r.w.beh[r.idx]
	switch b.Kind {
	case "ans":
		return b.IP, nil
	case "noaddr":
		return netip.Addr{}, dns.ErrDomainNoAssociatedIPs
	case "fail":
		return netip.Addr{}, dns.ErrLookup
	}
	return netip.Addr{}, errOther
}

func (r *resolver) LookupIPs(ctx context.Context, name string) ([]netip.Addr, error) {
	ip, err := r.LookupIP(ctx, name)
	if err != nil {
		if err == dns.ErrDomainNoAssociatedIPs {
			return nil, nil
		}
		return nil, err
	}
	return []netip.Addr{ip}, nil
}

// worker owns one set of fakes; never shared between goroutines.
type worker struct {
	dir         string
	logger      *zap.Logger
	res         [2]*resolver
	beh         [2]behaviour
	calls       [2]int
	wantName    string
	foreignName string
	tcp         [8]*fakeTCP
	udp         [8]*fakeUDP
	servers     map[string]int
	ctx         context.Context
}

func newWorker(dir string) *worker {
	w := &worker{dir: dir, logger: zap.NewNop(), servers: map[string]int{}, ctx: context.Background()}
	for i := range w.res {
		w.res[i] = &resolver{idx: i, w: w}
	}
	for i := range w.tcp {
		w.tcp[i] = &fakeTCP{i}
		w.udp[i] = &fakeUDP{i}
	}
	for i, n := range serverNames {
		w.servers[n] = i
	}
	return w
}

type built struct {
	rt      *router.Router
	err     error
	panicV  any
	cfgJSON []byte
}

// build loads the configuration through the real loader: JSON text ->
// router.Config -> Config.Router.
func (w *worker) build(c *cfgSpec, resolvers int) built {
	return w.buildJSON(c.configJSON(w.dir), resolvers, c.nTCP(), c.nUDP())
}

func (w *worker) buildRaw(cfgJSON []byte, resolvers int) built {
	return w.buildJSON(cfgJSON, resolvers, 2, 2)
}

func (w *worker) buildJSON(cfgJSON []byte, resolvers, clients, udpClients int) (b built) {
	b.cfgJSON = cfgJSON
	var rc router.Config
	if err := json.Unmarshal(b.cfgJSON, &rc); err != nil {
		b.err = fmt.Errorf("config JSON rejected: %w", err)
		return
	}
	tm := map[string]netio.StreamClient{}
	um := map[string]zerocopy.UDPClient{}
	for i := 0; i < clients; i++ {
		tm[fmt.Sprintf("c%d", i)] = w.tcp[i]
	}
	for i := 0; i < udpClients; i++ {
		um[fmt.Sprintf("c%d", i)] = w.udp[i]
	}
	var rl []dns.SimpleResolver
	rmap := map[string]dns.SimpleResolver{}
	for i := 0; i < resolvers; i++ {
		rl = append(rl, w.res[i])
		rmap[fmt.Sprintf("r%d", i)] = w.res[i]
	}
	defer func() {
		if p := recover(); p != nil {
			b.panicV = p
			b.rt = nil
		}
	}()
	b.rt, b.err = rc.Router(w.logger, rl, rmap, tm, um, w.servers)
	return
}

type result struct {
	got     uint16
	panicV  any
	err     error
	calls   [2]int
	foreign string
}

// exec applies one request to the real router.
func (w *worker) exec(rt *router.Router, rq *request) (res result) {
	w.beh = rq.Beh
	w.calls = [2]int{}
	w.wantName = rq.Host
	w.foreignName = ""
	var target conn.Addr
	if rq.isIP() {
		target = conn.AddrFromIPAndPort(rq.ip, rq.TPort)
	} else {
		target = conn.MustAddrFromDomainPort(rq.Host, rq.TPort)
	}
	ri := router.RequestInfo{ServerIndex: rq.Server, Username: rq.User, SourceAddrPort: rq.Src, TargetAddr: target}
	defer func() {
		if p := recover(); p != nil {
			res.got = oPanic
			res.panicV = p
		}
		res.calls = w.calls
		res.foreign = w.foreignName
	}()
	var err error
	idx := -1
	if rq.Net == "tcp" {
		var cl netio.StreamClient
		cl, err = rt.GetTCPClient(w.ctx, ri)
		if err == nil {
			if f, ok := cl.(*fakeTCP); ok && f != nil {
				idx = f.idx
			}
		}
	} else {
		var cl zerocopy.UDPClient
		cl, err = rt.GetUDPClient(w.ctx, ri)
		if err == nil {
			if f, ok := cl.(*fakeUDP); ok && f != nil {
				idx = f.idx
			}
		}
	}
	switch {
	case err == router.ErrRejected:
		res.got = oReject
	case err != nil:
		res.got = oError
		res.err = err
	case idx >= 0:
		res.got = oClient(idx)
	default:
		res.got = 0 // nil client without error
	}
	return
}

// failure is one case whose observed behaviour the reference does not permit.
type failure struct {
	class   string // panic-port0 | panic | mismatch | lookup
	cfg     *cfgSpec
	rq      request
	got     uint16
	allowed uint16
	detail  string
}

// judge compares one execution with the reference; "" = fine.
func judge(cc *cCfg, rq *request, res *result, allowed uint16) (class, detail string) {
	if res.got == oPanic {
		if e, ok := res.panicV.(error); ok && e == portset.ErrZeroPort {
			return "panic-port0", fmt.Sprint(res.panicV)
		}
		return "panic", fmt.Sprint(res.panicV)
	}
	if res.got&allowed == 0 {
		d := ""
		if res.err != nil {
			d = "error: " + res.err.Error()
		}
		return "mismatch", d
	}
	// Name resolution is only for domain targets, only for routes whose IP
	// conditions apply to domains, only through the resolvers those routes
	// name, and only for the requested name.
	if res.calls[0]+res.calls[1] > 0 {
		switch {
		case rq.isIP():
			return "lookup", "resolver consulted for an IP target"
		case res.foreign != "":
			return "lookup", "resolver asked for " + res.foreign + " instead of the requested name"
		case !cc.mayConsult[0] && !cc.mayConsult[1]:
			return "lookup", "resolver consulted although no route applies IP conditions to domain targets"
		case res.calls[0] > 0 && !cc.mayConsult[0]:
			return "lookup", "resolver r0 consulted although every resolving route names r1"
		case res.calls[1] > 0 && !cc.mayConsult[1]:
			return "lookup", "resolver r1 consulted although every resolving route names r0"
		}
	}
	return "", ""
}

// runCase builds cfg and runs rq; used by shrinking and replay.  ok=false
// means the configuration did not load.
func (w *worker) runCase(c *cfgSpec, rq *request) (f *failure, loaded bool) {
	b := w.build(c, 2)
	if b.rt == nil {
		return nil, false
	}
	defer b.rt.Close()
	cc := compile(c)
	allowed, _ := cc.route(rq)
	res := w.exec(b.rt, rq)
	class, detail := judge(cc, rq, &res, allowed)
	if class == "" {
		return nil, true
	}
	return &failure{class: class, cfg: c, rq: *rq, got: res.got, allowed: allowed, detail: detail}, true
}

// baseline request values used when shrinking.
var baseReq = request{Net: "tcp", Server: 0, User: "a", Src: netip.MustParseAddrPort("10.1.2.3:443"), Host: "10.9.9.9", TPort: 443,
	Beh: [2]behaviour{{Kind: "ans", IP: netip.MustParseAddr("10.9.9.9")}, {Kind: "ans", IP: netip.MustParseAddr("8.8.8.8")}}}

// shrink greedily simplifies a failing case while it keeps failing in the
// same class; deterministic.
func (w *worker) shrink(f *failure) *failure {
	cur := f
	try := func(c *cfgSpec, rq request) bool {
		rq.fix()
		nf, loaded := w.runCase(c, &rq)
		if !loaded || nf == nil || nf.class != cur.class {
			return false
		}
		cur = nf
		return true
	}
	for changed := true; changed; {
		changed = false
		// fewer routes
		for i := 0; i < len(cur.cfg.Routes); i++ {
			c := cur.cfg.clone()
			c.Routes = append(c.Routes[:i:i], c.Routes[i+1:]...)
			if try(c, cur.rq) {
				changed = true
				i--
			}
		}
		// fewer conditions per route
		for i := range cur.cfg.Routes {
			edits := []func(r *routeSpec) bool{
				func(r *routeSpec) bool { ok := r.Network != ""; r.Network = ""; return ok },
				func(r *routeSpec) bool { ok := len(r.Servers) > 0; r.Servers, r.InvServers = nil, false; return ok },
				func(r *routeSpec) bool { ok := len(r.Users) > 0; r.Users, r.InvUsers = nil, false; return ok },
				func(r *routeSpec) bool { ok := r.FromPorts != nil; r.FromPorts, r.InvFromPorts = nil, false; return ok },
				func(r *routeSpec) bool {
					ok := r.hasFrom()
					r.FromPrefixes, r.FromPrefixSets, r.InvFrom = nil, nil, false
					return ok
				},
				func(r *routeSpec) bool { ok := r.ToPorts != nil; r.ToPorts, r.InvToPorts = nil, false; return ok },
				func(r *routeSpec) bool {
					ok := r.hasExp()
					r.ExpPrefixes, r.ExpPrefixSets, r.InvExp = nil, nil, false
					return ok
				},
				func(r *routeSpec) bool {
					ok := r.hasDomains() && !r.hasExp()
					if ok {
						r.ToDomains, r.ToDomainSets, r.InvDomains = nil, nil, false
					}
					return ok
				},
				func(r *routeSpec) bool {
					ok := r.hasTo()
					r.ToPrefixes, r.ToPrefixSets, r.InvTo = nil, nil, false
					return ok
				},
				func(r *routeSpec) bool { ok := r.Disable; r.Disable = false; return ok },
				func(r *routeSpec) bool { ok := r.Resolver != ""; r.Resolver = ""; return ok },
				func(r *routeSpec) bool { ok := r.InvServers; r.InvServers = false; return ok },
				func(r *routeSpec) bool { ok := r.InvUsers; r.InvUsers = false; return ok },
				func(r *routeSpec) bool { ok := r.InvFromPorts; r.InvFromPorts = false; return ok },
				func(r *routeSpec) bool { ok := r.InvFrom; r.InvFrom = false; return ok },
				func(r *routeSpec) bool { ok := r.InvToPorts; r.InvToPorts = false; return ok },
				func(r *routeSpec) bool { ok := r.InvDomains; r.InvDomains = false; return ok },
				func(r *routeSpec) bool { ok := r.InvExp; r.InvExp = false; return ok },
				func(r *routeSpec) bool { ok := r.InvTo; r.InvTo = false; return ok },
				func(r *routeSpec) bool {
					ok := r.FromPorts != nil && r.FromPorts != pSingle
					r.FromPorts = pSingle
					return ok
				},
				func(r *routeSpec) bool {
					ok := r.ToPorts != nil && r.ToPorts != pSingle
					r.ToPorts = pSingle
					return ok
				},
				func(r *routeSpec) bool {
					ok := len(r.FromPrefixSets) > 0
					r.FromPrefixes, r.FromPrefixSets = []string{"10.0.0.0/8"}, nil
					return ok
				},
				func(r *routeSpec) bool {
					ok := len(r.ToPrefixSets) > 0
					r.ToPrefixes, r.ToPrefixSets = []string{"10.0.0.0/8"}, nil
					return ok
				},
				func(r *routeSpec) bool {
					ok := len(r.ExpPrefixSets) > 0
					r.ExpPrefixes, r.ExpPrefixSets = []string{"10.9.0.0/16"}, nil
					return ok
				},
				func(r *routeSpec) bool { ok := r.Client != "reject" && r.Client != "c1"; r.Client = "c1"; return ok },
				func(r *routeSpec) bool {
					ok := r.hasDomains() && !(len(r.ToDomains) == 1 && len(r.ToDomainSets) == 0)
					r.ToDomains, r.ToDomainSets = []string{"example.com"}, nil
					return ok
				},
			}
			for _, e := range edits {
				c := cur.cfg.clone()
				if !e(&c.Routes[i]) {
					continue
				}
				if try(c, cur.rq) {
					changed = true
				}
			}
		}
		if cur.cfg.DefaultTCP != "c0" || cur.cfg.DefaultUDP != "c0" {
			c := cur.cfg.clone()
			c.DefaultTCP, c.DefaultUDP = "c0", "c0"
			if try(c, cur.rq) {
				changed = true
			}
		}
		if cur.cfg.Clients > 2 {
			c := cur.cfg.clone()
			c.Clients = 2
			if try(c, cur.rq) {
				changed = true
			}
		}
		// simpler request
		redits := []func(r *request) bool{
			func(r *request) bool { ok := r.Net != baseReq.Net; r.Net = baseReq.Net; return ok },
			func(r *request) bool { ok := r.Server != 0; r.Server = 0; return ok },
			func(r *request) bool { ok := r.User != "a"; r.User = "a"; return ok },
			func(r *request) bool {
				ok := r.Src.Port() != 443
				r.Src = netip.AddrPortFrom(r.Src.Addr(), 443)
				return ok
			},
			func(r *request) bool {
				ok := r.Src.Addr() != baseReq.Src.Addr()
				r.Src = netip.AddrPortFrom(baseReq.Src.Addr(), r.Src.Port())
				return ok
			},
			func(r *request) bool { ok := r.TPort != 443; r.TPort = 443; return ok },
			func(r *request) bool { ok := r.Host != baseReq.Host; r.Host = baseReq.Host; return ok },
			func(r *request) bool { ok := r.Host != "example.com" && !r.isIP(); r.Host = "example.com"; return ok },
			func(r *request) bool { ok := r.Beh != baseReq.Beh; r.Beh = baseReq.Beh; return ok },
			func(r *request) bool { ok := r.Beh[1] != baseReq.Beh[1]; r.Beh[1] = baseReq.Beh[1]; return ok },
		}
		for _, e := range redits {
			rq := cur.rq
			if !e(&rq) {
				continue
			}
			if try(cur.cfg, rq) {
				changed = true
			}
		}
	}
	return cur
}

// reqShape names the request dimensions that differ from the baseline request
// (values are in the violation text and the replay file, not in the signature).
func reqShape(r *request) string {
	var s []string
	if r.Net != "tcp" {
		s = append(s, "net=udp")
	}
	if r.Server != 0 {
		s = append(s, "server")
	}
	if r.User != "a" {
		s = append(s, "user")
	}
	if r.Src.Port() == 0 {
		s = append(s, "srcPort=0")
	} else if r.Src.Port() != 443 {
		s = append(s, "srcPort")
	}
	if a := r.Src.Addr(); a != baseReq.Src.Addr() {
		switch {
		case a.Is4In6():
			s = append(s, "src=v4-mapped")
		case a.Is6():
			s = append(s, "src=v6")
		default:
			s = append(s, "src")
		}
	}
	if r.TPort == 0 {
		s = append(s, "dstPort=0")
	} else if r.TPort != 443 {
		s = append(s, "dstPort")
	}
	if r.Host != baseReq.Host {
		switch {
		case !r.isIP():
			s = append(s, "target=domain")
		case r.ip.Is4In6():
			s = append(s, "target=v4-mapped-ip")
		case r.ip.Is6():
			s = append(s, "target=v6-ip")
		default:
			s = append(s, "target=ip")
		}
	}
	if !r.isIP() && r.Beh != baseReq.Beh {
		s = append(s, "r0="+r.Beh[0].Kind, "r1="+r.Beh[1].Kind)
	}
	if len(s) == 0 {
		return "baseline"
	}
	return strings.Join(s, ",")
}

// roleNames names outcomes by role (which route's client), not by client name.
func (f *failure) roleNames(m uint16) string {
	var s []string
	for i := 0; i < 8; i++ {
		if m&oClient(i) == 0 {
			continue
		}
		role := fmt.Sprintf("client c%d (no route's client)", i)
		if i == 0 {
			role = "client c0 (no route's client; the named default)"
		}
		for p := range f.cfg.Routes {
			if f.cfg.Routes[p].Client == fmt.Sprintf("c%d", i) {
				role = fmt.Sprintf("route %d's client", p+1)
			}
		}
		s = append(s, role)
	}
	if m&oReject != 0 {
		s = append(s, "ErrRejected")
	}
	if m&oError != 0 {
		s = append(s, "error")
	}
	if m&oPanic != 0 {
		s = append(s, "panic")
	}
	if len(s) == 0 {
		return "nothing"
	}
	return strings.Join(s, " | ")
}

// signature names the failing shape (after shrinking).
func (f *failure) signature() string {
	if f.class == "panic-port0" && len(f.cfg.Routes) == 1 {
		r := f.cfg.Routes[0]
		if (r.FromPorts != nil && r.FromPorts.rep() == "bitset" && f.rq.Src.Port() == 0) ||
			(r.ToPorts != nil && r.ToPorts.rep() == "bitset" && f.rq.TPort == 0) {
			return "port0-bitset-criterion"
		}
	}
	switch f.class {
	case "panic", "panic-port0":
		return "panic: " + f.cfg.shape() + " req[" + reqShape(&f.rq) + "]"
	case "lookup":
		return "lookup: " + f.cfg.shape() + " req[" + reqShape(&f.rq) + "]: " + f.detail
	}
	return "mismatch: " + f.cfg.shape() + " req[" + reqShape(&f.rq) + "]: got " + f.roleNames(f.got) + ", reference allows " + f.roleNames(f.allowed)
}

func (f *failure) what(dir string) string {
	d := ""
	if f.detail != "" {
		d = " (" + f.detail + ")"
	}
	cj := strings.ReplaceAll(string(f.cfg.configJSON(dir)), dir+"/", "")
	return fmt.Sprintf("router config %s ; request %s ; observed %s%s ; reference allows %s", cj, f.rq.String(), outcomeNames(f.got), d, outcomeNames(f.allowed))
}

func (f *failure) replay() map[string]any {
	return map[string]any{"kind": "case", "config": f.cfg, "request": f.rq}
}
