// C04: authenticated UDP packets are delivered at most once; fresh ones are
// never refused.  Part 1 (filter.go): the sliding-window filter against a
// set-based reference over all ID sequences to a fixed depth.  Part 2
// (packet.go + this file): histories of genuine, duplicated, reordered, forged,
// stale, wrong-direction, foreign-session and old/new/third-server-session
// packets through the real SS2022 UDP packers/unpackers on a virtual clock.
package main

import (
	"encoding/json"
	"flag"
	"fmt"
	"os"
	"os/exec"
	"sort"
	"strconv"
	"strings"
	"sync"
	"time"

	"verif/harness"
)

// ---------------------------------------------------------------------------
// the plan of part 2: groups of histories

type group struct {
	Side   byte
	Cfg    pcfg
	Prefix []pop
	Depth  int
	Alpha  []pop
	Name   string
}

func dedupeIDs(v []uint64) []uint64 {
	var out []uint64
	for _, x := range v {
		dup := false
		for _, y := range out {
			dup = dup || x == y
		}
		if !dup {
			out = append(out, x)
		}
	}
	return out
}

func serverAlphabet(w uint64, inv []uint64) []pop {
	var a []pop
	for _, id := range dedupeIDs([]uint64{0, 1, w, w + 1, maxU64}) {
		a = append(a, pop{K: 'G', ID: id})
	}
	for _, k := range []byte{'F', '-', '+', 'T', 'X'} {
		for _, id := range inv {
			a = append(a, pop{K: k, ID: id})
		}
	}
	for _, s := range []int{59, 60, 61} {
		a = append(a, pop{K: 'A', Sec: s})
	}
	return a
}

func clientAlphabet(w uint64, inv []uint64) []pop {
	var a []pop
	for s := 0; s < 3; s++ {
		for _, id := range dedupeIDs([]uint64{0, 1, w + 1, maxU64}) {
			a = append(a, pop{K: 'G', S: s, ID: id})
		}
	}
	for _, k := range []byte{'F', '-', '+', 'T', 'X'} {
		for s := 0; s < 2; s++ {
			for _, id := range inv {
				a = append(a, pop{K: k, S: s, ID: id})
			}
		}
	}
	a = append(a, pop{K: 'B', ID: inv[len(inv)-1]}, pop{K: 'R', ID: inv[len(inv)-1]})
	for _, s := range []int{59, 60, 61} {
		a = append(a, pop{K: 'A', Sec: s})
	}
	return a
}

var clientPrefixes = [][]pop{
	{},
	{{K: 'G', S: 0, ID: 0}, {K: 'A', Sec: 61}},
	{{K: 'G', S: 0, ID: 0}, {K: 'A', Sec: 61}, {K: 'G', S: 1, ID: 0}},
	{{K: 'G', S: 0, ID: 0}, {K: 'A', Sec: 61}, {K: 'G', S: 1, ID: 0}, {K: 'A', Sec: 61}},
	{{K: 'G', S: 0, ID: 0}, {K: 'A', Sec: 61}, {K: 'G', S: 1, ID: 0}, {K: 'A', Sec: 61}, {K: 'G', S: 2, ID: 0}},
}

func plan(tier string) []group {
	var gs []group
	add := func(side byte, cfg pcfg, prefix []pop, depth int, inv []uint64) {
		g := group{Side: side, Cfg: cfg, Prefix: prefix, Depth: depth}
		if side == 's' {
			g.Alpha = serverAlphabet(cfg.window(), inv)
		} else {
			g.Alpha = clientAlphabet(cfg.window(), inv)
		}
		g.Name = fmt.Sprintf("%c|%s|prefix=%v|depth=%d", side, cfg, popsString(prefix), depth)
		gs = append(gs, g)
	}
	var cfgs []pcfg
	for _, kl := range []int{16, 32} {
		for _, eih := range []bool{false, true} {
			cfgs = append(cfgs, pcfg{KeyLen: kl, EIH: eih, FSize: 2})
		}
	}
	one := []uint64{maxU64}
	two := []uint64{1, maxU64}
	if tier == "quick" {
		for _, c := range cfgs {
			add('s', c, nil, 5, one)
		}
		add('s', cfgs[0], nil, 6, one)
		add('s', pcfg{KeyLen: 16, FSize: 0}, nil, 5, one)
		add('s', pcfg{KeyLen: 32, EIH: true, FSize: 64}, nil, 5, one)
		for _, c := range cfgs {
			for _, p := range clientPrefixes {
				add('c', c, p, 4, one)
			}
		}
		add('c', pcfg{KeyLen: 16, FSize: 0}, clientPrefixes[2], 4, one)
		return gs
	}
	for _, fs := range []uint64{2, 64, 0} {
		for i, c := range cfgs {
			c.FSize = fs
			add('s', c, nil, map[bool]int{true: 6, false: 5}[fs == 2], two)
			if fs == 2 && i == 0 {
				add('s', c, nil, 7, one)
			}
		}
	}
	for _, fs := range []uint64{2, 0} {
		for i, c := range cfgs {
			c.FSize = fs
			for _, p := range clientPrefixes {
				add('c', c, p, 4, two)
				if fs == 2 && (i == 0 || i == 3) {
					add('c', c, p, 5, one)
				}
			}
		}
	}
	return gs
}

// ---------------------------------------------------------------------------
// worker: enumerates the histories of its share of the plan

type pviol struct {
	Sig     string   `json:"sig"`
	What    string   `json:"what"`
	Group   int      `json:"group"`
	Side    string   `json:"side"`
	Cfg     pcfg     `json:"cfg"`
	History []string `json:"history"`
}

func pviolLess(a, b *pviol) bool {
	if len(a.History) != len(b.History) {
		return len(a.History) < len(b.History)
	}
	if a.Group != b.Group {
		return a.Group < b.Group
	}
	return strings.Join(a.History, ",") < strings.Join(b.History, ",")
}

type gstat struct {
	Histories int64 `json:"histories"`
	Ops       int64 `json:"real_pack_unpack_calls"`
	Delivers  int64 `json:"deliveries"`
}

type wres struct {
	Groups   []gstat           `json:"groups"`
	Viol     map[string]*pviol `json:"viol"`
	States   []uint64          `json:"states"`
	Verdicts map[string]int64  `json:"verdicts"`
	Capped   string            `json:"capped,omitempty"`
}

func sidePrefix(sig string) string {
	if i := strings.Index(sig, "/"); i >= 0 {
		return sig[:i]
	}
	return sig
}

func hash64(s string) uint64 {
	h := uint64(1469598103934665603)
	for i := 0; i < len(s); i++ {
		h ^= uint64(s[i])
		h *= 1099511628211
	}
	return h
}

type enumerator struct {
	g        group
	gi       int
	e        *penv
	seq      []pop
	shardI   int
	shardN   int
	taskCtr  *int64
	res      *wres
	st       *pstats
	states   map[uint64]struct{}
	deadline time.Time
	stop     bool
	blamed   map[string]string
}

func usedSessions(seq []pop) int {
	u := 0
	for _, o := range seq {
		if o.K != 'A' && o.K != 'B' && o.K != 'R' && o.S+1 > u {
			u = o.S + 1
		}
	}
	return u
}

// rec returns the index of a violating step shared by everything below the
// caller (so the caller can stop extending that prefix), or -1.
func (en *enumerator) rec(level int) int {
	if en.stop {
		return -1
	}
	if level == en.g.Depth {
		r, err := runHistory(en.e, en.g.Side, en.seq, en.st, false)
		if err != nil {
			harness.Fatal("%v", err)
		}
		gs := &en.res.Groups[en.gi]
		gs.Histories++
		gs.Ops += r.ops
		gs.Delivers += r.delivers
		en.states[hash64(string(en.g.Side)+r.stateKey)] = struct{}{}
		if r.violStep >= 0 {
			pk := strings.Join(popsString(en.seq[:r.violStep+1]), ",")
			sig, ok := en.blamed[pk]
			if !ok {
				sig = r.sig
				if b := blame(en.e, en.g.Side, en.seq, r.violStep); b != "" {
					sig = sidePrefix(r.sig) + "/rejected-" + b + "-packet-changes-later-verdicts"
					if b == "several" {
						sig = sidePrefix(r.sig) + "/rejected-packets-together-change-later-verdicts"
					}
				}
				en.blamed[pk] = sig
			}
			v := &pviol{Sig: sig, What: r.what, Group: en.gi, Side: string(en.g.Side), Cfg: en.g.Cfg, History: popsString(en.seq[:r.violStep+1])}
			if old, ok := en.res.Viol[sig]; !ok || pviolLess(v, old) {
				en.res.Viol[sig] = v
			}
		}
		if !en.deadline.IsZero() && gs.Histories%256 == 0 && time.Now().After(en.deadline) {
			en.stop = true
			en.res.Capped = fmt.Sprintf("time budget reached inside group %d (%s)", en.gi, en.g.Name)
		}
		return r.violStep
	}
	used := usedSessions(en.seq)
	for _, o := range en.g.Alpha {
		if o.K != 'A' && o.K != 'B' && o.K != 'R' && en.g.Side == 'c' && o.S > used {
			continue // sessions are interchangeable: introduce them in order
		}
		if level == min(2, en.g.Depth)-1 {
			// task gate: subtrees below level-2 nodes are dealt round robin to the shards
			*en.taskCtr++
			if int(*en.taskCtr)%en.shardN != en.shardI {
				continue
			}
		}
		en.seq = append(en.seq, o)
		k := en.rec(level + 1)
		en.seq = en.seq[:len(en.seq)-1]
		if k >= 0 && k < len(en.seq) && level >= 2 {
			// every further sibling shares the violating prefix; levels 0 and 1
			// are never cut short so that the task counter stays in step in all shards
			return k
		}
	}
	return -1
}

func workerMain(shard, tier string, budget time.Duration) {
	var i, n int
	fmt.Sscanf(shard, "%d/%d", &i, &n)
	if n <= 0 {
		n = 1
	}
	gs := plan(tier)
	res := &wres{Groups: make([]gstat, len(gs)), Viol: map[string]*pviol{}, Verdicts: map[string]int64{}}
	st := &pstats{Verdicts: res.Verdicts}
	states := map[uint64]struct{}{}
	envs := map[pcfg]*penv{}
	var ctr int64
	var deadline time.Time
	if budget > 0 {
		deadline = time.Now().Add(budget)
	}
	for gi, g := range gs {
		e := envs[g.Cfg]
		if e == nil {
			var err error
			if e, err = newPenv(g.Cfg); err != nil {
				harness.Fatal("config %s: %v", g.Cfg, err)
			}
			envs[g.Cfg] = e
		}
		en := &enumerator{g: g, gi: gi, e: e, seq: append([]pop(nil), g.Prefix...), shardI: i, shardN: n, taskCtr: &ctr, res: res, st: st, states: states, deadline: deadline, blamed: map[string]string{}}
		en.g.Depth = g.Depth
		// levels count enumerated ops only; the prefix is already in seq
		en.recFrom()
		if en.stop {
			break
		}
	}
	for h := range states {
		res.States = append(res.States, h)
	}
	sort.Slice(res.States, func(a, b int) bool { return res.States[a] < res.States[b] })
	b, _ := json.Marshal(res)
	os.Stdout.Write(b)
	os.Exit(0)
}

func (en *enumerator) recFrom() { en.rec(0) }

// ---------------------------------------------------------------------------
// parent side of part 2

func packetPart(c *harness.Check, budget time.Duration) {
	gs := plan(c.Tier)
	n := harness.Workers()
	outs := make([]*wres, n)
	var wg sync.WaitGroup
	for i := 0; i < n; i++ {
		wg.Add(1)
		go func(i int) {
			defer wg.Done()
			cmd := exec.Command(os.Args[0], "--worker", "c04pkt", "--shard", fmt.Sprintf("%d/%d", i, n), "--param", c.Tier, "--budget", budget.String())
			cmd.Env = append(os.Environ(), "GOMAXPROCS=1")
			cmd.Stderr = os.Stderr
			o, err := cmd.Output()
			if err != nil {
				harness.Fatal("packet worker %d failed: %v", i, err)
			}
			var r wres
			if err := json.Unmarshal(o, &r); err != nil {
				harness.Fatal("packet worker %d: bad output: %v", i, err)
			}
			outs[i] = &r
		}(i)
	}
	wg.Wait()
	tot := make([]gstat, len(gs))
	states := map[uint64]struct{}{}
	verdicts := map[string]int64{}
	best := map[string]*pviol{}
	for _, r := range outs {
		for gi := range r.Groups {
			tot[gi].Histories += r.Groups[gi].Histories
			tot[gi].Ops += r.Groups[gi].Ops
			tot[gi].Delivers += r.Groups[gi].Delivers
		}
		for _, h := range r.States {
			states[h] = struct{}{}
		}
		for k, v := range r.Verdicts {
			verdicts[k] += v
		}
		for s, v := range r.Viol {
			if old, ok := best[s]; !ok || pviolLess(v, old) {
				best[s] = v
			}
		}
		if r.Capped != "" {
			c.Cap(r.Capped)
		}
	}
	var hist, ops int64
	var groupsOut []map[string]any
	for gi, g := range gs {
		hist += tot[gi].Histories
		ops += tot[gi].Ops
		side := "server-unpacker"
		if g.Side == 'c' {
			side = "client-unpacker"
		}
		groupsOut = append(groupsOut, map[string]any{"under_test": side, "config": g.Cfg.String(), "prefix": popsString(g.Prefix), "depth_after_prefix": g.Depth, "alphabet_size": len(g.Alpha), "histories": tot[gi].Histories, "deliveries": tot[gi].Delivers, "real_pack_unpack_calls": tot[gi].Ops})
	}
	for h := range states {
		c.Distinct("pkt-state|"+strconv.FormatUint(h, 16), true)
	}
	c.Count(hist, int64(len(states)), ops)
	var sigs []string
	for s := range best {
		sigs = append(sigs, s)
	}
	sort.Slice(sigs, func(i, j int) bool {
		a, b := best[sigs[i]], best[sigs[j]]
		if pviolLess(a, b) != pviolLess(b, a) {
			return pviolLess(a, b)
		}
		return sigs[i] < sigs[j]
	})
	for _, s := range sigs {
		v := best[s]
		c.Violation(s, v.What, map[string]any{"part": "packet", "side": v.Side, "cfg": v.Cfg, "history": v.History})
	}
	either := map[string]int64{}
	for k, v := range verdicts {
		if strings.Contains(k, "new-session:within-a-minute-of-first-session") || strings.Contains(k, "exactly-a-minute") || strings.Contains(k, "old-session-traffic-within-last-minute") {
			either[k] = v
		}
	}
	sa := serverAlphabet(2, []uint64{maxU64})
	ca := clientAlphabet(2, []uint64{maxU64})
	c.Part("packets", map[string]any{
		"ops":                             "G genuine (server session S, packet ID; a repeated op re-delivers the same bytes) | F forged tag | - timestamp 31 s old | + timestamp 31 s ahead (valid later) | T wrong direction type, re-sealed with the right key | X foreign client session | B real server packet for another client session | R client's own packet reflected | A advance clock 59/60/61 s",
		"server_alphabet_window2":         popsString(sa),
		"client_alphabet_window2":         popsString(ca),
		"session_symmetry":                "client side: server sessions 0,1,2 are introduced in order (they are interchangeable)",
		"client_prefixes":                 prefixStrings(),
		"groups":                          groupsOut,
		"histories":                       hist,
		"distinct_reference_states":       len(states),
		"situation_x_real_verdict":        verdicts,
		"statement_silent_zones_observed": either,
		"worker_processes":                n,
		"packet_ids_set_through":          "overlay_static/ss2022/c04_export.go (packer packet-ID setters)",
	})
	c.Sample(map[string]any{"part": "packets", "under_test": "client-unpacker", "history": []string{"G:0:0", "A:61", "G:1:0", "G:0:0", "F:1:18446744073709551615", "G:1:1"}, "meaning": "server session 0 delivers id 0; 61 s later session 1 takes over; the replay of session 0's packet must be refused; a forged session-1 packet with id 2^64-1 must be refused and must not stop the genuine id 1 from being delivered"})
	c.Sample(map[string]any{"part": "packets", "under_test": "server-unpacker", "history": []string{"G:0:3", "G:0:1", "G:0:2", "+:0:18446744073709551615", "A:59", "+:0:18446744073709551615"}, "meaning": "window 2: after id 3, id 1 is behind the window (refused), id 2 is accepted; a packet stamped 31 s ahead is refused now and accepted 59 s later"})
}

func prefixStrings() [][]string {
	var out [][]string
	for _, p := range clientPrefixes {
		out = append(out, popsString(p))
	}
	return out
}

// ---------------------------------------------------------------------------

func replay(c *harness.Check) {
	r, err := harness.ReplayFile(c.Replay)
	if err != nil {
		harness.Fatal("%v", err)
	}
	switch r["part"] {
	case "filter":
		sz, _ := strconv.ParseUint(fmt.Sprint(r["size"]), 10, 64)
		si := sizeIndex(sz)
		if si < 0 {
			harness.Fatal("replay: unknown filter size %v", r["size"])
		}
		var acts []fact
		for _, a := range r["actions"].([]any) {
			f, err := parseFact(fmt.Sprint(a))
			if err != nil {
				harness.Fatal("%v", err)
			}
			acts = append(acts, f)
		}
		fmt.Printf("replay filter size=%d\n", sz)
		v := runFilterHistory(si, acts, true)
		if len(v) > 0 {
			var sigs []string
			for s := range v {
				sigs = append(sigs, s)
			}
			sort.Strings(sigs)
			fmt.Printf("VIOLATION property=C04 replay=%s\n", c.Replay)
			for _, s := range sigs {
				fmt.Printf("  signature: %s\n  %s\n", s, v[s].what)
			}
			os.Exit(1)
		}
	case "packet":
		var cfg pcfg
		b, _ := json.Marshal(r["cfg"])
		json.Unmarshal(b, &cfg)
		side := fmt.Sprint(r["side"])
		var h []pop
		for _, a := range r["history"].([]any) {
			o, err := parsePop(fmt.Sprint(a))
			if err != nil {
				harness.Fatal("%v", err)
			}
			h = append(h, o)
		}
		e, err := newPenv(cfg)
		if err != nil {
			harness.Fatal("%v", err)
		}
		res, err := runHistory(e, side[0], h, nil, true)
		if err != nil {
			harness.Fatal("%v", err)
		}
		fmt.Printf("replay packets side=%s config=%s\n", side, cfg)
		for i, s := range res.steps {
			fmt.Printf("  %d: %-28s %-60s reference: %-26s real: %s %s\n", i, s.Op, s.Class, s.Demand, s.Observed, s.Err)
		}
		if res.violStep >= 0 {
			fmt.Printf("VIOLATION property=C04 replay=%s\n  signature: %s\n  %s\n", c.Replay, res.sig, res.what)
			os.Exit(1)
		}
	default:
		harness.Fatal("replay record has unknown part %v", r["part"])
	}
	fmt.Println("no violation on replay")
	os.Exit(0)
}

func main() {
	flag.Parse()
	if w := flag.Lookup("worker"); w != nil && w.Value.String() == "c04pkt" {
		budget, _ := time.ParseDuration(flag.Lookup("budget").Value.String())
		workerMain(flag.Lookup("shard").Value.String(), flag.Lookup("param").Value.String(), budget)
		return
	}
	c := harness.Start("C04")
	if c.Replay != "" {
		replay(c)
	}
	c.Rule = "one case = one history. Filter part: a sequence of IDs (and Reset) applied to real SlidingWindowFilters through Add and through IsOk+MustAdd; every prefix of every sequence to the stated depth over the stated boundary alphabet is a distinct case. Packet part: a sequence of packet deliveries / clock advances applied to a fresh real client or server unpacker (packets made by the real packers); every full-depth history is a distinct case and every step of it is compared with the reference. distinct_nontrivial = filter histories of length <= 3 + distinct reference states reached by packet histories; states = distinct real filter states (length <= 4) + distinct packet reference states."
	c.Assumptions = []string{
		"IDs and window sizes outside the stated alphabets are not covered; depth bounded as stated",
		"filter search rewinds the real filter by restoring (last, ring) through an export file; soundness of that shortcut is re-checked on fresh filters",
		"virtual clock moves in whole seconds; timestamps stale by exactly 31 s / fresh by <= 30 s",
		"not demanded (statement silent, observed verdict is followed and counted): a second server session within a minute of the very first one; a change exactly 60 s after the previous one; a new server session while old-session packets were accepted in the last minute",
		"server side: the foreign-session packet is handed to the session's unpacker directly (the relay would route it elsewhere)",
	}
	only := os.Getenv("C04_ONLY") // debugging aid: "filter" or "packets"; empty in normal runs
	if only != "" {
		c.Cap("C04_ONLY=" + only + ": only that part was run")
	}
	if only == "" || only == "filter" {
		filterPart(c, harness.Pick(c, 5, 6))
	}
	if only == "" || only == "packets" {
		packetPart(c, harness.Pick(c, 15*time.Minute, 3*time.Hour))
	}
	c.Finish()
}
