// Part 2 of C04: packet-level histories through the real SS2022 UDP client
// packer/unpacker and server unpacker/packer on the virtual clock.
package main

import (
	"bytes"
	"context"
	"crypto/cipher"
	"fmt"
	"hash/fnv"
	"net/netip"
	"sort"
	"strconv"
	"strings"
	"time"

	"github.com/database64128/shadowsocks-go/conn"
	"github.com/database64128/shadowsocks-go/ss2022"
	"github.com/database64128/shadowsocks-go/zerocopy"

	"verif/shim/vcrand"
	"verif/shim/vrand"
	"verif/vsched"
)

var (
	pTargetAddrPort = netip.AddrPortFrom(netip.AddrFrom4([4]byte{192, 0, 2, 1}), 53)
	pTargetAddr     = conn.AddrFromIPPort(pTargetAddrPort)
	pServerAddrPort = netip.AddrPortFrom(netip.AddrFrom4([4]byte{192, 0, 2, 2}), 1080)
	pServerAddr     = conn.AddrFromIPPort(pServerAddrPort)
	pClientAddrPort = netip.AddrPortFrom(netip.AddrFrom4([4]byte{192, 0, 2, 3}), 10800)
)

const pT0 = vsched.Epoch // whole second

// pcfg is one protocol configuration.
type pcfg struct {
	KeyLen int    `json:"keyLen"`     // 16 = 2022-blake3-aes-128-gcm, 32 = aes-256-gcm
	EIH    bool   `json:"eih"`        // one identity header (iPSK + uPSK) or none
	FSize  uint64 `json:"filterSize"` // passed to NewUDPClient/NewUDPServer (0 = default 256)
}

func (c pcfg) String() string {
	return fmt.Sprintf("aes%d-eih%v-w%d", c.KeyLen*8, c.EIH, c.FSize)
}

func (c pcfg) window() uint64 {
	if c.FSize == 0 {
		return ss2022.DefaultSlidingWindowFilterSize
	}
	return c.FSize
}

// penv holds the long-lived real objects of a configuration.
type penv struct {
	cfg    pcfg
	ccc    *ss2022.ClientCipherConfig
	ucc    ss2022.UserCipherConfig // the user's PSK (for harness-side re-sealing)
	client *ss2022.UDPClient
	server *ss2022.UDPServer
	eihLen int
	cast   *cast
}

func newPenv(cfg pcfg) (*penv, error) {
	e := &penv{cfg: cfg}
	psk := make([]byte, cfg.KeyLen)
	ipsk := make([]byte, cfg.KeyLen)
	other := make([]byte, cfg.KeyLen)
	for i := range psk {
		psk[i] = byte(i*13 + 5)
		ipsk[i] = byte(i*7 + 3)
		other[i] = byte(i*11 + 9)
	}
	var err error
	if e.ucc, err = ss2022.NewUserCipherConfig(psk, true); err != nil {
		return nil, err
	}
	if !cfg.EIH {
		if e.ccc, err = ss2022.NewClientCipherConfig(psk, nil, true); err != nil {
			return nil, err
		}
		e.server = ss2022.NewUDPServer(cfg.FSize, e.ucc, ss2022.ServerIdentityCipherConfig{}, ss2022.NoPadding)
	} else {
		e.eihLen = ss2022.IdentityHeaderLength
		if e.ccc, err = ss2022.NewClientCipherConfig(psk, [][]byte{ipsk}, true); err != nil {
			return nil, err
		}
		icc, err := ss2022.NewServerIdentityCipherConfig(ipsk, true)
		if err != nil {
			return nil, err
		}
		ulm := ss2022.UserLookupMap{}
		for name, k := range map[string][]byte{"u": psk, "v": other} {
			sc, err := ss2022.NewServerUserCipherConfig(name, k, true)
			if err != nil {
				return nil, err
			}
			ulm[ss2022.PSKHash(k)] = sc
		}
		e.server = ss2022.NewUDPServer(cfg.FSize, ss2022.UserCipherConfig{}, icc, ss2022.NoPadding)
		e.server.ReplaceUserLookupMap(ulm)
	}
	e.client = ss2022.NewUDPClient("c04", "ip", pServerAddr, 1500, conn.DefaultUDPClientListenConfig, cfg.FSize, e.ccc, ss2022.NoPadding)
	return e, nil
}

// ---------------------------------------------------------------------------
// operations

// pop is one step of a history.
//
//	G genuine packet (session S, packet ID)        F forged tag
//	- timestamp 31 s in the past                   + timestamp 31 s in the future
//	T wrong direction type (re-sealed with the right key)
//	X foreign client session: server side = packet of another client session,
//	  client side = server packet of session S whose client-session-ID field names another client
//	B (client side) packet a real server made for another client session of the same user
//	R (client side) the client's own packet reflected back
//	A advance the clock by Sec seconds
type pop struct {
	K   byte
	S   int
	ID  uint64
	Sec int
}

func (o pop) String() string {
	if o.K == 'A' {
		return "A:" + strconv.Itoa(o.Sec)
	}
	return string(o.K) + ":" + strconv.Itoa(o.S) + ":" + strconv.FormatUint(o.ID, 10)
}

func parsePop(s string) (pop, error) {
	f := strings.Split(s, ":")
	if len(f) == 2 && f[0] == "A" {
		n, err := strconv.Atoi(f[1])
		return pop{K: 'A', Sec: n}, err
	}
	if len(f) != 3 || len(f[0]) != 1 {
		return pop{}, fmt.Errorf("bad packet op %q", s)
	}
	sn, err := strconv.Atoi(f[1])
	if err != nil {
		return pop{}, err
	}
	id, err := strconv.ParseUint(f[2], 10, 64)
	return pop{K: f[0][0], S: sn, ID: id}, err
}

func popsString(h []pop) []string {
	out := make([]string, len(h))
	for i, o := range h {
		out[i] = o.String()
	}
	return out
}

var kindName = map[byte]string{'G': "genuine", 'F': "forged-tag", '-': "stale-timestamp", '+': "future-timestamp", 'T': "wrong-direction-type", 'X': "foreign-client-session", 'B': "other-clients-server-packet", 'R': "reflected-own-packet"}

// ppkt is a packet that exists in a history (created at first use).
type ppkt struct {
	key     pop
	raw     []byte
	payload []byte
	ts      int64 // unix seconds stamped into it
	auth    bool  // tag intact
	typeOK  bool
	csidOK  bool
	sess    int // server session index (client side), 0 on server side; -1 = not a session of this peer
}

// world is the per-history set of fresh real objects.
type world struct {
	e    *penv
	c    *cast
	side byte // 's' = server unpacker under test, 'c' = client unpacker under test
	ctx  context.Context
	cuA  zerocopy.ClientUnpacker
	suA  zerocopy.ServerUnpacker
	pkts map[pop]*ppkt
	ops  int64 // calls into real pack/unpack code
}

// cast is the set of long-lived real objects of a configuration that carry no
// replay state: the client sessions' packers and the server sessions' packers
// (their only mutable field, the packet ID, is set explicitly before each use).
// The crypto/rand stream is reset before every session creation, so a fresh
// client session made for a history has the same session ID as the cast's.
type cast struct {
	cpA, cpB  *ss2022.ShadowPacketClientPacker
	setupA    []byte // pristine first packet of session A (never delivered)
	sp        [3]*ss2022.ShadowPacketServerPacker
	spB       *ss2022.ShadowPacketServerPacker
	buf, rbuf []byte
	cFront    int
}

func (e *penv) newSessionA() (zerocopy.UDPClientSessionInfo, zerocopy.UDPClientSession, error) {
	vcrand.Deterministic = true
	vcrand.Reset()
	return e.client.NewSession(context.Background())
}

var lastEnv *penv

func (e *penv) getCast() (*cast, error) {
	if e.cast != nil {
		if lastEnv != e {
			lastEnv = e
			clear(resealAEADs)
		}
		return e.cast, nil
	}
	lastEnv = e
	clear(resealAEADs)
	vrand.Hook = func(n int) int { return 0 }
	vsched.SetClock(pT0)
	c := &cast{}
	w := &world{e: e, c: c, ctx: context.Background()}
	info, sa, err := e.newSessionA()
	if err != nil {
		return nil, err
	}
	_, sb, err := e.client.NewSession(w.ctx)
	if err != nil {
		return nil, err
	}
	c.cFront = info.PackerHeadroom.Front + 64
	c.buf = make([]byte, c.cFront+64+info.PackerHeadroom.Rear)
	c.rbuf = make([]byte, len(c.buf))
	var ok bool
	if c.cpA, ok = sa.Packer.(*ss2022.ShadowPacketClientPacker); !ok {
		return nil, fmt.Errorf("client packer is %T", sa.Packer)
	}
	c.cpB, _ = sb.Packer.(*ss2022.ShadowPacketClientPacker)
	if c.setupA, err = w.packClient(c.cpA, 0, []byte("setup")); err != nil {
		return nil, err
	}
	suA, err := w.newServerUnpacker(c.cpA, c.setupA)
	if err != nil {
		return nil, err
	}
	for i := range c.sp {
		p, err := suA.NewPacker()
		if err != nil {
			return nil, err
		}
		if c.sp[i], ok = p.(*ss2022.ShadowPacketServerPacker); !ok {
			return nil, fmt.Errorf("server packer is %T", p)
		}
	}
	setupB, err := w.packClient(c.cpB, 0, []byte("setup"))
	if err != nil {
		return nil, err
	}
	suB, err := w.newServerUnpacker(c.cpB, setupB)
	if err != nil {
		return nil, err
	}
	p, err := suB.NewPacker()
	if err != nil {
		return nil, err
	}
	c.spB, _ = p.(*ss2022.ShadowPacketServerPacker)
	e.cast = c
	return c, nil
}

// newWorld makes the fresh real unpacker a history runs against.
func (e *penv) newWorld(side byte) (*world, error) {
	c, err := e.getCast()
	if err != nil {
		return nil, err
	}
	w := &world{e: e, c: c, side: side, ctx: context.Background(), pkts: map[pop]*ppkt{}}
	vrand.Hook = func(n int) int { return 0 }
	vsched.SetClock(pT0)
	if side == 's' {
		if w.suA, err = w.newServerUnpacker(c.cpA, c.setupA); err != nil {
			return nil, err
		}
		return w, nil
	}
	_, sa, err := e.newSessionA()
	if err != nil {
		return nil, err
	}
	cp, ok := sa.Packer.(*ss2022.ShadowPacketClientPacker)
	if !ok || ss2022.VerifC04ClientPackerSessionID(cp) != ss2022.VerifC04ClientPackerSessionID(c.cpA) {
		return nil, fmt.Errorf("a fresh client session does not reproduce the session ID of the first one")
	}
	w.cuA = sa.Unpacker
	return w, nil
}

// newServerUnpacker makes the server-side unpacker of a client session the way
// the relay does: from the first packet of that session (which is then dropped
// here, so the filter is still to be created by the first valid packet).
func (w *world) newServerUnpacker(cp *ss2022.ShadowPacketClientPacker, setup []byte) (zerocopy.ServerUnpacker, error) {
	raw := bytes.Clone(setup)
	csid, err := w.e.server.SessionInfo(raw)
	if err != nil {
		return nil, err
	}
	if csid != ss2022.VerifC04ClientPackerSessionID(cp) {
		return nil, fmt.Errorf("SessionInfo returned %d for session %d", csid, ss2022.VerifC04ClientPackerSessionID(cp))
	}
	u, _, err := w.e.server.NewUnpacker(raw, csid)
	if err != nil {
		return nil, err
	}
	return u, nil
}

func (w *world) packClient(cp *ss2022.ShadowPacketClientPacker, id uint64, payload []byte) ([]byte, error) {
	ss2022.VerifC04ClientPackerSetPacketID(cp, id)
	copy(w.c.buf[w.c.cFront:], payload)
	w.ops++
	_, start, n, err := cp.PackInPlace(w.ctx, w.c.buf, pTargetAddr, w.c.cFront, len(payload))
	if err != nil {
		return nil, err
	}
	return bytes.Clone(w.c.buf[start : start+n]), nil
}

func (w *world) packServer(sp *ss2022.ShadowPacketServerPacker, id uint64, payload []byte) ([]byte, error) {
	ss2022.VerifC04ServerPackerSetPacketID(sp, id)
	copy(w.c.buf[w.c.cFront:], payload)
	w.ops++
	start, n, err := sp.PackInPlace(w.c.buf, pTargetAddrPort, w.c.cFront, len(payload), 1452)
	if err != nil {
		return nil, err
	}
	return bytes.Clone(w.c.buf[start : start+n]), nil
}

// resealAEADs caches the harness-side session ciphers (one process = one key set per configuration;
// the key is the session salt, which differs between configurations because the PSKs differ in length only --
// so the cache is cleared whenever a worker switches configuration).
var resealAEADs = map[string]cipher.AEAD{}

// reseal opens an authentic packet with the right keys, lets mutate change the
// plaintext message header, and seals it again under the same nonce.
func reseal(raw []byte, block cipher.Block, aeadFor func(salt []byte) (cipher.AEAD, error), bodyOff int, mutate func(plain []byte)) error {
	hdr := raw[:16]
	block.Decrypt(hdr, hdr)
	aead := resealAEADs[string(hdr[:8])+string(rune(bodyOff))]
	if aead == nil {
		var err error
		if aead, err = aeadFor(hdr[:8]); err != nil {
			return err
		}
		resealAEADs[string(hdr[:8])+string(rune(bodyOff))] = aead
	}
	nonce := bytes.Clone(hdr[4:16])
	body := raw[bodyOff:]
	plain, err := aead.Open(body[:0], nonce, body, nil)
	if err != nil {
		return fmt.Errorf("harness cannot open its own packet: %w", err)
	}
	mutate(plain)
	aead.Seal(plain[:0], nonce, plain, nil)
	block.Encrypt(hdr, hdr)
	return nil
}

// packet returns the packet an op delivers, creating it at the current virtual
// time on first use.
func (w *world) packet(o pop) (*ppkt, error) {
	if p := w.pkts[o]; p != nil {
		return p, nil
	}
	now := vsched.NowNS()
	p := &ppkt{key: o, auth: true, typeOK: true, csidOK: true, sess: o.S}
	h := fnv.New64a()
	h.Write([]byte(o.String()))
	p.payload = h.Sum(nil)
	p.ts = now / 1e9
	switch o.K {
	case '-':
		p.ts -= 31
	case '+':
		p.ts += 31
	}
	vsched.SetClock(p.ts * 1e9)
	var err error
	if w.side == 's' {
		cp := w.c.cpA
		if o.K == 'X' {
			cp = w.c.cpB
			p.sess = -1
			p.csidOK = false
		}
		p.raw, err = w.packClient(cp, o.ID, p.payload)
		if err == nil && o.K == 'T' {
			p.typeOK = false
			err = reseal(p.raw, w.e.ccc.UDPSeparateHeaderPackerCipher(), w.e.ucc.AEAD, 16+w.e.eihLen, func(plain []byte) { plain[0] = ss2022.HeaderTypeServerPacket })
		}
	} else {
		switch o.K {
		case 'B':
			p.sess = -1
			p.csidOK = false
			p.raw, err = w.packServer(w.c.spB, o.ID, p.payload)
		case 'R':
			p.sess = -1
			p.typeOK = false
			p.raw, err = w.packClient(w.c.cpA, o.ID, p.payload)
		default:
			p.raw, err = w.packServer(w.c.sp[o.S], o.ID, p.payload)
			if err == nil && o.K == 'T' {
				p.typeOK = false
				err = reseal(p.raw, w.e.ucc.Block(), w.e.ucc.AEAD, 16, func(plain []byte) { plain[0] = ss2022.HeaderTypeClientPacket })
			}
			if err == nil && o.K == 'X' {
				p.csidOK = false
				err = reseal(p.raw, w.e.ucc.Block(), w.e.ucc.AEAD, 16, func(plain []byte) { plain[1+8+7] ^= 1 })
			}
		}
	}
	vsched.SetClock(now)
	if err != nil {
		return nil, err
	}
	if o.K == 'F' {
		p.auth = false
		p.raw[len(p.raw)-1] ^= 0x40
	}
	w.pkts[o] = p
	return p, nil
}

// deliver hands the packet to the real unpacker under test.
func (w *world) deliver(p *ppkt) (accepted bool, payloadOK bool, errText string, panicText string) {
	defer func() {
		if r := recover(); r != nil {
			panicText = fmt.Sprint(r)
		}
	}()
	n := copy(w.c.rbuf, p.raw)
	var ps, pl int
	var err error
	w.ops++
	if w.side == 's' {
		// the relay decrypts the separate header (SessionInfo) before it picks the session's unpacker
		if _, err = w.e.server.SessionInfo(w.c.rbuf[:n]); err == nil {
			_, ps, pl, err = w.suA.UnpackInPlace(w.c.rbuf, pClientAddrPort, 0, n)
		}
	} else {
		_, ps, pl, err = w.cuA.UnpackInPlace(w.c.rbuf, pServerAddrPort, 0, n)
	}
	if err != nil {
		return false, true, err.Error(), ""
	}
	ok := ps >= 0 && pl >= 0 && ps+pl <= n && bytes.Equal(w.c.rbuf[ps:ps+pl], p.payload)
	return true, ok, "", ""
}

// ---------------------------------------------------------------------------
// reference model (from the property statement)

const (
	mustReject = 0
	mustAccept = 1
	either     = 2
)

type sref struct {
	ids map[uint64]bool
	max uint64
	any bool
}

func (r *sref) class(id, size uint64) (bool, string) {
	switch {
	case r.ids[id]:
		return false, "replayed-packet"
	case !r.any:
		return true, "first-packet"
	case id > r.max:
		return true, "fresh-packet-newer"
	case r.max-id < size:
		return true, "fresh-packet-inside-window"
	}
	return false, "unseen-packet-behind-window"
}

func (r *sref) add(id uint64) {
	if r.ids == nil {
		r.ids = map[uint64]bool{}
	}
	r.ids[id] = true
	if !r.any || id > r.max {
		r.max = id
	}
	r.any = true
}

func (r *sref) key() string {
	var v []uint64
	for id := range r.ids {
		v = append(v, id)
	}
	sort.Slice(v, func(i, j int) bool { return v[i] < v[j] })
	return fmt.Sprint(v)
}

type pref struct {
	side      byte
	window    uint64
	delivered map[pop]bool
	// server side: one session
	srv sref
	// client side
	cur, old    int
	sess        map[int]*sref
	changes     int
	lastChange  int64 // unix s
	oldSeen     bool
	oldLastSeen int64
}

func newPref(side byte, window uint64) *pref {
	return &pref{side: side, window: window, delivered: map[pop]bool{}, cur: -1, old: -1, sess: map[int]*sref{}}
}

func invalidClass(p *ppkt, now int64) string {
	switch {
	case !p.auth:
		return "forged-tag"
	case !p.typeOK:
		return "wrong-direction-type"
	case !p.csidOK:
		return "foreign-client-session"
	case p.ts-now > 30 || now-p.ts > 30:
		return "stale-timestamp"
	}
	return ""
}

// expect gives the demanded verdict and the class of the situation.
func (r *pref) expect(p *ppkt, now int64) (int, string) {
	inv := invalidClass(p, now)
	if r.side == 's' {
		if inv != "" {
			return mustReject, inv
		}
		ok, cls := r.srv.class(p.key.ID, r.window)
		return b2v(ok), cls
	}
	where := "new-session"
	var f *sref
	switch {
	case p.sess >= 0 && p.sess == r.cur:
		where, f = "current-session", r.sess[p.sess]
	case p.sess >= 0 && p.sess == r.old:
		where, f = "old-session", r.sess[p.sess]
	}
	if inv != "" {
		return mustReject, where + ":" + inv
	}
	if f != nil {
		ok, cls := f.class(p.key.ID, r.window)
		return b2v(ok), where + ":" + cls
	}
	if r.delivered[p.key] {
		return mustReject, "forgotten-session:replayed-packet"
	}
	if r.changes == 0 {
		return mustAccept, "new-session:first-server-session"
	}
	dt := now - r.lastChange
	switch {
	case dt < 60 && r.changes == 1:
		return either, "new-session:within-a-minute-of-first-session"
	case dt < 60:
		return mustReject, "new-session:second-change-within-a-minute"
	case dt == 60:
		return either, "new-session:exactly-a-minute-after-last-change"
	case r.oldSeen && now-r.oldLastSeen <= 60:
		return either, "new-session:old-session-traffic-within-last-minute"
	}
	return mustAccept, "new-session:more-than-a-minute-after-last-change"
}

func b2v(b bool) int {
	if b {
		return mustAccept
	}
	return mustReject
}

// accepted updates the reference after an observed (and permitted) acceptance.
func (r *pref) accepted(p *ppkt, now int64) {
	r.delivered[p.key] = true
	if r.side == 's' {
		r.srv.add(p.key.ID)
		return
	}
	switch {
	case p.sess == r.cur:
		r.sess[p.sess].add(p.key.ID)
	case p.sess == r.old:
		r.sess[p.sess].add(p.key.ID)
		r.oldSeen, r.oldLastSeen = true, now
	default:
		if r.old >= 0 {
			delete(r.sess, r.old)
		}
		r.old, r.cur = r.cur, p.sess
		f := &sref{}
		f.add(p.key.ID)
		r.sess[p.sess] = f
		r.changes++
		r.lastChange = now
		r.oldSeen = false
	}
}

func (r *pref) stateKey(now int64) string {
	if r.side == 's' {
		return "s|" + r.srv.key()
	}
	k := fmt.Sprintf("c|cur=%d old=%d ch=%d dt=%d", r.cur, r.old, min(r.changes, 3), min(now-r.lastChange, 200))
	if r.cur >= 0 {
		k += "|" + r.sess[r.cur].key()
	}
	if r.old >= 0 {
		k += "|" + r.sess[r.old].key()
		if r.oldSeen {
			k += fmt.Sprintf("|os=%d", min(now-r.oldLastSeen, 200))
		}
	}
	return k
}

// ---------------------------------------------------------------------------
// running one history

type stepRec struct {
	Op       string `json:"op"`
	Class    string `json:"class,omitempty"`
	Demand   string `json:"reference,omitempty"`
	Observed string `json:"observed,omitempty"`
	Err      string `json:"error,omitempty"`
	rejected bool
}

type hres struct {
	violStep int // -1 = none
	sig      string
	what     string
	steps    []stepRec
	ops      int64
	delivers int64
	stateKey string
}

var demandWord = [...]string{"must reject", "must accept", "either (statement silent)"}

// stats is fed by every history run (class x verdict coverage).
type pstats struct {
	Verdicts map[string]int64 `json:"verdicts"`
}

func runHistory(e *penv, side byte, h []pop, st *pstats, keepSteps bool) (*hres, error) {
	w, err := e.newWorld(side)
	if err != nil {
		return nil, err
	}
	ref := newPref(side, e.cfg.window())
	res := &hres{violStep: -1}
	sidew := "server-unpacker"
	if side == 'c' {
		sidew = "client-unpacker"
	}
	for i, o := range h {
		if o.K == 'A' {
			vsched.Advance(time.Duration(o.Sec) * time.Second)
			if keepSteps {
				res.steps = append(res.steps, stepRec{Op: o.String()})
			}
			continue
		}
		p, err := w.packet(o)
		if err != nil {
			return nil, fmt.Errorf("history %v step %d: %w", popsString(h), i, err)
		}
		now := vsched.NowNS() / 1e9
		demand, cls := ref.expect(p, now)
		acc, payOK, errText, pan := w.deliver(p)
		res.delivers++
		obs := "rejected"
		if acc {
			obs = "accepted"
		}
		if pan != "" {
			obs = "panic"
		}
		if st != nil {
			st.Verdicts[sidew+"/"+cls+" -> "+obs]++
		}
		if keepSteps {
			res.steps = append(res.steps, stepRec{Op: o.String(), Class: cls, Demand: demandWord[demand], Observed: obs, Err: errText + pan, rejected: !acc})
		}
		bad := ""
		switch {
		case pan != "":
			bad = "panic"
		case acc && ref.delivered[p.key]:
			bad = "delivered-twice"
		case acc && demand == mustReject:
			bad = "accepted"
		case !acc && demand == mustAccept:
			bad = "refused"
		case acc && !payOK:
			bad = "delivered-with-wrong-payload"
		}
		if bad != "" {
			res.violStep = i
			res.sig = sidew + "/" + cls + ":" + bad
			res.what = fmt.Sprintf("%s, config %s, history %v: step %d delivers a %s packet (session %d, id %d) in situation %q; reference: %s; real code: %s %s", sidew, e.cfg, popsString(h[:i+1]), i, kindName[o.K], o.S, o.ID, cls, demandWord[demand], obs, errText+pan)
			break
		}
		if acc {
			ref.accepted(p, now)
		}
	}
	res.ops = w.ops
	res.stateKey = ref.stateKey(vsched.NowNS() / 1e9)
	return res, nil
}

// blame finds an earlier reference-rejected delivery whose removal makes the
// violation disappear (the differential "rejected packets change nothing").
// Single removals are tried first, then the removal of all rejected deliveries.
func blame(e *penv, side byte, h []pop, k int) string {
	full, err := runHistory(e, side, h[:k+1], nil, true)
	if err != nil || full.violStep != k {
		return ""
	}
	short := func(cls string) string {
		if i := strings.LastIndex(cls, ":"); i >= 0 {
			cls = cls[i+1:]
		}
		return cls
	}
	var all []pop
	first := "" // non-empty once a reference-rejected delivery was seen
	for j := 0; j < k; j++ {
		if h[j].K == 'A' || !full.steps[j].rejected {
			all = append(all, h[j])
			continue
		}
		if first == "" {
			first = short(full.steps[j].Class)
		}
		again := false
		for _, o := range h[j+1 : k+1] {
			again = again || o == h[j]
		}
		if again {
			continue // the same packet is delivered again later: removing its first delivery would change that packet
		}
		hh := append(append([]pop(nil), h[:j]...), h[j+1:k+1]...)
		r, err := runHistory(e, side, hh, nil, false)
		if err == nil && r.violStep < 0 {
			return short(full.steps[j].Class)
		}
	}
	if first != "" {
		all = append(all, h[k])
		if r, err := runHistory(e, side, all, nil, false); err == nil && r.violStep < 0 {
			return "several"
		}
	}
	return ""
}
