// Part 1 of C04: the sliding-window filter against a set-based reference, all
// ID sequences to a fixed depth over a boundary alphabet.
package main

import (
	"fmt"
	"math/bits"
	"runtime"
	"sort"
	"strconv"
	"strings"
	"sync"

	"github.com/database64128/shadowsocks-go/ss2022"

	"verif/harness"
)

const maxU64 = ^uint64(0)

var filterSizes = []uint64{1, 2, 63, 64, 65, 128, 256, 1000}

// fref is the reference written from the property statement: the set of
// accepted IDs and their maximum.
type fref struct {
	ids [8]uint64
	n   int
	max uint64
	any bool
}

func (r *fref) seen(id uint64) bool {
	for i := 0; i < r.n; i++ {
		if r.ids[i] == id {
			return true
		}
	}
	return false
}

// expect: accept <=> unseen and (newer than the newest accepted, or fewer than
// size behind it); before anything is accepted everything is accepted once.
func (r *fref) expect(id, size uint64) bool {
	if r.seen(id) {
		return false
	}
	if !r.any || id > r.max {
		return true
	}
	return r.max-id < size
}

func (r *fref) add(id uint64) {
	r.ids[r.n] = id
	r.n++
	if !r.any || id > r.max {
		r.max = id
	}
	r.any = true
}

// class names the situation of id relative to the reference (for signatures).
func (r *fref) class(id, size uint64) string {
	switch {
	case r.seen(id):
		return "already-accepted-id"
	case !r.any:
		return "first-id"
	case id > r.max:
		return "newer-id"
	case r.max-id < size:
		return "unseen-id-inside-window"
	}
	return "unseen-id-behind-window"
}

// fact is one action on the filter.
type fact struct {
	reset bool
	id    uint64
}

func (a fact) String() string {
	if a.reset {
		return "reset"
	}
	return "add:" + strconv.FormatUint(a.id, 10)
}

func parseFact(s string) (fact, error) {
	if s == "reset" {
		return fact{reset: true}, nil
	}
	v, ok := strings.CutPrefix(s, "add:")
	if !ok {
		return fact{}, fmt.Errorf("bad filter action %q", s)
	}
	id, err := strconv.ParseUint(v, 10, 64)
	return fact{id: id}, err
}

func factLess(a, b fact) bool {
	if a.reset != b.reset {
		return a.reset
	}
	return a.id < b.id
}

type fviol struct {
	sig, what string
	sizeIdx   int
	hist      []fact
}

func fviolLess(a, b *fviol) bool {
	if len(a.hist) != len(b.hist) {
		return len(a.hist) < len(b.hist)
	}
	if a.sizeIdx != b.sizeIdx {
		return a.sizeIdx < b.sizeIdx
	}
	for i := range a.hist {
		if a.hist[i] != b.hist[i] {
			return factLess(a.hist[i], b.hist[i])
		}
	}
	return false
}

// fwork explores one subtree (one size, one first action).
type fwork struct {
	size     uint64
	sizeIdx  int
	depth    int
	withRst  bool
	fa, fb   *ss2022.SlidingWindowFilter // fa driven by Add, fb by IsOk+MustAdd
	ringA    []uint
	ringB    []uint
	ringBits uint64
	abs      []uint64
	snapA    [][]uint
	snapB    [][]uint
	lastA    []uint64
	lastB    []uint64
	hist     []fact

	nodes      int64
	ops        int64
	levelNodes []int64
	states     map[uint64]struct{}
	viols      map[string]*fviol
	keys       []string
	aborted    string
	verdicts   [5][2]int64 // class index x accepted
}

var fclassIdx = map[string]int{"already-accepted-id": 0, "first-id": 1, "newer-id": 2, "unseen-id-inside-window": 3, "unseen-id-behind-window": 4}
var fclassNames = []string{"already-accepted-id", "first-id", "newer-id", "unseen-id-inside-window", "unseen-id-behind-window"}

func newFwork(sizeIdx, depth int, withRst bool) *fwork {
	size := filterSizes[sizeIdx]
	w := &fwork{size: size, sizeIdx: sizeIdx, depth: depth, withRst: withRst}
	w.fa = ss2022.NewSlidingWindowFilter(size)
	w.fb = ss2022.NewSlidingWindowFilter(size)
	w.ringA = ss2022.VerifC04FilterRing(w.fa)
	w.ringB = ss2022.VerifC04FilterRing(w.fb)
	w.ringBits = uint64(len(w.ringA)) * bits.UintSize
	w.abs = absAlphabet(size, w.ringBits)
	for i := 0; i <= depth; i++ {
		w.snapA = append(w.snapA, make([]uint, len(w.ringA)))
		w.snapB = append(w.snapB, make([]uint, len(w.ringB)))
	}
	w.lastA = make([]uint64, depth+1)
	w.lastB = make([]uint64, depth+1)
	w.levelNodes = make([]int64, depth+1)
	w.states = map[uint64]struct{}{}
	w.viols = map[string]*fviol{}
	return w
}

// absAlphabet is the absolute boundary alphabet of DESIGN.md C04.
func absAlphabet(size, ringBits uint64) []uint64 {
	v := []uint64{0, 1, 2, 62, 63, 64, 65, 127, 128, 129, size - 1, size, size + 1,
		ringBits - 1, ringBits, ringBits + 1, 2*ringBits - 1, 2*ringBits + 1,
		1 << 63, maxU64 - size, maxU64 - 1, maxU64}
	return dedupe(v)
}

func dedupe(v []uint64) []uint64 {
	sort.Slice(v, func(i, j int) bool { return v[i] < v[j] })
	out := v[:0]
	for i, x := range v {
		if i == 0 || x != v[i-1] {
			out = append(out, x)
		}
	}
	return out
}

// children lists the concrete IDs offered in a state: absolute boundaries plus
// IDs relative to the newest accepted one (wrapping modulo 2^64), deduplicated.
func (w *fwork) children(ref *fref, buf []uint64) []uint64 {
	buf = append(buf[:0], w.abs...)
	m := ref.max
	s := w.size
	buf = append(buf, m-s-1, m-s, m-s+1, m-1, m, m+1, m+63, m+64, m+w.ringBits)
	return dedupe(buf)
}

func (w *fwork) viol(sig, what string) {
	v := &fviol{sig: sig, what: what, sizeIdx: w.sizeIdx, hist: append([]fact(nil), w.hist...)}
	if old, ok := w.viols[sig]; !ok || fviolLess(v, old) {
		w.viols[sig] = v
	}
}

func (w *fwork) histString() string {
	var sb strings.Builder
	for i, a := range w.hist {
		if i > 0 {
			sb.WriteString(", ")
		}
		sb.WriteString(a.String())
	}
	return sb.String()
}

func sameRing(a, b []uint) bool {
	for i := range a {
		if a[i] != b[i] {
			return false
		}
	}
	return true
}

func hashState(size, last uint64, ring []uint) uint64 {
	h := uint64(1469598103934665603)
	mix := func(x uint64) {
		h ^= x
		h *= 1099511628211
		h ^= h >> 29
	}
	mix(size)
	mix(last)
	for _, x := range ring {
		mix(uint64(x))
	}
	return h
}

// step applies one action to both real filters and compares with the
// reference.  level = number of actions already applied; snapshots of that
// level hold the pre-state.  Returns false if a violation was recorded.
func (w *fwork) step(level int, a fact, ref *fref) bool {
	w.hist = append(w.hist[:level], a)
	w.nodes++
	w.levelNodes[level+1]++
	ok := true
	if a.reset {
		w.fa.Reset()
		w.fb.Reset()
		w.ops += 2
		*ref = fref{}
	} else {
		id := a.id
		exp := ref.expect(id, w.size)
		cls := ref.class(id, w.size)
		gotA := w.fa.Add(id)
		okB := w.fb.IsOk(id)
		w.ops += 2
		if ss2022.VerifC04FilterLast(w.fb) != w.lastB[level] || !sameRing(w.ringB, w.snapB[level]) {
			w.viol("filter/IsOk:changes-filter-state", fmt.Sprintf("size=%d history [%s]: IsOk(%d) alone changed the filter state", w.size, w.histString(), id))
			ok = false
		}
		if okB {
			w.fb.MustAdd(id)
			w.ops++
		}
		ci := fclassIdx[cls]
		if gotA {
			w.verdicts[ci][1]++
		} else {
			w.verdicts[ci][0]++
		}
		if gotA != exp {
			w.viol("filter/Add:"+verdictWord(gotA)+"-"+cls, fmt.Sprintf("size=%d history [%s]: last Add(%d) returned %v; reference (accepted so far %s) says %v: id is %s", w.size, w.histString(), id, gotA, refString(ref), exp, cls))
			ok = false
		}
		if okB != exp {
			w.viol("filter/IsOk+MustAdd:"+verdictWord(okB)+"-"+cls, fmt.Sprintf("size=%d history [%s]: last IsOk(%d) returned %v; reference (accepted so far %s) says %v: id is %s", w.size, w.histString(), id, okB, refString(ref), exp, cls))
			ok = false
		}
		if !gotA && (ss2022.VerifC04FilterLast(w.fa) != w.lastA[level] || !sameRing(w.ringA, w.snapA[level])) {
			w.viol("filter/Add:rejected-id-changes-filter-state", fmt.Sprintf("size=%d history [%s]: Add(%d) returned false but changed the filter state", w.size, w.histString(), id))
			ok = false
		}
		if exp {
			ref.add(id)
		}
	}
	if ok && (ss2022.VerifC04FilterLast(w.fa) != ss2022.VerifC04FilterLast(w.fb) || !sameRing(w.ringA, w.ringB)) {
		w.viol("filter:Add-and-IsOk+MustAdd-leave-different-state", fmt.Sprintf("size=%d history [%s] applied through Add and through IsOk+MustAdd: same verdicts but different filter state afterwards", w.size, w.histString()))
		ok = false
	}
	if level+1 <= 4 {
		w.states[hashState(w.size, ss2022.VerifC04FilterLast(w.fa), w.ringA)] = struct{}{}
	}
	if level+1 <= 3 {
		w.keys = append(w.keys, "filter|"+strconv.FormatUint(w.size, 10)+"|"+w.histString())
	}
	return ok
}

func verdictWord(b bool) string {
	if b {
		return "accepts"
	}
	return "rejects"
}

func refString(r *fref) string {
	if !r.any {
		return "{}"
	}
	var s []string
	for i := 0; i < r.n; i++ {
		s = append(s, strconv.FormatUint(r.ids[i], 10))
	}
	return "{" + strings.Join(s, ",") + "}"
}

func (w *fwork) snapshot(level int) {
	copy(w.snapA[level], w.ringA)
	copy(w.snapB[level], w.ringB)
	w.lastA[level] = ss2022.VerifC04FilterLast(w.fa)
	w.lastB[level] = ss2022.VerifC04FilterLast(w.fb)
}

func (w *fwork) restore(level int) {
	copy(w.ringA, w.snapA[level])
	copy(w.ringB, w.snapB[level])
	ss2022.VerifC04FilterSetLast(w.fa, w.lastA[level])
	ss2022.VerifC04FilterSetLast(w.fb, w.lastB[level])
}

// dfs explores all extensions of the current state (level actions applied).
func (w *fwork) dfs(level int, ref fref) {
	if level >= w.depth {
		return
	}
	w.snapshot(level)
	var arr [48]uint64
	ids := w.children(&ref, arr[:0])
	for _, id := range ids {
		r := ref
		if w.step(level, fact{id: id}, &r) {
			w.dfs(level+1, r)
		}
		w.restore(level)
	}
	if w.withRst && level > 0 {
		r := ref
		if w.step(level, fact{reset: true}, &r) {
			w.dfs(level+1, r)
		}
		w.restore(level)
	}
}

// runTask explores the subtree below the k-th root action of one size.
func (w *fwork) runTask(k int) {
	defer func() {
		if p := recover(); p != nil {
			w.viol("filter:panic", fmt.Sprintf("size=%d history [%s]: panic: %v", w.size, w.histString(), p))
			w.aborted = fmt.Sprintf("filter size=%d subtree %d abandoned after a panic", w.size, k)
		}
	}()
	ref := fref{}
	w.snapshot(0)
	var arr [48]uint64
	ids := w.children(&ref, arr[:0])
	if w.step(0, fact{id: ids[k]}, &ref) {
		w.dfs(1, ref)
	}
}

func rootCount(sizeIdx int) int {
	w := newFwork(sizeIdx, 1, false)
	var arr [48]uint64
	return len(w.children(&fref{}, arr[:0]))
}

// runFilterHistory replays one action list on fresh filters (used by --replay
// and by the snapshot/restore self-test); returns the violations it shows.
func runFilterHistory(sizeIdx int, acts []fact, trace bool) map[string]*fviol {
	w := newFwork(sizeIdx, len(acts)+1, true)
	func() {
		defer func() {
			if p := recover(); p != nil {
				w.viol("filter:panic", fmt.Sprintf("size=%d history [%s]: panic: %v", w.size, w.histString(), p))
			}
		}()
		ref := fref{}
		for i, a := range acts {
			w.snapshot(i)
			before := ref
			ok := w.step(i, a, &ref)
			if trace {
				if a.reset {
					fmt.Printf("  %d: Reset()\n", i)
				} else {
					fmt.Printf("  %d: id=%d reference=%v (%s) agrees-with-real=%v\n", i, a.id, before.expect(a.id, w.size), before.class(a.id, w.size), ok)
				}
			}
			if !ok {
				break
			}
		}
	}()
	return w.viols
}

func sizeIndex(size uint64) int {
	for i, s := range filterSizes {
		if s == size {
			return i
		}
	}
	return -1
}

// filterPart runs part 1 and feeds the evidence.
func filterPart(c *harness.Check, depth int) {
	type task struct{ sizeIdx, k int }
	var tasks []task
	for si := range filterSizes {
		for k := 0; k < rootCount(si); k++ {
			tasks = append(tasks, task{si, k})
		}
	}
	results := make([]*fwork, len(tasks))
	var wg sync.WaitGroup
	ch := make(chan int)
	for g := 0; g < runtime.NumCPU(); g++ {
		wg.Add(1)
		go func() {
			defer wg.Done()
			for i := range ch {
				w := newFwork(tasks[i].sizeIdx, depth, true)
				w.runTask(tasks[i].k)
				results[i] = w
			}
		}()
	}
	for i := range tasks {
		ch <- i
	}
	close(ch)
	wg.Wait()

	var nodes, ops int64
	levels := make([]int64, depth+1)
	states := map[uint64]struct{}{}
	perSize := make([]int64, len(filterSizes))
	best := map[string]*fviol{}
	var verdicts [5][2]int64
	for i, w := range results {
		nodes += w.nodes
		ops += w.ops
		perSize[tasks[i].sizeIdx] += w.nodes
		for l, n := range w.levelNodes {
			levels[l] += n
		}
		for h := range w.states {
			states[h] = struct{}{}
		}
		for _, k := range w.keys {
			c.Distinct(k, true)
		}
		for s, v := range w.viols {
			if old, ok := best[s]; !ok || fviolLess(v, old) {
				best[s] = v
			}
		}
		if w.aborted != "" {
			c.Cap(w.aborted)
		}
		for a := range verdicts {
			verdicts[a][0] += w.verdicts[a][0]
			verdicts[a][1] += w.verdicts[a][1]
		}
	}

	// self-test of the snapshot/restore shortcut: every history up to depth 3
	// of two sizes is re-run on fresh filters and must show no violation either
	// (and a violation found by the search must reproduce on fresh filters).
	var sigs []string
	for s := range best {
		sigs = append(sigs, s)
	}
	sort.Slice(sigs, func(i, j int) bool {
		return fviolLess(best[sigs[i]], best[sigs[j]]) || (!fviolLess(best[sigs[j]], best[sigs[i]]) && sigs[i] < sigs[j])
	})
	for _, s := range sigs {
		v := best[s]
		again := runFilterHistory(v.sizeIdx, v.hist, false)
		if _, ok := again[s]; !ok {
			harness.Fatal("filter violation %q (size %d, history %v) does not reproduce on fresh filters: the snapshot/restore shortcut is unsound for this tree", s, filterSizes[v.sizeIdx], v.hist)
		}
		var acts []string
		for _, a := range v.hist {
			acts = append(acts, a.String())
		}
		c.Violation(s, v.what, map[string]any{"part": "filter", "size": strconv.FormatUint(filterSizes[v.sizeIdx], 10), "actions": acts})
	}
	selfChecked := int64(0)
	if len(best) == 0 {
		selfChecked = filterSelfTest()
	}

	sizeNodes := map[string]int64{}
	for i, s := range filterSizes {
		sizeNodes[strconv.FormatUint(s, 10)] = perSize[i]
	}
	vd := map[string]any{}
	for i, n := range fclassNames {
		vd[n] = map[string]int64{"rejected": verdicts[i][0], "accepted": verdicts[i][1]}
	}
	c.Count(nodes, int64(len(states)), ops)
	c.Part("filter", map[string]any{
		"sizes":                          filterSizes,
		"depth":                          depth,
		"alphabet":                       "absolute {0,1,2,62..65,127..129,size-1,size,size+1,ringBits-1,ringBits,ringBits+1,2*ringBits-1,2*ringBits+1,2^63,2^64-1-size,2^64-2,2^64-1} + relative to newest accepted {-size-1,-size,-size+1,-1,0,+1,+63,+64,+ringBits} (mod 2^64), deduplicated per state; Reset as an extra action after the first step",
		"apis":                           "every action applied to two real filters: Add on one, IsOk then MustAdd (if ok) on the other; verdicts compared with the reference, states compared with each other",
		"histories":                      nodes,
		"histories_by_len":               levels[1:],
		"histories_by_size":              sizeNodes,
		"real_filter_calls":              ops,
		"distinct_filter_states_len<=4":  len(states),
		"reference_class_x_real_verdict": vd,
		"fresh_filter_rechecks":          selfChecked,
	})
	c.Sample(map[string]any{"part": "filter", "size": 64, "history": []string{"add:0", "add:64", "add:1", "add:0", "add:18446744073709551615"}, "reference_verdicts": []bool{true, true, false, false, true}, "meaning": "each prefix of each such history is one case; the real Add and IsOk/MustAdd verdicts must equal the reference"})
}

// filterSelfTest re-runs all histories to depth 3 of sizes 64 and 1000 on
// fresh filters (no snapshot/restore) and requires silence, like the search.
func filterSelfTest() int64 {
	var n int64
	for _, si := range []int{sizeIndex(64), sizeIndex(1000)} {
		w := newFwork(si, 3, true)
		var rec func(h []fact, ref fref)
		rec = func(h []fact, ref fref) {
			if len(h) >= 3 {
				return
			}
			var arr [48]uint64
			ids := append([]uint64(nil), w.children(&ref, arr[:0])...)
			acts := make([]fact, 0, len(ids)+1)
			for _, id := range ids {
				acts = append(acts, fact{id: id})
			}
			if len(h) > 0 {
				acts = append(acts, fact{reset: true})
			}
			for _, a := range acts {
				hh := append(append([]fact(nil), h...), a)
				n++
				if v := runFilterHistory(si, hh, false); len(v) > 0 {
					harness.Fatal("fresh-filter run of %v (size %d) shows a violation the snapshot/restore search did not", hh, filterSizes[si])
				}
				r := ref
				if a.reset {
					r = fref{}
				} else if r.expect(a.id, w.size) {
					r.add(a.id)
				}
				rec(hh, r)
			}
		}
		rec(nil, fref{})
	}
	return n
}
