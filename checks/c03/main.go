// C03: a TCP handshake is accepted at most once while its timestamp is
// acceptable.  Part 1: explicit-state search over histories {advance clock,
// new request with client skew, replay, altered copy} on the virtual clock,
// every transition a real StreamServer.HandleStream call.  Part 2: all
// interleavings of k concurrent presentations of one request.
package main

import (
	"bytes"
	"context"
	"encoding/binary"
	"encoding/json"
	"errors"
	"fmt"
	"io"
	"math"
	"math/big"
	"net"
	"net/netip"
	"os"
	"os/exec"
	"strconv"
	"strings"
	"sync"
	"time"

	"github.com/database64128/shadowsocks-go/conn"
	"github.com/database64128/shadowsocks-go/netio"
	"github.com/database64128/shadowsocks-go/ss2022"
	"go.uber.org/zap"

	"verif/harness"
	"verif/shim/vcrand"
	"verif/shim/vrand"
	"verif/vsched"
)

// --- plumbing ---------------------------------------------------------------

type bufConn struct {
	r *bytes.Reader
	// onFirstRead, when set, runs inside the first Read before any byte is returned: the connection was
	// opened when HandleStream was called, the request arrives only now (time may have passed meanwhile).
	onFirstRead func() []byte
}

func (c *bufConn) Read(b []byte) (int, error) {
	if c.onFirstRead != nil {
		f := c.onFirstRead
		c.onFirstRead = nil
		c.r = bytes.NewReader(f())
	}
	if c.r.Len() == 0 {
		return 0, io.EOF
	}
	return c.r.Read(b)
}
func (c *bufConn) Write(b []byte) (int, error)        { return len(b), nil }
func (c *bufConn) Close() error                       { return nil }
func (c *bufConn) CloseWrite() error                  { return nil }
func (c *bufConn) LocalAddr() net.Addr                { return nil }
func (c *bufConn) RemoteAddr() net.Addr               { return nil }
func (c *bufConn) SetDeadline(t time.Time) error      { return nil }
func (c *bufConn) SetReadDeadline(t time.Time) error  { return nil }
func (c *bufConn) SetWriteDeadline(t time.Time) error { return nil }

type capClient struct{ got []byte }

func (c *capClient) DialStream(ctx context.Context, addr conn.Addr, payload []byte) (netio.Conn, error) {
	c.got = append([]byte(nil), payload...)
	return &bufConn{r: bytes.NewReader(nil)}, nil
}
func (c *capClient) NewStreamDialer() (netio.StreamDialer, netio.StreamDialerInfo) {
	return c, netio.StreamDialerInfo{}
}

var psk = []byte("0123456789abcdef")

var (
	cachedUCC *ss2022.UserCipherConfig
	cachedCCC *ss2022.ClientCipherConfig
)

func newServer() *ss2022.StreamServer {
	if cachedUCC == nil {
		ucc, err := ss2022.NewUserCipherConfig(psk, false)
		if err != nil {
			harness.Fatal("%v", err)
		}
		cachedUCC = &ucc
	}
	return (&ss2022.StreamServerConfig{UserCipherConfig: *cachedUCC}).NewStreamServer()
}

func newRequest() []byte {
	if cachedCCC == nil {
		c, err := ss2022.NewClientCipherConfig(psk, nil, false)
		if err != nil {
			harness.Fatal("%v", err)
		}
		cachedCCC = c
	}
	ccc := cachedCCC
	cc := &capClient{}
	cl := (&ss2022.StreamClientConfig{Name: "c", InnerClient: cc, Addr: conn.AddrFromIPPort(netipAddrPort()), CipherConfig: ccc}).NewStreamClient()
	if _, err := cl.DialStream(context.Background(), conn.AddrFromIPPort(netipAddrPort()), []byte("hi")); err != nil {
		harness.Fatal("dial: %v", err)
	}
	return cc.got
}

func present(s *ss2022.StreamServer, req []byte) error {
	_, err := s.HandleStream(&bufConn{r: bytes.NewReader(req)}, zap.NewNop())
	return err
}

// presentHeld opens the connection now (HandleStream is called), lets hold pass with nothing sent, and
// only then delivers the request returned by get.
func presentHeld(s *ss2022.StreamServer, hold time.Duration, get func() []byte) error {
	_, err := s.HandleStream(&bufConn{r: bytes.NewReader(nil), onFirstRead: func() []byte {
		vsched.Advance(hold)
		return get()
	}}, zap.NewNop())
	return err
}

// holds are the silences of a held connection (around the 30 s window and past the 60 s retention).
var holds = []time.Duration{29 * time.Second, 31 * time.Second, 61 * time.Second}

// --- histories --------------------------------------------------------------

var advs = []time.Duration{1, time.Second - 1, time.Second, 29 * time.Second, 30 * time.Second, 31 * time.Second, 59 * time.Second, 60*time.Second - 1, 60 * time.Second, 60*time.Second + 1, 61 * time.Second}
var skews = []int{-31, -30, -29, 0, 29, 30, 31}

type action struct {
	Kind string `json:"kind"` // adv new replay altered alteredFresh
	Arg  int    `json:"arg"`
}

func (a action) String() string {
	switch a.Kind {
	case "adv":
		return "Adv(" + advs[a.Arg].String() + ")"
	case "new":
		return fmt.Sprintf("New(skew%+ds)", skews[a.Arg])
	case "alteredFresh":
		return fmt.Sprintf("AlteredThenKeep(skew%+ds)", skews[a.Arg])
	case "replay":
		return fmt.Sprintf("Present(r[-%d])", a.Arg+1)
	case "heldReplay":
		return fmt.Sprintf("OpenThenAfter(%v)Present(r[-1])", holds[a.Arg])
	case "heldStale":
		return fmt.Sprintf("NewStampedAtOpenSentAfter(%v)", holds[a.Arg])
	case "heldFresh":
		return fmt.Sprintf("OpenThenAfter(%v)New", holds[a.Arg])
	}
	return fmt.Sprintf("Altered(r[-%d])", a.Arg+1)
}

// narrowAlphabet is a small boundary alphabet for deeper histories: client
// clock at the edge of the window and in the middle, advances that straddle
// the 60 s retention, replays of the last three requests.
func narrowAlphabet() []action {
	idx := func(d time.Duration) int {
		for i, x := range advs {
			if x == d {
				return i
			}
		}
		panic("adv")
	}
	sk := func(v int) int {
		for i, x := range skews {
			if x == v {
				return i
			}
		}
		panic("skew")
	}
	return []action{
		{"new", sk(30)}, {"new", sk(0)},
		{"adv", idx(1)}, {"adv", idx(60*time.Second - 1)}, {"adv", idx(60 * time.Second)},
		{"replay", 0}, {"replay", 1}, {"replay", 2},
	}
}

var useNarrow bool
var useHeld bool

// heldAlphabet is the alphabet of the held-connection pass: the connection is opened (HandleStream called)
// and the request bytes arrive only after a silence.
func heldAlphabet() []action {
	idx := func(d time.Duration) int {
		for i, x := range advs {
			if x == d {
				return i
			}
		}
		panic("adv")
	}
	out := []action{{"new", 3}, {"alteredFresh", 3}, {"adv", idx(1)}, {"adv", idx(29 * time.Second)}, {"adv", idx(31 * time.Second)}, {"replay", 0}}
	for h := range holds {
		out = append(out, action{"heldReplay", h}, action{"heldStale", h}, action{"heldFresh", h})
	}
	return out
}

func alphabet() []action {
	if useHeld {
		return heldAlphabet()
	}
	if useNarrow {
		return narrowAlphabet()
	}
	var out []action
	for i := range advs {
		out = append(out, action{"adv", i})
	}
	for i := range skews {
		out = append(out, action{"new", i})
	}
	out = append(out, action{"replay", 0}, action{"replay", 1}, action{"altered", 0})
	for _, i := range []int{1, 3, 5} { // skew -30, 0, +30
		out = append(out, action{"alteredFresh", i})
	}
	return out
}

type reqRec struct {
	bytes      []byte
	ts         int64
	acceptedAt []int64 // instants (ns) at which it was accepted
}

type histResult struct {
	sig, what string
}

var phases = []int64{0, 500_000_000, 999_999_999}

// runHistory executes one history on a fresh real server and checks every step.
func runHistory(phase int64, hist []action) (res *histResult, transitions int) {
	vcrand.Reset()
	start := vsched.Epoch + phase
	vsched.SetClock(start)
	s := newServer()
	var reqs []*reqRec
	mk := func(skew int) *reqRec {
		now := vsched.NowNS()
		vsched.SetClock(now + int64(skew)*1e9)
		b := newRequest()
		vsched.SetClock(now)
		return &reqRec{bytes: b, ts: time.Unix(0, now+int64(skew)*1e9).Unix()}
	}
	desc := func(i int) string {
		var parts []string
		for _, a := range hist[:i+1] {
			parts = append(parts, a.String())
		}
		return fmt.Sprintf("phase=.%09d %s", phase, strings.Join(parts, " "))
	}
	var hold time.Duration // silence between opening the connection and the request's arrival (next presentation)
	var atArrival bool     // the next presentation's request is created when it is sent, not when the connection opens
	doPresent := func(i int, r *reqRec) *histResult {
		transitions++
		var err error
		if hold > 0 {
			err = presentHeld(s, hold, func() []byte {
				if atArrival {
					*r = *mk(0)
				}
				return r.bytes
			})
		} else {
			err = present(s, r.bytes)
		}
		hold, atArrival = 0, false
		now := vsched.Now() // the instant the request arrived and was judged
		var tsb [8]byte
		binary.BigEndian.PutUint64(tsb[:], uint64(r.ts))
		valid := ss2022.ValidateUnixEpochTimestamp(tsb[:], now) == nil
		accepted := err == nil
		switch {
		case accepted && !valid:
			return &histResult{"timestamp-outside-window-accepted", desc(i) + ": request accepted although its timestamp is not within 30 s of the server clock"}
		case accepted && len(r.acceptedAt) > 0:
			first := r.acceptedAt[0]
			el := now.UnixNano() - first
			sig := "replay-accepted-within-60s-of-first-acceptance"
			if el >= int64(60*time.Second) {
				sig = "replay-accepted-60s-or-more-after-first-acceptance-while-timestamp-still-valid"
			}
			return &histResult{sig, fmt.Sprintf("%s: the same request bytes were accepted a second time %v after the first acceptance, while the timestamp (ts=%d, server second=%d) still passes", desc(i), time.Duration(el), r.ts, now.Unix())}
		case !accepted && valid && len(r.acceptedAt) == 0:
			return &histResult{"fresh-valid-request-refused", fmt.Sprintf("%s: genuine, never-accepted request with acceptable timestamp refused: %v", desc(i), err)}
		}
		if accepted {
			r.acceptedAt = append(r.acceptedAt, now.UnixNano())
		}
		return nil
	}
	for i, a := range hist {
		switch a.Kind {
		case "adv":
			vsched.Advance(advs[a.Arg])
		case "new":
			r := mk(skews[a.Arg])
			reqs = append(reqs, r)
			if res := doPresent(i, r); res != nil {
				return res, transitions
			}
		case "alteredFresh":
			r := mk(skews[a.Arg])
			alt := append([]byte(nil), r.bytes...)
			alt[len(psk)+3] ^= 0x01 // inside the sealed fixed-length header
			transitions++
			if err := present(s, alt); err == nil {
				return &histResult{"altered-request-accepted", desc(i) + ": request with a flipped ciphertext bit accepted"}, transitions
			}
			reqs = append(reqs, r)
		case "heldStale", "heldFresh":
			r := mk(0)
			reqs = append(reqs, r)
			hold, atArrival = holds[a.Arg], a.Kind == "heldFresh"
			if res := doPresent(i, r); res != nil {
				return res, transitions
			}
		case "heldReplay":
			if len(reqs) == 0 {
				continue
			}
			hold = holds[a.Arg]
			if res := doPresent(i, reqs[len(reqs)-1]); res != nil {
				return res, transitions
			}
		case "replay", "altered":
			if len(reqs) <= a.Arg {
				continue
			}
			r := reqs[len(reqs)-1-a.Arg]
			if a.Kind == "altered" {
				alt := append([]byte(nil), r.bytes...)
				alt[len(psk)+3] ^= 0x01
				transitions++
				if err := present(s, alt); err == nil {
					return &histResult{"altered-request-accepted", desc(i) + ": request with a flipped ciphertext bit accepted"}, transitions
				}
				continue
			}
			if res := doPresent(i, r); res != nil {
				return res, transitions
			}
		}
	}
	return nil, transitions
}

type shardOut struct {
	Histories   int64
	Transitions int64
	Pruned      int64
	Viol        map[string]histViol
	Sample      []string
}

type histViol struct {
	What  string
	Phase int64
	Hist  []action
}

// enumerate all histories of the given depth whose first action index ≡ shard (mod n).
func runShard(depth, shard, n int) *shardOut {
	out := &shardOut{Viol: map[string]histViol{}}
	al := alphabet()
	hist := make([]action, 0, depth)
	firstIdx := 0
	var rec func(phase int64)
	rec = func(phase int64) {
		if len(hist) > 1 || (len(hist) == 1 && shard == 0) {
			// skip histories that are no-ops at the end (replay of nothing is skipped inside runHistory; still counted once)
			res, tr := runHistory(phase, hist)
			out.Histories++
			out.Transitions += int64(tr)
			if res != nil {
				if _, ok := out.Viol[res.sig]; !ok {
					out.Viol[res.sig] = histViol{res.what, phase, append([]action(nil), hist...)}
				}
				return // do not extend a violating history
			}
			if out.Histories%200000 == 1 && len(out.Sample) < 3 {
				var p []string
				for _, a := range hist {
					p = append(p, a.String())
				}
				out.Sample = append(out.Sample, strings.Join(p, " "))
			}
		}
		if len(hist) == depth {
			return
		}
		for i, a := range al {
			if len(hist) == 1 && (firstIdx*len(al)+i)%n != shard {
				continue
			}
			if len(hist) == 0 {
				firstIdx = i
			}
			// prune: an action on a request that does not exist yet is a no-op
			if ((a.Kind == "replay" || a.Kind == "altered") && countReqs(hist) <= a.Arg) || (a.Kind == "heldReplay" && countReqs(hist) == 0) {
				out.Pruned++
				continue
			}
			// prune: two consecutive advances are covered by their sum only where the sum is in the alphabet; keep them (cheap)
			hist = append(hist, a)
			rec(phase)
			hist = hist[:len(hist)-1]
		}
	}
	for _, ph := range phases {
		if useNarrow && os.Getenv("C03_TIER") != "thorough" && ph != 500_000_000 {
			continue // quick: the narrow-deep pass runs from one mid-second phase
		}
		rec(ph)
	}
	return out
}

func countReqs(h []action) int {
	n := 0
	for _, a := range h {
		if a.Kind == "new" || a.Kind == "alteredFresh" || a.Kind == "heldStale" || a.Kind == "heldFresh" {
			n++
		}
	}
	return n
}

// --- concurrent presentations ------------------------------------------------

func concScenario(param string) vsched.Scenario {
	k, _ := strconv.Atoi(strings.TrimSuffix(param, "+fresh"))
	withFresh := strings.HasSuffix(param, "+fresh")
	return func() (func(), func(*vsched.Exec) (string, string)) {
		errs := make([]error, k)
		var freshErr error
		freshRan := false
		body := func() {
			s := newServer()
			req := newRequest()
			var other []byte
			if withFresh {
				other = newRequest()
			}
			var g vsched.Group
			for i := 0; i < k; i++ {
				g.Go(func() { errs[i] = present(s, req) })
			}
			if withFresh {
				g.Go(func() { freshErr = present(s, other); freshRan = true })
			}
			g.Wait()
		}
		check := func(e *vsched.Exec) (string, string) {
			acc := 0
			var es []string
			for _, err := range errs {
				if err == nil {
					acc++
				}
				es = append(es, fmt.Sprint(err))
			}
			obs := fmt.Sprintf("accepted=%d errs=%v fresh=%v", acc, es, freshErr)
			if len(e.Panics) > 0 {
				return obs, "panic: " + e.Panics[0]
			}
			if e.Deadlock || e.HorizonHit {
				return obs, "deadlock: " + strings.Join(e.Blocked, " ")
			}
			if acc > 1 {
				return obs, fmt.Sprintf("%d concurrent presentations of one request were accepted", acc)
			}
			if acc == 0 {
				return obs, "none of the concurrent presentations of a genuine fresh request was accepted"
			}
			for _, err := range errs {
				if err != nil && !errors.Is(err, ss2022.ErrRepeatedSalt) {
					return obs, "a concurrent copy failed with something other than the replay error: " + err.Error()
				}
			}
			if withFresh && (!freshRan || freshErr != nil) {
				return obs, fmt.Sprintf("a different fresh request presented concurrently was refused: %v", freshErr)
			}
			return obs, ""
		}
		return body, check
	}
}

func main() {
	vrand.Hook = func(n int) int { return 0 }
	vcrand.Deterministic = true
	harness.Register("concurrent", concScenario)
	shardFlag := os.Getenv("C03_SHARD")
	if shardFlag != "" {
		var depth, i, n int
		if strings.HasPrefix(shardFlag, "narrow:") {
			useNarrow = true
			shardFlag = strings.TrimPrefix(shardFlag, "narrow:")
		}
		if strings.HasPrefix(shardFlag, "held:") {
			useHeld = true
			shardFlag = strings.TrimPrefix(shardFlag, "held:")
		}
		fmt.Sscanf(shardFlag, "%d:%d/%d", &depth, &i, &n)
		out := runShard(depth, i, n)
		json.NewEncoder(os.Stdout).Encode(out)
		return
	}
	harness.WorkerMain()
	c := harness.Start("C03")
	if c.Replay != "" {
		r, err := harness.ReplayFile(c.Replay)
		if err != nil {
			harness.Fatal("%v", err)
		}
		if r["kind"] == "window" {
			now, _ := strconv.ParseInt(fmt.Sprint(r["now"]), 10, 64)
			ts, _ := strconv.ParseUint(fmt.Sprint(r["ts"]), 10, 64)
			if got, want := windowVerdict(ts, now); got != want {
				fmt.Printf("VIOLATION property=C03 replay=%s\n  server second %d timestamp %d accepted=%v want %v\n", c.Replay, now, ts, got, want)
				os.Exit(1)
			}
			fmt.Println("no violation on replay")
			os.Exit(0)
		}
		if r["kind"] == "history" {
			var hv histViol
			b, _ := json.Marshal(r["history"])
			json.Unmarshal(b, &hv)
			res, _ := runHistory(hv.Phase, hv.Hist)
			if res != nil {
				fmt.Printf("VIOLATION property=C03 replay=%s\n  %s\n", c.Replay, res.what)
				os.Exit(1)
			}
			fmt.Println("no violation on replay")
			os.Exit(0)
		}
		if harness.ReplayExploration(c) {
			os.Exit(1)
		}
		os.Exit(0)
	}
	c.Rule = "history part: one case = one history over {Adv(d) for 11 boundary durations, New(skew) for 7 client skews, Present(r[-1]), Present(r[-2]), Altered(r[-1]), AlteredThenKeep(skew)} from 3 server clock phases, every step a real HandleStream call on a fresh server per history; all histories to the stated depth (histories that extend a violating prefix are not run). held pass: the same over an alphabet whose presentations open the connection first (HandleStream is called) and deliver the request only after a silence of 29 s, 31 s or 61 s - a request stamped when the connection opened, one stamped when it is sent, or a copy of the last request; acceptability is judged at the instant the request arrives. schedule part: one case = one interleaving of k HandleStream calls on the same bytes (+ one different fresh request)."
	c.Assumptions = []string{"time.Now in package ss2022 is the virtual clock (overlay)", "crypto/rand is a reproducible counter stream; padding length fixed to its minimum (irrelevant to the salt pool)", "single-user server, aes-128; the salt pool and timestamp rule do not depend on cipher or EIH"}
	n := harness.Workers()
	type pass struct {
		name  string
		depth int
	}
	passes := []pass{{"wide", harness.Pick(c, 4, 5)}, {"narrow", harness.Pick(c, 7, 8)}, {"held", harness.Pick(c, 4, 5)}}
	for _, ps := range passes {
		outs := make([]*shardOut, n)
		var wg sync.WaitGroup
		for i := 0; i < n; i++ {
			wg.Add(1)
			go func(i int) {
				defer wg.Done()
				cmd := exec.Command(os.Args[0])
				pre := ""
				if ps.name != "wide" {
					pre = ps.name + ":"
				}
				cmd.Env = append(os.Environ(), fmt.Sprintf("C03_SHARD=%s%d:%d/%d", pre, ps.depth, i, n), "C03_TIER="+c.Tier)
				cmd.Stderr = os.Stderr
				b, err := cmd.Output()
				if err != nil {
					harness.Fatal("history shard %d failed: %v", i, err)
				}
				var o shardOut
				if err := json.Unmarshal(b, &o); err != nil {
					harness.Fatal("history shard %d: %v", i, err)
				}
				outs[i] = &o
			}(i)
		}
		wg.Wait()
		var hist, trans int64
		for _, o := range outs {
			hist += o.Histories
			trans += o.Transitions
			for sig, v := range o.Viol {
				c.Violation(sig, v.What, map[string]any{"kind": "history", "narrow": ps.name == "narrow", "pass": ps.name, "history": v})
			}
			for _, s := range o.Sample {
				c.Sample(map[string]any{"history": s, "pass": ps.name})
			}
		}
		c.Count(hist, hist, trans)
		for i := int64(0); i < hist && i < 1_000_000; i++ {
			c.Distinct(fmt.Sprint(ps.name, i), true)
		}
		useNarrow, useHeld = ps.name == "narrow", ps.name == "held"
		c.Part("histories-"+ps.name, map[string]any{"depth": ps.depth, "alphabet_size": len(alphabet()), "alphabet": fmt.Sprint(alphabet()), "phases": phases, "histories": hist, "handshakes_presented": trans})
		useNarrow, useHeld = false, false
	}
	windowPass(c)
	c.Sample(map[string]any{"history": "phase=.500000000 New(skew+30s) Adv(1m0s) New(skew+0s) Present(r[-2])", "meaning": "accept with client 30 s ahead, wait 60 s, a fresh handshake prunes the pool, replay the first"})
	// concurrent part
	params := []string{"2", "3", "2+fresh"}
	if c.Thorough() {
		params = append(params, "3+fresh", "4")
	}
	for _, r := range harness.ExploreBatch("concurrent", params, harness.Pick(c, 3, 4), harness.Pick(c, 60*time.Second, 5*time.Minute), false) {
		c.Sample(map[string]any{"scenario": "concurrent presentations k=" + r.Param, "executions": r.Stats.Execs, "observations": len(r.Stats.Observations)})
		c.AddExploration("concurrent", r.Param, r.Stats, harness.Confirm(concScenario(r.Param)))
	}
	c.Finish()
}

func netipAddrPort() netip.AddrPort { return netip.MustParseAddrPort("127.0.0.1:80") }

// windowEdges are the 64-bit values around which a timestamp comparison can go
// wrong: zero, the 30 s window, the 32- and 63/64-bit wrap points.
var windowEdges = []int64{0, 1, 29, 30, 31, 32, 60, 1 << 31, 1 << 32, 1 << 62, math.MaxInt64 - 31, math.MaxInt64 - 30, math.MaxInt64 - 1, math.MaxInt64,
	-1, -29, -30, -31, -32, -60, -(1 << 31), -(1 << 32), -(1 << 62), math.MinInt64 + 31, math.MinInt64 + 30, math.MinInt64 + 1, math.MinInt64}

// windowVerdict runs the real ValidateUnixEpochTimestamp on (ts, now) and
// returns what it said and what the statement says (|ts-now| <= 30 in exact
// arithmetic: a timestamp is a 64-bit number of seconds, the distance is not).
func windowVerdict(ts uint64, now int64) (got, want bool) {
	var b [8]byte
	binary.BigEndian.PutUint64(b[:], ts)
	got = ss2022.ValidateUnixEpochTimestamp(b[:], time.Unix(now, 0)) == nil
	d := new(big.Int).Sub(big.NewInt(int64(ts)), big.NewInt(now))
	want = d.CmpAbs(big.NewInt(30)) <= 0
	return
}

// windowPass: every (server second, header timestamp) pair from the edge grid
// - server seconds at each edge up to +-2^62, timestamps at server second + edge (wrapping,
// as the 8 header bytes do) and at each edge itself.
func windowPass(c *harness.Check) {
	var cases, accepted int64
	seen := map[[2]uint64]bool{}
	for _, now := range windowEdges {
		if now > 1<<62 || now < -(1<<62) {
			continue // a server clock within 31 s of +-2^63 s is not an input (year 292 billion); there the 8-byte timestamp itself wraps
		}
		var tss []uint64
		for _, e := range windowEdges {
			tss = append(tss, uint64(now)+uint64(e), uint64(e))
		}
		for _, ts := range tss {
			k := [2]uint64{uint64(now), ts}
			if seen[k] {
				continue
			}
			seen[k] = true
			cases++
			got, want := windowVerdict(ts, now)
			if got {
				accepted++
			}
			c.Distinct(fmt.Sprint("window", now, ts), true)
			if got != want {
				sig := "window/timestamp-outside-30s-accepted"
				if want {
					sig = "window/timestamp-within-30s-refused"
				}
				c.Violation(sig, fmt.Sprintf("server second %d, header timestamp %d (as int64 %d): accepted=%v, the statement says %v", now, ts, int64(ts), got, want),
					map[string]any{"kind": "window", "now": strconv.FormatInt(now, 10), "ts": strconv.FormatUint(ts, 10)})
			}
		}
	}
	c.Count(cases, cases, cases)
	c.Part("timestamp-window", map[string]any{"edges": len(windowEdges), "pairs": cases, "accepted": accepted,
		"oracle": "accepted iff |timestamp - server second| <= 30 computed without overflow; real ss2022.ValidateUnixEpochTimestamp on every pair"})
}
