package main

import (
	"bytes"
	"encoding/binary"
	"strings"
)

// fixed key material (any value works; the servers and the harness share it)
var (
	psk16   = bytes.Repeat([]byte{0x11}, 16)
	psk32   = bytes.Repeat([]byte{0x22}, 32)
	ipsk16  = bytes.Repeat([]byte{0x33}, 16)
	ipsk16b = bytes.Repeat([]byte{0x44}, 16)
	upskA   = bytes.Repeat([]byte{0x55}, 16)
	upskB   = bytes.Repeat([]byte{0x66}, 16)
)

// virtual "now" of every worker: 2025-01-01T00:00:00Z
const nowUnix int64 = 1735689600

func be16(v uint16) []byte { return []byte{byte(v >> 8), byte(v)} }
func be64(v uint64) []byte { b := make([]byte, 8); binary.BigEndian.PutUint64(b, v); return b }
func cat(bs ...[]byte) []byte {
	var out []byte
	for _, b := range bs {
		out = append(out, b...)
	}
	if out == nil {
		out = []byte{}
	}
	return out
}

func s5v4(ip [4]byte, port uint16) []byte  { return cat([]byte{1}, ip[:], be16(port)) }
func s5v6(ip [16]byte, port uint16) []byte { return cat([]byte{4}, ip[:], be16(port)) }
func s5dom(name string, port uint16) []byte {
	return cat([]byte{3, byte(len(name))}, []byte(name), be16(port))
}

var (
	ip6doc    = [16]byte{0x20, 0x01, 0x0d, 0xb8, 15: 1}
	ip4mapped = [16]byte{10: 0xff, 11: 0xff, 12: 10, 13: 1, 14: 2, 15: 3}
	name254   = strings.Repeat("a", 63) + "." + strings.Repeat("b", 63) + "." + strings.Repeat("c", 63) + "." + strings.Repeat("d", 62)
	name255   = name254 + "e"
)

var seedPorts = []uint16{0, 1, 53, 443, 65535}

// every address kind x every boundary port (SOCKS5 wire form; all well formed)
func addrSeedsFull() [][]byte {
	var out [][]byte
	for _, p := range seedPorts {
		out = append(out,
			s5v4([4]byte{1, 2, 3, 4}, p),
			s5v4([4]byte{}, p),
			s5v6(ip4mapped, p),
			s5v6(ip6doc, p),
			s5v6([16]byte{}, p),
			s5dom("a", p),
			s5dom("aa", p),
			s5dom("example.com", p),
			s5dom("\x00:\xff.", p),
			s5dom(name254, p),
			s5dom(name255, p),
		)
	}
	return out
}

// reduced set for entry points where every case costs a handshake
func addrSeedsReduced() [][]byte {
	out := [][]byte{
		s5v4([4]byte{1, 2, 3, 4}, 443),
		s5v6(ip4mapped, 443),
		s5v6(ip6doc, 443),
		s5dom("a", 443),
		s5dom("aa", 443),
		s5dom("example.com", 443),
		s5dom(name254, 443),
		s5dom(name255, 443),
	}
	for _, p := range []uint16{0, 1, 53, 65535} {
		out = append(out, s5v4([4]byte{10, 0, 0, 1}, p), s5dom("a", p), s5v6(ip6doc, p))
	}
	return out
}

// IP-only seeds (server -> client datagrams carry the packet's source)
func addrSeedsIP() [][]byte {
	var out [][]byte
	for _, p := range seedPorts {
		out = append(out, s5v4([4]byte{8, 8, 8, 8}, p), s5v6(ip4mapped, p), s5v6(ip6doc, p))
	}
	return out
}

// ---------------------------------------------------------------------------
// DNS messages, hand assembled (RFC 1035)

func dnsName(name string) []byte {
	var b []byte
	for _, l := range strings.Split(name, ".") {
		if l == "" {
			continue
		}
		b = append(b, byte(len(l)))
		b = append(b, l...)
	}
	return append(b, 0)
}

func dnsHeader(id, flags, qd, an, ns, ar uint16) []byte {
	return cat(be16(id), be16(flags), be16(qd), be16(an), be16(ns), be16(ar))
}

func dnsQ(name []byte, typ uint16) []byte { return cat(name, be16(typ), be16(1)) }

func dnsRR(name []byte, typ uint16, ttl uint32, rdata []byte) []byte {
	t := []byte{byte(ttl >> 24), byte(ttl >> 16), byte(ttl >> 8), byte(ttl)}
	return cat(name, be16(typ), be16(1), t, be16(uint16(len(rdata))), rdata)
}

var ptr12 = []byte{0xc0, 0x0c}

func dnsSeeds() [][]byte {
	q4 := dnsQ(dnsName("example.com"), 1)
	q6 := dnsQ(dnsName("example.com"), 28)
	const resp = 0x8180 // QR RD RA
	soa := cat(dnsName("ns.example.com"), dnsName("admin.example.com"), []byte{0, 0, 0, 1, 0, 0, 0, 2, 0, 0, 0, 3, 0, 0, 0, 4, 0, 0, 0, 5})
	opt := cat([]byte{0}, be16(41), be16(1232), []byte{0, 0, 0, 0}, be16(0))
	return [][]byte{
		cat(dnsHeader(4, resp, 1, 2, 0, 0), q4, dnsRR(ptr12, 1, 60, []byte{1, 2, 3, 4}), dnsRR(ptr12, 1, 10, []byte{5, 6, 7, 8})),
		cat(dnsHeader(6, resp, 1, 1, 0, 0), q6, dnsRR(ptr12, 28, 300, ip6doc[:])),
		cat(dnsHeader(4, resp, 1, 2, 0, 0), q4, dnsRR(ptr12, 5, 60, dnsName("cdn.example.net")), dnsRR(dnsName("cdn.example.net"), 1, 0, []byte{9, 9, 9, 9})),
		cat(dnsHeader(4, resp|3, 1, 0, 1, 0), q4, dnsRR(dnsName("com"), 6, 900, soa)),
		cat(dnsHeader(6, resp|2, 1, 0, 0, 0), q6),
		cat(dnsHeader(4, resp|0x0200, 1, 1, 0, 0), q4, dnsRR(ptr12, 1, 60, []byte{1, 1, 1, 1})),
		cat(dnsHeader(6, resp, 1, 1, 0, 1), q6, dnsRR(ptr12, 28, 60, ip4mapped[:]), opt),
		cat(dnsHeader(4, resp, 1, 1, 0, 0), dnsQ(ptr12, 1), dnsRR(ptr12, 1, 60, []byte{1, 2, 3, 4})), // name is a pointer to itself
		cat(dnsHeader(4, 0x0100, 1, 0, 0, 0), q4),                                                    // a query, not a response
		cat(dnsHeader(4, 0x8100, 1, 0, 0, 0), q4),                                                    // no recursion available
		cat(dnsHeader(5, resp, 1, 0, 0, 0), q4),                                                      // unexpected transaction ID
		cat(dnsHeader(4, resp|6, 1, 0, 0, 0), q4),                                                    // unknown rcode
		cat(dnsHeader(4, resp, 0, 1, 0, 0), dnsRR(dnsName("x"), 1, 0xffffffff, []byte{1, 2, 3, 4})),  // no question, maximal TTL
		cat(dnsHeader(6, resp, 1, 1, 0, 0), q6, dnsRR(ptr12, 28, 60, []byte{1, 2, 3, 4})),            // AAAA with 4-byte rdata
		cat(dnsHeader(4, resp, 1, 1, 0, 0), q4, dnsRR(ptr12, 1, 60, ip6doc[:])),                      // A with 16-byte rdata
		cat(dnsHeader(4, resp, 0xffff, 0xffff, 0xffff, 0xffff)),                                      // counts without records
	}
}

// TCP framing: 2-byte length + message
func dnsFrame(msgs ...[]byte) []byte {
	var out []byte
	for _, m := range msgs {
		out = append(out, be16(uint16(len(m)))...)
		out = append(out, m...)
	}
	return out
}
