package main

import (
	"bytes"
	"encoding/hex"
	"fmt"
	"io"
	"strings"

	"github.com/database64128/shadowsocks-go/conn"
	"github.com/database64128/shadowsocks-go/netio"

	"verif/harness"
)

type group struct {
	name          string
	desc          string
	parts         []part
	run           func(w *worker, in []byte)
	setup         func(w *worker)
	seedsMustPass bool
}

func (g *group) total() uint64 {
	var t uint64
	for _, p := range g.parts {
		t += p.count()
	}
	return t
}

func (g *group) inputAt(seq uint64) []byte {
	for _, p := range g.parts {
		if seq < p.count() {
			return p.at(seq, nil)
		}
		seq -= p.count()
	}
	return nil
}

func addSamples(c *harness.Check, groups []*group) {
	// one well-formed seed and one enumerated / mutated input per sampled entry, spread over all families
	stride := max(1, len(groups)/6)
	for gi := 0; gi < len(groups); gi += stride {
		g := groups[gi]
		var seedPart, otherPart part
		for _, p := range g.parts {
			if p.count() == 0 {
				continue
			}
			if strings.HasSuffix(p.label(), "/seeds") && seedPart == nil {
				seedPart = p
			} else if otherPart == nil || strings.HasSuffix(p.label(), "/mut1") {
				otherPart = p
			}
		}
		for _, p := range []part{seedPart, otherPart} {
			if p == nil {
				continue
			}
			idx := uint64(0)
			if p != seedPart {
				idx = p.count() / 2
			}
			in := p.at(idx, nil)
			for in == nil && idx+1 < p.count() {
				idx++
				in = p.at(idx, nil)
			}
			s := hex.EncodeToString(in)
			if len(s) > 160 {
				s = s[:160] + "..."
			}
			c.Sample(map[string]any{"entry": g.name, "what": g.desc, "generator": p.label(), "index": idx, "input_hex": s})
		}
	}
}

var dialCodes = []conn.DialResultCode{
	conn.DialResultCodeEACCES, conn.DialResultCodeENETDOWN, conn.DialResultCodeENETUNREACH, conn.DialResultCodeENETRESET,
	conn.DialResultCodeECONNABORTED, conn.DialResultCodeECONNRESET, conn.DialResultCodeETIMEDOUT, conn.DialResultCodeECONNREFUSED,
	conn.DialResultCodeEHOSTDOWN, conn.DialResultCodeEHOSTUNREACH, conn.DialResultCodeErrDomainNameLookup, conn.DialResultCodeErrOther,
	conn.DialResultCodeSuccess, conn.DialResultCode(77),
}

// streamRef is what the reference says about a client byte stream.
type streamRef struct {
	res     int
	addr    refAddr
	user    string
	stream  []byte // when checkStream: the bytes the tunnel may deliver, in order
	initial int
	check   bool // compare delivered bytes against stream
	none    bool // no reference decision for this protocol (only generic invariants)
	must    int  // when none: resReject means the coarse reference forbids acceptance
}

type handshakeFn func(in []byte) (netio.ConnRequest, *memConn, error)

func addrClass(a conn.Addr) string {
	switch {
	case a.IsIP() && a.IP().Is4():
		return "ok-ip4"
	case a.IsIP() && a.IP().Is4In6():
		return "ok-ip4in6"
	case a.IsIP():
		return "ok-ip6"
	case a.IsDomain():
		return "ok-domain"
	}
	return "ok-zero"
}

// streamServerCase: handshake on the real server, comparison with the
// reference, then the reply and relay paths of an accepted request.
func (w *worker) streamServerCase(wire []byte, hs handshakeFn, ref streamRef, relayGoroutines bool) {
	w.wire = wire
	req, c, err := hs(wire)
	w.ops++
	switch {
	case err == nil:
		w.sum.Accepted++
		w.class(addrClass(req.Addr))
		if w.isSeed {
			w.sum.SeedsOK++
		}
		if ref.none {
			if ref.must == resReject {
				w.fail("accepted-malformed:"+familyOf(w.g.name), fmt.Sprintf("the server accepted a byte stream without a complete/authorised request and produced a request for %s (user %q)", req.Addr.String(), req.Username))
			}
		} else if ref.res != resAccept {
			w.fail("accepted-malformed:"+familyOf(w.g.name), fmt.Sprintf("the server accepted a byte stream the protocol text calls malformed/incomplete and produced a request for %s (user %q)", req.Addr.String(), req.Username))
		} else if !sameAddr(req.Addr, ref.addr) {
			w.fail("wrong-address:"+familyOf(w.g.name), fmt.Sprintf("the server extracted %s; the reference decoding gives %+v", req.Addr.String(), ref.addr))
		} else if req.Username != ref.user {
			w.fail("wrong-user:"+familyOf(w.g.name), fmt.Sprintf("the server attributed the request to %q; the reference says %q", req.Username, ref.user))
		}
	case err == netio.ErrHandleStreamDone:
		w.class("handled")
		if w.isSeed {
			w.sum.SeedsOK++
		}
		if !ref.none && ref.res != resDone {
			w.fail("handled-malformed:"+familyOf(w.g.name), "the server completed a non-relay request on a byte stream the protocol text calls malformed/incomplete")
		}
		return
	default:
		w.class("err")
		if !ref.none && ref.res != resReject {
			w.sum.RefOKErr++
		}
		return
	}
	if req.PendingConn == nil {
		w.fail("accepted-without-pending-conn", "HandleStream returned no error and no pending connection")
		return
	}
	if ref.check && ref.res == resAccept && !bytes.Equal(req.Payload, ref.stream[:ref.initial]) {
		w.fail("wrong-initial-payload:"+familyOf(w.g.name), fmt.Sprintf("initial payload %x differs from the reference's %x", clip(req.Payload), clip(ref.stream[:ref.initial])))
	}
	w.useAddr(req.Addr, req.Username, false, req.Payload)

	// reply path 1: the dial failed / the router rejected -> Abort
	code := dialCodes[int(w.seq%uint64(len(dialCodes)))]
	w.ops++
	w.protect("PendingConn.Abort", func() { _ = req.Abort(conn.DialResult{Code: code}) })
	if w.isSeed {
		for _, dc := range dialCodes {
			r2, _, err := hs(wire)
			if err != nil || r2.PendingConn == nil {
				break
			}
			w.ops += 2
			w.protect("PendingConn.Abort", func() { _ = r2.Abort(conn.DialResult{Code: dc}) })
		}
	}
	_ = c

	// reply path 2: Proceed, then relay in both directions
	r3, c3, err := hs(wire)
	w.ops++
	if err != nil || r3.PendingConn == nil {
		w.fail("handshake-not-repeatable", "the same bytes were accepted once and rejected on a second, fresh server instance")
		return
	}
	if relayGoroutines {
		c3.withDone()
	}
	w.protect("PendingConn.Proceed and relay", func() {
		tc, err := r3.Proceed()
		w.ops++
		if err != nil {
			return
		}
		if tc == nil {
			w.fail("proceed-nil-conn", "Proceed returned neither a connection nor an error")
			return
		}
		if relayGoroutines && tc != netio.Conn(c3) {
			w.httpRelay(tc, c3, w.relayResp)
			return
		}
		got := append([]byte{}, r3.Payload...) // the relay hands the initial payload to the outbound dial before anything is written back
		_, _ = tc.Write([]byte("PONG"))
		w.ops++
		if w.rbuf == nil {
			w.rbuf = make([]byte, 70000)
		}
		buf := w.rbuf
		for i := 0; i < 64; i++ {
			n, err := tc.Read(buf)
			w.ops++
			got = append(got, buf[:n]...)
			if err != nil {
				break
			}
			if n == 0 && i > 8 {
				break
			}
		}
		_ = tc.CloseWrite()
		_ = tc.Close()
		if ref.check && ref.res == resAccept && !bytes.HasPrefix(ref.stream, got) {
			w.fail("tunnel-delivered-unauthenticated-bytes:"+familyOf(w.g.name), fmt.Sprintf("the tunnel delivered %x; the authenticated plaintext is %x", clip(got), clip(ref.stream)))
		}
	})
}

func clip(b []byte) []byte {
	if len(b) > 48 {
		return b[:48]
	}
	return b
}

// familyOf strips the configuration suffix of a group name ("socks5-server/auth" -> "socks5-server").
func familyOf(name string) string {
	for i := 0; i < len(name); i++ {
		if name[i] == '/' {
			return name[:i]
		}
	}
	return name
}

type limitedDiscard struct{ n int }

func (d *limitedDiscard) Write(p []byte) (int, error) { d.n += len(p); return len(p), nil }

var _ io.Writer = (*limitedDiscard)(nil)
