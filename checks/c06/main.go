// C06: no bytes from the network can crash the process.
//
// Bounded-exhaustive enumeration of inputs at every network-facing entry point
// (all strings up to length L over each parser's branch constants, every
// truncation of every seed message, every single / double boundary-value
// mutation, "length +-1" insertions and deletions).  Every case runs the real
// parser of /repo; authenticated protocols get their malformed inner headers
// sealed with the real key.  Every address a parser yields is pushed through
// route matching under one router per criterion representation, through the
// reply path (Abort / Proceed) and through the request writers of every
// outbound client.  The oracle: no panic / fatal error, and whenever the real
// code accepts an input, a reference decoder written from the protocol texts
// accepts it too, with the same address and payload.
//
// Cases run in worker subprocesses (re-exec of this binary) so that a fatal
// error or a panic in a goroutine started by the code under test is attributed
// to exactly one input.
package main

import (
	"bufio"
	"bytes"
	"encoding/binary"
	"encoding/hex"
	"encoding/json"
	"flag"
	"fmt"
	"os"
	"os/exec"
	"regexp"
	"runtime"
	"runtime/debug"
	"runtime/pprof"
	"sort"
	"strconv"
	"strings"
	"sync"
	"syscall"
	"time"

	"github.com/database64128/shadowsocks-go/zerocopy"

	"verif/harness"
	"verif/shim/vcrand"
	"verif/shim/vrand"
	"verif/vsched"
)

var (
	fWorker = flag.String("c06worker", "", "internal: shard i/n")
	fMark   = flag.String("c06mark", "", "internal: progress marker file")
	fResume = flag.String("c06resume", "", "internal: group:seq to resume at")
	fOne    = flag.String("c06one", "", "internal: run one case of this group")
	fInput  = flag.String("c06input", "", "internal: hex input for --c06one")
	fSeq    = flag.Uint64("c06seq", 0, "internal: case number for --c06one")
	fTmp    = flag.String("c06tmp", "", "internal: scratch directory")
	fBudget = flag.Duration("c06budget", 0, "internal: worker time budget")
	fOnly   = flag.String("c06groups", "", "debug: comma separated group name prefixes to run")
	fList   = flag.Bool("c06list", false, "debug: list groups and case counts")
)

func fatalf(format string, a ...any) { harness.Fatal(format, a...) }

// ---------------------------------------------------------------------------
// worker side

type violRec struct {
	Sig   string         `json:"sig"`
	What  string         `json:"what"`
	Group string         `json:"group"`
	GI    int            `json:"gi"`
	Seq   uint64         `json:"seq"`
	Input string         `json:"input"`
	Wire  string         `json:"wire,omitempty"`
	Extra map[string]any `json:"extra,omitempty"`
}

type groupSum struct {
	T          string            `json:"t"`
	Group      string            `json:"group"`
	GI         int               `json:"gi"`
	Evals      uint64            `json:"evals"`
	Ops        uint64            `json:"ops"`
	Accepted   uint64            `json:"accepted"`
	RefOKErr   uint64            `json:"refok_realerr"`
	Addrs      uint64            `json:"addrs"`
	Dups       uint64            `json:"dups"`
	SeedsOK    uint64            `json:"seeds_ok"`
	SeedsTotal uint64            `json:"seeds_total"`
	Classes    map[string]uint64 `json:"classes"`
	Parts      map[string]uint64 `json:"parts"`
	Hangs      uint64            `json:"hangs"`
	CPUms      uint64            `json:"cpu_ms"`
}

type worker struct {
	env   *env
	g     *group
	gi    int
	seq   uint64
	in    []byte
	wire  []byte
	viols map[string]*violRec
	sum   *groupSum
	ops   uint64
	mark  []byte
	out   *bufio.Writer

	distinctAddrs uint64
	relayResp     []byte
	rbuf          []byte
	cpu0          uint64
	udpSrv        any
	ssServerUnp   zerocopy.ServerUnpacker
	ssPacker      zerocopy.ServerPacker
	isSeed        bool
}

func (w *worker) class(s string) { w.sum.Classes[s]++ }

func (w *worker) fail(sig, what string) { w.failExtra(sig, what, nil) }

func (w *worker) failExtra(sig, what string, extra map[string]any) {
	if _, ok := w.viols[sig]; ok {
		return
	}
	v := &violRec{Sig: sig, What: what, Group: w.g.name, GI: w.gi, Seq: w.seq, Input: hex.EncodeToString(w.in), Extra: extra}
	if w.wire != nil && !bytes.Equal(w.wire, w.in) {
		wire := w.wire
		if len(wire) > 2048 {
			wire = wire[:2048]
		}
		v.Wire = hex.EncodeToString(wire)
	}
	w.viols[sig] = v
	b, _ := json.Marshal(struct {
		T string `json:"t"`
		*violRec
	}{"v", v})
	w.out.Write(b)
	w.out.WriteByte('\n')
	w.out.Flush()
}

type panicClass struct {
	fn     string
	msg    string
	frames []string
}

var digitsRe = regexp.MustCompile(`0x[0-9a-fA-F]+|[0-9]+`)

const repoPrefix = "github.com/database64128/shadowsocks-go/"

func normMsg(s string) string {
	s = digitsRe.ReplaceAllString(s, "N")
	s = strings.Join(strings.Fields(s), " ")
	if len(s) > 100 {
		s = s[:100]
	}
	return s
}

func framesOf(stack string) (repo []string, first string) {
	for _, line := range strings.Split(stack, "\n") {
		if line == "" || line[0] == '\t' || strings.HasPrefix(line, "goroutine ") || strings.HasPrefix(line, "created by ") {
			continue
		}
		if i := strings.LastIndex(line, "("); i > 0 {
			line = line[:i]
		}
		if strings.HasPrefix(line, "runtime") || strings.HasPrefix(line, "panic") || strings.HasPrefix(line, "main.") || strings.HasPrefix(line, "verif/") {
			continue
		}
		if first == "" {
			first = line
		}
		if strings.HasPrefix(line, repoPrefix) {
			f := strings.TrimPrefix(line, repoPrefix)
			if len(repo) < 10 {
				repo = append(repo, f)
			}
		}
	}
	return
}

func classifyPanic(r any) panicClass {
	repo, first := framesOf(string(debug.Stack()))
	pc := panicClass{msg: normMsg(fmt.Sprint(r)), frames: repo}
	switch {
	case len(repo) > 0:
		pc.fn = repo[0]
	case first != "":
		pc.fn = first
	default:
		pc.fn = "unknown"
	}
	return pc
}

// protect runs f; a panic of the code under test is an observation.
func (w *worker) protect(stage string, f func()) (ok bool) {
	defer func() {
		if r := recover(); r != nil {
			pc := classifyPanic(r)
			w.fail("panic:"+pc.fn+":"+pc.msg, fmt.Sprintf("panic during %s (entry %s): %v; call chain: %s", stage, w.g.name, r, strings.Join(pc.frames, " <- ")))
			ok = false
		}
	}()
	f()
	return true
}

func (w *worker) setMark() {
	if w.mark == nil {
		return
	}
	binary.LittleEndian.PutUint64(w.mark[0:], uint64(w.gi))
	binary.LittleEndian.PutUint64(w.mark[8:], w.seq)
	binary.LittleEndian.PutUint64(w.mark[16:], w.sum.Evals)
	binary.LittleEndian.PutUint64(w.mark[24:], w.sum.Ops+w.ops)
	binary.LittleEndian.PutUint64(w.mark[32:], w.sum.Accepted)
	binary.LittleEndian.PutUint64(w.mark[40:], 1) // a case is in flight
}

func (w *worker) runCase(seq uint64, in []byte, seed bool) {
	w.seq, w.in, w.wire, w.isSeed = seq, in, nil, seed
	w.setMark()
	w.sum.Evals++
	w.ops = 0
	w.protect("parsing", func() { w.g.run(w, in) })
	w.sum.Ops += w.ops
	if w.mark != nil {
		binary.LittleEndian.PutUint64(w.mark[40:], 0)
	}
}

func workerSetup() {
	runtime.GOMAXPROCS(1)
	debug.SetGCPercent(400)
	vsched.SetClock(nowUnix * 1e9)
	vcrand.Deterministic = true
	vrand.Hook = func(n int) int { return n - 1 } // padding: always the longest allowed
	vrand.U64Hook = func() uint64 { return 0x0123456789abcdef }
}

func workerMain() {
	var shard, nshards uint64
	if _, err := fmt.Sscanf(*fWorker, "%d/%d", &shard, &nshards); err != nil || nshards == 0 {
		fatalf("bad --c06worker %q", *fWorker)
	}
	workerSetup()
	if pf := os.Getenv("C06_PROF"); pf != "" {
		f, _ := os.Create(pf)
		pprof.StartCPUProfile(f)
		defer pprof.StopCPUProfile()
	}
	tier := flag.Lookup("tier").Value.String()
	groups := buildGroups(tier == "thorough")
	w := &worker{env: newEnv(*fTmp), viols: map[string]*violRec{}, out: bufio.NewWriterSize(os.Stdout, 1<<16)}
	if *fMark != "" {
		f, err := os.OpenFile(*fMark, os.O_RDWR|os.O_CREATE, 0o600)
		if err != nil {
			fatalf("marker: %v", err)
		}
		f.Truncate(64)
		m, err := syscall.Mmap(int(f.Fd()), 0, 64, syscall.PROT_READ|syscall.PROT_WRITE, syscall.MAP_SHARED)
		if err != nil {
			fatalf("marker mmap: %v", err)
		}
		w.mark = m
	}
	resumeGI, resumeSeq := 0, uint64(0)
	if *fResume != "" {
		fmt.Sscanf(*fResume, "%d:%d", &resumeGI, &resumeSeq)
	}
	var deadline time.Time
	if *fBudget > 0 {
		deadline = time.Now().Add(*fBudget)
	}
	capped := false
	buf := make([]byte, 0, 4096)
groups:
	for gi, g := range groups {
		if gi < resumeGI || !groupSelected(g.name) {
			continue
		}
		w.g, w.gi = g, gi
		w.sum = &groupSum{T: "g", Group: g.name, GI: gi, Classes: map[string]uint64{}, Parts: map[string]uint64{}}
		if g.setup != nil {
			g.setup(w)
		}
		w.cpu0 = cpuMillis()
		dedup := map[uint64]struct{}{}
		var base uint64
		for _, p := range g.parts {
			n := p.count()
			isSeeds := strings.HasSuffix(p.label(), "/seeds")
			var idx uint64
			step := uint64(1)
			if p.byIndex() {
				// first idx with (base+idx) % nshards == shard
				idx = (shard + nshards - base%nshards) % nshards
				step = nshards
			}
			if gi == resumeGI && resumeSeq > base {
				from := resumeSeq - base
				if p.byIndex() {
					for idx < from {
						idx += step
					}
				} else {
					idx = from
				}
			}
			var ran uint64
			for ; idx < n; idx += step {
				in := p.at(idx, buf)
				if in == nil {
					continue
				}
				if !p.byIndex() {
					h := hashBytes(in)
					if isSeeds {
						w.sum.SeedsTotal++ // counted by every worker; the parent takes one worker's figure
					}
					if h%nshards != shard {
						continue
					}
					if _, dup := dedup[h]; dup {
						w.sum.Dups++
						continue
					}
					dedup[h] = struct{}{}
				}
				w.runCase(base+idx, in, isSeeds)
				ran++
				if ran&255 == 0 && !deadline.IsZero() && time.Now().After(deadline) {
					capped = true
					w.sum.Parts[p.label()] += ran
					w.flushGroup()
					fmt.Fprintf(w.out, "{\"t\":\"cap\",\"reason\":%q}\n", fmt.Sprintf("worker %d/%d: time budget reached in group %s part %s at case %d", shard, nshards, g.name, p.label(), base+idx))
					break groups
				}
			}
			w.sum.Parts[p.label()] += ran
			base += n
		}
		w.flushGroup()
		w.distinctAddrs = 0
	}
	_ = capped
	fmt.Fprintln(w.out, `{"t":"end"}`)
	w.out.Flush()
	pprof.StopCPUProfile()
	os.Exit(0)
}

func cpuMillis() uint64 {
	var ru syscall.Rusage
	syscall.Getrusage(syscall.RUSAGE_SELF, &ru)
	return uint64(ru.Utime.Sec+ru.Stime.Sec)*1000 + uint64(ru.Utime.Usec+ru.Stime.Usec)/1000
}

func (w *worker) flushGroup() {
	w.sum.Addrs = w.distinctAddrs
	w.sum.CPUms = cpuMillis() - w.cpu0
	b, _ := json.Marshal(w.sum)
	w.out.Write(b)
	w.out.WriteByte('\n')
	w.out.Flush()
}

func groupSelected(name string) bool {
	if *fOnly == "" {
		return true
	}
	for _, p := range strings.Split(*fOnly, ",") {
		if strings.HasPrefix(name, p) {
			return true
		}
	}
	return false
}

// oneMain runs a single case (replay child).
func oneMain() {
	workerSetup()
	tier := flag.Lookup("tier").Value.String()
	groups := buildGroups(tier == "thorough")
	in, err := hex.DecodeString(*fInput)
	if err != nil {
		fatalf("bad --c06input: %v", err)
	}
	w := &worker{env: newEnv(*fTmp), viols: map[string]*violRec{}, out: bufio.NewWriterSize(os.Stdout, 1<<16)}
	for gi, g := range groups {
		if g.name != *fOne {
			continue
		}
		w.g, w.gi = g, gi
		w.sum = &groupSum{T: "g", Group: g.name, GI: gi, Classes: map[string]uint64{}, Parts: map[string]uint64{}}
		if g.setup != nil {
			g.setup(w)
		}
		w.runCase(*fSeq, in, true) // as a seed: every reply code and every packer pairing, a superset of what any case runs
		w.flushGroup()
		fmt.Fprintln(w.out, `{"t":"end"}`)
		w.out.Flush()
		os.Exit(0)
	}
	fatalf("unknown group %q", *fOne)
}

// ---------------------------------------------------------------------------
// parent side

type workerResult struct {
	sums    []groupSum
	viols   []violRec
	caps    []string
	crashes int
}

type tailBuf struct {
	mu sync.Mutex
	b  []byte
}

func (t *tailBuf) Write(p []byte) (int, error) {
	t.mu.Lock()
	defer t.mu.Unlock()
	t.b = append(t.b, p...)
	if len(t.b) > 1<<16 {
		t.b = t.b[len(t.b)-1<<15:]
	}
	return len(p), nil
}

func (t *tailBuf) String() string { t.mu.Lock(); defer t.mu.Unlock(); return string(t.b) }

func classifyCrash(stderr string) (sig, first string) {
	msg := ""
	for _, line := range strings.Split(stderr, "\n") {
		if strings.HasPrefix(line, "panic: ") || strings.HasPrefix(line, "fatal error: ") {
			msg = line
			break
		}
	}
	if msg == "" {
		msg = "process died without a Go crash report"
	}
	i := strings.Index(stderr, msg)
	repo, firstFrame := framesOf(stderr[max(i, 0):])
	fn := firstFrame
	if len(repo) > 0 {
		fn = repo[0]
	}
	if fn == "" {
		fn = "unknown"
	}
	return "crash:" + fn + ":" + normMsg(msg), msg + "; call chain: " + strings.Join(repo, " <- ")
}

// runShard runs one shard to completion, restarting the worker after every crash.
func runShard(groups []*group, tier string, shard, nshards int, tmp string, budget time.Duration) workerResult {
	var res workerResult
	resume := ""
	markPath := fmt.Sprintf("%s/mark-%d", tmp, shard)
	deadline := time.Now().Add(budget)
	for {
		left := time.Until(deadline)
		if left < time.Second {
			res.caps = append(res.caps, fmt.Sprintf("shard %d: time budget exhausted before the shard completed", shard))
			return res
		}
		args := []string{"--tier", tier, "--c06worker", fmt.Sprintf("%d/%d", shard, nshards), "--c06mark", markPath, "--c06tmp", tmp, "--c06budget", left.String()}
		if resume != "" {
			args = append(args, "--c06resume", resume)
		}
		if *fOnly != "" {
			args = append(args, "--c06groups", *fOnly)
		}
		cmd := exec.Command(os.Args[0], args...)
		cmd.SysProcAttr = &syscall.SysProcAttr{Pdeathsig: syscall.SIGKILL} // no orphans if the parent is killed
		errTail := &tailBuf{}
		cmd.Stderr = errTail
		stdout, err := cmd.StdoutPipe()
		if err != nil {
			fatalf("worker pipe: %v", err)
		}
		if err := cmd.Start(); err != nil {
			fatalf("worker start: %v", err)
		}
		// watchdog: a worker that makes no progress for a long time is killed (never a verdict)
		stop := make(chan struct{})
		hung := false
		go func() {
			var last [16]byte
			lastChange := time.Now()
			for {
				select {
				case <-stop:
					return
				case <-time.After(time.Second):
				}
				b, _ := os.ReadFile(markPath)
				if len(b) >= 16 && !bytes.Equal(b[:16], last[:]) {
					copy(last[:], b[:16])
					lastChange = time.Now()
				}
				if time.Since(lastChange) > 90*time.Second {
					hung = true
					cmd.Process.Kill()
					return
				}
			}
		}()
		ended := false
		sc := bufio.NewScanner(stdout)
		sc.Buffer(make([]byte, 1<<20), 1<<24)
		for sc.Scan() {
			line := sc.Bytes()
			var t struct {
				T      string `json:"t"`
				Reason string `json:"reason"`
			}
			if json.Unmarshal(line, &t) != nil {
				continue
			}
			switch t.T {
			case "g":
				var s groupSum
				json.Unmarshal(line, &s)
				res.sums = append(res.sums, s)
			case "v":
				var v violRec
				json.Unmarshal(line, &v)
				res.viols = append(res.viols, v)
			case "cap":
				res.caps = append(res.caps, t.Reason)
			case "end":
				ended = true
			}
		}
		werr := cmd.Wait()
		close(stop)
		if ended && werr == nil {
			return res
		}
		if ee, ok := werr.(*exec.ExitError); ok && ee.ExitCode() == 2 && strings.Contains(errTail.String(), "HARNESS-ERROR") {
			fatalf("worker %d reported a harness error:\n%s", shard, errTail.String())
		}
		// the worker died: attribute it to the case in flight
		mark, _ := os.ReadFile(markPath)
		if len(mark) < 48 {
			fatalf("worker %d died before its first case: %v\n%s", shard, werr, errTail.String())
		}
		gi := int(binary.LittleEndian.Uint64(mark[0:]))
		seq := binary.LittleEndian.Uint64(mark[8:])
		inflight := binary.LittleEndian.Uint64(mark[40:]) == 1
		if gi >= len(groups) {
			fatalf("worker %d died with a corrupt marker", shard)
		}
		g := groups[gi]
		res.sums = append(res.sums, groupSum{Group: g.name, GI: gi, Evals: binary.LittleEndian.Uint64(mark[16:]), Ops: binary.LittleEndian.Uint64(mark[24:]), Accepted: binary.LittleEndian.Uint64(mark[32:])})
		if hung {
			res.caps = append(res.caps, fmt.Sprintf("shard %d: worker made no progress for 90 s in group %s at case %d and was killed; the case is skipped (hang detector, not a verdict)", shard, g.name, seq))
		} else if !inflight {
			fatalf("worker %d died outside a case (exit: %v):\n%s", shard, werr, tailStr(errTail.String(), 3000))
		} else {
			in := g.inputAt(seq)
			sig, what := classifyCrash(errTail.String())
			res.viols = append(res.viols, violRec{Sig: sig, Group: g.name, GI: gi, Seq: seq, Input: hex.EncodeToString(in),
				What: fmt.Sprintf("the process died while handling one input at entry %s (%v): %s", g.name, werr, what)})
			res.crashes++
		}
		if res.crashes > 40 {
			res.caps = append(res.caps, fmt.Sprintf("shard %d: more than 40 process crashes; remaining cases of the shard not run", shard))
			return res
		}
		resume = fmt.Sprintf("%d:%d", gi, seq+1)
	}
}

func tailStr(s string, n int) string {
	if len(s) > n {
		return s[len(s)-n:]
	}
	return s
}

// runOne executes one case in a fresh child process and returns the signatures it shows.
func runOne(tier, group, input string, seq uint64, tmp string) (sigs map[string]string, harnessErr string) {
	cmd := exec.Command(os.Args[0], "--tier", tier, "--c06one", group, "--c06input", input, "--c06seq", strconv.FormatUint(seq, 10), "--c06tmp", tmp)
	errTail := &tailBuf{}
	cmd.Stderr = errTail
	out, werr := cmd.Output()
	sigs = map[string]string{}
	for _, line := range bytes.Split(out, []byte("\n")) {
		var v struct {
			T string `json:"t"`
			violRec
		}
		if json.Unmarshal(line, &v) == nil && v.T == "v" {
			sigs[v.Sig] = v.What
		}
	}
	if werr != nil {
		if strings.Contains(errTail.String(), "HARNESS-ERROR") {
			return sigs, errTail.String()
		}
		sig, what := classifyCrash(errTail.String())
		sigs[sig] = "the process died: " + what
	}
	return sigs, ""
}

func replayMain(c *harness.Check, tmp string) {
	r, err := harness.ReplayFile(c.Replay)
	if err != nil {
		fatalf("%v", err)
	}
	group, _ := r["group"].(string)
	input, _ := r["input"].(string)
	fmt.Printf("replay entry=%s input=%s\n", group, input)
	seqf, _ := r["seq"].(float64)
	sigs, herr := runOne(c.Tier, group, input, uint64(seqf), tmp)
	if herr != "" {
		fatalf("replay child: %s", herr)
	}
	failed := len(sigs) > 0
	var keys []string
	for k := range sigs {
		keys = append(keys, k)
	}
	sort.Strings(keys)
	for _, k := range keys {
		fmt.Printf("VIOLATION property=C06 replay=%s\n  signature: %s\n  %s\n", c.Replay, k, sigs[k])
	}
	os.RemoveAll(tmp)
	if failed {
		os.Exit(1)
	}
	fmt.Println("no violation on replay")
	os.Exit(0)
}

func main() {
	if !flag.Parsed() {
		flag.Parse()
	}
	if *fWorker != "" {
		workerMain()
	}
	if *fOne != "" {
		oneMain()
	}
	c := harness.Start("C06")
	tmp, err := os.MkdirTemp("", "c06-")
	if err != nil {
		fatalf("%v", err)
	}
	defer os.RemoveAll(tmp)
	if c.Replay != "" {
		replayMain(c, tmp)
	}
	groups := buildGroups(c.Thorough())
	if *fList {
		var tot uint64
		for _, g := range groups {
			fmt.Printf("%-34s %12d  %s\n", g.name, g.total(), g.desc)
			for _, p := range g.parts {
				fmt.Printf("    %-44s %12d\n", p.label(), p.count())
			}
			tot += g.total()
		}
		fmt.Println("total indices:", tot)
		os.RemoveAll(tmp)
		os.Exit(0)
	}
	n := harness.Workers()
	budget := harness.Pick(c, 20*time.Minute, 180*time.Minute) // protection only; the enumeration is sized to finish far earlier
	results := make([]workerResult, n)
	var wg sync.WaitGroup
	for i := 0; i < n; i++ {
		wg.Add(1)
		go func(i int) {
			defer wg.Done()
			runtime.LockOSThread() // Pdeathsig is tied to the forking thread
			results[i] = runShard(groups, c.Tier, i, n, tmp, budget)
		}(i)
	}
	wg.Wait()

	// merge
	type agg struct {
		groupSum
		seedsTotal uint64
	}
	byGroup := map[int]*agg{}
	var viols []violRec
	for i, r := range results {
		for _, s := range r.sums {
			a := byGroup[s.GI]
			if a == nil {
				a = &agg{groupSum: groupSum{Group: s.Group, GI: s.GI, Classes: map[string]uint64{}, Parts: map[string]uint64{}}}
				byGroup[s.GI] = a
			}
			a.Evals += s.Evals
			a.Ops += s.Ops
			a.Accepted += s.Accepted
			a.RefOKErr += s.RefOKErr
			a.Addrs += s.Addrs
			a.Dups += s.Dups
			a.SeedsOK += s.SeedsOK
			a.Hangs += s.Hangs
			a.CPUms += s.CPUms
			if i == 0 || a.seedsTotal == 0 {
				a.seedsTotal = max(a.seedsTotal, s.SeedsTotal)
			}
			for k, v := range s.Classes {
				a.Classes[k] += v
			}
			for k, v := range s.Parts {
				a.Parts[k] += v
			}
		}
		viols = append(viols, r.viols...)
		for _, cp := range r.caps {
			c.Cap(cp)
		}
	}
	sort.Slice(viols, func(i, j int) bool {
		if viols[i].GI != viols[j].GI {
			return viols[i].GI < viols[j].GI
		}
		if viols[i].Seq != viols[j].Seq {
			return viols[i].Seq < viols[j].Seq
		}
		return viols[i].Sig < viols[j].Sig
	})
	confirmed := map[string]bool{}
	for _, v := range viols {
		if confirmed[v.Sig] {
			continue
		}
		confirmed[v.Sig] = true
		// every reported violation must reproduce in a fresh process, five times
		for i := 0; i < 5; i++ {
			sigs, herr := runOne(c.Tier, v.Group, v.Input, v.Seq, tmp)
			if herr != "" {
				fatalf("confirmation child: %s", herr)
			}
			if _, ok := sigs[v.Sig]; !ok {
				fatalf("violation %q (entry %s, input %s) did not reproduce in a fresh process (run %d): nondeterminism in the harness", v.Sig, v.Group, shortHex(v.Input), i)
			}
		}
		c.Violation(v.Sig, fmt.Sprintf("%s [entry %s, case %d, input %s]", v.What, v.Group, v.Seq, shortHex(v.Input)),
			map[string]any{"group": v.Group, "input": v.Input, "wire": v.Wire, "seq": v.Seq, "extra": v.Extra})
	}
	var gis []int
	for gi := range byGroup {
		gis = append(gis, gi)
	}
	sort.Ints(gis)
	var totalEvals, totalOps, totalAccepted, totalAddrs uint64
	for _, gi := range gis {
		a := byGroup[gi]
		g := groups[gi]
		totalEvals += a.Evals
		totalOps += a.Ops + a.Evals
		totalAccepted += a.Accepted
		totalAddrs += a.Addrs
		for k := range a.Classes {
			c.Distinct(a.Group+"|"+k, true)
		}
		if a.seedsTotal > 0 && a.SeedsOK < a.seedsTotal && g.seedsMustPass {
			c.Cap(fmt.Sprintf("entry %s: only %d of %d well-formed seed messages were accepted by the code under test; the paths behind the handshake were not fully reached", a.Group, a.SeedsOK, a.seedsTotal))
		}
		c.Part(a.Group, map[string]any{
			"what": g.desc, "cases_executed": a.Evals, "operations_on_real_code": a.Ops + a.Evals, "accepted_by_real_code": a.Accepted,
			"well_formed_by_reference_but_rejected (not demanded)": a.RefOKErr, "distinct_addresses_routed": a.Addrs,
			"duplicate_inputs_skipped": a.Dups, "seeds_accepted": a.SeedsOK, "seeds": a.seedsTotal, "observation_classes": a.Classes, "cases_by_generator": a.Parts, "relay_hangs": a.Hangs, "cpu_seconds (timing, not a count)": float64(a.CPUms) / 1000,
		})
		if a.Hangs > 0 {
			c.Cap(fmt.Sprintf("entry %s: %d relay scenarios did not finish within the hang detector's limit", a.Group, a.Hangs))
		}
	}
	c.Count(int64(totalEvals), int64(totalEvals), int64(totalOps))
	c.Extra["distinct_nontrivial"] = int64(totalEvals)
	c.Extra["accepted_inputs"] = totalAccepted
	c.Extra["distinct_addresses_routed"] = totalAddrs
	c.Extra["workers"] = n
	c.Extra["routers"] = routerDescriptions()
	c.Rule = "one case = one byte string (or, for Shadowsocks 2022, one plaintext header image sealed with the real key) handed to one network-facing entry point in a fresh server/client instance. " +
		"Inputs are distinct within each generator part (alphabet strings are distinct by construction, mutation lists are de-duplicated by hash); the same byte string reached through two parts counts twice. " +
		"distinct_nontrivial = distinct inputs executed; observation classes (accept/reject kind per entry) are listed per entry. transitions = calls into the real code (parser runs, route matches, reply writes, re-encodings, outbound request writes)."
	c.Assumptions = []string{
		"bounded-exhaustive, not all byte strings: alphabets, lengths, seeds and mutation sets are listed per entry under parts[].cases_by_generator",
		"streams are delivered in one piece by an in-memory connection (fragmentation is C07's subject); the SS2022 reject policy that needs a *net.TCPConn is not exercised",
		"clock fixed at 2025-01-01T00:00:00Z (virtual), crypto/rand replaced by a counter stream, padding always maximal",
		"DNS replies are fed through Lookup over a scripted TCP upstream and through parseMsg directly; the UDP receive loop of the resolver is not driven",
		"route matching uses a deterministic stand-in resolver; GeoIP criteria need a database and are not exercised",
		"service.handleConn / the UDP relay loops themselves are not run; their sequence (handshake, route, abort or proceed, dial outbound, relay) is reproduced by the harness on the real components",
	}
	addSamples(c, groups)
	os.RemoveAll(tmp)
	c.Finish()
}

func shortHex(s string) string {
	if len(s) > 96 {
		return s[:96] + "...(" + strconv.Itoa(len(s)/2) + " bytes)"
	}
	return s
}
