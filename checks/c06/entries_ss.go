package main

import (
	"bytes"
	"context"
	"fmt"
	"io"
	"net/netip"

	"github.com/database64128/shadowsocks-go/conn"
	"github.com/database64128/shadowsocks-go/netio"
	"github.com/database64128/shadowsocks-go/ss2022"

	"verif/shim/vcrand"
)

// first n bytes of the deterministic crypto/rand stream (the salt a client draws first)
func detRand(n int) []byte {
	old := vcrand.Deterministic
	vcrand.Deterministic = true
	vcrand.Reset()
	b := make([]byte, n)
	vcrand.Read(b)
	vcrand.Reset()
	vcrand.Deterministic = old
	return b
}

var tsVariants = []uint64{
	uint64(nowUnix), uint64(nowUnix - 30), uint64(nowUnix + 30), uint64(nowUnix - 31), uint64(nowUnix + 31), uint64(nowUnix - 1),
	0, 1, 0x7fffffffffffffff, 0x8000000000000000, 0xffffffffffffffff, uint64(nowUnix) << 1,
}

func kind(k byte, b []byte) []byte { return cat([]byte{k}, b) }

func withKind(k byte, items [][]byte) [][]byte {
	out := make([][]byte, len(items))
	for i, it := range items {
		out[i] = kind(k, it)
	}
	return out
}

func ssVarSeeds() [][]byte {
	var out [][]byte
	for _, ad := range addrSeedsReduced() {
		out = append(out, varHeader(ad, 1, []byte("hi")))
	}
	ad := s5dom("a", 443)
	out = append(out,
		varHeader(ad, 0, []byte("x")),
		varHeader(ad, 1, nil),
		varHeader(ad, 900, nil),
		varHeader(ad, 900, bytes.Repeat([]byte("p"), 1200)),
		varHeader(s5v4([4]byte{1, 2, 3, 4}, 80), 0, bytes.Repeat([]byte("q"), 1440)),
	)
	return out
}

func ssFixedList(vh []byte) [][]byte {
	var out [][]byte
	for _, ts := range tsVariants {
		out = append(out, cat([]byte{0}, be64(ts), be16(uint16(len(vh))), vh))
	}
	for _, typ := range []byte{1, 2, 0x80, 0xff} {
		out = append(out, cat([]byte{typ}, be64(uint64(nowUnix)), be16(uint16(len(vh))), vh))
	}
	for _, l := range []int{0, 1, len(vh) - 1, len(vh) + 1, 0x7fff, 0xffff} {
		out = append(out, cat([]byte{0}, be64(uint64(nowUnix)), be16(uint16(l)), vh))
	}
	out = append(out, cat([]byte{0}, be64(uint64(nowUnix)), be16(0)), cat([]byte{0}, be64(uint64(nowUnix))), []byte{0})
	return out
}

func ssChunkList() [][]byte {
	var out [][]byte
	for _, l := range []uint16{0, 1, 3, 4, 5, 0x00ff, 0x0100, 0xffff} {
		out = append(out, cat(be16(l), []byte("PING")))
	}
	out = append(out, cat(be16(0), nil), cat(be16(1), nil), cat(be16(0xffff), bytes.Repeat([]byte{7}, 0xffff)))
	return out
}

func ss2022Groups(th bool) []*group {
	var gs []*group
	LRaw, LVar := 4, 6
	if th {
		LRaw, LVar = 7, 8
	}
	fb := mkSSCfg("aes128-fallback", psk16, false)
	fb.ursp = []byte("POST ")
	fb.fallback = conn.AddrFromIPPort(netip.MustParseAddrPort("198.51.100.7:80"))
	cfgs := []*ssCfg{mkSSCfg("aes128", psk16, false), mkSSCfg("aes256", psk32, false), mkSSCfg("eih", ipsk16, true), fb}
	varSeeds := ssVarSeeds()
	for _, cfg := range cfgs {
		cfg := cfg
		name := "ss2022-server/" + cfg.name
		var wires [][]byte
		for i, vs := range varSeeds {
			if i < 6 || i == len(varSeeds)-5 {
				wires = append(wires, cfg.buildReq(kind(kVar, vs)))
			}
		}
		parts := []part{
			newAlpha(name+"/raw-alpha", []byte{kRaw}, nil, byteAlpha(0x00, 0x01, 0x7f, 0xff), 0, LRaw),
			newAlpha(name+"/raw-alpha-long", cat([]byte{kRaw}, bytes.Repeat([]byte{0}, 60)), nil, byteAlpha(0x00, 0xff), 0, LRaw),
			newTrunc(name+"/wire-truncations", []byte{kRaw}, wires),
			newMut1(name+"/wire-mut1", []byte{kRaw}, wires[:3]),
			newInsDel(name+"/wire-insdel", []byte{kRaw}, wires[:2]),
			newAlpha(name+"/var-alpha", []byte{kVar}, nil, socksAlpha, 0, LVar),
			newAlpha(name+"/var-alpha-after-address", cat([]byte{kVar}, s5dom("a", 443)), nil, byteAlpha(0x00, 0x01, 0x02, 0x03, 0xff), 0, LVar-1),
			&listPart{name: name + "/fixed-header-list", head: []byte{kFixedVar}, items: ssFixedList(defaultVar)},
			newMut1(name+"/fixed-header-mut1", []byte{kFixedVar}, [][]byte{cat(fixedHeader(len(defaultVar), nowUnix), defaultVar)}),
			&listPart{name: name + "/chunk-list", head: []byte{kChunk}, items: ssChunkList()},
			newMut1(name+"/chunk-mut1", []byte{kChunk}, [][]byte{cat(be16(4), []byte("PING"))}),
		}
		parts = append(parts, seedFamily(name+"/var", []byte{kVar}, varSeeds, th, 30)...)
		if cfg.eih {
			hb := ss2022.PSKHash(upskB)
			hx := ss2022.PSKHash(psk16)
			parts = append(parts,
				&listPart{name: name + "/identity-list", head: []byte{kEIH}, items: [][]byte{cfg.hashA[:], hb[:], hx[:], make([]byte, 16), bytes.Repeat([]byte{0xff}, 16)}},
				newMut1(name+"/identity-mut1", []byte{kEIH}, [][]byte{cfg.hashA[:]}))
		}
		gs = append(gs, &group{
			name: name, desc: "ss2022 StreamServer.HandleStream on a request whose (possibly malformed) headers are sealed with the real key; then route / Abort / Proceed and reading the chunked tunnel",
			parts: parts, seedsMustPass: true,
			run: func(w *worker, in []byte) {
				wire := cfg.buildReq(in)
				r := cfg.refReq(wire)
				ref := streamRef{res: r.res, addr: r.addr, user: r.user, stream: r.stream, initial: r.initial, check: true}
				if cfg.fallback.IsValid() && r.res != resAccept && !r.authenticated && len(wire) > 0 {
					first := len(cfg.ursp) + cfg.saltLen + 27
					if cfg.eih {
						first += 16
					}
					n := min(len(wire), first)
					fa := cfg.fallback.IPPort()
					ref = streamRef{res: resAccept, addr: refAddr{ip: fa.Addr(), port: fa.Port()}, stream: wire, initial: n, check: true}
				}
				hs := func(b []byte) (netio.ConnRequest, *memConn, error) {
					c := newMemConn(b)
					req, err := cfg.newStreamServer().HandleStream(c, w.env.log)
					return req, c, err
				}
				w.streamServerCase(wire, hs, ref, false)
			},
		})
	}

	// client side: what a Shadowsocks 2022 server answers
	target := conn.MustAddrFromDomainPort("example.com", 443)
	proxy := conn.AddrFromIPPort(netip.MustParseAddrPort("192.0.2.1:8388"))
	for _, cfg := range cfgs[:3] {
		cfg := cfg
		name := "ss2022-client/" + cfg.name
		var cc *ss2022.ClientCipherConfig
		if cfg.eih {
			cc = must(ss2022.NewClientCipherConfig(upskA, [][]byte{ipsk16}, false))
		} else if cfg.saltLen == 16 {
			cc = must(ss2022.NewClientCipherConfig(psk16, nil, false))
		} else {
			cc = must(ss2022.NewClientCipherConfig(psk32, nil, false))
		}
		reqSalt := detRand(cfg.saltLen)
		hdr := respHeader(reqSalt, 2, nowUnix)
		var hdrList [][]byte
		for _, ts := range tsVariants {
			hdrList = append(hdrList, cat([]byte{1}, be64(ts), reqSalt, be16(2), []byte("OK")))
		}
		for _, typ := range []byte{0, 2, 0xff} {
			hdrList = append(hdrList, cat([]byte{typ}, be64(uint64(nowUnix)), reqSalt, be16(2), []byte("OK")))
		}
		for _, l := range []uint16{0, 1, 3, 0xffff} {
			hdrList = append(hdrList, cat([]byte{1}, be64(uint64(nowUnix)), reqSalt, be16(l), []byte("OK")))
		}
		bad := append([]byte{}, reqSalt...)
		bad[len(bad)-1] ^= 1
		hdrList = append(hdrList, cat([]byte{1}, be64(uint64(nowUnix)), bad, be16(2), []byte("OK")), cat([]byte{1}, be64(uint64(nowUnix)), reqSalt[:len(reqSalt)-1], be16(2), []byte("OK")))
		firstSeeds := [][]byte{[]byte("OK"), []byte("x"), {}, bytes.Repeat([]byte("r"), 4096), bytes.Repeat([]byte("R"), 65535)}
		wires := [][]byte{cfg.buildResp(kind(kVar, []byte("OK")), reqSalt), cfg.buildResp(kind(kVar, []byte("x")), reqSalt)}
		parts := []part{
			newAlpha(name+"/raw-alpha", []byte{kRaw}, nil, byteAlpha(0x00, 0x01, 0x7f, 0xff), 0, LRaw),
			newTrunc(name+"/wire-truncations", []byte{kRaw}, wires),
			newMut1(name+"/wire-mut1", []byte{kRaw}, wires),
			newInsDel(name+"/wire-insdel", []byte{kRaw}, wires[:1]),
			&listPart{name: name + "/header-list", head: []byte{kFixedVar}, items: hdrList},
			newMut1(name+"/header-mut1", []byte{kFixedVar}, [][]byte{cat(hdr, []byte("OK"))}),
			&listPart{name: name + "/chunk-list", head: []byte{kChunk}, items: ssChunkList()},
			newMut1(name+"/chunk-mut1", []byte{kChunk}, [][]byte{cat(be16(4), []byte("PING"))}),
			&listPart{name: name + "/first-chunk/seeds", head: []byte{kVar}, items: firstSeeds},
		}
		gs = append(gs, &group{
			name: name, desc: "ss2022 client connection reading the server's response stream (header + chunks sealed with the real key): Read with a large buffer, Read with a 7-byte buffer, WriteTo",
			parts: parts,
			run: func(w *worker, in []byte) {
				wire := cfg.buildResp(in, reqSalt)
				w.wire = wire
				stream, ok := cfg.refResp(wire, reqSalt)
				accepted := false
				for mode := 0; mode < 3; mode++ {
					vcrand.Reset()
					inner := &fakeStreamClient{scripts: [][]byte{wire}, native: true}
					cl := (&ss2022.StreamClientConfig{Name: "x", InnerClient: inner, Addr: proxy, CipherConfig: cc}).NewStreamClient()
					c, err := cl.DialStream(context.Background(), target, []byte("hello"))
					w.ops++
					if err != nil {
						w.fail("ss2022-client-dial-failed", fmt.Sprintf("DialStream over an in-memory transport failed: %v", err))
						return
					}
					var got []byte
					var firstErr error
					switch mode {
					case 0, 1:
						buf := make([]byte, 70000)
						if mode == 1 {
							buf = buf[:7]
						}
						for i := 0; i < 20000; i++ {
							n, err := c.Read(buf)
							w.ops++
							got = append(got, buf[:n]...)
							if err != nil {
								if i == 0 {
									firstErr = err
								}
								break
							}
						}
					case 2:
						var sink bytes.Buffer
						_, err := c.(io.WriterTo).WriteTo(&sink)
						w.ops++
						got = sink.Bytes()
						if len(got) == 0 {
							firstErr = err
						}
					}
					c.Close()
					if len(got) > 0 {
						accepted = true
					}
					if !bytes.HasPrefix(stream, got) {
						w.fail("tunnel-delivered-unauthenticated-bytes:ss2022-client", fmt.Sprintf("mode %d: the client delivered %x; the authenticated plaintext is %x (response header valid by reference: %v)", mode, clip(got), clip(stream), ok))
						return
					}
					if !ok && mode < 2 && firstErr == nil {
						w.fail("accepted-malformed:ss2022-client", fmt.Sprintf("mode %d: the first Read did not fail although the response header is invalid by the reference", mode))
						return
					}
				}
				if accepted {
					w.sum.Accepted++
					w.class("data")
					if w.isSeed {
						w.sum.SeedsOK++
					}
				} else {
					w.class("err")
					if ok && len(stream) > 0 {
						w.sum.RefOKErr++
					}
				}
			},
		})
	}
	return gs
}
