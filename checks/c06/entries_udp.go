package main

import (
	"bytes"
	"context"
	"encoding/binary"
	"fmt"
	"net/netip"

	"github.com/database64128/shadowsocks-go/conn"
	"github.com/database64128/shadowsocks-go/direct"
	"github.com/database64128/shadowsocks-go/ss2022"
	"github.com/database64128/shadowsocks-go/zerocopy"

	"verif/shim/vcrand"
)

const (
	udpMTU      = 1500
	udpRecvSize = udpMTU - 28
)

var (
	udpProxyAddrPort = netip.MustParseAddrPort("192.0.2.1:1080")
	udpClientSrc     = netip.MustParseAddrPort("203.0.113.9:50000")
	downlinkSources  = []netip.AddrPort{netip.MustParseAddrPort("8.8.8.8:53"), netip.MustParseAddrPort("[::ffff:8.8.8.8]:0"), netip.MustParseAddrPort("[2001:db8::2]:65535")}
)

type pktRef struct {
	addr    refAddr
	payload []byte
	user    string
	ok      bool
}

// packetServerCase reproduces what the UDP relays do with one datagram from a
// client: unpack in the relay's buffer layout, route, create the return packer,
// re-pack for every outbound client, pack a reply, and see the datagram again.
func (w *worker) packetServerCase(wire []byte, srvHead zerocopy.Headroom, mk func(packet []byte) (zerocopy.ServerUnpacker, string, error), ref pktRef, family string) {
	w.wire = wire
	head := zerocopy.UDPRelayHeadroom(w.env.maxCliHead, srvHead)
	n := min(len(wire), udpRecvSize)
	buf := make([]byte, head.Front+udpRecvSize+head.Rear)
	copy(buf[head.Front:], wire[:n])
	w.ops++
	unp, user, err := mk(buf[head.Front : head.Front+n])
	if err != nil {
		w.class("err-session")
		if ref.ok {
			w.sum.RefOKErr++
		}
		return
	}
	addr, start, length, err := unp.UnpackInPlace(buf, udpClientSrc, head.Front, n)
	w.ops++
	if err != nil {
		w.class("err")
		if ref.ok && n == len(wire) {
			w.sum.RefOKErr++
		}
		return
	}
	w.sum.Accepted++
	w.class(addrClass(addr))
	if w.isSeed {
		w.sum.SeedsOK++
	}
	if n < len(wire) {
		ref.ok = false // the datagram did not fit the receive buffer; no reference decision
	} else {
		switch {
		case !ref.ok:
			w.fail("accepted-malformed:"+family, fmt.Sprintf("the unpacker accepted a datagram the protocol text calls malformed and produced target %s", addr.String()))
			return
		case !sameAddr(addr, ref.addr):
			w.fail("wrong-address:"+family, fmt.Sprintf("the unpacker extracted %s; the reference decoding gives %+v", addr.String(), ref.addr))
			return
		case user != ref.user:
			w.fail("wrong-user:"+family, fmt.Sprintf("the datagram was attributed to %q; the reference says %q", user, ref.user))
		}
	}
	if start < head.Front || length < 0 || start+length > head.Front+n {
		w.fail("payload-out-of-bounds:"+family, fmt.Sprintf("payload [%d,+%d) lies outside the received datagram [%d,+%d)", start, length, head.Front, n))
		return
	}
	if ref.ok && !bytes.Equal(buf[start:start+length], ref.payload) {
		w.fail("wrong-payload:"+family, fmt.Sprintf("payload %x differs from the reference's %x", clip(buf[start:start+length]), clip(ref.payload)))
	}
	w.useAddr(addr, user, true, nil)

	ctx := context.Background()
	// uplink: the payload is re-packed in place for the outbound client
	pack := func(name string, p zerocopy.ClientPacker) {
		b := append([]byte{}, buf...)
		w.ops++
		w.protect("uplink re-pack for outbound "+name+" client", func() {
			_, ps, pl, err := p.PackInPlace(ctx, b, addr, start, length)
			if err == nil && (ps < 0 || pl < 0 || ps+pl > len(b)) {
				w.fail("packed-out-of-bounds:"+name, fmt.Sprintf("packet [%d,+%d) lies outside the buffer of %d bytes", ps, pl, len(b)))
			}
		})
	}
	for i := range w.env.udpOut {
		o := &w.env.udpOut[i]
		if o.needsIP && !addr.IsIP() {
			continue
		}
		if o.packer == nil {
			var sess zerocopy.UDPClientSession
			if !w.protect("outbound "+o.name+" NewSession", func() { _, sess, err = o.c.NewSession(ctx) }) || err != nil {
				continue
			}
			o.packer = sess.Packer // one outbound session per worker, as a relay keeps one per client session
		}
		pack(o.name, o.packer)
	}
	pack("socks5", direct.NewSocks5PacketClientPacker(udpProxyAddrPort, udpRecvSize))

	// downlink: a reply from the target goes back through the session's packer
	w.protect("NewPacker and downlink pack", func() {
		pk, err := unp.NewPacker()
		w.ops++
		if err != nil {
			return
		}
		ph := pk.ServerPackerInfo().Headroom
		for _, src := range downlinkSources {
			b := make([]byte, ph.Front+4+ph.Rear)
			copy(b[ph.Front:], "pong")
			_, _, _ = pk.PackInPlace(b, src, ph.Front, 4, udpRecvSize)
			w.ops++
		}
	})
	// the same datagram once more (a replay for session protocols)
	w.protect("second delivery of the datagram", func() {
		copy(buf[head.Front:], wire[:n])
		if s, ok := w.udpSrv.(*ss2022.UDPServer); ok {
			_, _ = s.SessionInfo(buf[head.Front : head.Front+n])
		}
		_, _, _, _ = unp.UnpackInPlace(buf, udpClientSrc, head.Front, n)
		w.ops++
	})
}

// packetClientCase: one datagram from the far server arrives at an outbound
// client's unpacker and is re-packed for the local client by every server packer.
func (w *worker) packetClientCase(wire []byte, mk func() zerocopy.ClientUnpacker, src netip.AddrPort, ref pktRef, family string) {
	w.wire = wire
	type sp struct {
		name string
		p    zerocopy.ServerPacker
	}
	packers := []sp{{"direct", direct.NewDirectPacketServerPackUnpacker(conn.AddrFromIPPort(downlinkSources[0]), true)}, {"ssnone", direct.ShadowsocksNonePacketServerPacker{}}, {"socks5", direct.Socks5PacketServerPacker{}}}
	if w.ssServerUnp != nil {
		if w.ssPacker == nil {
			if p, err := w.ssServerUnp.NewPacker(); err == nil {
				w.ssPacker = p
			}
		}
		if w.ssPacker != nil {
			packers = append(packers, sp{"ss2022", w.ssPacker})
		}
	}
	if !w.isSeed {
		// one (unpacker, server packer) pairing per case, rotating; seeds go through all of them
		k := int(w.seq % uint64(len(packers)))
		packers = packers[k : k+1]
	}
	n := min(len(wire), udpRecvSize)
	counted := false
	for _, sp := range packers {
		unp := mk()
		head := zerocopy.UDPRelayHeadroom(sp.p.ServerPackerInfo().Headroom, unp.ClientUnpackerInfo().Headroom)
		buf := make([]byte, head.Front+udpRecvSize+head.Rear)
		copy(buf[head.Front:], wire[:n])
		ap, start, length, err := unp.UnpackInPlace(buf, src, head.Front, n)
		w.ops++
		if err != nil {
			if !counted {
				w.class("err")
				if ref.ok && n == len(wire) {
					w.sum.RefOKErr++
				}
				counted = true
			}
			continue
		}
		if !counted {
			w.sum.Accepted++
			w.class("ok")
			if w.isSeed {
				w.sum.SeedsOK++
			}
			counted = true
		}
		if n == len(wire) {
			if !ref.ok {
				w.fail("accepted-malformed:"+family, fmt.Sprintf("the client unpacker accepted a datagram the protocol text calls malformed (source %s)", ap))
				return
			}
			if !sameAddrPort(ap, ref.addr) {
				w.fail("wrong-address:"+family, fmt.Sprintf("the client unpacker extracted %s; the reference decoding gives %+v", ap, ref.addr))
				return
			}
		}
		if start < head.Front || length < 0 || start+length > head.Front+n {
			w.fail("payload-out-of-bounds:"+family, fmt.Sprintf("payload [%d,+%d) lies outside the received datagram [%d,+%d)", start, length, head.Front, n))
			return
		}
		if ref.ok && n == len(wire) && !bytes.Equal(buf[start:start+length], ref.payload) {
			w.fail("wrong-payload:"+family, fmt.Sprintf("payload %x differs from the reference's %x", clip(buf[start:start+length]), clip(ref.payload)))
		}
		w.ops++
		w.protect("downlink re-pack by "+sp.name+" server packer", func() {
			ps, pl, err := sp.p.PackInPlace(buf, ap, start, length, udpRecvSize)
			if err == nil && (ps < 0 || pl < 0 || ps+pl > len(buf)) {
				w.fail("packed-out-of-bounds:"+sp.name+"-server", fmt.Sprintf("packet [%d,+%d) lies outside the buffer of %d bytes", ps, pl, len(buf)))
			}
		})
		// the same datagram again, and a datagram from somebody else
		w.protect("second delivery of the datagram", func() {
			copy(buf[head.Front:], wire[:n])
			_, _, _, _ = unp.UnpackInPlace(buf, src, head.Front, n)
			copy(buf[head.Front:], wire[:n])
			_, _, _, _ = unp.UnpackInPlace(buf, udpClientSrc, head.Front, n)
			w.ops += 2
		})
	}
}

func udpGroups(th bool) []*group {
	var gs []*group
	L := 6
	if th {
		L = 8
	}
	LRaw := 4
	if th {
		LRaw = 7
	}
	payloads := [][]byte{[]byte("dns?"), {}, bytes.Repeat([]byte("u"), 1200)}

	// --- unauthenticated packet formats -------------------------------------
	var noneSeeds, s5Seeds [][]byte
	for i, ad := range addrSeedsReduced() {
		pl := payloads[0]
		if i < 3 {
			pl = payloads[i]
		}
		noneSeeds = append(noneSeeds, cat(ad, pl))
		s5Seeds = append(s5Seeds, cat([]byte{0, 0, 0}, ad, pl))
	}
	s5Seeds = append(s5Seeds, cat([]byte{0xff, 0xff, 0}, s5dom("a", 53), []byte("x")))
	var noneIPSeeds, s5IPSeeds [][]byte
	for _, ad := range addrSeedsIP() {
		noneIPSeeds = append(noneIPSeeds, cat(ad, []byte("reply")))
		s5IPSeeds = append(s5IPSeeds, cat([]byte{0, 0, 0}, ad, []byte("reply")))
	}
	// size edges: valid datagrams whose payload length runs through every value around the largest an
	// outbound client can carry for the address (the relay re-packs whatever length the peer chose; a
	// packer's padding and size arithmetic sits exactly at that edge), up to what the receive buffer holds
	var noneEdge, s5Edge [][]byte
	for _, ad := range [][]byte{s5v4([4]byte{8, 8, 8, 8}, 53), s5v6(ip6doc, 53), s5dom("a", 53), s5v4([4]byte{8, 8, 8, 8}, 80), s5dom(name255, 53)} {
		for n := 1040; n+len(ad)+3 <= udpRecvSize+2; n++ {
			if n == 1200 && len(ad) < 200 {
				n = 1330 // nothing changes between the long-domain edge and the short-address edge
			}
			pl := bytes.Repeat([]byte("e"), n)
			noneEdge = append(noneEdge, cat(ad, pl))
			s5Edge = append(s5Edge, cat([]byte{0, 0, 0}, ad, pl))
		}
	}
	gs = append(gs, &group{
		name: "ssnone-udp-server", desc: "direct.ShadowsocksNonePacketServerUnpacker in the NAT relay's buffer layout, then route, NewPacker, uplink re-pack for every outbound client, downlink pack",
		parts:         append([]part{newAlpha("ssnone-udp-server/alpha", nil, nil, socksAlpha, 0, L), newAlpha("ssnone-udp-server/alpha-after-domain-header", []byte{3}, nil, socksAlpha, 0, L-1), &listPart{name: "ssnone-udp-server/size-edges", items: noneEdge}}, seedFamily("ssnone-udp-server", nil, noneSeeds, th, 30)...),
		seedsMustPass: true,
		run: func(w *worker, in []byte) {
			a, n, st := refParseAddr(in)
			ref := pktRef{ok: st == refOK, addr: a}
			if ref.ok {
				ref.payload = in[n:]
			}
			srv := direct.ShadowsocksNoneUDPNATServer{}
			w.packetServerCase(in, srv.Info().UnpackerHeadroom, func([]byte) (zerocopy.ServerUnpacker, string, error) { u, err := srv.NewUnpacker(); return u, "", err }, ref, "ssnone-udp-server")
		},
	})
	gs = append(gs, &group{
		name: "socks5-udp-server", desc: "direct.Socks5PacketServerUnpacker (RSV RSV FRAG + address), same relay steps",
		parts:         append([]part{newAlpha("socks5-udp-server/alpha", nil, nil, socksAlpha, 0, L), newAlpha("socks5-udp-server/alpha-after-header", []byte{0, 0, 0}, nil, socksAlpha, 0, L), &listPart{name: "socks5-udp-server/size-edges", items: s5Edge}}, seedFamily("socks5-udp-server", nil, s5Seeds, th, 30)...),
		seedsMustPass: true,
		run: func(w *worker, in []byte) {
			a, pl, ok := refSocks5Packet(in)
			srv := direct.Socks5UDPNATServer{}
			w.packetServerCase(in, srv.Info().UnpackerHeadroom, func([]byte) (zerocopy.ServerUnpacker, string, error) { u, err := srv.NewUnpacker(); return u, "", err }, pktRef{addr: a, payload: pl, ok: ok}, "socks5-udp-server")
		},
	})
	tunnel := conn.AddrFromIPPort(netip.MustParseAddrPort("198.51.100.1:53"))
	gs = append(gs, &group{
		name: "direct-udp-server", desc: "direct.DirectPacketServerPackUnpacker (tunnel: every datagram goes to the configured target), same relay steps",
		parts:         []part{newAlpha("direct-udp-server/alpha", nil, nil, byteAlpha(0x00, 0xff), 0, 4), &listPart{name: "direct-udp-server/seeds", items: payloads}},
		seedsMustPass: true,
		run: func(w *worker, in []byte) {
			srv := direct.NewDirectUDPNATServer(tunnel, true)
			ta := tunnel.IPPort()
			w.packetServerCase(in, srv.Info().UnpackerHeadroom, func([]byte) (zerocopy.ServerUnpacker, string, error) { u, err := srv.NewUnpacker(); return u, "", err },
				pktRef{ok: true, addr: refAddr{ip: ta.Addr(), port: ta.Port()}, payload: in}, "direct-udp-server")
		},
	})
	gs = append(gs, &group{
		name: "ssnone-udp-client", desc: "direct.ShadowsocksNonePacketClientUnpacker on a datagram from the far server, then downlink re-pack by every server packer",
		parts:         append([]part{newAlpha("ssnone-udp-client/alpha", nil, nil, socksAlpha, 0, L)}, seedFamily("ssnone-udp-client", nil, noneIPSeeds, th, 30)...),
		seedsMustPass: true, setup: setupSSServerUnpacker,
		run: func(w *worker, in []byte) {
			a, n, st := refParseAddr(in)
			ref := pktRef{ok: st == refOK && !a.domain, addr: a}
			if ref.ok {
				ref.payload = in[n:]
			}
			w.packetClientCase(in, func() zerocopy.ClientUnpacker { return direct.NewShadowsocksNonePacketClientUnpacker(udpProxyAddrPort) }, udpProxyAddrPort, ref, "ssnone-udp-client")
		},
	})
	gs = append(gs, &group{
		name: "socks5-udp-client", desc: "direct.Socks5PacketClientUnpacker on a datagram from the far SOCKS5 server, then downlink re-pack",
		parts:         append([]part{newAlpha("socks5-udp-client/alpha", nil, nil, socksAlpha, 0, L), newAlpha("socks5-udp-client/alpha-after-header", []byte{0, 0, 0}, nil, socksAlpha, 0, L)}, seedFamily("socks5-udp-client", nil, s5IPSeeds, th, 30)...),
		seedsMustPass: true, setup: setupSSServerUnpacker,
		run: func(w *worker, in []byte) {
			a, pl, ok := refSocks5Packet(in)
			w.packetClientCase(in, func() zerocopy.ClientUnpacker { return direct.NewSocks5PacketClientUnpacker(udpProxyAddrPort) }, udpProxyAddrPort, pktRef{addr: a, payload: pl, ok: ok && !a.domain}, "socks5-udp-client")
		},
	})
	gs = append(gs, &group{
		name: "direct-udp-client", desc: "direct.DirectPacketClientUnpacker (pass-through), then downlink re-pack",
		parts:         []part{newAlpha("direct-udp-client/alpha", nil, nil, byteAlpha(0x00, 0xff), 0, 4), &listPart{name: "direct-udp-client/seeds", items: payloads}},
		seedsMustPass: true, setup: setupSSServerUnpacker,
		run: func(w *worker, in []byte) {
			src := downlinkSources[int(w.seq)%len(downlinkSources)]
			w.packetClientCase(in, func() zerocopy.ClientUnpacker { return direct.DirectPacketClientUnpacker{} }, src, pktRef{ok: true, addr: refAddr{ip: src.Addr(), port: src.Port()}, payload: in}, "direct-udp-client")
		},
	})

	// --- Shadowsocks 2022 datagrams --------------------------------------------
	sep := func(sid, pid uint64) []byte { return cat(be64(sid), be64(pid)) }
	cfgs := []*ssCfg{mkSSCfg("aes128", psk16, false), mkSSCfg("aes256", psk32, false), mkSSCfg("eih", ipsk16, true)}
	for _, cfg := range cfgs {
		cfg := cfg
		name := "ss2022-udp-server/" + cfg.name
		var bodySeeds [][]byte
		for i, ad := range addrSeedsReduced() {
			pl := payloads[0]
			if i < 3 {
				pl = payloads[i]
			}
			pad := 0
			if i%2 == 1 {
				pad = 1
			}
			bodySeeds = append(bodySeeds, cat(sep(0x0102030405060708, uint64(i)), udpClientBody(nowUnix, pad, ad, pl)))
		}
		bodySeeds = append(bodySeeds,
			cat(sep(1, 0), udpClientBody(nowUnix, 900, s5dom("a", 53), []byte("q"))),
			cat(sep(0xffffffffffffffff, 0xffffffffffffffff), udpClientBody(nowUnix, 0, s5v4([4]byte{1, 1, 1, 1}, 53), []byte("q"))),
			cat(sep(0, 0), udpClientBody(nowUnix, 0, s5v6(ip6doc, 0), nil)))
		var tsList [][]byte
		for _, ts := range tsVariants {
			tsList = append(tsList, cat(sep(7, 7), udpClientBody(int64(ts), 0, s5dom("a", 443), []byte("x"))))
		}
		for _, typ := range []byte{1, 2, 0xff} {
			b := cat(sep(7, 7), udpClientBody(nowUnix, 0, s5dom("a", 443), []byte("x")))
			b[16] = typ
			tsList = append(tsList, b)
		}
		for _, pad := range []uint16{1, 2, 0x00ff, 0x0100, 0x7fff, 0xffff} {
			b := cat(sep(7, 7), udpClientBody(nowUnix, 0, s5dom("a", 443), []byte("x")))
			binary.BigEndian.PutUint16(b[16+9:], pad)
			tsList = append(tsList, b)
		}
		var wires [][]byte
		for _, s := range bodySeeds[:4] {
			wires = append(wires, cfg.buildClientPacket(kind(kFixedVar, s)))
		}
		hdrOnly := cat(sep(7, 7), []byte{0}, be64(uint64(nowUnix)))
		parts := []part{
			newAlpha(name+"/raw-alpha", []byte{kRaw}, nil, byteAlpha(0x00, 0x01, 0x7f, 0xff), 0, LRaw),
			newAlpha(name+"/raw-alpha-long", cat([]byte{kRaw}, bytes.Repeat([]byte{0}, 44)), nil, byteAlpha(0x00, 0xff), 0, LRaw),
			newTrunc(name+"/wire-truncations", []byte{kRaw}, wires),
			newMut1(name+"/wire-mut1", []byte{kRaw}, wires[:2]),
			newInsDel(name+"/wire-insdel", []byte{kRaw}, wires[:1]),
			newAlpha(name+"/body-alpha-after-timestamp", cat([]byte{kFixedVar}, hdrOnly), nil, socksAlpha, 0, L),
			newAlpha(name+"/body-alpha-address", cat([]byte{kFixedVar}, hdrOnly, be16(0)), nil, socksAlpha, 0, L),
			&listPart{name: name + "/header-list", head: []byte{kFixedVar}, items: tsList},
		}
		parts = append(parts, seedFamily(name+"/body", []byte{kFixedVar}, bodySeeds, th, 48)...)
		if cfg.eih {
			hb := ss2022.PSKHash(upskB)
			hx := ss2022.PSKHash(psk16)
			var ids [][]byte
			for _, h := range [][]byte{cfg.hashA[:], hb[:], hx[:], make([]byte, 16), bytes.Repeat([]byte{0xff}, 16)} {
				ids = append(ids, cat(h, bodySeeds[0]))
			}
			parts = append(parts, &listPart{name: name + "/identity-list", head: []byte{kEIH}, items: ids}, newMut1(name+"/identity-mut1", []byte{kEIH}, [][]byte{cat(cfg.hashA[:], bodySeeds[3])}))
		}
		gs = append(gs, &group{
			name: name, desc: "ss2022 UDPServer.SessionInfo + NewUnpacker + UnpackInPlace on a datagram whose (possibly malformed) message header is sealed with the real keys, same relay steps",
			parts: parts, seedsMustPass: true,
			run: func(w *worker, in []byte) {
				wire := cfg.buildClientPacket(in)
				a, pl, user, ok := cfg.refClientPacket(wire)
				srv := cfg.newUDPServer()
				w.udpSrv = srv
				w.packetServerCase(wire, srv.Info().UnpackerHeadroom, func(packet []byte) (zerocopy.ServerUnpacker, string, error) {
					csid, err := srv.SessionInfo(packet)
					if err != nil {
						return nil, "", err
					}
					return srv.NewUnpacker(packet, csid)
				}, pktRef{addr: a, payload: pl, user: user, ok: ok}, "ss2022-udp-server")
				w.udpSrv = nil
			},
		})
	}

	// The relay keeps a session table keyed by the client session id: a datagram
	// whose id matches a live session skips NewUnpacker and goes straight to the
	// existing unpacker.  Same alphabets as above, but every case first
	// establishes live sessions with the valid seed datagrams.
	for _, cfg := range cfgs {
		cfg := cfg
		name := "ss2022-udp-server-live/" + cfg.name
		var seeds [][]byte
		for i, ad := range addrSeedsReduced() {
			if i >= 4 {
				break
			}
			seeds = append(seeds, cat(sep(0x0102030405060708, uint64(i)), udpClientBody(nowUnix, i%2, ad, payloads[0])))
		}
		var wires [][]byte
		for _, sd := range seeds {
			wires = append(wires, cfg.buildClientPacket(kind(kFixedVar, sd)))
		}
		parts := []part{
			newTrunc(name+"/wire-truncations", []byte{kRaw}, wires),
			newMut1(name+"/wire-mut1", []byte{kRaw}, wires[:2]),
			newInsDel(name+"/wire-insdel", []byte{kRaw}, wires[:1]),
			newAlpha(name+"/raw-alpha-after-separate-header", cat([]byte{kRaw}, wires[0][:16]), nil, byteAlpha(0x00, 0x01, 0x7f, 0xff), 0, LRaw),
		}
		gs = append(gs, &group{
			name: name, desc: "ss2022 UDPServer with a live session table: SessionInfo, then the existing unpacker's UnpackInPlace when the session id is known (NewUnpacker only for new ids), as the session relay does",
			parts: parts, seedsMustPass: false,
			run: func(w *worker, in []byte) {
				srv := cfg.newUDPServer()
				w.udpSrv = srv
				table := map[uint64]zerocopy.ServerUnpacker{}
				head := zerocopy.UDPRelayHeadroom(w.env.maxCliHead, srv.Info().UnpackerHeadroom)
				step := func(wire []byte) {
					n := min(len(wire), udpRecvSize)
					buf := make([]byte, head.Front+udpRecvSize+head.Rear)
					copy(buf[head.Front:], wire[:n])
					pkt := buf[head.Front : head.Front+n]
					w.ops++
					csid, err := srv.SessionInfo(pkt)
					if err != nil {
						w.class("err-session")
						return
					}
					unp := table[csid]
					if unp == nil {
						unp, _, err = srv.NewUnpacker(pkt, csid)
						if err != nil {
							w.class("err-session")
							return
						}
					}
					w.ops++
					if _, _, _, err = unp.UnpackInPlace(buf, udpClientSrc, head.Front, n); err != nil {
						w.class("err")
						return
					}
					table[csid] = unp
					w.sum.Accepted++
				}
				for _, v := range wires {
					step(v)
				}
				w.wire = cfg.buildClientPacket(in)
				step(w.wire)
				w.udpSrv = nil
			},
		})
	}

	for _, cfg := range cfgs {
		cfg := cfg
		name := "ss2022-udp-client/" + cfg.name
		var cc *ss2022.ClientCipherConfig
		switch {
		case cfg.eih:
			cc = must(ss2022.NewClientCipherConfig(upskA, [][]byte{ipsk16}, true))
		case cfg.saltLen == 16:
			cc = must(ss2022.NewClientCipherConfig(psk16, nil, true))
		default:
			cc = must(ss2022.NewClientCipherConfig(psk32, nil, true))
		}
		csid := binary.BigEndian.Uint64(detRand(8))
		var bodySeeds [][]byte
		for i, ad := range addrSeedsIP() {
			bodySeeds = append(bodySeeds, cat(sep(0x1111111111111111, uint64(i)), udpServerBody(nowUnix, csid, i%2, ad, []byte("reply"))))
		}
		bodySeeds = append(bodySeeds,
			cat(sep(2, 0), udpServerBody(nowUnix, csid, 900, s5v4([4]byte{8, 8, 4, 4}, 53), nil)),
			cat(sep(3, 0xffffffffffffffff), udpServerBody(nowUnix, csid, 0, s5v6(ip6doc, 53), bytes.Repeat([]byte("d"), 1200))))
		var hdrList [][]byte
		for _, ts := range tsVariants {
			hdrList = append(hdrList, cat(sep(7, 7), udpServerBody(int64(ts), csid, 0, s5v4([4]byte{8, 8, 8, 8}, 53), []byte("x"))))
		}
		for _, typ := range []byte{0, 2, 0xff} {
			b := cat(sep(7, 7), udpServerBody(nowUnix, csid, 0, s5v4([4]byte{8, 8, 8, 8}, 53), []byte("x")))
			b[16] = typ
			hdrList = append(hdrList, b)
		}
		for _, id := range []uint64{0, csid + 1, csid - 1, ^csid} {
			hdrList = append(hdrList, cat(sep(7, 7), udpServerBody(nowUnix, id, 0, s5v4([4]byte{8, 8, 8, 8}, 53), []byte("x"))))
		}
		for _, pad := range []uint16{1, 2, 0x00ff, 0x0100, 0x7fff, 0xffff} {
			b := cat(sep(7, 7), udpServerBody(nowUnix, csid, 0, s5v4([4]byte{8, 8, 8, 8}, 53), []byte("x")))
			binary.BigEndian.PutUint16(b[16+17:], pad)
			hdrList = append(hdrList, b)
		}
		hdrList = append(hdrList, cat(sep(7, 7), udpServerBody(nowUnix, csid, 0, s5dom("a", 53), []byte("x"))))
		var wires [][]byte
		for _, s := range bodySeeds[:3] {
			wires = append(wires, cfg.buildServerPacket(kind(kFixedVar, s)))
		}
		hdrOnly := cat(sep(7, 7), []byte{1}, be64(uint64(nowUnix)), be64(csid))
		parts := []part{
			newAlpha(name+"/raw-alpha", []byte{kRaw}, nil, byteAlpha(0x00, 0x01, 0x7f, 0xff), 0, LRaw),
			newAlpha(name+"/raw-alpha-long", cat([]byte{kRaw}, bytes.Repeat([]byte{0}, 30)), nil, byteAlpha(0x00, 0xff), 0, LRaw),
			newTrunc(name+"/wire-truncations", []byte{kRaw}, wires),
			newMut1(name+"/wire-mut1", []byte{kRaw}, wires[:2]),
			newInsDel(name+"/wire-insdel", []byte{kRaw}, wires[:1]),
			newAlpha(name+"/body-alpha-after-session-id", cat([]byte{kFixedVar}, hdrOnly), nil, socksAlpha, 0, L),
			newAlpha(name+"/body-alpha-address", cat([]byte{kFixedVar}, hdrOnly, be16(0)), nil, socksAlpha, 0, L),
			&listPart{name: name + "/header-list", head: []byte{kFixedVar}, items: hdrList},
		}
		parts = append(parts, seedFamily(name+"/body", []byte{kFixedVar}, bodySeeds, th, 48)...)
		client := ss2022.NewUDPClient("x", "ip", conn.AddrFromIPPort(udpProxyAddrPort), udpMTU, conn.DefaultUDPClientListenConfig, 0, cc, ss2022.PadPlainDNS)
		gs = append(gs, &group{
			name: name, desc: "ss2022 client session unpacker on a datagram from the far server (message header sealed with the real key), then downlink re-pack by every server packer",
			parts: parts, seedsMustPass: true, setup: setupSSServerUnpacker,
			run: func(w *worker, in []byte) {
				wire := cfg.buildServerPacket(in)
				a, pl, _, ok := cfg.refServerPacket(wire, csid)
				w.packetClientCase(wire, func() zerocopy.ClientUnpacker {
					vcrand.Reset()
					_, sess, err := client.NewSession(context.Background())
					if err != nil {
						fatalf("ss2022 client NewSession: %v", err)
					}
					return sess.Unpacker
				}, udpProxyAddrPort, pktRef{addr: a, payload: pl, ok: ok}, "ss2022-udp-client")
			},
		})
	}
	// A client session that already has a server session (and, in the second variant, an older one too): the
	// unpacker keeps per-server-session state (current and old slot, each with its cipher and replay filter),
	// and a datagram's server session id selects the slot before anything is authenticated.
	for _, cfg := range cfgs {
		cfg := cfg
		for _, primed := range []int{1, 2} {
			primed := primed
			name := fmt.Sprintf("ss2022-udp-client-live%d/%s", primed, cfg.name)
			var cc *ss2022.ClientCipherConfig
			switch {
			case cfg.eih:
				cc = must(ss2022.NewClientCipherConfig(upskA, [][]byte{ipsk16}, true))
			case cfg.saltLen == 16:
				cc = must(ss2022.NewClientCipherConfig(psk16, nil, true))
			default:
				cc = must(ss2022.NewClientCipherConfig(psk32, nil, true))
			}
			csid := binary.BigEndian.Uint64(detRand(8))
			body := func(ssid, pid uint64) []byte {
				return cat(sep(ssid, pid), udpServerBody(nowUnix, csid, 0, s5v4([4]byte{8, 8, 8, 8}, 53), []byte("reply")))
			}
			const s1, s2 = uint64(0x1111111111111111), uint64(0x2222222222222222)
			prime := [][]byte{cfg.buildServerPacket(kind(kFixedVar, body(s1, 0))), cfg.buildServerPacket(kind(kFixedVar, body(s2, 0)))}[:primed]
			var ids [][]byte
			for _, ssid := range []uint64{0, 1, s1, s2, s1 + 1, ^uint64(0)} {
				for _, pid := range []uint64{0, 1, 2, 1 << 32, ^uint64(0)} {
					ids = append(ids, body(ssid, pid))
				}
			}
			parts := []part{
				&listPart{name: name + "/session-id-list", head: []byte{kFixedVar}, items: ids},
				newMut1(name+"/wire-mut1", []byte{kRaw}, prime[:1]),
				newAlpha(name+"/raw-alpha-after-zero-session-id", cat([]byte{kRaw}, make([]byte, 0)), nil, byteAlpha(0x00, 0x01, 0xff), 0, LRaw),
				newTrunc(name+"/wire-truncations", []byte{kRaw}, prime[:1]),
			}
			client := ss2022.NewUDPClient("x", "ip", conn.AddrFromIPPort(udpProxyAddrPort), udpMTU, conn.DefaultUDPClientListenConfig, 0, cc, ss2022.PadPlainDNS)
			gs = append(gs, &group{
				name: name, desc: fmt.Sprintf("ss2022 client session unpacker that has already accepted datagrams of %d server session(s): a further datagram from the far server (every server session id / packet id class, mutations and truncations of an accepted one, raw bytes)", primed),
				parts: parts, seedsMustPass: false,
				run: func(w *worker, in []byte) {
					vcrand.Reset()
					_, sess, err := client.NewSession(context.Background())
					if err != nil {
						fatalf("ss2022 client NewSession: %v", err)
					}
					unp := sess.Unpacker
					front := unp.ClientUnpackerInfo().Headroom.Front
					step := func(wire []byte, what string) {
						n := min(len(wire), udpRecvSize)
						buf := make([]byte, front+udpRecvSize+64)
						copy(buf[front:], wire[:n])
						w.ops++
						w.protect(what, func() {
							if _, _, _, err := unp.UnpackInPlace(buf, udpProxyAddrPort, front, n); err != nil {
								w.class("err")
								return
							}
							w.class("ok")
							w.sum.Accepted++
						})
					}
					for _, v := range prime {
						step(v, "client unpacker: priming datagram")
					}
					w.wire = cfg.buildServerPacket(in)
					step(w.wire, "client unpacker with live server sessions")
					step(w.wire, "client unpacker with live server sessions: the same datagram again")
				},
			})
		}
	}
	return gs
}

// setupSSServerUnpacker gives the worker a live SS2022 server-side session whose
// NewPacker is used for downlink re-packing.
func setupSSServerUnpacker(w *worker) {
	if w.ssServerUnp != nil {
		return
	}
	cfg := mkSSCfg("aes128", psk16, false)
	srv := cfg.newUDPServer()
	wire := cfg.buildClientPacket(kind(kFixedVar, cat(be64(42), be64(0), udpClientBody(nowUnix, 0, s5v4([4]byte{1, 1, 1, 1}, 53), []byte("x")))))
	pkt := append([]byte{}, wire...)
	csid, err := srv.SessionInfo(pkt)
	if err != nil {
		return
	}
	unp, _, err := srv.NewUnpacker(pkt, csid)
	if err != nil {
		return
	}
	w.ssServerUnp = unp
}
