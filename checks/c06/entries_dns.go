package main

import (
	"context"
	"fmt"
	"net/netip"
	"strings"

	"github.com/database64128/shadowsocks-go/dns"
)

func dnsGroups(th bool) []*group {
	var gs []*group
	L := 6
	if th {
		L = 8
	}
	seeds := dnsSeeds()
	q4 := dnsQ(dnsName("example.com"), 1)
	rrAlpha := byteAlpha(0x00, 0x01, 0x04, 0x1c, 0xc0, 0x0c, 0xff)
	okHdr := func(id uint16, an uint16) []byte { return dnsHeader(id, 0x8180, 1, an, 0, 0) }
	checkAnswers := func(w *worker, a, aaaa []netip.Addr) {
		for _, x := range a {
			if !x.Is4() {
				w.fail("dns-a-record-not-ipv4", fmt.Sprintf("an A answer produced the address %s", x))
			}
		}
		for _, x := range aaaa {
			if !x.Is6() {
				w.fail("dns-aaaa-record-not-ipv6", fmt.Sprintf("an AAAA answer produced the address %s", x))
			}
		}
	}
	gs = append(gs, &group{
		name: "dns-parsemsg", desc: "dns resultBuilder.parseMsg on one message (TCP and UDP flavour, fresh and already-answered builder)",
		parts: append([]part{
			newAlpha("dns-parsemsg/alpha-after-question", cat(okHdr(4, 1), q4), nil, rrAlpha, 0, L),
			newAlpha("dns-parsemsg/alpha-rdata", cat(okHdr(6, 2), q4, ptr12, be16(28), be16(1), []byte{0, 0, 0, 60}), nil, rrAlpha, 0, L),
			newAlpha("dns-parsemsg/alpha-counts", []byte{0, 4, 0x81, 0x80}, cat(q4, dnsRR(ptr12, 1, 60, []byte{1, 2, 3, 4})), byteAlpha(0x00, 0x01, 0xff), 8, 8),
			newAlpha("dns-parsemsg/alpha-header", nil, cat(be16(1), be16(1), be16(0), be16(0), q4, dnsRR(ptr12, 1, 60, []byte{1, 2, 3, 4})), byteAlpha(0x00, 0x04, 0x06, 0x80, 0x81, 0x83, 0x02, 0xff), 4, 4),
			newAlpha("dns-parsemsg/alpha-authority", cat(dnsHeader(4, 0x8183, 1, 0, 1, 0), q4), nil, append(append([][]byte{}, rrAlpha...), []byte{0x06}), 0, L),
		}, seedFamily("dns-parsemsg", nil, seeds, th, 64)...),
		run: func(w *worker, in []byte) {
			accepted := false
			for _, udp := range []bool{false, true} {
				id, a, aaaa, _, _, err := dns.C06ParseMsg(in, udp, false, false)
				w.ops++
				if err != nil {
					continue
				}
				accepted = true
				if len(in) < 12 || (id != 4 && id != 6) || in[2]&0x80 == 0 || in[3]&0x80 == 0 || in[3]&0x0f > 5 {
					w.fail("accepted-malformed:dns-parsemsg", fmt.Sprintf("parseMsg accepted %x (id %d) although it is not a response to one of the two queries from a recursive server with a known RCODE", clip(in), id))
				}
				checkAnswers(w, a, aaaa)
			}
			_, _, _, _, _, _ = dns.C06ParseMsg(in, true, true, true)
			_, _, _, _, _, _ = dns.C06ParseMsg(in, false, true, false)
			w.ops += 2
			if accepted {
				w.sum.Accepted++
				w.class("ok")
				if w.isSeed {
					w.sum.SeedsOK++
				}
			} else {
				w.class("err")
			}
		},
	})

	server := netip.MustParseAddrPort("192.0.2.53:53")
	streams := [][]byte{
		dnsFrame(seeds[0], seeds[1]),
		dnsFrame(seeds[1], seeds[0]),
		dnsFrame(seeds[2], seeds[6]),
		dnsFrame(seeds[3], seeds[4]),
		dnsFrame(seeds[5], seeds[1]),
		dnsFrame(seeds[0]),
		dnsFrame(seeds[0], seeds[0], seeds[1]),
		dnsFrame(seeds[7], seeds[1]),
		cat(be16(0), dnsFrame(seeds[0], seeds[1])),
		cat(be16(0xffff), seeds[0]),
	}
	gs = append(gs, &group{
		name: "dns-lookup-tcp", desc: "dns.Resolver.Lookup / LookupIP / LookupIPs with a scripted TCP upstream: the input is the upstream's byte stream (length-prefixed replies)",
		parts: append([]part{
			newAlpha("dns-lookup-tcp/alpha", nil, nil, byteAlpha(0x00, 0x01, 0x0c, 0x81, 0xff), 0, L-1),
			newAlpha("dns-lookup-tcp/alpha-second-frame", dnsFrame(seeds[0]), nil, byteAlpha(0x00, 0x01, 0x06, 0x0c, 0x81, 0x80, 0xff), 0, L-1),
		}, seedFamily("dns-lookup-tcp", nil, streams, th, 0)...),
		run: func(w *worker, in []byte) {
			up := &fakeStreamClient{scripts: [][]byte{in, in}}
			r := dns.NewResolver("r", 4, server, up, nil, w.env.log)
			ctx := context.Background()
			res, err := r.Lookup(ctx, "example.com")
			w.ops++
			if err != nil {
				w.class("err")
			} else {
				w.sum.Accepted++
				w.class("ok")
				if w.isSeed {
					w.sum.SeedsOK++
				}
				if len(in) < 2*(2+12) {
					w.fail("accepted-malformed:dns-lookup", fmt.Sprintf("Lookup succeeded on the upstream stream %x, which cannot hold two replies", clip(in)))
				}
				var a, aaaa []netip.Addr
				for x := range res.A() {
					a = append(a, x)
				}
				for x := range res.AAAA() {
					aaaa = append(aaaa, x)
				}
				checkAnswers(w, a, aaaa)
				_ = res.HasExpired()
			}
			ip, err := r.LookupIP(ctx, "example.com")
			if err == nil && !ip.IsValid() {
				w.fail("dns-lookupip-invalid-address", "LookupIP returned the zero address without an error")
			}
			_, _ = r.LookupIPs(ctx, "example.com")
			_, _ = r.LookupIP(ctx, "other.example")
			w.ops += 3
		},
	})

	// the name itself comes from the wire (the requested domain of a proxied connection)
	good := dnsFrame(seeds[0], seeds[1])
	names := [][]byte{[]byte("example.com"), []byte("a"), []byte(name254), []byte(name255), []byte(strings.Repeat("a", 64) + ".com"), []byte("a..b"), []byte(".a"), []byte("a."), []byte("\x00\xff.:"), []byte(strings.Repeat("a.", 127))}
	nameTok := tokAlpha("a", ".", "\x00", strings.Repeat("b", 63), strings.Repeat("c", 64), " ", "\xff", "*")
	gs = append(gs, &group{
		name: "dns-lookup-name", desc: "dns.Resolver.Lookup of a wire-supplied name (query packing) against a well-behaved scripted upstream",
		parts: append([]part{newAlpha("dns-lookup-name/tokens", nil, nil, nameTok, 0, L-2)}, seedFamily("dns-lookup-name", nil, names, false, 0)...),
		run: func(w *worker, in []byte) {
			up := &fakeStreamClient{scripts: [][]byte{good, good}}
			r := dns.NewResolver("r", 4, server, up, nil, w.env.log)
			_, err := r.LookupIP(context.Background(), string(in))
			w.ops++
			if err != nil {
				w.class("err")
				return
			}
			w.sum.Accepted++
			w.class("ok")
			if w.isSeed {
				w.sum.SeedsOK++
			}
			if len(in) > 255 {
				w.fail("accepted-malformed:dns-name", fmt.Sprintf("a name of %d bytes was looked up successfully", len(in)))
			}
		},
	})
	return gs
}

func buildGroups(th bool) []*group {
	var gs []*group
	gs = append(gs, socksGroups(th)...)
	gs = append(gs, httpGroups(th)...)
	gs = append(gs, ss2022Groups(th)...)
	gs = append(gs, udpGroups(th)...)
	gs = append(gs, dnsGroups(th)...)
	return gs
}
