package main

import (
	"bytes"
	"context"
	"fmt"
	"net/netip"
	"strings"

	"github.com/database64128/shadowsocks-go/conn"
	"github.com/database64128/shadowsocks-go/netio"
	"github.com/database64128/shadowsocks-go/socks5"
	"github.com/database64128/shadowsocks-go/ssnone"
)

// branch constants of the SOCKS5 parsers (versions, methods, commands, address types, lengths)
var socksAlpha = byteAlpha(0x00, 0x01, 0x02, 0x03, 0x04, 0x05, 0xff)

// framing length of a SOCKS5 address (only ATYP and the length byte matter)
func refFrame(b []byte) (n int, st int) {
	if len(b) < 2 {
		return 0, refShort
	}
	switch b[0] {
	case 1:
		n = 7
	case 4:
		n = 19
	case 3:
		n = 4 + int(b[1])
	default:
		return 0, refBad
	}
	if len(b) < n {
		return 0, refShort
	}
	return n, refOK
}

func runSocksAddr(w *worker, in []byte) {
	ra, rn, st := refParseAddr(in)
	var yielded conn.Addr
	// ConnAddrFromSlice
	a, n, err := socks5.ConnAddrFromSlice(in)
	w.ops++
	if err == nil {
		w.sum.Accepted++
		w.class(addrClass(a))
		if w.isSeed {
			w.sum.SeedsOK++
		}
		if st != refOK || n != rn || !sameAddr(a, ra) {
			w.fail("accepted-malformed:socks5-addr", fmt.Sprintf("ConnAddrFromSlice(%x) = (%s, %d, nil); reference: status %d length %d %+v", clip(in), a.String(), n, st, rn, ra))
		}
		yielded = a
	} else {
		w.class("err")
		if st == refOK {
			w.sum.RefOKErr++
		}
	}
	// the caching variant, miss then hit
	var dc socks5.DomainCache
	for i := 0; i < 2; i++ {
		a2, n2, err2 := dc.ConnAddrFromSlice(in)
		w.ops++
		if (err2 == nil) != (err == nil) || (err == nil && (n2 != n || !a2.Equals(a))) {
			w.fail("domaincache-disagrees", fmt.Sprintf("DomainCache.ConnAddrFromSlice(%x) pass %d = (%s, %d, %v) but ConnAddrFromSlice = (%s, %d, %v)", clip(in), i, a2.String(), n2, err2, a.String(), n, err))
		}
	}
	// AddrPortFromSlice (IP only)
	ap, n3, err3 := socks5.AddrPortFromSlice(in)
	w.ops++
	if err3 == nil && (st != refOK || ra.domain || n3 != rn || !sameAddrPort(ap, ra)) {
		w.fail("accepted-malformed:socks5-addrport", fmt.Sprintf("AddrPortFromSlice(%x) = (%s, %d, nil); reference: status %d %+v", clip(in), ap, n3, st, ra))
	}
	// readers
	fn, fst := refFrame(in)
	b, err4 := socks5.AppendFromReader(make([]byte, 0, 4), bytes.NewReader(in))
	w.ops++
	if err4 == nil && (fst != refOK || !bytes.Equal(b, in[:fn])) {
		w.fail("accepted-malformed:socks5-appendfromreader", fmt.Sprintf("AppendFromReader(%x) = %x, nil; reference framing: status %d length %d", clip(in), clip(b), fst, fn))
	}
	b, err4 = socks5.AddrFromReader(bytes.NewReader(in))
	w.ops++
	if err4 == nil && (fst != refOK || !bytes.Equal(b, in[:fn])) {
		w.fail("accepted-malformed:socks5-addrfromreader", fmt.Sprintf("AddrFromReader(%x) = %x, nil; reference framing: status %d length %d", clip(in), clip(b), fst, fn))
	}
	a5, err5 := socks5.ConnAddrFromReader(bytes.NewReader(in))
	w.ops++
	if err5 == nil && (st != refOK || !sameAddr(a5, ra)) {
		w.fail("accepted-malformed:socks5-connaddrfromreader", fmt.Sprintf("ConnAddrFromReader(%x) = %s, nil; reference: status %d %+v", clip(in), a5.String(), st, ra))
	}
	if err == nil {
		w.useAddr(yielded, "", false, nil)
		w.useAddr(yielded, "", true, nil)
	}
}

var (
	socksUsers   = map[string]string{"u": "p", strings.Repeat("U", 255): strings.Repeat("P", 255), "alice": "wonderland"}
	socksUserCfg = func() []socks5.UserInfo {
		var us []socks5.UserInfo
		for _, k := range []string{"u", strings.Repeat("U", 255), "alice"} {
			us = append(us, socks5.UserInfo{Username: k, Password: socksUsers[k]})
		}
		return us
	}()
)

func socksServerRun(auth, tcp, udp bool) func(w *worker, in []byte) {
	cfg := socks5.StreamServerConfig{EnableUserPassAuth: auth, EnableTCP: tcp, EnableUDP: udp}
	var users map[string]string
	if auth {
		cfg.Users = socksUserCfg
		users = socksUsers
	}
	return func(w *worker, in []byte) {
		hs := func(b []byte) (netio.ConnRequest, *memConn, error) {
			srv := must(cfg.NewStreamServer())
			c := newMemConn(b)
			req, err := srv.HandleStream(c, w.env.log)
			return req, c, err
		}
		res, addr, user, _ := refSocks5Server(in, users, tcp, udp)
		w.streamServerCase(in, hs, streamRef{res: res, addr: addr, user: user}, false)
	}
}

func authMsgBytes(u, p string) []byte {
	return cat([]byte{1, byte(len(u))}, []byte(u), []byte{byte(len(p))}, []byte(p))
}

func socksServerSeeds(auth bool) [][]byte {
	var sels [][]byte
	want := byte(0)
	if auth {
		want = 2
	}
	sels = append(sels, []byte{5, 1, want}, []byte{5, 2, 1, want}, []byte{5, 3, want, 0xfe, 0x80})
	long := cat([]byte{5, 255}, bytes.Repeat([]byte{0x7f}, 254), []byte{want})
	sels = append(sels, long)
	var auths [][]byte
	if auth {
		auths = [][]byte{authMsgBytes("u", "p"), authMsgBytes(strings.Repeat("U", 255), strings.Repeat("P", 255)), authMsgBytes("alice", "wonderland")}
	} else {
		auths = [][]byte{{}}
	}
	var out [][]byte
	for si, sel := range sels {
		for ai, au := range auths {
			for ci, cmd := range []byte{1, 3} {
				for xi, ad := range addrSeedsReduced() {
					// the full cross product only for the first selector/credential; others with two addresses
					if (si > 0 || ai > 0 || ci > 0) && xi != 0 && xi != 3 {
						continue
					}
					out = append(out, cat(sel, au, []byte{5, cmd, 0}, ad, []byte("GET")))
				}
			}
		}
	}
	return out
}

// malformed-by-construction companions of the seeds (wrong credentials, BIND, ...)
func socksServerNegatives(auth bool) [][]byte {
	ad := s5dom("a", 443)
	out := [][]byte{
		cat([]byte{5, 1, 1}, []byte{5, 1, 0}, ad),        // only GSSAPI offered
		cat([]byte{4, 1, 0}, []byte{5, 1, 0}, ad),        // SOCKS4
		cat([]byte{5, 1, 0}, []byte{5, 2, 0}, ad),        // BIND
		cat([]byte{5, 1, 2}, []byte{5, 2, 0}, ad),        // BIND
		cat([]byte{5, 1, 0}, []byte{5, 1, 0, 2}, ad[1:]), // bad ATYP
	}
	if auth {
		out = append(out,
			cat([]byte{5, 1, 2}, authMsgBytes("u", "x"), []byte{5, 1, 0}, ad),
			cat([]byte{5, 1, 2}, authMsgBytes("nobody", "p"), []byte{5, 1, 0}, ad),
			cat([]byte{5, 1, 2}, authMsgBytes("u", "wonderland"), []byte{5, 1, 0}, ad),
			cat([]byte{5, 1, 2}, authMsgBytes("u", "pp"), []byte{5, 1, 0}, ad),
			cat([]byte{5, 1, 2}, authMsgBytes("alice", "wonderlan"), []byte{5, 1, 0}, ad),
			cat([]byte{5, 1, 2}, []byte{1, 0, 1, 'p'}, []byte{5, 1, 0}, ad),
			cat([]byte{5, 1, 2}, []byte{1, 1, 'u', 0}, []byte{5, 1, 0}, ad),
			cat([]byte{5, 1, 2}, []byte{2, 1, 'u', 1, 'p'}, []byte{5, 1, 0}, ad),
		)
	}
	return out
}

func socksGroups(th bool) []*group {
	var gs []*group
	L := 7
	if th {
		L = 8
	}
	full := addrSeedsFull()
	gs = append(gs, &group{
		name: "socks5-addr", desc: "socks5.ConnAddrFromSlice / DomainCache.ConnAddrFromSlice / AddrPortFromSlice / AppendFromReader / AddrFromReader / ConnAddrFromReader on one byte string",
		parts: append([]part{
			newAlpha("socks5-addr/alpha", nil, nil, socksAlpha, 0, L),
			newAlpha("socks5-addr/alpha-after-domain-header", []byte{3}, nil, socksAlpha, 0, L-1),
		}, seedFamily("socks5-addr", nil, full, th, 24)...),
		run: runSocksAddr, seedsMustPass: true,
	})
	type sv struct {
		name          string
		auth, tcp, ud bool
	}
	for _, v := range []sv{{"noauth", false, true, true}, {"noauth-tcponly", false, true, false}, {"noauth-udponly", false, false, true}, {"auth", true, true, true}} {
		want := byte(0)
		if v.auth {
			want = 2
		}
		l := L
		if v.name != "noauth" && v.name != "auth" {
			l = L - 2
		}
		parts := []part{
			newAlpha("socks5-server/"+v.name+"/alpha", nil, nil, socksAlpha, 0, l),
			newAlpha("socks5-server/"+v.name+"/alpha-after-method-selection", []byte{5, 1, want}, nil, socksAlpha, 0, l),
		}
		pre := []byte{5, 1, want}
		if v.auth {
			pre = cat(pre, authMsgBytes("u", "p"))
		}
		parts = append(parts, newAlpha("socks5-server/"+v.name+"/alpha-request", pre, nil, socksAlpha, 0, l),
			newAlpha("socks5-server/"+v.name+"/alpha-address", cat(pre, []byte{5, 1, 0}), nil, socksAlpha, 0, l))
		if v.auth {
			parts = append(parts, newAlpha("socks5-server/auth/alpha-auth-message", []byte{5, 1, 2}, cat([]byte{5, 1, 0}, s5dom("a", 443)), append(append([][]byte{}, socksAlpha...), []byte("u"), []byte("p")), 0, l-1))
		}
		parts = append(parts, seedFamily("socks5-server/"+v.name, nil, socksServerSeeds(v.auth), th, 28)...)
		parts = append(parts, &listPart{name: "socks5-server/" + v.name + "/negatives", items: socksServerNegatives(v.auth)})
		gs = append(gs, &group{
			name: "socks5-server/" + v.name, desc: fmt.Sprintf("socks5 StreamServer.HandleStream (auth=%v tcp=%v udp=%v), then route / Abort / Proceed+relay", v.auth, v.tcp, v.ud),
			parts: parts, run: socksServerRun(v.auth, v.tcp, v.ud),
		})
	}

	// client side: the bytes are what the far SOCKS5 server answers
	target := conn.MustAddrFromDomainPort("example.com", 443)
	clientRun := func(auth bool, cmd byte) func(w *worker, in []byte) {
		am := socks5.UserInfo{Username: "u", Password: "p"}.AppendAuthMsg(nil)
		return func(w *worker, in []byte) {
			ok, bound := refSocks5Client(in, auth)
			c := newMemConn(in)
			var (
				a   conn.Addr
				err error
			)
			w.ops++
			switch {
			case cmd == socks5.CmdUDPAssociate && auth:
				a, err = socks5.ClientUDPAssociateUsernamePassword(c, am, conn.Addr{})
			case cmd == socks5.CmdUDPAssociate:
				a, err = socks5.ClientUDPAssociate(c, conn.Addr{})
			case auth:
				a, err = socks5.ClientRequestUsernamePassword(c, am, cmd, target)
			default:
				a, err = socks5.ClientRequest(c, cmd, target)
			}
			if err == nil {
				w.sum.Accepted++
				w.class(addrClass(a))
				if w.isSeed {
					w.sum.SeedsOK++
				}
				if !ok || !sameAddr(a, bound) {
					w.fail("accepted-malformed:socks5-client", fmt.Sprintf("the client accepted the reply stream %x (bound address %s); reference: ok=%v %+v", clip(in), a.String(), ok, bound))
				}
				w.checkAddr(a)
				// what direct.Socks5UDPClient does next with a bound IP address
				if cmd == socks5.CmdUDPAssociate && a.IsIP() {
					w.protect("resolving the bound address", func() { _, _ = a.ResolveIPPort(context.Background(), "ip") })
				}
			} else {
				w.class("err")
				if ok {
					w.sum.RefOKErr++
				}
			}
			// the same stream through the StreamClient wrappers
			if cmd == socks5.CmdConnect {
				inner := &fakeStreamClient{scripts: [][]byte{in}}
				cfg := socks5.StreamClientConfig{Name: "x", InnerClient: inner, Addr: target}
				if auth {
					cfg.AuthMsg = am
				}
				w.ops++
				cc, err2 := cfg.NewStreamClient().DialStream(context.Background(), target, []byte("hello"))
				if (err2 == nil) != (err == nil) {
					w.fail("socks5-streamclient-disagrees", fmt.Sprintf("DialStream err=%v but ClientRequest err=%v on the same reply stream", err2, err))
				}
				if err2 == nil {
					cc.Close()
				}
			}
		}
	}
	okReply := func(ad []byte) []byte { return cat([]byte{5, 0}, []byte{5, 0, 0}, ad) }
	okReplyAuth := func(ad []byte) []byte { return cat([]byte{5, 2, 1, 0}, []byte{5, 0, 0}, ad) }
	var seedsNo, seedsAuth [][]byte
	for _, ad := range addrSeedsReduced() {
		seedsNo = append(seedsNo, okReply(ad))
		seedsAuth = append(seedsAuth, okReplyAuth(ad))
	}
	negNo := [][]byte{cat([]byte{5, 0xff}), cat([]byte{5, 0, 5, 1, 0}, s5v4([4]byte{}, 0)), cat([]byte{5, 0, 5, 8, 0}, s5v4([4]byte{}, 0)), cat([]byte{5, 2, 5, 0, 0}, s5v4([4]byte{}, 0))}
	negAuth := [][]byte{cat([]byte{5, 2, 1, 1}), cat([]byte{5, 2, 1, 1, 5, 0, 0}, s5v4([4]byte{}, 0)), cat([]byte{5, 2, 2, 0, 5, 0, 0}, s5v4([4]byte{}, 0)), cat([]byte{5, 0, 5, 0, 0}, s5v4([4]byte{}, 0))}
	for _, v := range []struct {
		name string
		auth bool
		cmd  byte
	}{{"connect", false, socks5.CmdConnect}, {"connect-auth", true, socks5.CmdConnect}, {"udp-associate", false, socks5.CmdUDPAssociate}, {"udp-associate-auth", true, socks5.CmdUDPAssociate}} {
		seeds, neg, pre := seedsNo, negNo, []byte{5, 0}
		if v.auth {
			seeds, neg, pre = seedsAuth, negAuth, []byte{5, 2, 1, 0}
		}
		l := L
		if v.cmd == socks5.CmdUDPAssociate {
			l = L - 1
		}
		parts := []part{
			newAlpha("socks5-client/"+v.name+"/alpha", nil, nil, socksAlpha, 0, l),
			newAlpha("socks5-client/"+v.name+"/alpha-reply", pre, nil, socksAlpha, 0, l),
			newAlpha("socks5-client/"+v.name+"/alpha-bound-address", cat(pre, []byte{5, 0, 0}), nil, socksAlpha, 0, l),
		}
		parts = append(parts, seedFamily("socks5-client/"+v.name, nil, seeds, th, 24)...)
		parts = append(parts, &listPart{name: "socks5-client/" + v.name + "/negatives", items: neg})
		gs = append(gs, &group{
			name: "socks5-client/" + v.name, desc: "socks5 client handshake reading the far server's replies (ClientRequest* / ClientUDPAssociate* / StreamClient.DialStream)",
			parts: parts, run: clientRun(v.auth, v.cmd), seedsMustPass: true,
		})
	}

	// Shadowsocks "none": the stream starts with a SOCKS5 address
	var noneSeeds [][]byte
	for _, ad := range addrSeedsReduced() {
		noneSeeds = append(noneSeeds, cat(ad, []byte("payload")))
	}
	gs = append(gs, &group{
		name: "ssnone-server", desc: "ssnone.StreamServer.HandleStream, then route / Abort / Proceed+relay",
		parts: append([]part{
			newAlpha("ssnone-server/alpha", nil, nil, socksAlpha, 0, L),
			newAlpha("ssnone-server/alpha-after-domain-header", []byte{3}, nil, socksAlpha, 0, L-1),
		}, seedFamily("ssnone-server", nil, noneSeeds, th, 32)...),
		seedsMustPass: true,
		run: func(w *worker, in []byte) {
			hs := func(b []byte) (netio.ConnRequest, *memConn, error) {
				c := newMemConn(b)
				req, err := ssnone.StreamServer{}.HandleStream(c, w.env.log)
				return req, c, err
			}
			ra, n, st := refParseAddr(in)
			ref := streamRef{res: resReject}
			if st == refOK {
				ref = streamRef{res: resAccept, addr: ra, stream: in[n:], initial: 0, check: true}
			}
			w.streamServerCase(in, hs, ref, false)
		},
	})
	return gs
}

var _ = netip.Addr{}
