package main

// Shadowsocks 2022: building wire images around (possibly malformed) plaintext
// headers with the real keys, and the reference decoding of a wire image.
// Key derivation / AES / GCM come from the repository's exported cipher
// constructors (they are the cryptographic primitive shared by both sides,
// not the parsing under test); everything about the header layout in the
// reference is written from the specification (ref.go).

import (
	"crypto/cipher"
	"crypto/subtle"
	"encoding/binary"

	"github.com/database64128/shadowsocks-go/conn"
	"github.com/database64128/shadowsocks-go/ss2022"
)

type ssCfg struct {
	name     string
	saltLen  int
	eih      bool
	ursp     []byte
	fallback conn.Addr
	ucc      ss2022.UserCipherConfig           // no-EIH user key (zero when eih)
	icc      ss2022.ServerIdentityCipherConfig // identity key (eih)
	ulm      ss2022.UserLookupMap
	userA    ss2022.ServerUserCipherConfig
	hashA    [16]byte
}

func mkSSCfg(name string, psk []byte, eih bool) *ssCfg {
	c := &ssCfg{name: name, saltLen: len(psk), eih: eih}
	if !eih {
		c.ucc = must(ss2022.NewUserCipherConfig(psk, true))
		return c
	}
	c.icc = must(ss2022.NewServerIdentityCipherConfig(psk, true))
	c.userA = must(ss2022.NewServerUserCipherConfig("alice", upskA, true))
	userB := must(ss2022.NewServerUserCipherConfig("bob", upskB, true))
	c.hashA = ss2022.PSKHash(upskA)
	c.ulm = ss2022.UserLookupMap{c.hashA: c.userA, ss2022.PSKHash(upskB): userB}
	return c
}

// AEAD instances are cached per (key, salt): deriving a session subkey is by far
// the most expensive step and the harness reuses a handful of salts.
var aeadCache = map[string]cipher.AEAD{}

func cachedAEAD(u ss2022.UserCipherConfig, salt []byte) (cipher.AEAD, error) {
	k := string(u.PSK) + "|" + string(salt)
	if a, ok := aeadCache[k]; ok {
		return a, nil
	}
	a, err := u.AEAD(salt)
	if err != nil {
		return nil, err
	}
	if len(aeadCache) < 4096 {
		aeadCache[k] = a
	}
	return a, nil
}

func cachedStreamCipher(u ss2022.UserCipherConfig, salt []byte) (*ss2022.ShadowStreamCipher, error) {
	a, err := cachedAEAD(u, salt)
	if err != nil {
		return nil, err
	}
	return ss2022.NewShadowStreamCipher(a), nil
}

func (c *ssCfg) newStreamServer() *ss2022.StreamServer {
	s := (&ss2022.StreamServerConfig{
		UserCipherConfig:          c.ucc,
		IdentityCipherConfig:      c.icc,
		RejectPolicy:              ss2022.JustClose,
		UnsafeFallbackAddr:        c.fallback,
		UnsafeRequestStreamPrefix: c.ursp,
	}).NewStreamServer()
	if c.eih {
		s.ReplaceUserLookupMap(c.ulm)
	}
	return s
}

func (c *ssCfg) newUDPServer() *ss2022.UDPServer {
	s := ss2022.NewUDPServer(0, c.ucc, c.icc, ss2022.PadPlainDNS)
	if c.eih {
		s.ReplaceUserLookupMap(c.ulm)
	}
	return s
}

// the user key a well-formed client of this configuration uses
func (c *ssCfg) userCfg() ss2022.UserCipherConfig {
	if c.eih {
		return c.userA.UserCipherConfig
	}
	return c.ucc
}

func (c *ssCfg) salt(fill byte) []byte {
	s := make([]byte, c.saltLen)
	for i := range s {
		s[i] = fill + byte(i)
	}
	return s
}

// --- TCP request ------------------------------------------------------------

const (
	kRaw      = 0 // spec[1:] is the wire image
	kFixedVar = 1 // spec[1:12] fixed-length header plaintext, rest variable-length header plaintext; both sealed as given
	kChunk    = 2 // valid headers, then spec[1:3] sealed as a length chunk and the rest sealed as a payload chunk
	kVar      = 3 // spec[1:] variable-length header plaintext; the fixed-length header is valid and announces its length
	kEIH      = 4 // spec[1:17] identity header plaintext, then a valid request
)

func fixedHeader(vhlen int, ts int64) []byte {
	return cat([]byte{0}, be64(uint64(ts)), be16(uint16(vhlen)))
}

// a valid variable-length header: address, padding length, padding, initial payload
func varHeader(addr []byte, pad int, payload []byte) []byte {
	return cat(addr, be16(uint16(pad)), make([]byte, pad), payload)
}

var defaultVar = varHeader(s5dom("a", 443), 1, []byte("hi"))

func (c *ssCfg) buildReq(spec []byte) []byte {
	if len(spec) == 0 {
		return []byte{}
	}
	body := spec[1:]
	if spec[0] == kRaw {
		return body
	}
	salt := c.salt(0x10)
	wire := cat(c.ursp, salt)
	if c.eih {
		plain := c.hashA[:]
		if spec[0] == kEIH && len(body) >= 16 {
			plain = body[:16]
		}
		blk := must(c.icc.TCP(salt))
		eh := make([]byte, 16)
		blk.Encrypt(eh, plain)
		wire = append(wire, eh...)
	}
	sc := must(cachedStreamCipher(c.userCfg(), salt))
	var fixed, vh []byte
	switch spec[0] {
	case kFixedVar:
		if len(body) < 11 {
			fixed, vh = body, nil
		} else {
			fixed, vh = body[:11], body[11:]
		}
	case kVar:
		vh = body
		fixed = fixedHeader(len(vh), nowUnix)
	default:
		vh = defaultVar
		fixed = fixedHeader(len(vh), nowUnix)
	}
	wire = sc.EncryptAppend(wire, fixed)
	wire = sc.EncryptAppend(wire, vh)
	if spec[0] == kChunk && len(body) >= 2 {
		wire = sc.EncryptAppend(wire, body[:2])
		wire = sc.EncryptAppend(wire, body[2:])
	} else {
		wire = sc.EncryptAppend(wire, be16(4))
		wire = sc.EncryptAppend(wire, []byte("PING"))
	}
	return wire
}

type ssReqRef struct {
	res           int
	addr          refAddr
	user          string
	stream        []byte // initial payload followed by every intact chunk
	initial       int    // length of the initial payload within stream
	authenticated bool
}

func (c *ssCfg) refReq(wire []byte) (r ssReqRef) {
	first := len(c.ursp) + c.saltLen + 11 + 16
	if c.eih {
		first += 16
	}
	if len(wire) < first {
		return
	}
	if string(wire[:len(c.ursp)]) != string(c.ursp) {
		return
	}
	p := len(c.ursp)
	salt := wire[p : p+c.saltLen]
	p += c.saltLen
	ucfg := c.ucc
	if c.eih {
		blk, err := c.icc.TCP(salt)
		if err != nil {
			return
		}
		var h [16]byte
		blk.Decrypt(h[:], wire[p:p+16])
		u, ok := c.ulm[h]
		if !ok {
			return
		}
		ucfg = u.UserCipherConfig
		r.user = u.Name
		p += 16
	}
	sc, err := cachedStreamCipher(ucfg, salt)
	if err != nil {
		return
	}
	fixed, err := sc.DecryptAppend(nil, wire[p:p+27])
	if err != nil {
		return
	}
	p += 27
	vhlen, ok := refSS2022Fixed(fixed, nowUnix)
	if !ok {
		return
	}
	r.authenticated = true
	if len(wire) < p+vhlen+16 {
		return
	}
	vh, err := sc.DecryptAppend(nil, wire[p:p+vhlen+16])
	if err != nil {
		return
	}
	p += vhlen + 16
	a, payload, ok := refSS2022Var(vh)
	if !ok {
		return
	}
	r.res = resAccept
	r.addr = a
	r.stream = append(r.stream, payload...)
	r.initial = len(payload)
	r.stream = refChunks(sc, wire[p:], r.stream)
	return
}

// refChunks appends every intact (length chunk, payload chunk) pair.
func refChunks(sc *ss2022.ShadowStreamCipher, rest, out []byte) []byte {
	for {
		if len(rest) < 18 {
			return out
		}
		lb, err := sc.DecryptAppend(nil, rest[:18])
		if err != nil {
			return out
		}
		l := int(binary.BigEndian.Uint16(lb))
		if l == 0 || len(rest) < 18+l+16 {
			return out
		}
		pl, err := sc.DecryptAppend(nil, rest[18:18+l+16])
		if err != nil {
			return out
		}
		out = append(out, pl...)
		rest = rest[18+l+16:]
	}
}

// --- TCP response (what a server sends back to our client) ---------------------

func respHeader(reqSalt []byte, length int, ts int64) []byte {
	return cat([]byte{1}, be64(uint64(ts)), reqSalt, be16(uint16(length)))
}

// buildResp: kRaw raw; kFixedVar spec[1:1+11+saltLen] header plaintext + first payload chunk plaintext;
// kVar first payload chunk plaintext with a valid header, then a second chunk; kChunk valid header and
// first chunk, then length chunk spec[1:3] + payload chunk.
func (c *ssCfg) buildResp(spec, reqSalt []byte) []byte {
	if len(spec) == 0 {
		return []byte{}
	}
	body := spec[1:]
	if spec[0] == kRaw {
		return body
	}
	salt := c.salt(0x70)
	wire := cat([]byte{}, salt)
	sc := must(cachedStreamCipher(c.userCfg(), salt))
	hl := 11 + c.saltLen
	var hdr, first []byte
	switch spec[0] {
	case kFixedVar:
		if len(body) < hl {
			hdr = body
		} else {
			hdr, first = body[:hl], body[hl:]
		}
	case kVar:
		first = body
		hdr = respHeader(reqSalt, len(first), nowUnix)
	default:
		first = []byte("OK")
		hdr = respHeader(reqSalt, len(first), nowUnix)
	}
	wire = sc.EncryptAppend(wire, hdr)
	wire = sc.EncryptAppend(wire, first)
	if spec[0] == kChunk && len(body) >= 2 {
		wire = sc.EncryptAppend(wire, body[:2])
		wire = sc.EncryptAppend(wire, body[2:])
	} else {
		wire = sc.EncryptAppend(wire, be16(4))
		wire = sc.EncryptAppend(wire, []byte("PONG"))
	}
	return wire
}

func (c *ssCfg) refResp(wire, reqSalt []byte) (stream []byte, ok bool) {
	hl := 11 + c.saltLen
	if len(wire) < c.saltLen+hl+16 {
		return nil, false
	}
	salt := wire[:c.saltLen]
	sc, err := cachedStreamCipher(c.userCfg(), salt)
	if err != nil {
		return nil, false
	}
	p := c.saltLen
	hdr, err := sc.DecryptAppend(nil, wire[p:p+hl+16])
	if err != nil {
		return nil, false
	}
	p += hl + 16
	if hdr[0] != 1 || !refTimestampOK(hdr[1:9], nowUnix) || string(hdr[9:9+c.saltLen]) != string(reqSalt) {
		return nil, false
	}
	l := int(binary.BigEndian.Uint16(hdr[9+c.saltLen:]))
	if l == 0 {
		return nil, false
	}
	// header accepted; from here on a failure ends the stream after what was delivered
	if len(wire) < p+l+16 {
		return nil, true
	}
	pl, err := sc.DecryptAppend(nil, wire[p:p+l+16])
	if err != nil {
		return nil, true
	}
	p += l + 16
	return refChunks(sc, wire[p:], pl), true
}

// --- UDP ------------------------------------------------------------------------

func udpClientBody(ts int64, pad int, addr, payload []byte) []byte {
	return cat([]byte{0}, be64(uint64(ts)), be16(uint16(pad)), make([]byte, pad), addr, payload)
}

func udpServerBody(ts int64, csid uint64, pad int, addr, payload []byte) []byte {
	return cat([]byte{1}, be64(uint64(ts)), be64(csid), be16(uint16(pad)), make([]byte, pad), addr, payload)
}

func (c *ssCfg) sepBlock() cipher.Block {
	if c.eih {
		return c.icc.UDP()
	}
	return c.ucc.Block()
}

// client -> server datagram.  kFixedVar: spec[1:17] separate header (session id, packet id), rest body plaintext.
// kEIH: spec[1:17] identity header plaintext (before the XOR), then separate header and body.
func (c *ssCfg) buildClientPacket(spec []byte) []byte {
	if len(spec) == 0 {
		return []byte{}
	}
	body := spec[1:]
	if spec[0] == kRaw {
		return body
	}
	idPlain := c.hashA[:]
	if spec[0] == kEIH {
		if len(body) < 16 {
			return body
		}
		idPlain, body = body[:16], body[16:]
	}
	if len(body) < 16 {
		return body
	}
	sep, msg := body[:16], body[16:]
	aead := must(cachedAEAD(c.userCfg(), sep[:8]))
	wire := make([]byte, 16, 64+len(msg))
	c.sepBlock().Encrypt(wire, sep)
	if c.eih {
		x := make([]byte, 16)
		subtle.XORBytes(x, idPlain, sep)
		c.icc.UDP().Encrypt(x, x)
		wire = append(wire, x...)
	}
	return aead.Seal(wire, sep[4:16], msg, nil)
}

func (c *ssCfg) refClientPacket(wire []byte) (a refAddr, payload []byte, user string, ok bool) {
	non := 16
	if c.eih {
		non = 32
	}
	if len(wire) < non+16 {
		return
	}
	sep := make([]byte, 16)
	c.sepBlock().Decrypt(sep, wire[:16])
	ucfg := c.ucc
	if c.eih {
		var h [16]byte
		c.icc.UDP().Decrypt(h[:], wire[16:32])
		subtle.XORBytes(h[:], h[:], sep)
		u, found := c.ulm[h]
		if !found {
			return
		}
		ucfg = u.UserCipherConfig
		user = u.Name
	}
	aead, err := cachedAEAD(ucfg, sep[:8])
	if err != nil {
		return
	}
	msg, err := aead.Open(nil, sep[4:16], wire[non:], nil)
	if err != nil {
		return
	}
	a, payload, ok = refSS2022UDPClient(msg, nowUnix)
	return
}

// server -> client datagram (the client decrypts the separate header with its own key).
func (c *ssCfg) buildServerPacket(spec []byte) []byte {
	if len(spec) == 0 {
		return []byte{}
	}
	body := spec[1:]
	if spec[0] == kRaw || len(body) < 16 {
		return body
	}
	sep, msg := body[:16], body[16:]
	aead := must(cachedAEAD(c.userCfg(), sep[:8]))
	wire := make([]byte, 16, 32+len(msg))
	c.userCfg().Block().Encrypt(wire, sep)
	return aead.Seal(wire, sep[4:16], msg, nil)
}

func (c *ssCfg) refServerPacket(wire []byte, csid uint64) (a refAddr, payload []byte, ssid uint64, ok bool) {
	if len(wire) < 32 {
		return
	}
	sep := make([]byte, 16)
	c.userCfg().Block().Decrypt(sep, wire[:16])
	ssid = binary.BigEndian.Uint64(sep)
	aead, err := cachedAEAD(c.userCfg(), sep[:8])
	if err != nil {
		return
	}
	msg, err := aead.Open(nil, sep[4:16], wire[16:], nil)
	if err != nil {
		return
	}
	a, payload, ok = refSS2022UDPServer(msg, nowUnix, csid)
	return
}
