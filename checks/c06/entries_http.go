package main

import (
	"bytes"
	"fmt"
	"io"
	"strconv"
	"strings"
	"time"

	"github.com/database64128/shadowsocks-go/conn"
	"github.com/database64128/shadowsocks-go/httpproxy"
	"github.com/database64128/shadowsocks-go/netio"
)

// coarse reference for HTTP/1.x (RFC 9112 section 2.1): a message is a start
// line, header fields and an empty line.  Without the empty line there is no
// request, so nothing may be accepted.
func httpHeaderEnd(b []byte) int {
	i := bytes.Index(b, []byte("\n\r\n"))
	j := bytes.Index(b, []byte("\n\n"))
	switch {
	case i < 0 && j < 0:
		return -1
	case i < 0:
		return j + 2
	case j < 0:
		return i + 3
	case j < i:
		return j + 2
	}
	return i + 3
}

// reference for the proxy's answer to CONNECT (RFC 9110 section 9.3.6): only a
// complete response with a 2xx status establishes the tunnel.
func refHTTPConnectResp(b []byte) (ok bool, rest []byte) {
	end := httpHeaderEnd(b)
	if end < 0 {
		return false, nil
	}
	line := b
	if i := bytes.IndexByte(b, '\n'); i >= 0 {
		line = b[:i]
	}
	line = bytes.TrimRight(line, "\r")
	if !bytes.HasPrefix(line, []byte("HTTP/")) {
		return false, nil
	}
	sp := bytes.IndexByte(line, ' ')
	if sp < 0 {
		return false, nil
	}
	st := bytes.TrimLeft(line[sp+1:], " ")
	if len(st) < 3 {
		return false, nil
	}
	code, err := strconv.Atoi(string(st[:3]))
	if err != nil || code < 200 || code > 299 {
		return false, nil
	}
	if len(st) > 3 && st[3] != ' ' {
		return false, nil
	}
	return true, b[end:]
}

const basicToken = "dTpw" // base64("u:p")

var httpServerSeeds = [][]byte{
	[]byte("CONNECT example.com:443 HTTP/1.1\r\nHost: example.com:443\r\n\r\n"),
	[]byte("CONNECT a:0 HTTP/1.1\r\nHost: a:0\r\nProxy-Authorization: Basic dTpw\r\n\r\nEARLY"),
	[]byte("CONNECT [2001:db8::1]:65535 HTTP/1.1\r\nProxy-Authorization: basic dTpw\r\n\r\n"),
	[]byte("CONNECT 1.2.3.4:1 HTTP/1.0\r\nProxy-Authorization: Basic dTpw\r\n\r\n"),
	[]byte("CONNECT " + name255 + ":53 HTTP/1.1\r\nProxy-Authorization: Basic dTpw\r\n\r\n"),
	[]byte("GET http://example.com/index.html HTTP/1.1\r\nHost: example.com\r\nProxy-Authorization: Basic dTpw\r\nProxy-Connection: keep-alive\r\nConnection: keep-alive, X-Drop\r\nX-Drop: 1\r\n\r\n"),
	[]byte("GET / HTTP/1.1\r\nHost: [::1]\r\nProxy-Authorization: Basic dTpw\r\n\r\nGET /2 HTTP/1.1\r\nHost: [::1]\r\n\r\n"),
	[]byte("POST http://a:8080/x HTTP/1.1\r\nHost: a:8080\r\nProxy-Authorization: Basic dTpw\r\nContent-Length: 5\r\n\r\nhelloGET / HTTP/1.1\r\nHost: other\r\n\r\n"),
	[]byte("POST / HTTP/1.1\r\nHost: 10.0.0.1:0\r\nProxy-Authorization: Basic dTpw\r\nTransfer-Encoding: chunked\r\nTrailer: X-T\r\n\r\n3\r\nabc\r\n0\r\nX-T: 1\r\n\r\n"),
	[]byte("GET / HTTP/1.1\r\nHost: a\r\nProxy-Authorization: Basic dTpw\r\nUpgrade: websocket\r\nConnection: Upgrade\r\n\r\n"),
	[]byte("GET / HTTP/1.1\r\nHost: a\r\nProxy-Authorization: Basic AAAA\r\n\r\nGET / HTTP/1.1\r\nHost: a\r\nProxy-Authorization: Basic dTpw\r\n\r\n"),
	[]byte("OPTIONS * HTTP/1.1\r\nHost: example.com:443\r\nProxy-Authorization: Basic dTpw\r\nConnection: close\r\n\r\n"),
}

var httpRespSeeds = [][]byte{
	[]byte("HTTP/1.1 200 OK\r\nContent-Length: 2\r\n\r\nok"),
	[]byte("HTTP/1.1 100 Continue\r\n\r\nHTTP/1.1 200 OK\r\nContent-Length: 0\r\n\r\n"),
	[]byte("HTTP/1.1 200 OK\r\nTransfer-Encoding: chunked\r\nTrailer: X-T\r\n\r\n2\r\nok\r\n0\r\nX-T: 1\r\n\r\n"),
	[]byte("HTTP/1.1 302 Found\r\nLocation: http://other.example/\r\nContent-Length: 0\r\n\r\n"),
	[]byte("HTTP/1.1 301 Moved\r\nLocation: :%zz\r\nLocation: /b\r\nContent-Length: 0\r\n\r\n"),
	[]byte("HTTP/1.0 200 OK\r\nConnection: close, Keep-Alive\r\n\r\nbody until close"),
	[]byte("HTTP/1.1 204 No Content\r\n\r\nHTTP/1.1 200 OK\r\nContent-Length: 1\r\n\r\nx"),
	[]byte("HTTP/1.1 101 Switching Protocols\r\nUpgrade: websocket\r\nConnection: Upgrade\r\n\r\nrawbytes"),
}

var httpConnectRespSeeds = [][]byte{
	[]byte("HTTP/1.1 200 OK\r\n\r\n"),
	[]byte("HTTP/1.1 200 Connection established\r\nProxy-Agent: x\r\n\r\nSERVER-SPOKE-FIRST"),
	[]byte("HTTP/1.0 299 Weird\r\nContent-Length: 3\r\n\r\nabc"),
	[]byte("HTTP/1.1 407 Proxy Authentication Required\r\nProxy-Authenticate: Basic realm=\"x\"\r\n\r\n"),
	[]byte("HTTP/1.1 502 Bad Gateway\r\nConnection: close\r\n\r\n"),
	[]byte("HTTP/1.1 100 Continue\r\n\r\nHTTP/1.1 200 OK\r\n\r\n"),
}

var fixedGET = []byte("GET http://example.com/a HTTP/1.1\r\nHost: example.com\r\nProxy-Authorization: Basic dTpw\r\n\r\nGET http://example.com/b HTTP/1.1\r\nHost: example.com\r\n\r\n")

// httpRelay plays the far web server behind a non-CONNECT proxy request: it
// drains the forwarded requests and answers with w.relayResp.  The proxy's own
// goroutines own the client connection c and close it when they are done.
func (w *worker) httpRelay(pr netio.Conn, c *memConn, resp []byte) {
	drained := make(chan struct{})
	written := make(chan struct{})
	go func() { io.Copy(io.Discard, pr); close(drained) }()
	go func() { pr.Write(resp); pr.CloseWrite(); close(written) }()
	w.ops += 2
	timeout := time.After(20 * time.Second)
	hung := false
	select {
	case <-c.done:
	case <-timeout:
		hung = true
	}
	pr.Close()
	for _, ch := range []chan struct{}{drained, written} {
		select {
		case <-ch:
		case <-time.After(5 * time.Second):
			hung = true
		}
	}
	if hung {
		w.sum.Hangs++
	}
}

func httpGroups(th bool) []*group {
	var gs []*group
	L := 4
	if th {
		L = 5
	}
	reqTokens := tokAlpha("CONNECT ", "GET ", "a", ":", "0", "443", "65536", "[", "]", "/", " HTTP/1.1", "\r\n", "Host:", " ", "http://")
	hdrTokens := tokAlpha("Host:", " ", "a", ":", "1", "\r\n", "Proxy-Authorization:", "Basic ", basicToken, "Content-Length:", "Transfer-Encoding:", "chunked", "-1", "[")
	for _, auth := range []bool{false, true} {
		name := "http-server/noauth"
		cfg := httpproxy.ServerConfig{}
		if auth {
			name = "http-server/basic-auth"
			cfg = httpproxy.ServerConfig{EnableBasicAuth: true, Users: []httpproxy.ServerUserCredentials{{Username: "u", Password: "p"}, {Username: "v", Password: ""}}}
		}
		srv := must(cfg.NewProxyServer())
		auth := auth
		parts := []part{
			newAlpha(name+"/request-line-tokens", nil, []byte("\r\n\r\n"), reqTokens, 0, L),
			newAlpha(name+"/header-tokens-after-CONNECT", []byte("CONNECT a:1 HTTP/1.1\r\n"), []byte("\r\n\r\n"), hdrTokens, 0, L),
			newAlpha(name+"/header-tokens-after-GET", []byte("GET / HTTP/1.1\r\n"), []byte("\r\n\r\n"), hdrTokens, 0, L),
		}
		parts = append(parts, seedFamily(name, nil, httpServerSeeds, th, 70)...)
		gs = append(gs, &group{
			name: name, desc: fmt.Sprintf("httpproxy ProxyServer.HandleStream (basic auth=%v), then route / Abort / Proceed; non-CONNECT requests are relayed to a scripted web server through the proxy's forwarding goroutines", auth),
			parts: parts,
			run: func(w *worker, in []byte) {
				hs := func(b []byte) (netio.ConnRequest, *memConn, error) {
					c := newMemConn(b)
					req, err := srv.HandleStream(c, w.env.log)
					return req, c, err
				}
				ref := streamRef{none: true, must: resAccept}
				if httpHeaderEnd(in) < 0 || (auth && !bytes.Contains(in, []byte(basicToken)) && !bytes.Contains(in, []byte("djo="))) {
					ref.must = resReject
				}
				w.relayResp = httpRespSeeds[0]
				w.streamServerCase(in, hs, ref, true)
			},
		})
	}

	// the far web server's answer, relayed back through serverForwardResponses
	srv := must((&httpproxy.ServerConfig{}).NewProxyServer())
	respTokens := tokAlpha("HTTP/1.1", "HTTP/1.0", " ", "200", "100", "301", "OK", "\r\n", "Content-Length:", "2", "Location:", "http://b/", "Connection:", "close", "ok")
	gs = append(gs, &group{
		name: "http-server-relay/response", desc: "two pipelined GET requests accepted by the proxy; the input is the far web server's response stream (serverForwardResponses / http.ReadResponse / header filtering)",
		parts: append([]part{newAlpha("http-server-relay/response/tokens", nil, nil, respTokens, 0, L)}, seedFamily("http-server-relay/response", nil, httpRespSeeds, false, 0)...),
		run: func(w *worker, in []byte) {
			c := newMemConn(fixedGET).withDone()
			req, err := srv.HandleStream(c, w.env.log)
			w.ops++
			if err != nil || req.PendingConn == nil {
				w.class("handshake-err")
				return
			}
			w.sum.Accepted++
			if w.isSeed {
				w.sum.SeedsOK++
			}
			w.class("relayed")
			tc, err := req.Proceed()
			if err != nil || tc == nil {
				return
			}
			w.httpRelay(tc, c, in)
		},
	})

	// client side: the far proxy's answer to our CONNECT
	target := conn.MustAddrFromDomainPort("example.com", 443)
	crTokens := tokAlpha("HTTP/1.1", "HTTP/1.0", "HTTP/", " ", "200", "2000", "199", "300", "OK", "\r\n", "\n", "Content-Length:", "5", ":", "x")
	gs = append(gs, &group{
		name: "http-client/connect", desc: "httpproxy.ClientConnect reading the far proxy's response, then reading the tunnel",
		parts: append([]part{
			newAlpha("http-client/connect/tokens", nil, nil, crTokens, 0, L+1),
			newAlpha("http-client/connect/tokens-after-status", []byte("HTTP/1.1 200 OK\r\n"), nil, crTokens, 0, L),
		}, seedFamily("http-client/connect", nil, httpConnectRespSeeds, th, 40)...),
		run: func(w *worker, in []byte) {
			ok, rest := refHTTPConnectResp(in)
			c := newMemConn(in)
			w.ops++
			tc, err := httpproxy.ClientConnect(c, target, "\r\nProxy-Authorization: Basic dTpw")
			if err != nil {
				w.class("err")
				if ok {
					w.sum.RefOKErr++
				}
				return
			}
			w.sum.Accepted++
			w.class("tunnel")
			if w.isSeed {
				w.sum.SeedsOK++
			}
			if !ok {
				w.fail("accepted-malformed:http-client", fmt.Sprintf("ClientConnect established a tunnel on the response %q, which is not a complete 2xx response", clip(in)))
				return
			}
			var got []byte
			buf := make([]byte, 4096)
			for i := 0; i < 64; i++ {
				n, err := tc.Read(buf)
				w.ops++
				got = append(got, buf[:n]...)
				if err != nil {
					break
				}
			}
			if wt, isWT := tc.(io.WriterTo); isWT {
				_, _ = wt.WriteTo(&limitedDiscard{})
			}
			if !bytes.HasSuffix(rest, got) && !bytes.HasPrefix(rest, got) {
				w.fail("tunnel-bytes-invented:http-client", fmt.Sprintf("the tunnel delivered %q, which is not part of what followed the response header %q", clip(got), clip(rest)))
			}
			tc.Close()
		},
	})

	// textual addresses
	addrTokens := tokAlpha("a", ".", ":", "0", "1", "65535", "65536", "[", "]", "::1", "%", "-1", " ", "1.2.3.4", "+", "\x00")
	LA := 4
	if th {
		LA = 6
	}
	textSeeds := [][]byte{[]byte("example.com:443"), []byte("1.2.3.4:0"), []byte("[2001:db8::1]:65535"), []byte("[::ffff:1.2.3.4]:1"), []byte(name255 + ":53"), []byte(name255 + "x:53"), []byte("[fe80::1%eth0]:80"), []byte(":0"), []byte("a:065535")}
	refText := func(s string) bool { // "host:port" with a decimal port that fits 16 bits
		i := strings.LastIndexByte(s, ':')
		if i < 0 {
			return false
		}
		p := s[i+1:]
		if p == "" {
			return false
		}
		for _, ch := range []byte(p) {
			if ch < '0' || ch > '9' {
				return false
			}
		}
		v, err := strconv.ParseUint(p, 10, 64)
		return err == nil && v <= 65535
	}
	gs = append(gs, &group{
		name: "conn-parseaddr", desc: "conn.ParseAddr (CONNECT targets, Host headers, configuration strings)",
		parts: append([]part{newAlpha("conn-parseaddr/tokens", nil, nil, addrTokens, 0, LA)}, seedFamily("conn-parseaddr", nil, textSeeds, th, 24)...),
		run: func(w *worker, in []byte) {
			a, err := conn.ParseAddr(string(in))
			w.ops++
			if err != nil {
				w.class("err")
				return
			}
			w.sum.Accepted++
			w.class(addrClass(a))
			if w.isSeed {
				w.sum.SeedsOK++
			}
			if !refText(string(in)) {
				w.fail("accepted-malformed:conn-parseaddr", fmt.Sprintf("ParseAddr(%q) succeeded (%s) although the text has no decimal 16-bit port", in, a.String()))
			}
			w.useAddr(a, "", false, nil)
		},
	})
	hostSeeds := append([][]byte{[]byte("example.com"), []byte("[::1]"), []byte("1.2.3.4"), []byte("[]"), []byte("["), []byte("]"), []byte(name255), []byte(name255 + "x")}, textSeeds...)
	gs = append(gs, &group{
		name: "http-hostheader", desc: "httpproxy.hostHeaderToAddr (Host header of non-CONNECT requests)",
		parts: append([]part{newAlpha("http-hostheader/tokens", nil, nil, addrTokens, 0, LA)}, seedFamily("http-hostheader", nil, hostSeeds, th, 24)...),
		run: func(w *worker, in []byte) {
			a, err := httpproxy.C06HostHeaderToAddr(string(in))
			w.ops++
			if err != nil {
				w.class("err")
				return
			}
			w.sum.Accepted++
			w.class(addrClass(a))
			if w.isSeed {
				w.sum.SeedsOK++
			}
			if len(in) == 0 {
				w.fail("accepted-malformed:http-hostheader", "an empty Host header produced an address")
			}
			w.useAddr(a, "", false, nil)
		},
	})
	return gs
}
