package main

import (
	"context"
	"errors"
	"fmt"
	"net/netip"
	"os"
	"path/filepath"
	"strings"

	"github.com/database64128/shadowsocks-go/conn"
	"github.com/database64128/shadowsocks-go/direct"
	"github.com/database64128/shadowsocks-go/dns"
	"github.com/database64128/shadowsocks-go/domainset"
	"github.com/database64128/shadowsocks-go/httpproxy"
	"github.com/database64128/shadowsocks-go/netio"
	"github.com/database64128/shadowsocks-go/portset"
	"github.com/database64128/shadowsocks-go/prefixset"
	"github.com/database64128/shadowsocks-go/router"
	"github.com/database64128/shadowsocks-go/socks5"
	"github.com/database64128/shadowsocks-go/ss2022"
	"github.com/database64128/shadowsocks-go/ssnone"
	"github.com/database64128/shadowsocks-go/zerocopy"
	"go.uber.org/zap"
)

// One router per criterion representation, so that an early match of one route
// cannot hide a later criterion.
type namedRouter struct {
	name string
	desc string
	r    *router.Router
}

type outTCP struct {
	name  string
	reply []byte // scripted bytes the far proxy answers with
	mk    func(inner netio.StreamClient) netio.StreamClient
}

type outUDP struct {
	name     string
	c        zerocopy.UDPClient
	needsIP  bool // packer resolves domain targets through the system resolver: only IP targets are pushed through it
	headroom zerocopy.Headroom
	packer   zerocopy.ClientPacker
}

type env struct {
	log        *zap.Logger
	tmp        string
	routers    []namedRouter
	tcpOut     []outTCP
	udpOut     []outUDP
	maxCliHead zerocopy.Headroom
	seenTCP    map[string]struct{}
	seenUDP    map[string]struct{}
	seenRelay  map[string]struct{}
	panicSigs  map[string]string
}

var tcpSources = []netip.AddrPort{
	netip.MustParseAddrPort("127.0.0.1:40000"),
	netip.MustParseAddrPort("[::ffff:10.0.0.1]:1"),
	netip.MustParseAddrPort("[2001:db8::5]:65535"),
}

// a datagram's source port is chosen by the sender and may be 0
var udpSources = append(append([]netip.AddrPort{}, tcpSources...), netip.MustParseAddrPort("127.0.0.1:0"))

func oddPorts(n int) []uint16 {
	var ps []uint16
	for i := 0; i < n; i++ {
		ps = append(ps, uint16(1+2*i))
	}
	return ps
}

func must[T any](v T, err error) T {
	if err != nil {
		fatalf("environment: %v", err)
	}
	return v
}

func mustWrite(path, content string) {
	if err := os.WriteFile(path, []byte(content), 0o644); err != nil {
		fatalf("environment: %v", err)
	}
}

func newEnv(tmp string) *env {
	tmp = filepath.Join(tmp, fmt.Sprintf("env-%d", os.Getpid()))
	if err := os.MkdirAll(tmp, 0o700); err != nil {
		fatalf("environment: %v", err)
	}
	e := &env{log: zap.NewNop(), tmp: tmp, seenTCP: map[string]struct{}{}, seenUDP: map[string]struct{}{}, seenRelay: map[string]struct{}{}, panicSigs: map[string]string{}}

	// domain set / prefix set files (every matcher representation)
	var small, big strings.Builder
	small.WriteString("domain:example.com\ndomain:a\nsuffix:example.org\nkeyword:track\nregexp:^ad[0-9]+\\.\n")
	big.WriteString("# shadowsocks-go domain set capacity hint 20 6 0 0 DSKR\n")
	for i := 0; i < 20; i++ {
		fmt.Fprintf(&big, "domain:host%d.example.com\n", i)
	}
	big.WriteString("domain:a\ndomain:aa\n")
	for i := 0; i < 6; i++ {
		fmt.Fprintf(&big, "suffix:zone%d.example.net\n", i)
	}
	big.WriteString("suffix:a\n")
	mustWrite(filepath.Join(tmp, "small.txt"), small.String())
	mustWrite(filepath.Join(tmp, "big.txt"), big.String())
	mustWrite(filepath.Join(tmp, "prefixes.txt"), "10.0.0.0/8\n127.0.0.0/8\n0.0.0.0/32\n2001:db8::/32\n::/128\n255.255.255.255/32\n")

	tcpMap := map[string]netio.StreamClient{"c": &fakeStreamClient{}, "d": &fakeStreamClient{}}
	udpMap := map[string]zerocopy.UDPClient{
		"c": direct.NewDirectUDPClient("c", "ip", 1500, conn.DefaultUDPClientListenConfig),
		"d": direct.NewDirectUDPClient("d", "ip", 1500, conn.DefaultUDPClientListenConfig),
	}
	resolvers := []dns.SimpleResolver{fakeResolver{}}
	resolverMap := map[string]dns.SimpleResolver{"fake": fakeResolver{}}
	servers := map[string]int{"s0": 0, "s1": 1}
	routes := routeTable()
	for _, rt := range routes {
		cfg := router.Config{
			DefaultTCPClientName: "d",
			DefaultUDPClientName: "d",
			DomainSets:           []domainset.Config{{Name: "small", Path: filepath.Join(tmp, "small.txt")}, {Name: "big", Path: filepath.Join(tmp, "big.txt")}},
			PrefixSets:           []prefixset.Config{{Name: "pfx", Path: filepath.Join(tmp, "prefixes.txt")}},
			Routes:               []router.RouteConfig{rt.rc},
		}
		r, err := cfg.Router(e.log, resolvers, resolverMap, tcpMap, udpMap, servers)
		if err != nil {
			fatalf("router config %s: %v", rt.rc.Name, err)
		}
		e.routers = append(e.routers, namedRouter{rt.rc.Name, rt.desc, r})
	}

	// outbound stream clients the accepted request is relayed through
	proxyAddr := conn.AddrFromIPPort(netip.MustParseAddrPort("192.0.2.1:1080"))
	socksOK := []byte{5, 0, 5, 0, 0, 1, 0, 0, 0, 0, 0, 0}
	socksAuthOK := []byte{5, 2, 1, 0, 5, 0, 0, 1, 0, 0, 0, 0, 0, 0}
	authMsg := socks5.UserInfo{Username: "u", Password: "p"}.AppendAuthMsg(nil)
	cc16 := must(ss2022.NewClientCipherConfig(psk16, nil, true))
	cc16eih := must(ss2022.NewClientCipherConfig(upskA, [][]byte{ipsk16, ipsk16b}, true))
	e.tcpOut = []outTCP{
		{"socks5", socksOK, func(in netio.StreamClient) netio.StreamClient {
			return (&socks5.StreamClientConfig{Name: "o", InnerClient: in, Addr: proxyAddr}).NewStreamClient()
		}},
		{"socks5-auth", socksAuthOK, func(in netio.StreamClient) netio.StreamClient {
			return (&socks5.StreamClientConfig{Name: "o", InnerClient: in, Addr: proxyAddr, AuthMsg: authMsg}).NewStreamClient()
		}},
		{"http", []byte("HTTP/1.1 200 OK\r\n\r\n"), func(in netio.StreamClient) netio.StreamClient {
			return must((&httpproxy.ClientConfig{Name: "o", InnerClient: in, Addr: proxyAddr, Username: "u", Password: "p", UseBasicAuth: true}).NewProxyClient())
		}},
		{"ssnone", nil, func(in netio.StreamClient) netio.StreamClient {
			return (&ssnone.StreamClientConfig{Name: "o", InnerClient: in, Addr: proxyAddr}).NewStreamClient()
		}},
		{"ss2022", nil, func(in netio.StreamClient) netio.StreamClient {
			return (&ss2022.StreamClientConfig{Name: "o", InnerClient: in, Addr: proxyAddr, CipherConfig: cc16}).NewStreamClient()
		}},
		{"ss2022-eih", nil, func(in netio.StreamClient) netio.StreamClient {
			return (&ss2022.StreamClientConfig{Name: "o", InnerClient: in, Addr: proxyAddr, CipherConfig: cc16eih, UnsafeRequestStreamPrefix: []byte("GET / ")}).NewStreamClient()
		}},
	}

	lc := conn.DefaultUDPClientListenConfig
	e.udpOut = []outUDP{
		{name: "direct", c: direct.NewDirectUDPClient("o", "ip", 1500, lc), needsIP: true},
		{name: "ssnone", c: direct.NewShadowsocksNoneUDPClient("o", "ip", proxyAddr, 1500, lc)},
		{name: "ss2022", c: ss2022.NewUDPClient("o", "ip", proxyAddr, 1500, lc, 0, cc16, ss2022.PadPlainDNS)},
		{name: "ss2022-eih-padall", c: ss2022.NewUDPClient("o", "ip", proxyAddr, 1500, lc, 0, cc16eih, ss2022.PadAll)},
	}
	for i := range e.udpOut {
		e.udpOut[i].headroom = e.udpOut[i].c.Info().PackerHeadroom
		e.maxCliHead = zerocopy.MaxHeadroom(e.maxCliHead, e.udpOut[i].headroom)
	}
	// the SOCKS5 UDP client needs a TCP control connection for a session; its packer is used directly
	e.maxCliHead = zerocopy.MaxHeadroom(e.maxCliHead, direct.Socks5PacketClientMessageHeadroom)
	return e
}

func addrKey(a conn.Addr, user string) string {
	switch {
	case a.IsIP():
		return "i" + a.String() + "|" + user
	case a.IsDomain():
		return "d" + a.String() + "|" + user
	}
	return "z"
}

// checkAddr is the invariant every accepted address must satisfy before
// anything else is computed from it.
func (w *worker) checkAddr(a conn.Addr) bool {
	if !a.IsValid() {
		w.fail("accepted-invalid-address", "a parser returned success with a zero-value address")
		return false
	}
	if a.IsDomain() {
		if n := len(a.Domain()); n == 0 || n > 255 {
			w.fail("accepted-domain-length-out-of-range", fmt.Sprintf("a parser returned success with a domain name of %d bytes", n))
			return false
		}
	}
	return true
}

// useAddr pushes an address that a parser yielded through everything the
// servers compute from it: its textual form, SOCKS5 re-encoding, route matching
// under every router, and (TCP) the request written by every outbound client.
// Work is done once per distinct (address, user, network) in this worker.
func (w *worker) useAddr(a conn.Addr, user string, udp bool, payload []byte) {
	if !w.checkAddr(a) {
		return
	}
	key := addrKey(a, user)
	seen := w.env.seenTCP
	if udp {
		seen = w.env.seenUDP
	}
	if _, ok := seen[key]; ok {
		return
	}
	if len(seen) < 1<<20 {
		seen[key] = struct{}{}
	}
	w.distinctAddrs++
	w.protect("address re-encoding", func() {
		s := a.String()
		_ = a.Host()
		b := socks5.AppendAddrFromConnAddr(nil, a)
		n := socks5.LengthOfAddrFromConnAddr(a)
		buf := make([]byte, n)
		m := socks5.WriteAddrFromConnAddr(buf, a)
		w.ops += 3
		if n != len(b) || m != n || string(buf) != string(b) {
			w.fail("address-reencoding-mismatch", fmt.Sprintf("SOCKS5 encodings of %s disagree: append=%x write=%x length=%d", s, b, buf[:m], n))
		}
	})
	sources := tcpSources
	if udp {
		sources = udpSources
	}
	ctx := context.Background()
	for ri := range w.env.routers {
		nr := &w.env.routers[ri]
		for _, src := range sources {
			info := router.RequestInfo{ServerIndex: ri % 2, Username: user, SourceAddrPort: src, TargetAddr: a}
			w.ops++
			w.protectRoute(nr, info, udp, func() {
				if udp {
					c, err := nr.r.GetUDPClient(ctx, info)
					if err == nil && c == nil {
						w.fail("router-nil-client", "GetUDPClient returned neither a client nor an error ("+nr.name+")")
					}
				} else {
					c, err := nr.r.GetTCPClient(ctx, info)
					if err == nil && c == nil {
						w.fail("router-nil-client", "GetTCPClient returned neither a client nor an error ("+nr.name+")")
					}
					_ = router.DialResultFromError(err)
				}
			})
		}
	}
	if !udp {
		// the request an outbound client writes depends on the address only through its
		// kind, name length and port (and on the payload through its length): once per such shape
		nameLen := 0
		if a.IsDomain() {
			nameLen = len(a.Domain())
		}
		rk := fmt.Sprintf("%s|%d|%d|%d", addrClass(a), nameLen, a.Port(), len(payload))
		if _, ok := w.env.seenRelay[rk]; ok {
			return
		}
		w.env.seenRelay[rk] = struct{}{}
		for i := range w.env.tcpOut {
			o := &w.env.tcpOut[i]
			w.ops++
			w.protect("relay through outbound "+o.name+" client", func() {
				inner := &fakeStreamClient{scripts: [][]byte{o.reply}, native: true}
				c, err := o.mk(inner).DialStream(ctx, a, payload)
				if err == nil {
					c.Close()
				}
			})
		}
	}
}

// protectRoute runs one route match; a panic is a violation whose signature
// names the criterion that panicked.
func (w *worker) protectRoute(nr *namedRouter, info router.RequestInfo, udp bool, f func()) {
	defer func() {
		if r := recover(); r != nil {
			ck := nr.name + "|" + fmt.Sprint(r)
			if sig, ok := w.env.panicSigs[ck]; ok {
				if _, seen := w.viols[sig]; seen {
					return // same router, same panic value: already reported by this worker
				}
			}
			pc := classifyPanic(r)
			net := "tcp"
			if udp {
				net = "udp"
			}
			sig := "router-panic:" + nr.name + ":" + pc.fn + ":" + pc.msg
			if err, ok := r.(error); ok && errors.Is(err, portset.ErrZeroPort) {
				crit := "unknown-criterion"
				for _, f := range pc.frames {
					if i := strings.Index(f, "router.(*"); i >= 0 {
						crit = strings.TrimSuffix(strings.TrimPrefix(f[i:], "router.(*"), ").Meet")
						break
					}
				}
				sig = "port0-bitset-criterion:" + crit
			}
			w.env.panicSigs[ck] = sig
			w.failExtra(sig, fmt.Sprintf("route matching panicked (%v) for a %s request from %s to %s under router %q [%s]; call chain: %s",
				r, net, info.SourceAddrPort, info.TargetAddr.String(), nr.name, nr.desc, strings.Join(pc.frames, " <- ")),
				map[string]any{"router": nr.name, "network": net, "source": info.SourceAddrPort.String(), "target": info.TargetAddr.String()})
		}
	}()
	f()
}

type routeEntry struct {
	desc string
	rc   router.RouteConfig
}

func routeTable() []routeEntry {
	v4 := netip.MustParsePrefix("10.0.0.0/8")
	v6 := netip.MustParsePrefix("2001:db8::/32")
	zero4 := netip.MustParsePrefix("0.0.0.0/32")
	inline17 := func() []string {
		var s []string
		for i := 0; i < 17; i++ {
			s = append(s, fmt.Sprintf("h%d.example.com", i))
		}
		return append(s, "a")
	}()
	return []routeEntry{
		{"single destination port", router.RouteConfig{Name: "dest-port-single", Client: "c", ToPorts: []uint16{443}}},
		{"2 destination port ranges (range set)", router.RouteConfig{Name: "dest-port-ranges", Client: "c", ToPortRanges: "1-1023,8000-8999"}},
		{"16 destination port ranges (largest range set)", router.RouteConfig{Name: "dest-port-16-ranges", Client: "c", ToPorts: oddPorts(16)}},
		{"17 destination port ranges (bit set)", router.RouteConfig{Name: "dest-port-bitset", Client: "c", ToPorts: oddPorts(17)}},
		{"17 destination port ranges, inverted (bit set)", router.RouteConfig{Name: "dest-port-bitset-inverted", Client: "c", ToPorts: oddPorts(17), InvertToPorts: true}},
		{"single source port", router.RouteConfig{Name: "src-port-single", Client: "c", FromPorts: []uint16{40000}}},
		{"2 source port ranges (range set)", router.RouteConfig{Name: "src-port-ranges", Client: "c", FromPortRanges: "1-1023,40000-40010"}},
		{"17 source port ranges (bit set)", router.RouteConfig{Name: "src-port-bitset", Client: "c", FromPorts: oddPorts(17)}},
		{"3 inline domains (linear matcher)", router.RouteConfig{Name: "dest-domain-inline", Client: "reject", ToDomains: []string{"example.com", "a", "aa"}}},
		{"18 inline domains (map matcher)", router.RouteConfig{Name: "dest-domain-inline-map", Client: "c", ToDomains: inline17}},
		{"domain set file below thresholds + keyword + regexp", router.RouteConfig{Name: "dest-domainset-small", Client: "c", ToDomainSets: []string{"small"}}},
		{"domain set file above thresholds (map + suffix trie), inverted", router.RouteConfig{Name: "dest-domainset-big", Client: "c", ToDomainSets: []string{"big"}, InvertToDomains: true}},
		{"destination prefixes with name resolution", router.RouteConfig{Name: "dest-prefix-resolved", Client: "c", ToPrefixes: []netip.Prefix{v4, v6, zero4}}},
		{"destination prefixes without name resolution", router.RouteConfig{Name: "dest-prefix-plain", Client: "c", ToPrefixes: []netip.Prefix{v4, v6, zero4}, DisableNameResolutionForIPRules: true}},
		{"destination prefix set file, inverted", router.RouteConfig{Name: "dest-prefixset", Client: "c", ToPrefixSets: []string{"pfx"}, InvertToPrefixes: true, Resolver: "fake"}},
		{"matched domain must resolve into prefixes", router.RouteConfig{Name: "dest-domain-expected-prefix", Client: "c", ToDomainSets: []string{"small", "big"}, ToMatchedDomainExpectedPrefixes: []netip.Prefix{v4}, ToMatchedDomainExpectedPrefixSets: []string{"pfx"}}},
		{"source prefixes + users + servers, tcp only", router.RouteConfig{Name: "src-misc-tcp", Network: "tcp", Client: "c", FromPrefixes: []netip.Prefix{netip.MustParsePrefix("127.0.0.0/8")}, FromPrefixSets: []string{"pfx"}, FromUsers: []string{"alice"}, InvertFromUsers: true, FromServers: []string{"s0"}}},
		{"udp only, domain or prefix", router.RouteConfig{Name: "mixed-udp", Network: "udp", Client: "c", ToDomains: []string{"a"}, ToPrefixes: []netip.Prefix{v4}, ToPortRanges: "1-65534"}},
	}
}

func routerDescriptions() []string {
	var out []string
	for _, r := range routeTable() {
		out = append(out, r.rc.Name+": "+r.desc)
	}
	return out
}
