package main

import (
	"hash/fnv"
)

// A part is one finite, randomly addressable family of inputs.  at(i) returns
// nil when index i denotes a no-op (e.g. a mutation that writes the byte that
// is already there); such indices are skipped and not counted.
type part interface {
	label() string
	count() uint64
	at(i uint64, buf []byte) []byte
	byIndex() bool // true: all inputs distinct by construction, shard by index; false: shard by hash of the input
}

// ---------------------------------------------------------------------------
// all strings of 0..L tokens over a token alphabet, between a fixed head and tail

type alphaPart struct {
	name  string
	head  []byte
	tail  []byte
	alpha [][]byte
	minL  int
	maxL  int
	cum   []uint64 // cum[k] = number of strings with length in [minL, minL+k)
}

func newAlpha(name string, head, tail []byte, alpha [][]byte, minL, maxL int) *alphaPart {
	p := &alphaPart{name: name, head: head, tail: tail, alpha: alpha, minL: minL, maxL: maxL}
	var c uint64
	p.cum = append(p.cum, 0)
	for l := minL; l <= maxL; l++ {
		n := uint64(1)
		for j := 0; j < l; j++ {
			n *= uint64(len(alpha))
		}
		c += n
		p.cum = append(p.cum, c)
	}
	return p
}

func byteAlpha(bs ...byte) [][]byte {
	out := make([][]byte, len(bs))
	for i, b := range bs {
		out[i] = []byte{b}
	}
	return out
}

func tokAlpha(ts ...string) [][]byte {
	out := make([][]byte, len(ts))
	for i, t := range ts {
		out[i] = []byte(t)
	}
	return out
}

func (p *alphaPart) label() string { return p.name }
func (p *alphaPart) count() uint64 { return p.cum[len(p.cum)-1] }
func (p *alphaPart) byIndex() bool { return true }
func (p *alphaPart) at(i uint64, buf []byte) []byte {
	k := 0
	for i >= p.cum[k+1] {
		k++
	}
	i -= p.cum[k]
	l := p.minL + k
	buf = append(buf[:0], p.head...)
	start := len(buf)
	// most significant token first so that enumeration order is lexicographic
	var digits [32]int
	a := uint64(len(p.alpha))
	for j := l - 1; j >= 0; j-- {
		digits[j] = int(i % a)
		i /= a
	}
	_ = start
	for j := 0; j < l; j++ {
		buf = append(buf, p.alpha[digits[j]]...)
	}
	buf = append(buf, p.tail...)
	if buf == nil {
		buf = []byte{}
	}
	return buf
}

// ---------------------------------------------------------------------------
// explicit list

type listPart struct {
	name  string
	head  []byte
	items [][]byte
}

func (p *listPart) label() string { return p.name }
func (p *listPart) count() uint64 { return uint64(len(p.items)) }
func (p *listPart) byIndex() bool { return false }
func (p *listPart) at(i uint64, buf []byte) []byte {
	buf = append(buf[:0], p.head...)
	buf = append(buf, p.items[i]...)
	if buf == nil {
		buf = []byte{}
	}
	return buf
}

// ---------------------------------------------------------------------------
// every truncation of every seed

type truncPart struct {
	name  string
	head  []byte
	seeds [][]byte
	cum   []uint64
}

func newTrunc(name string, head []byte, seeds [][]byte) *truncPart {
	p := &truncPart{name: name, head: head, seeds: seeds, cum: []uint64{0}}
	var c uint64
	for _, s := range seeds {
		c += uint64(len(s)) // proper prefixes 0..len-1 (the seed itself is in the seed list)
		p.cum = append(p.cum, c)
	}
	return p
}

func (p *truncPart) label() string { return p.name }
func (p *truncPart) count() uint64 { return p.cum[len(p.cum)-1] }
func (p *truncPart) byIndex() bool { return false }
func (p *truncPart) at(i uint64, buf []byte) []byte {
	k := findCum(p.cum, i)
	i -= p.cum[k]
	buf = append(buf[:0], p.head...)
	buf = append(buf, p.seeds[k][:i]...)
	if buf == nil {
		buf = []byte{}
	}
	return buf
}

func findCum(cum []uint64, i uint64) int {
	lo, hi := 0, len(cum)-1
	for lo+1 < hi {
		m := (lo + hi) / 2
		if cum[m] <= i {
			lo = m
		} else {
			hi = m
		}
	}
	return lo
}

// ---------------------------------------------------------------------------
// boundary-value mutations

// boundary values written into a byte: fixed extremes plus the neighbours of the original value.
func mutValue(orig byte, k int) (byte, bool) {
	var v byte
	switch k {
	case 0:
		v = 0x00
	case 1:
		v = 0x01
	case 2:
		v = 0x7f
	case 3:
		v = 0x80
	case 4:
		v = 0xfe
	case 5:
		v = 0xff
	case 6:
		v = orig + 1
		if v <= 1 || v == 0x7f || v == 0x80 || v >= 0xfe {
			return 0, false // already in the fixed set
		}
	case 7:
		v = orig - 1
		if v <= 1 || v == 0x7f || v == 0x80 || v >= 0xfe {
			return 0, false
		}
	}
	if v == orig {
		return 0, false
	}
	return v, true
}

const nMutVals = 8

// mut1Part: every single-byte boundary mutation of every seed (positions lo..len).
type mut1Part struct {
	name  string
	head  []byte
	seeds [][]byte
	cum   []uint64
}

func newMut1(name string, head []byte, seeds [][]byte) *mut1Part {
	p := &mut1Part{name: name, head: head, seeds: seeds, cum: []uint64{0}}
	var c uint64
	for _, s := range seeds {
		c += uint64(len(s)) * nMutVals
		p.cum = append(p.cum, c)
	}
	return p
}

func (p *mut1Part) label() string { return p.name }
func (p *mut1Part) count() uint64 { return p.cum[len(p.cum)-1] }
func (p *mut1Part) byIndex() bool { return false }
func (p *mut1Part) at(i uint64, buf []byte) []byte {
	k := findCum(p.cum, i)
	i -= p.cum[k]
	s := p.seeds[k]
	pos, vi := int(i/nMutVals), int(i%nMutVals)
	v, ok := mutValue(s[pos], vi)
	if !ok {
		return nil
	}
	buf = append(buf[:0], p.head...)
	h := len(buf)
	buf = append(buf, s...)
	buf[h+pos] = v
	return buf
}

// mut2Part: every pair of single-byte boundary mutations of every (short) seed.
type mut2Part struct {
	name  string
	head  []byte
	seeds [][]byte
	cum   []uint64
}

func newMut2(name string, head []byte, seeds [][]byte, maxLen int) *mut2Part {
	p := &mut2Part{name: name, head: head, cum: []uint64{0}}
	var c uint64
	for _, s := range seeds {
		if len(s) > maxLen || len(s) < 2 {
			continue
		}
		p.seeds = append(p.seeds, s)
		n := uint64(len(s))
		c += n * (n - 1) / 2 * nMutVals * nMutVals
		p.cum = append(p.cum, c)
	}
	return p
}

func (p *mut2Part) label() string { return p.name }
func (p *mut2Part) count() uint64 { return p.cum[len(p.cum)-1] }
func (p *mut2Part) byIndex() bool { return false }
func (p *mut2Part) at(i uint64, buf []byte) []byte {
	k := findCum(p.cum, i)
	i -= p.cum[k]
	s := p.seeds[k]
	vv := int(i % (nMutVals * nMutVals))
	pair := i / (nMutVals * nMutVals)
	// pair index -> (a<b)
	a := 0
	n := uint64(len(s))
	for {
		row := n - 1 - uint64(a)
		if pair < row {
			break
		}
		pair -= row
		a++
	}
	b := a + 1 + int(pair)
	v1, ok1 := mutValue(s[a], vv/nMutVals)
	v2, ok2 := mutValue(s[b], vv%nMutVals)
	if !ok1 || !ok2 {
		return nil
	}
	buf = append(buf[:0], p.head...)
	h := len(buf)
	buf = append(buf, s...)
	buf[h+a] = v1
	buf[h+b] = v2
	return buf
}

// insDelPart: delete one byte / insert one boundary byte at every position ("length +-1").
type insDelPart struct {
	name  string
	head  []byte
	seeds [][]byte
	cum   []uint64
}

var insVals = []byte{0x00, 0x01, 0x7f, 0x80, 0xff}

func newInsDel(name string, head []byte, seeds [][]byte) *insDelPart {
	p := &insDelPart{name: name, head: head, seeds: seeds, cum: []uint64{0}}
	var c uint64
	for _, s := range seeds {
		c += uint64(len(s)) + uint64(len(s)+1)*uint64(len(insVals))
		p.cum = append(p.cum, c)
	}
	return p
}

func (p *insDelPart) label() string { return p.name }
func (p *insDelPart) count() uint64 { return p.cum[len(p.cum)-1] }
func (p *insDelPart) byIndex() bool { return false }
func (p *insDelPart) at(i uint64, buf []byte) []byte {
	k := findCum(p.cum, i)
	i -= p.cum[k]
	s := p.seeds[k]
	buf = append(buf[:0], p.head...)
	if i < uint64(len(s)) {
		buf = append(buf, s[:i]...)
		buf = append(buf, s[i+1:]...)
		if buf == nil {
			buf = []byte{}
		}
		return buf
	}
	i -= uint64(len(s))
	pos, vi := int(i)/len(insVals), int(i)%len(insVals)
	buf = append(buf, s[:pos]...)
	buf = append(buf, insVals[vi])
	buf = append(buf, s[pos:]...)
	return buf
}

// ---------------------------------------------------------------------------

func hashBytes(b []byte) uint64 {
	h := fnv.New64a()
	h.Write(b)
	return h.Sum64()
}

// standard mutation family around a seed list
func seedFamily(name string, head []byte, seeds [][]byte, thorough bool, mut2MaxLen int) []part {
	ps := []part{
		&listPart{name: name + "/seeds", head: head, items: seeds},
		newTrunc(name+"/truncations", head, seeds),
		newMut1(name+"/mut1", head, seeds),
		newInsDel(name+"/insdel", head, seeds),
	}
	if thorough {
		ps = append(ps, newMut2(name+"/mut2", head, seeds, mut2MaxLen))
	}
	return ps
}
