package main

import (
	"context"
	"errors"
	"io"
	"net"
	"net/netip"
	"sync"
	"time"

	"github.com/database64128/shadowsocks-go/conn"
	"github.com/database64128/shadowsocks-go/dns"
	"github.com/database64128/shadowsocks-go/netio"
)

// memConn is an in-memory netio.Conn: reads come from a scripted byte string
// (then io.EOF), writes are collected.  It never blocks.
type memConn struct {
	mu      sync.Mutex
	in      []byte
	pos     int
	out     []byte
	outN    int
	closed  bool
	wclosed bool
	done    chan struct{}
	reads   int
}

var (
	memLocal  = &net.TCPAddr{IP: net.IPv4(127, 0, 0, 1), Port: 1080}
	memRemote = &net.TCPAddr{IP: net.IPv4(127, 0, 0, 1), Port: 40000}
)

func newMemConn(in []byte) *memConn { return &memConn{in: in} }

// withDone arms a channel that is closed by Close (used when repo goroutines own the conn).
func (c *memConn) withDone() *memConn { c.done = make(chan struct{}); return c }

func (c *memConn) Read(p []byte) (int, error) {
	c.mu.Lock()
	defer c.mu.Unlock()
	c.reads++
	if c.closed {
		return 0, net.ErrClosed
	}
	if len(p) == 0 {
		return 0, nil
	}
	if c.pos >= len(c.in) {
		return 0, io.EOF
	}
	n := copy(p, c.in[c.pos:])
	c.pos += n
	return n, nil
}

func (c *memConn) Write(p []byte) (int, error) {
	c.mu.Lock()
	defer c.mu.Unlock()
	if c.closed || c.wclosed {
		return 0, net.ErrClosed
	}
	c.outN += len(p)
	if len(c.out) < 1<<16 {
		c.out = append(c.out, p...)
	}
	return len(p), nil
}

func (c *memConn) Close() error {
	c.mu.Lock()
	defer c.mu.Unlock()
	if !c.closed {
		c.closed = true
		if c.done != nil {
			close(c.done)
		}
	}
	return nil
}

func (c *memConn) CloseWrite() error {
	c.mu.Lock()
	c.wclosed = true
	c.mu.Unlock()
	return nil
}

func (c *memConn) rest() int {
	c.mu.Lock()
	defer c.mu.Unlock()
	return len(c.in) - c.pos
}

func (c *memConn) LocalAddr() net.Addr                { return memLocal }
func (c *memConn) RemoteAddr() net.Addr               { return memRemote }
func (c *memConn) SetDeadline(t time.Time) error      { return nil }
func (c *memConn) SetReadDeadline(t time.Time) error  { return nil }
func (c *memConn) SetWriteDeadline(t time.Time) error { return nil }

var _ netio.Conn = (*memConn)(nil)

// fakeStreamClient is the inner (transport) client handed to the repo's
// outbound protocol clients: every dial returns the next scripted memConn.
type fakeStreamClient struct {
	scripts [][]byte
	dials   int
	conns   []*memConn
	sent    [][]byte
	native  bool
	failAll bool
}

var errFakeDial = errors.New("c06: scripted dial failure")

func (f *fakeStreamClient) NewStreamDialer() (netio.StreamDialer, netio.StreamDialerInfo) {
	return f, netio.StreamDialerInfo{Name: "fake", NativeInitialPayload: f.native}
}

func (f *fakeStreamClient) DialStream(ctx context.Context, addr conn.Addr, payload []byte) (netio.Conn, error) {
	if f.failAll {
		return nil, errFakeDial
	}
	var in []byte
	if f.dials < len(f.scripts) {
		in = f.scripts[f.dials]
	}
	f.dials++
	c := newMemConn(in)
	if len(payload) > 0 {
		c.Write(payload)
	}
	f.conns = append(f.conns, c)
	return c, nil
}

var _ netio.StreamClient = (*fakeStreamClient)(nil)

// fakeResolver is a deterministic dns.SimpleResolver: the answer depends only
// on the length of the name, and covers lookup failure, empty answer, IPv4,
// IPv4-mapped IPv6 and IPv6.
type fakeResolver struct{}

func (fakeResolver) LookupIP(ctx context.Context, name string) (netip.Addr, error) {
	switch len(name) % 5 {
	case 0:
		return netip.Addr{}, dns.ErrLookup
	case 1:
		return netip.Addr{}, dns.ErrDomainNoAssociatedIPs
	case 2:
		return netip.AddrFrom4([4]byte{10, 1, 2, 3}), nil
	case 3:
		return netip.AddrFrom16([16]byte{10: 0xff, 11: 0xff, 12: 10, 13: 1, 14: 2, 15: 3}), nil
	default:
		return netip.MustParseAddr("2001:db8::1"), nil
	}
}

func (r fakeResolver) LookupIPs(ctx context.Context, name string) ([]netip.Addr, error) {
	ip, err := r.LookupIP(ctx, name)
	if err != nil {
		return nil, err
	}
	return []netip.Addr{ip}, nil
}

var _ dns.SimpleResolver = fakeResolver{}
