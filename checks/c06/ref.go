package main

// Reference decisions written from the protocol texts (RFC 1928, RFC 1929,
// the Shadowsocks 2022 specification "SIP022"), not from the repository's
// parsers.  They answer one question per input: is this message well formed,
// and if so which address / payload does it carry.  The check demands
//
//	real code accepts  =>  reference accepts, with the same address and payload
//
// i.e. every malformed input yields an error.  The converse (a well-formed
// message must be accepted) is not part of this property and is only counted.

import (
	"encoding/binary"
	"net/netip"

	"github.com/database64128/shadowsocks-go/conn"
)

type refAddr struct {
	domain bool
	ip     netip.Addr
	name   string
	port   uint16
}

const (
	refOK = iota
	refShort
	refBad
)

// refParseAddr parses a SOCKS5 address (RFC 1928 section 5): ATYP 1 = 4 bytes,
// 4 = 16 bytes, 3 = length byte + name; then a 2-byte port.  An empty name is
// malformed (the property statement lists empty names among the inputs that
// must fail).
func refParseAddr(b []byte) (a refAddr, n int, st int) {
	if len(b) < 1 {
		return a, 0, refShort
	}
	switch b[0] {
	case 1:
		if len(b) < 7 {
			return a, 0, refShort
		}
		a.ip = netip.AddrFrom4([4]byte(b[1:5]))
		a.port = binary.BigEndian.Uint16(b[5:7])
		return a, 7, refOK
	case 4:
		if len(b) < 19 {
			return a, 0, refShort
		}
		a.ip = netip.AddrFrom16([16]byte(b[1:17]))
		a.port = binary.BigEndian.Uint16(b[17:19])
		return a, 19, refOK
	case 3:
		if len(b) < 2 {
			return a, 0, refShort
		}
		l := int(b[1])
		if len(b) < 2+l+2 {
			return a, 0, refShort
		}
		if l == 0 {
			return a, 0, refBad
		}
		a.domain = true
		a.name = string(b[2 : 2+l])
		a.port = binary.BigEndian.Uint16(b[2+l : 4+l])
		return a, 4 + l, refOK
	default:
		return a, 0, refBad
	}
}

func sameAddr(got conn.Addr, want refAddr) bool {
	if !got.IsValid() {
		return false
	}
	if want.domain {
		return got.IsDomain() && got.Domain() == want.name && got.Port() == want.port
	}
	return got.IsIP() && got.IP() == want.ip && got.Port() == want.port
}

func sameAddrPort(got netip.AddrPort, want refAddr) bool {
	return !want.domain && got.Addr() == want.ip && got.Port() == want.port
}

const (
	resReject = iota
	resAccept // a connection request with an address
	resDone   // handled without a relay (UDP ASSOCIATE)
)

type cursor struct {
	b   []byte
	pos int
}

func (c *cursor) take(n int) ([]byte, bool) {
	if c.pos+n > len(c.b) {
		c.pos = len(c.b)
		return nil, false
	}
	s := c.b[c.pos : c.pos+n]
	c.pos += n
	return s, true
}

// refSocks5Server: RFC 1928 sections 3-4 (+ RFC 1929 when users != nil).
func refSocks5Server(in []byte, users map[string]string, enableTCP, enableUDP bool) (res int, addr refAddr, user string, consumed int) {
	c := &cursor{b: in}
	h, ok := c.take(2)
	if !ok || h[0] != 5 || h[1] == 0 {
		return resReject, addr, "", 0
	}
	methods, ok := c.take(int(h[1]))
	if !ok {
		return resReject, addr, "", 0
	}
	want := byte(0)
	if users != nil {
		want = 2
	}
	found := false
	for _, m := range methods {
		if m == want {
			found = true
		}
	}
	if !found {
		return resReject, addr, "", 0
	}
	if users != nil {
		h, ok := c.take(2)
		if !ok || h[0] != 1 || h[1] == 0 {
			return resReject, addr, "", 0
		}
		uname, ok := c.take(int(h[1]))
		if !ok {
			return resReject, addr, "", 0
		}
		pl, ok := c.take(1)
		if !ok || pl[0] == 0 {
			return resReject, addr, "", 0
		}
		pw, ok := c.take(int(pl[0]))
		if !ok {
			return resReject, addr, "", 0
		}
		want, known := users[string(uname)]
		if !known || want != string(pw) {
			return resReject, addr, "", 0
		}
		user = string(uname)
	}
	r, ok := c.take(3)
	if !ok || r[0] != 5 {
		return resReject, addr, user, 0
	}
	a, n, st := refParseAddr(in[c.pos:])
	if st != refOK {
		return resReject, addr, user, 0
	}
	c.pos += n
	switch {
	case r[1] == 1 && enableTCP:
		return resAccept, a, user, c.pos
	case r[1] == 3 && enableUDP:
		return resDone, a, user, c.pos
	}
	return resReject, addr, user, 0
}

// refSocks5Client: the server's side of the exchange as seen by a client that
// offered exactly one method.
func refSocks5Client(in []byte, auth bool) (ok bool, bound refAddr) {
	c := &cursor{b: in}
	h, k := c.take(2)
	want := byte(0)
	if auth {
		want = 2
	}
	if !k || h[0] != 5 || h[1] != want {
		return false, bound
	}
	if auth {
		h, k := c.take(2)
		if !k || h[0] != 1 || h[1] != 0 {
			return false, bound
		}
	}
	r, k := c.take(3)
	if !k || r[0] != 5 {
		return false, bound
	}
	a, _, st := refParseAddr(in[c.pos:])
	if st != refOK || r[1] != 0 {
		return false, bound
	}
	return true, a
}

// --- Shadowsocks 2022 plaintext headers ------------------------------------

func refTimestampOK(b []byte, now int64) bool {
	ts := int64(binary.BigEndian.Uint64(b))
	return ts >= now-30 && ts <= now+30
}

// request fixed-length header: type(0) | timestamp | length
func refSS2022Fixed(b []byte, now int64) (vhlen int, ok bool) {
	if len(b) != 11 || b[0] != 0 || !refTimestampOK(b[1:9], now) {
		return 0, false
	}
	return int(binary.BigEndian.Uint16(b[9:])), true
}

// request variable-length header: address | padding length | padding | payload;
// padding and payload must not both be empty.
func refSS2022Var(b []byte) (a refAddr, payload []byte, ok bool) {
	a, n, st := refParseAddr(b)
	if st != refOK {
		return a, nil, false
	}
	rest := b[n:]
	if len(rest) < 2 {
		return a, nil, false
	}
	pad := int(binary.BigEndian.Uint16(rest))
	if 2+pad > len(rest) {
		return a, nil, false
	}
	payload = rest[2+pad:]
	if pad == 0 && len(payload) == 0 {
		return a, nil, false
	}
	return a, payload, true
}

// UDP client message: type(0) | timestamp | padding length | padding | address | payload
func refSS2022UDPClient(b []byte, now int64) (a refAddr, payload []byte, ok bool) {
	if len(b) < 11 || b[0] != 0 || !refTimestampOK(b[1:9], now) {
		return a, nil, false
	}
	pad := int(binary.BigEndian.Uint16(b[9:]))
	if 11+pad > len(b) {
		return a, nil, false
	}
	a, n, st := refParseAddr(b[11+pad:])
	if st != refOK {
		return a, nil, false
	}
	return a, b[11+pad+n:], true
}

// UDP server message: type(1) | timestamp | client session id | padding length | padding | address | payload
func refSS2022UDPServer(b []byte, now int64, csid uint64) (a refAddr, payload []byte, ok bool) {
	if len(b) < 19 || b[0] != 1 || !refTimestampOK(b[1:9], now) || binary.BigEndian.Uint64(b[9:17]) != csid {
		return a, nil, false
	}
	pad := int(binary.BigEndian.Uint16(b[17:]))
	if 19+pad > len(b) {
		return a, nil, false
	}
	a, n, st := refParseAddr(b[19+pad:])
	if st != refOK || a.domain {
		return a, nil, false
	}
	return a, b[19+pad+n:], true
}

// SOCKS5 UDP request header (RFC 1928 section 7): RSV RSV FRAG | address | data; FRAG must be 0
// for an implementation without fragmentation support.
func refSocks5Packet(b []byte) (a refAddr, payload []byte, ok bool) {
	if len(b) < 3 || b[2] != 0 {
		return a, nil, false
	}
	a, n, st := refParseAddr(b[3:])
	if st != refOK {
		return a, nil, false
	}
	return a, b[3+n:], true
}
