// C16: plain-HTTP proxying forwards messages intact minus hop-by-hop and proxy
// fields.  The real httpproxy.ServerHandle + Proceed (two forwarder goroutines
// over the real in-memory pipe) run under the controlled scheduler between a
// scripted client and a scripted origin; every interleaving within a deviation
// bound is executed and the parsed messages on both sides are compared.
package main

import (
	"bufio"
	"bytes"
	"encoding/base64"
	"fmt"
	"io"
	"net/http"
	"net/textproto"
	"os"
	"sort"
	"strings"
	"time"

	"github.com/database64128/shadowsocks-go/httpproxy"
	"github.com/database64128/shadowsocks-go/netio"
	"go.uber.org/zap"

	"verif/harness"
	"verif/vnet"
	"verif/vsched"
)

// --- scripted messages ---------------------------------------------------------

var reqKinds = map[string]string{
	"GET":    "GET http://a.test/x?q=1 HTTP/1.1\r\nHost: a.test\r\n%s\r\n",
	"POSTCL": "POST http://a.test/p HTTP/1.1\r\nHost: a.test\r\nContent-Length: 5\r\n%s\r\nhello",
	"POSTCH": "POST http://a.test/c HTTP/1.1\r\nHost: a.test\r\nTransfer-Encoding: chunked\r\nTrailer: X-Sum\r\n%s\r\n3\r\nabc\r\n2\r\nde\r\n0\r\nX-Sum: 9\r\n\r\n",
	// a trailer field that the request nominates in Connection
	"POSTCHN":  "POST http://a.test/n HTTP/1.1\r\nHost: a.test\r\nTransfer-Encoding: chunked\r\nTrailer: X-Sum, X-Hop-T\r\nConnection: X-Hop-T\r\n%s\r\n3\r\nabc\r\n0\r\nX-Sum: 9\r\nX-Hop-T: hop\r\n\r\n",
	"OTHER":    "GET http://b.test/y HTTP/1.1\r\nHost: b.test\r\n%s\r\n",
	"CONNECT":  "CONNECT b.test:443 HTTP/1.1\r\nHost: b.test:443\r\n%s\r\n",
	"GETCLOSE": "GET http://a.test/z HTTP/1.1\r\nHost: a.test\r\nConnection: close\r\n%s\r\n",
	// explicit port in the first request's Host, and a later CONNECT to exactly that authority
	"GETP":        "GET http://a.test:80/p HTTP/1.1\r\nHost: a.test:80\r\n%s\r\n",
	"CONNECTSAME": "CONNECT a.test:80 HTTP/1.1\r\nHost: a.test:80\r\n%s\r\n",
}

var hdrVariants = map[string]string{
	"h0": "",
	"h1": "User-Agent: ua/1\r\nX-Bar: 1\r\nx-bar: two\r\nAccept: */*\r\n",
	"h2": "Connection: X-Foo, keep-alive\r\nX-Foo: secret\r\nX-BAR: 3\r\nUser-Agent: ua/1\r\n",
	// two Connection field lines: nominations of every line count
	"h4": "Connection: X-Hop-A\r\nX-Hop-A: a\r\nconnection: x-hop-b, keep-alive\r\nX-Hop-B: b\r\nUser-Agent: ua/1\r\nX-Stay: s\r\n",
	"h3": "Keep-Alive: timeout=5\r\nProxy-Connection: keep-alive\r\nProxy-Authorization: Basic enp6\r\nTE: trailers\r\nUpgrade: websocket\r\nUser-Agent: ua/1\r\nX-Keep: y\r\n",
}

var respKinds = map[string]string{
	"S200CL":   "HTTP/1.1 200 OK\r\nContent-Length: 4\r\nX-Resp: r\r\n\r\nbody",
	"S200CH":   "HTTP/1.1 200 OK\r\nTransfer-Encoding: chunked\r\nTrailer: X-T\r\n\r\n4\r\nwxyz\r\n0\r\nX-T: t\r\n\r\n",
	"S100":     "HTTP/1.1 100 Continue\r\n\r\nHTTP/1.1 200 OK\r\nContent-Length: 2\r\n\r\nok",
	"S204":     "HTTP/1.1 204 No Content\r\nX-Resp: n\r\n\r\n",
	"S301":     "HTTP/1.1 301 Moved Permanently\r\nLocation: http://b.test/\r\nContent-Length: 0\r\n\r\n",
	"SCLOSE":   "HTTP/1.1 200 OK\r\nConnection: close\r\nContent-Length: 3\r\n\r\nbye",
	"SHOP":     "HTTP/1.1 200 OK\r\nConnection: X-Hop\r\nX-Hop: h\r\nKeep-Alive: timeout=1\r\nContent-Length: 1\r\nX-End: e\r\n\r\nz",
	"SHOP2":    "HTTP/1.1 200 OK\r\nConnection: X-Hop\r\nX-Hop: h\r\nConnection: X-Hop2\r\nX-Hop2: h2\r\nContent-Length: 1\r\nX-End: e\r\n\r\nz",
	"S200CHN":  "HTTP/1.1 200 OK\r\nTransfer-Encoding: chunked\r\nTrailer: X-T, X-Hop-T\r\nConnection: X-Hop-T\r\n\r\n4\r\nwxyz\r\n0\r\nX-T: t\r\nX-Hop-T: hop\r\n\r\n",
	"EARLYEOF": "",
}

type exch struct{ req, hv, resp string }

type spec struct {
	auth  string // off none wrong right nousers nousersCred
	pipe  bool
	exchs []exch
}

func (s spec) String() string {
	var p []string
	for _, e := range s.exchs {
		p = append(p, e.req+"."+e.hv+"."+e.resp)
	}
	return fmt.Sprintf("auth=%s;pipe=%v;x=%s", s.auth, s.pipe, strings.Join(p, ","))
}

func parse(p string) spec {
	var s spec
	for _, kv := range strings.Split(p, ";") {
		k, v, _ := strings.Cut(kv, "=")
		switch k {
		case "auth":
			s.auth = v
		case "pipe":
			s.pipe = v == "true"
		case "x":
			for _, e := range strings.Split(v, ",") {
				f := strings.Split(e, ".")
				s.exchs = append(s.exchs, exch{f[0], f[1], f[2]})
			}
		}
	}
	return s
}

var hopByHop = map[string]bool{"Connection": true, "Keep-Alive": true, "Proxy-Connection": true, "Proxy-Authenticate": true, "Proxy-Authorization": true, "Te": true, "Trailer": true, "Transfer-Encoding": true, "Upgrade": true}

// expectedHeader computes what must survive: everything except hop-by-hop
// fields and fields nominated by Connection.
func expectedHeader(h http.Header) map[string][]string {
	nominated := map[string]bool{}
	for _, v := range h["Connection"] {
		for _, f := range strings.Split(v, ",") {
			nominated[textproto.CanonicalMIMEHeaderKey(strings.TrimSpace(f))] = true
		}
	}
	out := map[string][]string{}
	for k, v := range h {
		if hopByHop[k] || nominated[k] {
			continue
		}
		out[k] = v
	}
	return out
}

func hdrString(h map[string][]string, skip ...string) string {
	var ks []string
outer:
	for k := range h {
		for _, s := range skip {
			if k == s {
				continue outer
			}
		}
		ks = append(ks, k)
	}
	sort.Strings(ks)
	var b strings.Builder
	for _, k := range ks {
		fmt.Fprintf(&b, "%s=%q;", k, h[k])
	}
	return b.String()
}

type reqRec struct {
	Method, URI, Host, Hdr, Body, Trailer string
	HasUA                                 bool
}

func recOfRequest(r *http.Request, wantHdr map[string][]string) reqRec {
	body, _ := io.ReadAll(r.Body)
	_, hasUA := r.Header["User-Agent"]
	return reqRec{Method: r.Method, URI: r.URL.RequestURI(), Host: r.Host, Hdr: hdrString(wantHdr, "Content-Length"), Body: string(body), Trailer: hdrString(expectedHeader(r.Trailer)), HasUA: hasUA}
}

// expectedRequest is what must reach the origin for the client's request r:
// end-to-end header fields, and trailer fields minus hop-by-hop names and the
// names the request's Connection field nominates (a trailer field is a field).
func expectedRequest(r *http.Request) reqRec {
	rec := recOfRequest(r, expectedHeader(r.Header))
	nominated := map[string]bool{}
	for _, v := range r.Header["Connection"] {
		for _, f := range strings.Split(v, ",") {
			nominated[textproto.CanonicalMIMEHeaderKey(strings.TrimSpace(f))] = true
		}
	}
	tr := map[string][]string{}
	for k, v := range expectedHeader(r.Trailer) {
		if !nominated[k] {
			tr[k] = v
		}
	}
	rec.Trailer = hdrString(tr)
	return rec
}

type respRec struct {
	Status             int
	Hdr, Body, Trailer string
}

func scenario(param string) vsched.Scenario {
	sp := parse(param)
	return func() (func(), func(*vsched.Exec) (string, string)) {
		var (
			originGot   []reqRec
			clientGot   []respRec
			clientEOF   bool
			clientErr   error
			originSent  []respRec
			handleErr   error
			serverDone  bool
			originRaw   bytes.Buffer
			proceedDone bool
			// the origin's attempt to answer request i was refused by the proxy's end of the connection
			originWriteFailedAt = -1
			originWriteErr      error
		)
		users := map[string]string(nil)
		if sp.auth != "off" {
			users = map[string]string{base64.StdEncoding.EncodeToString([]byte("u:pw")): "u"}
		}
		if strings.HasPrefix(sp.auth, "nousers") {
			users = map[string]string{} // authentication enabled, nobody may pass (non-nil empty map, as NewProxyServer builds for enableBasicAuth without users)
		}
		authHdr := ""
		switch sp.auth {
		case "wrong":
			authHdr = "Proxy-Authorization: Basic " + base64.StdEncoding.EncodeToString([]byte("u:bad")) + "\r\n"
		case "right", "nousersCred":
			authHdr = "Proxy-Authorization: Basic " + base64.StdEncoding.EncodeToString([]byte("u:pw")) + "\r\n"
		}
		raw := func(e exch) string {
			return fmt.Sprintf(reqKinds[e.req], hdrVariants[e.hv]+authHdr)
		}
		body := func() {
			cEnd, rEnd := vnet.Pair("client", "proxy<client", 1<<16)
			var g vsched.Group
			var oc netio.Conn
			haveOC := false
			g.Go(func() { // proxy
				pc, _, _, err := httpproxy.ServerHandle(rEnd, zap.NewNop(), users)
				if err != nil {
					handleErr = err
					rEnd.Close()
					serverDone = true
					return
				}
				oc, err = pc.Proceed()
				if err != nil {
					handleErr = err
					serverDone = true
					return
				}
				proceedDone = true
				haveOC = true
				serverDone = true
			})
			g.Go(func() { // origin
				vsched.PointIf(func() bool { return haveOC || serverDone }, "origin.accept")
				if !haveOC {
					return
				}
				br := bufio.NewReader(io.TeeReader(oc, &originRaw))
				for i := 0; ; i++ {
					r, err := http.ReadRequest(br)
					if err != nil {
						break
					}
					oh := r.Header.Clone()
					if r.Close && len(oh["Connection"]) == 1 && strings.EqualFold(oh["Connection"][0], "close") {
						// the proxy's own connection option for the proxy-origin hop, not a forwarded field
						delete(oh, "Connection")
					}
					originGot = append(originGot, recOfRequest(r, oh))
					kind := "S200CL"
					if i < len(sp.exchs) {
						kind = sp.exchs[i].resp
					}
					if kind == "EARLYEOF" {
						break
					}
					if _, err := oc.Write([]byte(respKinds[kind])); err != nil {
						originWriteFailedAt, originWriteErr = i, err
						break
					}
					// record what was sent, parsed by the same parser
					rr := bufio.NewReader(strings.NewReader(respKinds[kind]))
					for {
						resp, err := http.ReadResponse(rr, r)
						if err != nil {
							break
						}
						b, _ := io.ReadAll(resp.Body)
						tr := expectedHeader(resp.Trailer)
						for _, v := range resp.Header["Connection"] {
							for _, f := range strings.Split(v, ",") {
								delete(tr, textproto.CanonicalMIMEHeaderKey(strings.TrimSpace(f)))
							}
						}
						originSent = append(originSent, respRec{resp.StatusCode, hdrString(expectedHeader(resp.Header), "Content-Length"), string(b), hdrString(tr)})
						if resp.StatusCode >= 200 {
							break
						}
					}
				}
				oc.Close()
			})
			turn := 0
			g.Go(func() { // client writer
				for i, e := range sp.exchs {
					if !sp.pipe {
						vsched.PointIf(func() bool { return turn >= i || clientEOF || clientErr != nil }, "client.turn")
						if clientEOF || clientErr != nil {
							break
						}
					}
					if _, err := cEnd.Write([]byte(raw(e))); err != nil {
						break
					}
				}
				if !sp.pipe {
					vsched.PointIf(func() bool { return turn >= len(sp.exchs) || clientEOF || clientErr != nil }, "client.turn")
				}
				cEnd.CloseWrite()
			})
			g.Go(func() { // client reader
				br := bufio.NewReader(cEnd)
				for i := 0; ; {
					var req *http.Request
					if i < len(sp.exchs) {
						req, _ = http.ReadRequest(bufio.NewReader(strings.NewReader(raw(sp.exchs[i]))))
					}
					resp, err := http.ReadResponse(br, req)
					if err != nil {
						if err == io.EOF || err == io.ErrUnexpectedEOF {
							clientEOF = true
						} else {
							clientErr = err
						}
						break
					}
					b, _ := io.ReadAll(resp.Body)
					clientGot = append(clientGot, respRec{resp.StatusCode, hdrString(expectedHeader(resp.Header), "Content-Length"), string(b), hdrString(expectedHeader(resp.Trailer))})
					if resp.StatusCode >= 200 {
						i++
						turn = i
					}
				}
				turn = 1 << 30
				cEnd.Close()
			})
			g.Wait()
			// the forwarder goroutines end on their own once both sides are closed
			vsched.WaitIdle()
		}
		check := func(e *vsched.Exec) (string, string) {
			obs := fmt.Sprintf("origin=%+v client=%+v eof=%v cerr=%v herr=%v", originGot, clientGot, clientEOF, clientErr, handleErr != nil)
			if len(e.Panics) > 0 {
				return obs, "panic: " + e.Panics[0]
			}
			if e.HorizonHit {
				return obs, "no termination within horizon: " + strings.Join(e.Blocked, " ")
			}
			if e.Deadlock {
				return obs, "deadlock: " + strings.Join(e.Blocked, " ")
			}
			// expected forwarded requests
			var want []reqRec
			authOK := sp.auth == "off" || sp.auth == "right"
			if authOK {
				for i, ex := range sp.exchs {
					if i > 0 && (ex.req == "OTHER" || ex.req == "CONNECT" || ex.req == "CONNECTSAME") {
						break
					}
					if i == 0 && ex.req == "CONNECT" {
						break
					}
					r, err := http.ReadRequest(bufio.NewReader(strings.NewReader(raw(ex))))
					if err != nil {
						return obs, "harness: cannot parse own request: " + err.Error()
					}
					want = append(want, expectedRequest(r))
					if r.Close {
						break
					}
					if i < len(sp.exchs) && (sp.exchs[i].resp == "EARLYEOF" || sp.exchs[i].resp == "SCLOSE" || sp.exchs[i].resp == "S301") {
						// connection ends after this response; later requests may or may not have been forwarded already (pipelining)
						want = append(want, reqRec{Method: "*"})
						break
					}
				}
			}
			if !authOK && len(originGot) > 0 {
				return obs, "request forwarded to the origin before valid proxy credentials were presented"
			}
			if !authOK {
				if proceedDone {
					return obs, "proxy proceeded without valid credentials"
				}
				for _, r := range clientGot {
					if r.Status != 407 {
						return obs, fmt.Sprintf("unauthenticated client received status %d, want 407", r.Status)
					}
				}
				return obs, ""
			}
			for i, got := range originGot {
				if i >= len(want) {
					return obs, fmt.Sprintf("origin received an extra request %d (%s %s host %s) that must not be forwarded on this connection", i, got.Method, got.URI, got.Host)
				}
				w := want[i]
				if w.Method == "*" {
					// after a terminating response: a pipelined later request to the same host may already be in flight
					if got.Host != "a.test" && got.Host != "a.test:80" || got.Method == "CONNECT" {
						return obs, "request for another host reached this origin"
					}
					want = append(want, reqRec{Method: "*"})
					continue
				}
				if got.Method != w.Method || got.URI != w.URI || got.Host != w.Host {
					return obs, fmt.Sprintf("request %d reached the origin as %s %s (Host %s), client sent %s %s (Host %s)", i, got.Method, got.URI, got.Host, w.Method, w.URI, w.Host)
				}
				if got.Hdr != w.Hdr {
					gh, wh := got.Hdr, w.Hdr
					if !w.HasUA && strings.Contains(gh, "User-Agent=") && strings.Replace(gh, uaField(gh), "", 1) == wh {
						return obs, "origin received a User-Agent header field the client never sent"
					}
					return obs, fmt.Sprintf("request %d: header fields at the origin {%s} differ from the client's end-to-end fields {%s}", i, gh, wh)
				}
				if got.Body != w.Body {
					return obs, fmt.Sprintf("request %d: body %q at the origin, client sent %q", i, got.Body, w.Body)
				}
				if got.Trailer != w.Trailer {
					if strings.Contains(got.Trailer, "X-Hop-T=") && strings.Replace(got.Trailer, `X-Hop-T=["hop"];`, "", 1) == w.Trailer {
						return obs, "a request trailer field nominated by Connection reached the origin"
					}
					return obs, fmt.Sprintf("request %d: trailer {%s} at the origin, client sent {%s}", i, got.Trailer, w.Trailer)
				}
			}
			// every expected request before a terminator must have arrived unless the connection legitimately ended earlier
			need := 0
			for _, w := range want {
				if w.Method == "*" {
					break
				}
				need++
			}
			if len(originGot) < need && clientErr == nil {
				// allowed only if an earlier response ended the connection
				ended := false
				for i := 0; i < len(originGot) && i < len(sp.exchs); i++ {
					k := sp.exchs[i].resp
					if k == "EARLYEOF" || k == "SCLOSE" || k == "S301" {
						ended = true
					}
				}
				if !ended {
					return obs, fmt.Sprintf("only %d of %d requests reached the origin", len(originGot), need)
				}
			}
			// a forwarded request's response must be accepted from the origin while the client still waits for it
			// (the client reads until end-of-stream): the origin's write may only fail after an exchange that
			// legitimately ended the connection
			if originWriteFailedAt >= 0 {
				ended := false
				for i := 0; i < originWriteFailedAt && i < len(sp.exchs); i++ {
					k := sp.exchs[i].resp
					if k == "EARLYEOF" || k == "SCLOSE" || k == "S301" || sp.exchs[i].req == "GETCLOSE" {
						ended = true
					}
				}
				if !ended {
					return obs, fmt.Sprintf("the proxy refused the origin's response to forwarded request %d (%v) while the client was waiting for it", originWriteFailedAt, originWriteErr)
				}
			}
			// responses: what the client got must be a prefix-by-order of what the origin sent, intact
			if len(clientGot) > len(originSent) {
				return obs, "client received more responses than the origin sent"
			}
			for i, got := range clientGot {
				w := originSent[i]
				if got.Status == w.Status && got.Body == w.Body && got.Trailer != w.Trailer && strings.Replace(got.Trailer, `X-Hop-T=["hop"];`, "", 1) == w.Trailer {
					return obs, "a response trailer field nominated by Connection reached the client"
				}
				if got.Status != w.Status || got.Body != w.Body || got.Trailer != w.Trailer {
					return obs, fmt.Sprintf("response %d reached the client as %d %q {%s}, origin sent %d %q {%s}", i, got.Status, got.Body, got.Trailer, w.Status, w.Body, w.Trailer)
				}
				if got.Hdr != w.Hdr {
					return obs, fmt.Sprintf("response %d: header fields at the client {%s} differ from the origin's end-to-end fields {%s}", i, got.Hdr, w.Hdr)
				}
			}
			if len(clientGot) < len(originSent) {
				return obs, fmt.Sprintf("client received %d of the %d responses the origin sent", len(clientGot), len(originSent))
			}
			if !clientEOF && clientErr == nil {
				return obs, "client connection never ended"
			}
			return obs, ""
		}
		return body, check
	}
}

func uaField(h string) string {
	i := strings.Index(h, "User-Agent=")
	if i < 0 {
		return ""
	}
	j := strings.IndexByte(h[i:], ';')
	return h[i : i+j+1]
}

func family(c *harness.Check) []string {
	var out []string
	add := func(s spec) { out = append(out, s.String()) }
	reqs := []string{"GET", "POSTCL", "POSTCH", "POSTCHN", "GETCLOSE"}
	hvs := []string{"h0", "h1", "h2", "h3", "h4"}
	resps := []string{"S200CL", "S200CH", "S100", "S204", "S301", "SCLOSE", "SHOP", "SHOP2", "S200CHN", "EARLYEOF"}
	for _, r := range reqs {
		for _, h := range hvs {
			for _, s := range resps {
				if !c.Thorough() && h != "h0" && h != "h3" && h != "h4" && s != "S200CL" {
					continue
				}
				add(spec{"off", true, []exch{{r, h, s}}})
			}
		}
	}
	// two exchanges, pipelined and sequential
	seconds := []string{"GET", "POSTCL", "OTHER", "CONNECT", "GETCLOSE"}
	for _, pipe := range []bool{true, false} {
		for _, r1 := range []string{"GET", "POSTCH"} {
			for _, s1 := range []string{"S200CL", "S100", "SCLOSE", "S301"} {
				for _, r2 := range seconds {
					add(spec{"off", pipe, []exch{{r1, "h1", s1}, {r2, "h2", "S200CH"}}})
				}
			}
		}
	}
	// a later CONNECT whose target is textually the first request's Host
	for _, pipe := range []bool{true, false} {
		for _, s1 := range []string{"S200CL", "S100"} {
			add(spec{"off", pipe, []exch{{"GETP", "h1", s1}, {"CONNECTSAME", "h0", "S200CL"}}})
			add(spec{"off", pipe, []exch{{"GETP", "h1", s1}, {"GETP", "h2", "S204"}, {"CONNECTSAME", "h0", "S200CL"}}})
		}
	}
	// auth
	for _, a := range []string{"none", "wrong", "right", "nousers", "nousersCred"} {
		add(spec{a, true, []exch{{"GET", "h1", "S200CL"}}})
		add(spec{a, true, []exch{{"POSTCL", "h0", "S200CL"}, {"GET", "h1", "S204"}}})
	}
	// pipelining depth
	for _, n := range []int{3, 16, 17, 20} {
		if n > 3 && !c.Thorough() && n != 17 {
			continue
		}
		var xs []exch
		for i := 0; i < n; i++ {
			xs = append(xs, exch{"GET", "h1", "S200CL"})
		}
		add(spec{"off", true, xs})
	}
	return out
}

func main() {
	harness.Register("http", scenario)
	harness.WorkerMain()
	c := harness.Start("C16")
	if c.Replay != "" {
		if harness.ReplayExploration(c) {
			os.Exit(1)
		}
		os.Exit(0)
	}
	c.Rule = "one case = one interleaving of {client writer, client reader, proxy handler, its two forwarder goroutines, origin} for a scripted exchange list {request kind x header variant x response kind}, pipelined or sequential, auth off/none/wrong/right; messages on both sides are parsed with net/http and compared semantically; distinct = distinct observation record"
	c.Assumptions = []string{"the origin is attached directly to the proxy's pipe end (the relay copy in between is C13's subject)", "messages are compared after parsing with the same net/http parser on both sides, so only differences introduced by the proxy show", "delay-bounded exploration"}
	c.SigOf = func(_, param, msg string) string {
		// failure class only; the scripted exchange is in the replay file
		if i := strings.Index(msg, ":"); i > 0 && strings.HasPrefix(msg, "request ") || strings.HasPrefix(msg, "response ") {
			return "http: " + msg[strings.Index(msg, ":")+2:]
		}
		return "http: " + msg
	}
	params := family(c)
	for i, r := range harness.ExploreBatch("http", params, harness.Pick(c, 1, 2), harness.Pick(c, 20*time.Second, 2*time.Minute), true) {
		if i%23 == 0 {
			c.Sample(map[string]any{"scenario": r.Param, "executions": r.Stats.Execs, "observations": len(r.Stats.Observations), "bound": r.Stats.BoundCompleted})
		}
		c.AddExploration("http", r.Param, r.Stats, harness.Confirm(scenario(r.Param)))
	}
	c.Extra["scenarios"] = len(params)
	c.Finish()
}
