// C13: the TCP relay connects clients to the routed destination and mirrors
// half-closes.  The real TCPRelay.handleConn (parameter widened to netio.Conn by
// the overlay) runs over scheduler-aware in-memory connections with a real
// protocol server in front, a real router, a real stats collector and a stub
// outgoing client; every interleaving within a deviation bound is explored.
package main

import (
	"fmt"
	"os"
	"time"

	"verif/harness"
	"verif/lib/tcprelay"
	"verif/shim/vrand"
)

func main() {
	vrand.Hook = func(n int) int { return 0 }
	harness.Register("relay", tcprelay.Scenario)
	harness.WorkerMain()
	c := harness.Start("C13")
	if c.Replay != "" {
		if harness.ReplayExploration(c) {
			os.Exit(1)
		}
		os.Exit(0)
	}
	c.Rule = "one case = one complete interleaving (client thread, relay handler, its copy goroutine, target thread, initial-payload timer) of a scenario {front protocol, outgoing client native-payload support, wait-for-initial-payload, payload timing, dial result, closing order, target kind}; distinct = distinct observation record"
	c.Assumptions = []string{"handleConn's *net.TCPConn parameter is widened to netio.Conn by the overlay (its body only uses netio.Conn methods)", "in-memory connections with 64 KiB buffers, virtual clock", "outgoing client: a stub that records the dial, or a real http / socks5 / ss2022 client whose transport is the stub and whose far end runs the real server of that protocol"}
	// signature = front protocol + wait/native flags + failure class (not the payload timing or closing order)
	c.SigOf = func(_, param, msg string) string {
		sp := tcprelay.Parse(param)
		return fmt.Sprintf("relay[server=%s,wait=%v,native=%v,dial=%s]: %s", sp.Server, sp.Wait, sp.Native, sp.Dial, msg)
	}
	params := tcprelay.Family(c.Thorough())
	bound := harness.Pick(c, 2, 3)
	for i, r := range harness.ExploreBatch("relay", params, bound, harness.Pick(c, 20*time.Second, 2*time.Minute), true) {
		if i%19 == 0 {
			c.Sample(map[string]any{"scenario": r.Param, "executions": r.Stats.Execs, "observations": len(r.Stats.Observations), "bound": r.Stats.BoundCompleted})
		}
		c.AddExploration("relay", r.Param, r.Stats, harness.Confirm(tcprelay.Scenario(r.Param)))
	}
	c.Extra["scenarios"] = len(params)
	c.Finish()
}
