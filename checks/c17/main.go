// C17: the resolver returns only upstream's answers, honours TTLs, degrades
// safely.  The real dns.Resolver runs under the controlled scheduler with a
// real direct UDP client on loopback (scheduler-mediated readiness), a stub
// TCP client over in-memory connections, and a scripted upstream.  Part 1:
// every scripted upstream behaviour pair per lookup (both arrival orders, UDP
// and TCP).  Part 2: lookup histories crossing TTL boundaries on the virtual
// clock.  Part 3: the bounded cache to fixpoint against a reference LRU.
package main

import (
	"context"
	"encoding/binary"
	"fmt"
	"io"
	"net/netip"
	"os"
	"sort"
	"strings"
	"time"

	"github.com/database64128/shadowsocks-go/cache"
	"github.com/database64128/shadowsocks-go/conn"
	"github.com/database64128/shadowsocks-go/direct"
	"github.com/database64128/shadowsocks-go/dns"
	"github.com/database64128/shadowsocks-go/netio"
	"go.uber.org/zap"
	"golang.org/x/net/dns/dnsmessage"

	"verif/harness"
	"verif/vnet"
	"verif/vnet/vudp"
	"verif/vsched"
)

// behaviours of the scripted upstream for one query
var behaviours = []string{"valid", "cname", "nxdomain", "nodata", "servfail", "truncated", "wrongid", "wrongsrc", "notresp", "ra0", "garbage", "silence"}
var answering = map[string]bool{"valid": true, "cname": true, "nxdomain": true, "nodata": true, "servfail": true}

type script struct {
	u4, u6 string // UDP behaviour for the A / AAAA query
	t4, t6 string // TCP behaviour ("closemid" additionally)
	order  string // "46" or "64": order in which the upstream answers over UDP
	ttl4   uint32
	ttl6   uint32
	udp    bool
	tcp    bool
	chunk  int // when > 0 the resolver's TCP connection returns at most this many bytes per Read
	// dup, when set, makes the upstream follow its reply to the query it answers first with a second,
	// different message (this behaviour) carrying the same ID, before it answers the other query: a query is
	// answered by the first matching response, anything later for that ID belongs to a finished transaction
	dup string
}

func (s script) String() string {
	return fmt.Sprintf("u4=%s;u6=%s;t4=%s;t6=%s;order=%s;ttl4=%d;ttl6=%d;udp=%v;tcp=%v;chunk=%d%s", s.u4, s.u6, s.t4, s.t6, s.order, s.ttl4, s.ttl6, s.udp, s.tcp, s.chunk, map[bool]string{true: ";dup=" + s.dup}[s.dup != ""])
}

func parseScript(p string) script {
	var s script
	for _, kv := range strings.Split(p, ";") {
		k, v, _ := strings.Cut(kv, "=")
		switch k {
		case "u4":
			s.u4 = v
		case "u6":
			s.u6 = v
		case "t4":
			s.t4 = v
		case "t6":
			s.t6 = v
		case "order":
			s.order = v
		case "ttl4":
			fmt.Sscan(v, &s.ttl4)
		case "ttl6":
			fmt.Sscan(v, &s.ttl6)
		case "udp":
			s.udp = v == "true"
		case "tcp":
			s.tcp = v == "true"
		case "chunk":
			fmt.Sscan(v, &s.chunk)
		case "dup":
			s.dup = v
		}
	}
	return s
}

// addresses: transport (1 udp, 2 tcp), family
func addr4(transport byte) netip.Addr { return netip.AddrFrom4([4]byte{192, 0, 2, transport}) }
func addr6(transport byte) netip.Addr {
	return netip.AddrFrom16([16]byte{0x20, 0x01, 0xd, 0xb8, 15: transport})
}

var poison4 = netip.AddrFrom4([4]byte{203, 0, 113, 66})
var poison6 = netip.AddrFrom16([16]byte{0x20, 0x01, 0xd, 0xb8, 0xde, 0xad, 15: 0x66})

// buildReply makes the reply for query q according to behaviour b.
func buildReply(q []byte, b string, transport byte, ttl uint32) []byte {
	var p dnsmessage.Parser
	h, err := p.Start(q)
	if err != nil {
		return nil
	}
	qs, _ := p.AllQuestions()
	if len(qs) != 1 {
		return nil
	}
	question := qs[0]
	hdr := dnsmessage.Header{ID: h.ID, Response: true, RecursionDesired: true, RecursionAvailable: true}
	usePoison := false
	switch b {
	case "wrongid":
		hdr.ID = h.ID + 100
		usePoison = true
	case "wrongsrc":
		usePoison = true
	case "notresp":
		hdr.Response = false
		usePoison = true
	case "ra0":
		hdr.RecursionAvailable = false
		usePoison = true
	case "nxdomain":
		hdr.RCode = dnsmessage.RCodeNameError
	case "servfail":
		hdr.RCode = dnsmessage.RCodeServerFailure
	case "truncated":
		hdr.Truncated = true
	case "garbage":
		return []byte{0xff, 0x00, 0x13}
	}
	bld := dnsmessage.NewBuilder(nil, hdr)
	bld.EnableCompression()
	bld.StartQuestions()
	bld.Question(question)
	bld.StartAnswers()
	rh := dnsmessage.ResourceHeader{Name: question.Name, Class: dnsmessage.ClassINET, TTL: ttl}
	if b == "cname" {
		// a CNAME with the scripted (small) TTL followed by an address record with a long TTL:
		// the smallest TTL of the answer section bounds the cache lifetime
		target := dnsmessage.MustNewName("cdn.example.net.")
		bld.CNAMEResource(rh, dnsmessage.CNAMEResource{CNAME: target})
		rh = dnsmessage.ResourceHeader{Name: target, Class: dnsmessage.ClassINET, TTL: 3600}
		b = "valid"
	}
	if b == "valid" || b == "truncated" || usePoison {
		if question.Type == dnsmessage.TypeA {
			a := addr4(transport)
			if usePoison {
				a = poison4
			}
			bld.AResource(rh, dnsmessage.AResource{A: a.As4()})
		} else {
			a := addr6(transport)
			if usePoison {
				a = poison6
			}
			bld.AAAAResource(rh, dnsmessage.AAAAResource{AAAA: a.As16()})
		}
	}
	if b == "nxdomain" || b == "nodata" {
		bld.StartAuthorities()
		soa := dnsmessage.ResourceHeader{Name: question.Name, Class: dnsmessage.ClassINET, TTL: ttl}
		bld.SOAResource(soa, dnsmessage.SOAResource{NS: question.Name, MBox: question.Name, Serial: 1, Refresh: 1, Retry: 1, Expire: 1, MinTTL: ttl})
	}
	out, err := bld.Finish()
	if err != nil {
		panic(err)
	}
	return out
}

// stub TCP client
type tcpStub struct {
	dials   int
	conns   []*vnet.Conn
	pending []*vnet.Conn
	fail    bool
	chunk   int
}

func (c *tcpStub) NewStreamDialer() (netio.StreamDialer, netio.StreamDialerInfo) {
	return c, netio.StreamDialerInfo{Name: "tcpstub"}
}
func (c *tcpStub) DialStream(ctx context.Context, addr conn.Addr, payload []byte) (netio.Conn, error) {
	vsched.Point("tcpstub.Dial")
	c.dials++
	if c.fail {
		return nil, vnet.ErrRefused
	}
	near, far := vnet.Pair("resolver>tcp", "upstream.tcp", 1<<16)
	near.ReadChunk = c.chunk
	if len(payload) > 0 {
		near.Write(payload)
	}
	c.pending = append(c.pending, far)
	return near, nil
}

type lookupOut struct {
	a, aaaa []netip.Addr
	err     error
}

func (o lookupOut) String() string {
	return fmt.Sprintf("a=%v aaaa=%v err=%v", o.a, o.aaaa, o.err != nil)
}

// env runs one resolver with a scripted upstream inside an execution.
type env struct {
	res      *dns.Resolver
	scripts  []script // one per lookup; cur selects the active one
	cur      int
	udpQ     int
	tcpQ     int
	stub     *tcpStub
	stopping bool
	server   netip.AddrPort
	us, os2  *netUDP
}

type netUDP = struct{ c interface{} }

func newEnv(udp, tcp bool, cacheSize int) *env {
	pid := os.Getpid()
	a, b := byte(1+(pid>>8)%250), byte(pid%256)
	server := netip.AddrPortFrom(netip.AddrFrom4([4]byte{127, a, b, 53}), 5353)
	e := &env{server: server, stub: &tcpStub{}}
	var tc netio.StreamClient
	if tcp {
		tc = e.stub
	}
	if udp {
		e.res = dns.NewResolver("r", cacheSize, server, tc, direct.NewDirectUDPClient("direct", "ip4", 1500, conn.ListenConfig{}), zap.NewNop())
	} else {
		e.res = dns.NewResolver("r", cacheSize, server, tc, nil, zap.NewNop())
	}
	return e
}

// serve starts the scripted upstream threads; the returned function stops them.
func (e *env) serve(g *vsched.Group) func() {
	pid := os.Getpid()
	a, b := byte(1+(pid>>8)%250), byte(pid%256)
	other := netip.AddrPortFrom(netip.AddrFrom4([4]byte{127, a, b, 54}), 5353)
	us := vudp.Listen(e.server.String(), "upstream.udp")
	os2 := vudp.Listen(other.String(), "other.udp")
	g.Go(func() {
		buf := make([]byte, 2048)
		type pend struct {
			q    []byte
			from netip.AddrPort
			id   uint16
		}
		var held []pend
		heldFor := -1
		for {
			n, from, err := vudp.UDP_ReadFromUDPAddrPort(us, buf)
			if err != nil {
				return
			}
			e.udpQ++
			q := append([]byte(nil), buf[:n]...)
			id := binary.BigEndian.Uint16(q)
			if e.cur >= len(e.scripts) {
				continue
			}
			if heldFor != e.cur {
				held, heldFor = nil, e.cur
			}
			sc := e.scripts[e.cur]
			dup := false
			for _, h := range held {
				if h.id == id {
					dup = true
				}
			}
			if dup {
				continue // retransmission of a query we are holding
			}
			held = append(held, pend{q, from, id})
			first, second := uint16(4), uint16(6)
			if sc.order == "64" {
				first, second = 6, 4
			}
			have := map[uint16]*pend{}
			for i := range held {
				have[held[i].id] = &held[i]
			}
			if have[first] == nil || have[second] == nil {
				continue
			}
			for _, id := range []uint16{first, second} {
				p := have[id]
				bh, ttl := sc.u4, sc.ttl4
				if id == 6 {
					bh, ttl = sc.u6, sc.ttl6
				}
				if bh == "silence" {
					continue
				}
				reply := buildReply(p.q, bh, 1, ttl)
				src := us
				if bh == "wrongsrc" {
					src = os2
				}
				vudp.UDP_WriteToUDPAddrPort(src, reply, p.from)
				if sc.dup != "" && id == first {
					vudp.UDP_WriteToUDPAddrPort(us, buildReply(p.q, sc.dup, 1, ttl), p.from)
				}
			}
			held = nil
			heldFor = -1
		}
	})
	g.Go(func() {
		for {
			vsched.PointIf(func() bool { return len(e.stub.pending) > 0 || e.stopping }, "upstream.tcp.accept")
			if len(e.stub.pending) == 0 {
				return
			}
			c := e.stub.pending[0]
			e.stub.pending = e.stub.pending[1:]
			sc := script{t4: "silence", t6: "silence"}
			if e.cur < len(e.scripts) {
				sc = e.scripts[e.cur]
			}
			lb := make([]byte, 2)
			for {
				if _, err := io.ReadFull(c, lb); err != nil {
					break
				}
				q := make([]byte, binary.BigEndian.Uint16(lb))
				if _, err := io.ReadFull(c, q); err != nil {
					break
				}
				if len(q) < 12 {
					break // not a DNS message: a real server drops the connection
				}
				e.tcpQ++
				id := binary.BigEndian.Uint16(q)
				bh, ttl := sc.t4, sc.ttl4
				if id == 6 {
					bh, ttl = sc.t6, sc.ttl6
				}
				if bh == "silence" || bh == "wrongsrc" {
					continue
				}
				if bh == "closemid" {
					c.Write([]byte{0x00, 0x40, 0x00, 0x04})
					break
				}
				reply := buildReply(q, bh, 2, ttl)
				out := make([]byte, 2+len(reply))
				binary.BigEndian.PutUint16(out, uint16(len(reply)))
				copy(out[2:], reply)
				if _, err := c.Write(out); err != nil {
					break
				}
				if sc.dup != "" && (id == 4) == (sc.order != "64") {
					d := buildReply(q, sc.dup, 2, ttl)
					out := make([]byte, 2+len(d))
					binary.BigEndian.PutUint16(out, uint16(len(d)))
					copy(out[2:], d)
					if _, err := c.Write(out); err != nil {
						break
					}
				}
			}
			c.Close()
		}
	})
	return func() {
		e.stopping = true
		vudp.UDP_Close(us)
		vudp.UDP_Close(os2)
	}
}

func (e *env) lookup(name string) lookupOut {
	r, err := e.res.Lookup(context.Background(), name)
	var o lookupOut
	o.err = err
	if err == nil {
		for a := range r.A() {
			o.a = append(o.a, a)
		}
		for a := range r.AAAA() {
			o.aaaa = append(o.aaaa, a)
		}
	}
	return o
}

// checkLookup compares one lookup's outcome with the script (see DESIGN.md C17).
func checkLookup(sc script, o lookupOut) string {
	for _, a := range append(append([]netip.Addr{}, o.a...), o.aaaa...) {
		if a == poison4 || a == poison6 {
			return fmt.Sprintf("result contains %v, which only appeared in a datagram that must be ignored (foreign ID, foreign source, not a response, or RA=0)", a)
		}
	}
	ansU := sc.udp && answering[sc.u4] && answering[sc.u6]
	ansT := sc.tcp && answering[sc.t4] && answering[sc.t6]
	// over TCP each query is retried once on a fresh connection, so mixed answerability still resolves both only if both answer
	if o.err != nil {
		if ansU {
			return "lookup failed although the configured server answered both queries over UDP"
		}
		if ansT && (!sc.udp || true) {
			return "lookup failed although the configured server answers both queries over TCP"
		}
		return ""
	}
	check := func(fam string, got []netip.Addr, ub, tb string, ua, ta netip.Addr) string {
		okSets := [][]netip.Addr{}
		if sc.udp && answering[ub] {
			if ub == "valid" || ub == "cname" {
				okSets = append(okSets, []netip.Addr{ua})
			} else {
				okSets = append(okSets, nil)
			}
		}
		if sc.tcp && (answering[tb] || tb == "truncated") {
			if tb == "valid" || tb == "cname" || tb == "truncated" {
				okSets = append(okSets, []netip.Addr{ta})
			} else {
				okSets = append(okSets, nil)
			}
		}
		for _, s := range okSets {
			if fmt.Sprint(s) == fmt.Sprint(got) {
				return ""
			}
		}
		return fmt.Sprintf("%s result %v is not the address set of any accepted response to this lookup's %s query (acceptable: %v)", fam, got, fam, okSets)
	}
	if m := check("A", o.a, sc.u4, sc.t4, addr4(1), addr4(2)); m != "" {
		return m
	}
	if m := check("AAAA", o.aaaa, sc.u6, sc.t6, addr6(1), addr6(2)); m != "" {
		return m
	}
	return ""
}

func lookupScenario(param string) vsched.Scenario {
	sc := parseScript(param)
	return func() (func(), func(*vsched.Exec) (string, string)) {
		var out lookupOut
		var e *env
		done := false
		body := func() {
			e = newEnv(sc.udp, sc.tcp, 8)
			e.stub.chunk = sc.chunk
			e.scripts = []script{sc}
			var g vsched.Group
			stop := e.serve(&g)
			out = e.lookup("name.test")
			done = true
			stop()
			g.Wait()
			vudp.Finish()
		}
		return body, func(ex *vsched.Exec) (string, string) {
			obs := fmt.Sprintf("%v udpQ=%d tcpQ=%d", out, 0, 0)
			if len(ex.Panics) > 0 {
				return obs, "panic: " + ex.Panics[0]
			}
			if ex.Deadlock || ex.HorizonHit {
				return obs, "deadlock or no termination: " + strings.Join(ex.Blocked, " ")
			}
			if !done {
				return obs, "lookup did not return"
			}
			return obs, checkLookup(sc, out)
		}
	}
}

// --- TTL histories ---------------------------------------------------------------

// history param: "cap=N;ops=L:a:valid:10:servfail:46,W:9,L:a,..." (L = lookup name with script, W = wait seconds)
type hop struct {
	kind string // L W
	name string
	sc   script
	wait int
}

func parseHist(p string) (cap int, ops []hop) {
	for _, kv := range strings.Split(p, ";") {
		k, v, _ := strings.Cut(kv, "=")
		switch k {
		case "cap":
			fmt.Sscan(v, &cap)
		case "ops":
			for _, o := range strings.Split(v, ",") {
				f := strings.Split(o, ":")
				if f[0] == "W" {
					var w int
					fmt.Sscan(f[1], &w)
					ops = append(ops, hop{kind: "W", wait: w})
					continue
				}
				var t4, t6 uint32
				fmt.Sscan(f[3], &t4)
				fmt.Sscan(f[5], &t6)
				ops = append(ops, hop{kind: "L", name: f[1], sc: script{u4: f[2], ttl4: t4, u6: f[4], ttl6: t6, order: f[6], t4: "silence", t6: "silence", udp: true, tcp: false}})
			}
		}
	}
	return
}

type cacheRef struct {
	expires int64 // virtual ns; bound from the statement
	out     string
}

func histScenario(param string) vsched.Scenario {
	capN, ops := parseHist(param)
	return func() (func(), func(*vsched.Exec) (string, string)) {
		var viol string
		var obsParts []string
		body := func() {
			e := newEnv(true, false, capN)
			var g vsched.Group
			stop := e.serve(&g)
			ref := map[string]*cacheRef{}
			for i, op := range ops {
				if op.kind == "W" {
					vsched.Sleep(time.Duration(op.wait) * time.Second)
					continue
				}
				e.scripts = append(e.scripts, op.sc)
				e.cur = len(e.scripts) - 1
				before := e.udpQ
				t0 := vsched.NowNS()
				o := e.lookup(op.name + ".test")
				asked := e.udpQ > before
				obsParts = append(obsParts, fmt.Sprintf("%d:%v asked=%v", i, o, asked))
				r := ref[op.name]
				if !asked {
					// served from cache: allowed only until the bound
					if r == nil {
						viol = fmt.Sprintf("step %d: lookup of %s answered without asking upstream although nothing was cached", i, op.name)
						break
					}
					if t0 > r.expires {
						viol = fmt.Sprintf("step %d: cached result for %s reused %v after it was obtained, %v past the smallest TTL / negative caching time of the responses it came from", i, op.name, time.Duration(t0-(r.expires-0)), time.Duration(t0-r.expires))
						break
					}
					if o.String() != r.out {
						viol = fmt.Sprintf("step %d: cache returned %v, cached was %s", i, o, r.out)
						break
					}
					continue
				}
				// fresh answer: compute the statement's bound from the accepted responses
				if m := checkLookup(op.sc, o); m != "" {
					viol = fmt.Sprintf("step %d: %s", i, m)
					break
				}
				if o.err != nil {
					if r != nil && o.err == nil {
						continue
					}
					continue
				}
				bound := int64(-1)
				upd := func(b string, ttl uint32) {
					var d int64
					switch b {
					case "valid", "cname", "nxdomain", "nodata":
						d = int64(ttl) * 1e9
					case "servfail":
						d = 30 * 1e9
					default:
						return
					}
					// answers' TTLs take precedence: smallest TTL if the result has answers
					if bound < 0 || d < bound {
						bound = d
					}
				}
				isAns := func(b string) bool { return b == "valid" || b == "cname" }
				hasAns := isAns(op.sc.u4) || isAns(op.sc.u6)
				if hasAns {
					if isAns(op.sc.u4) {
						upd("valid", op.sc.ttl4)
					}
					if isAns(op.sc.u6) {
						upd("valid", op.sc.ttl6)
					}
				} else {
					// negative/failure caching: the larger of the two is tolerated (the statement says "the negative/failure caching time")
					bound = 0
					for _, x := range [][2]any{{op.sc.u4, op.sc.ttl4}, {op.sc.u6, op.sc.ttl6}} {
						var d int64
						switch x[0].(string) {
						case "nxdomain", "nodata":
							d = int64(x[1].(uint32)) * 1e9
						case "servfail":
							d = 30 * 1e9
						}
						if d > bound {
							bound = d
						}
					}
				}
				ref[op.name] = &cacheRef{expires: t0 + bound + int64(25*time.Second)*0, out: o.String()}
				// the lookup itself takes virtual time only when upstream is silent; answers are immediate here
			}
			stop()
			g.Wait()
			vudp.Finish()
		}
		return body, func(ex *vsched.Exec) (string, string) {
			obs := strings.Join(obsParts, " | ")
			if len(ex.Panics) > 0 {
				return obs, "panic: " + ex.Panics[0]
			}
			if ex.Deadlock || ex.HorizonHit {
				return obs, "deadlock or no termination: " + strings.Join(ex.Blocked, " ")
			}
			return obs, viol
		}
	}
}

// --- bounded cache to fixpoint -----------------------------------------------------

func cacheBFS(c *harness.Check) {
	keys := []string{"a", "b", "c"}
	type opc struct {
		kind string
		key  string
	}
	var ops []opc
	for _, k := range keys {
		ops = append(ops, opc{"get", k}, opc{"set", k}, opc{"del", k})
	}
	var states, transitions int64
	for capN := 1; capN <= 3; capN++ {
		// state = history; canonical key = reference LRU order
		type node struct{ hist []int }
		seen := map[string]bool{"": true}
		frontier := []node{{}}
		replay := func(h []int) (real *cache.BoundedCache[string, int], ref []string, refVal map[string]int, bad string) {
			real = cache.NewBoundedCache[string, int](capN)
			refVal = map[string]int{}
			touch := func(k string) {
				for i, x := range ref {
					if x == k {
						ref = append(ref[:i], ref[i+1:]...)
						break
					}
				}
				ref = append(ref, k)
			}
			for step, oi := range h {
				o := ops[oi]
				switch o.kind {
				case "get":
					v, ok := real.Get(o.key)
					rv, rok := refVal[o.key]
					if ok != rok || (ok && v != rv) {
						bad = fmt.Sprintf("cap %d history %v: Get(%s) = (%d,%v), reference (%d,%v)", capN, h[:step+1], o.key, v, ok, rv, rok)
						return
					}
					if ok {
						touch(o.key)
					}
				case "set":
					real.Set(o.key, step+1)
					if _, ok := refVal[o.key]; !ok && len(ref) == capN {
						delete(refVal, ref[0])
						ref = ref[1:]
					}
					refVal[o.key] = step + 1
					touch(o.key)
				case "del":
					real.Remove(o.key)
					if _, ok := refVal[o.key]; ok {
						delete(refVal, o.key)
						for i, x := range ref {
							if x == o.key {
								ref = append(ref[:i], ref[i+1:]...)
								break
							}
						}
					}
				}
				if real.Len() != len(ref) {
					bad = fmt.Sprintf("cap %d history %v: Len %d, reference %d", capN, h[:step+1], real.Len(), len(ref))
					return
				}
			}
			return
		}
		for depth := 0; len(frontier) > 0 && depth < 12; depth++ {
			var next []node
			for _, n := range frontier {
				for oi := range ops {
					h := append(append([]int{}, n.hist...), oi)
					_, ref, _, bad := replay(h)
					transitions++
					if bad != "" {
						c.Violation("bounded-cache-differs-from-lru-reference", bad, map[string]any{"kind": "cache", "cap": capN, "history": h})
						continue
					}
					key := strings.Join(ref, ",")
					if !seen[key] {
						seen[key] = true
						next = append(next, node{h})
					}
				}
			}
			frontier = next
		}
		states += int64(len(seen))
	}
	c.Count(transitions, states, transitions)
	c.Part("bounded-cache", map[string]any{"capacities": "1..3", "keys": keys, "operations": []string{"Get", "Set", "Remove"}, "states_to_fixpoint": states, "transitions": transitions, "fixpoint": true})
}

func main() {
	vsched.MapKeyString = func(k any) string { return fmt.Sprint(k) }
	harness.NoEarlyClock = true
	harness.Register("lookup", lookupScenario)
	harness.Register("history", histScenario)
	harness.WorkerMain()
	c := harness.Start("C17")
	if c.Replay != "" {
		r, _ := harness.ReplayFile(c.Replay)
		if r != nil && r["kind"] == "cache" {
			fmt.Println("cache histories are replayed by re-running the check (deterministic BFS)")
			os.Exit(0)
		}
		if harness.ReplayExploration(c) {
			os.Exit(1)
		}
		os.Exit(0)
	}
	c.Rule = "lookup part: one case = one interleaving of a lookup (receive loop, two sender goroutines, retransmission and timeout timers, upstream threads) for a script {UDP behaviour of the A and AAAA query, TCP behaviours, arrival order, transports enabled}; history part: lookups and waits around TTL boundaries on the virtual clock; cache part: BoundedCache to fixpoint"
	c.Assumptions = []string{"real direct UDP client on loopback with scheduler-mediated readiness; TCP client is a stub over in-memory connections", "poisoned datagrams carry addresses that no acceptable response carries", "expiry bound = smallest TTL of the accepted answers if the result has answers, else the negative (SOA TTL) or failure (30 s) caching time; unexpired entries need not be served from cache", "timers fire at quiescence"}
	c.SigOf = func(name, param, msg string) string {
		if name == "history" {
			if i := strings.Index(msg, ": "); i > 0 && strings.HasPrefix(msg, "step ") {
				msg = msg[i+2:]
			}
			if strings.HasPrefix(msg, "cached result for") {
				msg = "cached result reused past the smallest TTL / negative caching time"
			}
			return "history(" + param + "): " + msg
		}
		return name + "(" + param + "): " + msg
	}
	// part 1: scripts with <= 2 non-default behaviours
	var params []string
	add := func(s script) { params = append(params, s.String()) }
	for _, tr := range [][2]bool{{true, true}, {true, false}, {false, true}} {
		udp, tcp := tr[0], tr[1]
		base := script{u4: "valid", u6: "valid", t4: "valid", t6: "valid", order: "46", ttl4: 60, ttl6: 60, udp: udp, tcp: tcp}
		add(base)
		for _, b := range behaviours[1:] {
			for _, order := range []string{"46", "64"} {
				s := base
				s.order = order
				if udp {
					s.u4 = b
					add(s)
					s = base
					s.order = order
					s.u6 = b
					add(s)
				}
			}
			if tcp {
				tb := b
				if b == "wrongsrc" {
					tb = "closemid"
				}
				s := base
				if udp {
					s.u4, s.u6 = "silence", "truncated" // force the TCP path
				}
				s.t4 = tb
				add(s)
				s.t4, s.t6 = "valid", tb
				add(s)
			}
		}
		// a second, different message for the query that was answered first (same ID), before the other answer
		for _, d := range []string{"servfail", "notresp", "ra0", "nxdomain"} {
			for _, order := range []string{"46", "64"} {
				s := base
				s.order, s.dup = order, d
				add(s)
				if udp && tcp {
					s.u4, s.u6 = "silence", "truncated" // the same on the TCP path
					add(s)
				}
			}
		}
		if tcp {
			// responses that reach the resolver in several reads (segment boundaries inside a message)
			for _, ch := range []int{1, 5, 31} {
				s := base
				if udp {
					s.u4, s.u6 = "silence", "truncated"
				}
				s.chunk = ch
				add(s)
				s.t6 = "nxdomain"
				add(s)
			}
		}
		if c.Thorough() && udp {
			for _, b1 := range behaviours[1:] {
				for _, b2 := range behaviours[1:] {
					s := base
					s.u4, s.u6 = b1, b2
					add(s)
					s.order = "64"
					add(s)
				}
			}
		}
	}
	sort.Strings(params)
	for i, r := range harness.ExploreBatch("lookup", params, harness.Pick(c, 1, 2), harness.Pick(c, 20*time.Second, 2*time.Minute), true) {
		if i%15 == 0 {
			c.Sample(map[string]any{"script": r.Param, "executions": r.Stats.Execs, "observations": len(r.Stats.Observations)})
		}
		c.AddExploration("lookup", r.Param, r.Stats, harness.Confirm(lookupScenario(r.Param)))
	}
	// part 2: TTL histories
	var hists []string
	kinds := []string{"valid", "cname", "nxdomain", "nodata", "servfail"}
	for _, b4 := range kinds {
		for _, b6 := range kinds {
			for _, order := range []string{"46", "64"} {
				for _, ttls := range [][2]int{{10, 40}, {40, 10}} {
					bound := 0
					_ = bound
					for _, w := range []int{9, 11, 29, 31, 39, 41} {
						hists = append(hists, fmt.Sprintf("cap=2;ops=L:a:%s:%d:%s:%d:%s,W:%d,L:a:%s:%d:%s:%d:%s", b4, ttls[0], b6, ttls[1], order, w, b4, ttls[0], b6, ttls[1], order))
					}
				}
			}
		}
	}
	// capacity: two names with capacity 1 and 2
	for _, capN := range []int{1, 2, 3} {
		hists = append(hists, fmt.Sprintf("cap=%d;ops=L:a:valid:60:valid:60:46,L:b:valid:60:valid:60:46,L:a:valid:60:valid:60:46,W:61,L:b:valid:60:valid:60:46", capN))
	}
	for i, r := range harness.ExploreBatch("history", hists, 0, harness.Pick(c, 20*time.Second, 5*time.Minute), true) {
		if i%40 == 0 {
			c.Sample(map[string]any{"history": r.Param, "executions": r.Stats.Execs})
		}
		c.AddExploration("history", r.Param, r.Stats, harness.Confirm(histScenario(r.Param)))
	}
	cacheBFS(c)
	c.Extra["lookup_scripts"] = len(params)
	c.Extra["ttl_histories"] = len(hists)
	c.Finish()
}
