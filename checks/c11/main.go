// C11: relayed UDP datagrams reach the named destination; replies return to
// the sender.  The real relay services (built from JSON through
// service.Config.Manager, generic and recvmmsg/sendmmsg paths) run on real
// loopback sockets whose readiness is mediated by the controlled scheduler;
// N concurrent sessions to IP and domain targets, a garbage datagram and a
// client address change are explored within a deviation bound.
package main

import (
	"context"
	"fmt"
	"net/netip"
	"os"
	"sort"
	"strings"
	"time"

	"github.com/database64128/shadowsocks-go/conn"

	"verif/harness"
	"verif/lib/udpenv"
	"verif/shim/vrand"
	"verif/vnet/vudp"
	"verif/vsched"
)

type spec struct {
	server   string // direct none socks5 ss2022
	batch    string // no sendmmsg
	targets  string // ip domain mixed
	n        int    // sessions
	per      int    // datagrams per session
	garbage  bool
	rebind   bool   // session 0 changes its source port before its last datagram
	sameIP   bool   // all clients share one IP address and differ only in the source port
	oversize bool   // each reply is preceded by a datagram the downlink must skip (too large for the client)
	client   string // outgoing client of the relay: direct (real targets), none or ss2022 (harness upstream proxy)
	wild     bool   // wildcard listener; session i talks to it through local address 127.A.B.(1+i%2)
}

func (s spec) String() string {
	return fmt.Sprintf("server=%s;batch=%s;targets=%s;n=%d;per=%d;garbage=%v;rebind=%v;sameip=%v;oversize=%v;client=%s%s", s.server, s.batch, s.targets, s.n, s.per, s.garbage, s.rebind, s.sameIP, s.oversize, s.client, map[bool]string{true: ";wild=true"}[s.wild])
}

func parse(p string) spec {
	var s spec
	for _, kv := range strings.Split(p, ";") {
		k, v, _ := strings.Cut(kv, "=")
		switch k {
		case "server":
			s.server = v
		case "batch":
			s.batch = v
		case "targets":
			s.targets = v
		case "n":
			fmt.Sscan(v, &s.n)
		case "per":
			fmt.Sscan(v, &s.per)
		case "garbage":
			s.garbage = v == "true"
		case "rebind":
			s.rebind = v == "true"
		case "sameip":
			s.sameIP = v == "true"
		case "oversize":
			s.oversize = v == "true"
		case "wild":
			s.wild = v == "true"
		case "client":
			s.client = v
		}
	}
	return s
}

type reply struct {
	Payload string
	Src     string
	Err     string
}

func scenario(param string) vsched.Scenario {
	sp := parse(param)
	return func() (func(), func(*vsched.Exec) (string, string)) {
		var (
			targets                []*udpenv.Target
			replies                = make([][]reply, sp.n)
			sent                   = make([][]string, sp.n)
			buildErr               error
			tableAfterGarbage      = -2
			relaySocksAfterGarbage = -1
			leak                   vudp.Report
			stopped                bool
			env                    *udpenv.Env
			wantT                  = make([]int, sp.n) // target index of session i
			mustNotArrive          = map[string]bool{}
			upstream               *udpenv.UpstreamProxy
			wantTargetStr          = make([]string, sp.n)
		)
		body := func() {
			var err error
			env, err = udpenv.New(udpenv.Spec{Server: sp.server, Batch: sp.batch, Client: sp.client, Wildcard: sp.wild})
			if err != nil {
				buildErr = err
				return
			}
			vudp.Hosts = map[string][]netip.Addr{}
			nT := 2
			if sp.server == "direct" {
				nT = 1
			}
			for i := 0; i < nT; i++ {
				t := env.NewTarget(1 + i)
				t.OversizeFirst = sp.oversize
				targets = append(targets, t)
				vudp.Hosts[fmt.Sprintf("t%d.test", i)] = []netip.Addr{t.Addr.Addr()}
			}
			if err := env.Start(context.Background()); err != nil {
				buildErr = err
				return
			}
			var tg, cg vsched.Group
			if sp.client != "direct" {
				// the relay's outgoing client talks to a harness upstream proxy; the "targets" are only names
				for _, t := range targets {
					t.Close()
				}
				upstream = env.NewUpstream()
				tg.Go(upstream.Serve)
			} else {
				for _, t := range targets {
					tg.Go(t.Serve)
				}
			}
			if sp.garbage {
				// garbage from an address that never sends anything valid
				g := env.NewClient(9, 0)
				g.SendRaw([]byte{0xde, 0xad, 0xbe, 0xef, 1, 2, 3})
				g.SendRaw([]byte{})
				if sp.server == "ss2022" {
					junk := make([]byte, 64)
					for i := range junk {
						junk[i] = byte(i * 7)
					}
					g.SendRaw(junk)
				}
				vsched.WaitIdle()
				tableAfterGarbage = env.TableLen()
				relaySocksAfterGarbage = vudp.OpenRelaySockets()
				g.Close()
			}
			for i := 0; i < sp.n; i++ {
				ti := i % nT
				wantT[i] = ti
				var target conn.Addr
				useDomain := sp.targets == "domain" || sp.targets == "domainfail" || (sp.targets == "mixed" && i%2 == 1)
				if useDomain {
					target = conn.MustAddrFromDomainPort(fmt.Sprintf("t%d.test", ti), 7000)
				} else {
					target = conn.AddrFromIPPort(targets[ti].Addr)
				}
				wantTargetStr[i] = target.String()
				cg.Go(func() {
					c := env.NewClient(i, 0)
					if sp.wild {
						c.Close()
						c = env.NewClientVia(i, byte(1+i%2))
					}
					if sp.sameIP {
						c.Close()
						c = env.NewClientAt(i, 10, uint16(10+i))
					}
					for k := 0; k < sp.per; k++ {
						if sp.rebind && i == 0 && k == sp.per-1 && sp.per > 1 {
							c.Rebind(1)
						}
						p := fmt.Sprintf("s%d#%d", i, k)
						if sp.targets == "domainfail" && k > 0 {
							// later datagrams of the session go to a name that does not resolve
							p = fmt.Sprintf("x%d#%d", i, k)
							mustNotArrive[p] = true
							c.Send(conn.MustAddrFromDomainPort("unresolvable.test", 7000), []byte(p))
							continue
						}
						if err := c.Send(target, []byte(p)); err != nil {
							replies[i] = append(replies[i], reply{Err: "send: " + err.Error()})
							continue
						}
						sent[i] = append(sent[i], p)
					}
					for k := 0; k < len(sent[i]); k++ {
						src, pl, err := c.Recv(0)
						if err != nil {
							replies[i] = append(replies[i], reply{Err: errClass(err)})
							break
						}
						replies[i] = append(replies[i], reply{Payload: string(pl), Src: src.String()})
					}
					c.Close()
				})
			}
			cg.Wait()
			env.Stop()
			stopped = true
			if upstream != nil {
				upstream.Close()
			} else {
				for _, t := range targets {
					t.Close()
				}
			}
			tg.Wait()
			leak = vudp.Finish()
		}
		check := func(e *vsched.Exec) (string, string) {
			var tp []string
			for _, t := range targets {
				tp = append(tp, t.Payloads())
			}
			if upstream != nil {
				for _, g := range upstream.Got {
					tp = append(tp, fmt.Sprintf("up:%q>%s", g.Payload, g.Target))
				}
			}
			obs := fmt.Sprintf("targets=%v replies=%q garbageTable=%d stopped=%v leak=%v", tp, replies, tableAfterGarbage, stopped, leak.RelayLeaked)
			if env != nil {
				obs = env.Canon(obs)
			}
			if buildErr != nil {
				return obs, "harness: cannot build/start services: " + buildErr.Error()
			}
			if len(e.Panics) > 0 {
				return obs, "panic: " + e.Panics[0]
			}
			if e.Deadlock || e.HorizonHit {
				bl := strings.Join(e.Blocked, " ")
				if strings.Contains(bl, "client") && strings.Contains(bl, ".ReadFrom") && !strings.Contains(bl, "wg.Wait") {
					return obs, "a session never received the reply to one of its datagrams (client blocked for ever)"
				}
				return obs, "deadlock or no termination: " + bl
			}
			if sp.garbage {
				if tableAfterGarbage != 0 {
					return obs, fmt.Sprintf("datagrams that fail to parse/authenticate created %d session table entries", tableAfterGarbage)
				}
				if relaySocksAfterGarbage != 1 {
					return obs, fmt.Sprintf("datagrams that fail to parse/authenticate left %d relay sockets open (1 listener expected)", relaySocksAfterGarbage)
				}
			}
			if upstream != nil {
				seen := map[string]int{}
				for _, g := range upstream.Got {
					seen[g.Payload]++
					if mustNotArrive[g.Payload] {
						return obs, fmt.Sprintf("datagram %q, addressed to a name that does not resolve, was sent to the upstream proxy", g.Payload)
					}
					var si, k int
					if _, err := fmt.Sscanf(g.Payload, "s%d#%d", &si, &k); err != nil || si >= sp.n {
						return obs, fmt.Sprintf("upstream proxy received a datagram nobody sent: %q", g.Payload)
					}
					if g.Target != wantTargetStr[si] {
						return obs, fmt.Sprintf("datagram %q of session %d left the relay with destination %s inside, the client addressed it to %s", g.Payload, si, g.Target, wantTargetStr[si])
					}
				}
				for i := 0; i < sp.n; i++ {
					want := map[string]bool{}
					for _, p := range sent[i] {
						if seen[p] != 1 {
							return obs, fmt.Sprintf("datagram %q of session %d reached the upstream proxy %d times", p, i, seen[p])
						}
						want["echo:"+p] = true
					}
					for _, r := range replies[i] {
						if r.Err != "" {
							return obs, fmt.Sprintf("session %d did not get its reply: %s", i, r.Err)
						}
						if !want[r.Payload] {
							return obs, fmt.Sprintf("session %d received %q, which is not a reply to it", i, r.Payload)
						}
						delete(want, r.Payload)
						wantSrc := wantTargetStr[i]
						if !strings.HasPrefix(wantSrc, "127.") {
							wantSrc = "203.0.113.9:7000" // the upstream's claimed source for domain destinations
						}
						if sp.server != "direct" && r.Src != wantSrc {
							return obs, fmt.Sprintf("session %d: reply carries source %s, the upstream attached %s", i, r.Src, wantSrc)
						}
					}
					if len(want) > 0 {
						return obs, fmt.Sprintf("session %d is missing %d replies", i, len(want))
					}
				}
				if !stopped {
					return obs, "Stop did not return"
				}
				if len(leak.RelayLeaked) > 0 {
					return obs, fmt.Sprintf("relay sockets still open after Stop: %v", leak.RelayLeaked)
				}
				return obs, ""
			}
			// every datagram seen by a target belongs to a session addressed to it; everything sent arrives once
			for ti, t := range targets {
				seen := map[string]int{}
				for _, g := range t.Got {
					seen[g.Payload]++
					if mustNotArrive[g.Payload] {
						return obs, fmt.Sprintf("datagram %q, addressed to a name that does not resolve, was sent to target %d", g.Payload, ti)
					}
					var si, k int
					if _, err := fmt.Sscanf(g.Payload, "s%d#%d", &si, &k); err != nil || si >= sp.n {
						return obs, fmt.Sprintf("target %d received a datagram nobody sent: %q", ti, g.Payload)
					}
					if wantT[si] != ti {
						return obs, fmt.Sprintf("datagram %q of session %d, addressed to target %d, was sent to target %d", g.Payload, si, wantT[si], ti)
					}
				}
				for p, n := range seen {
					if n > 1 {
						return obs, fmt.Sprintf("target %d received %q %d times", ti, p, n)
					}
				}
			}
			for i := 0; i < sp.n; i++ {
				t := targets[wantT[i]]
				got := map[string]bool{}
				for _, g := range t.Got {
					got[g.Payload] = true
				}
				for _, p := range sent[i] {
					if !got[p] {
						return obs, fmt.Sprintf("datagram %q of session %d never reached its target", p, i)
					}
				}
				// replies: exactly the echoes of this session, true source attached
				want := map[string]bool{}
				for _, p := range sent[i] {
					want["echo:"+p] = true
				}
				for _, r := range replies[i] {
					if r.Err != "" {
						return obs, fmt.Sprintf("session %d did not get its reply: %s", i, r.Err)
					}
					if !want[r.Payload] {
						return obs, fmt.Sprintf("session %d received %q, which is not a reply to it", i, r.Payload)
					}
					delete(want, r.Payload)
					if sp.server != "direct" && r.Src != t.Addr.String() {
						return obs, fmt.Sprintf("session %d: reply carries source %s, true source is %s", i, r.Src, t.Addr)
					}
				}
				if len(want) > 0 {
					return obs, fmt.Sprintf("session %d is missing %d replies", i, len(want))
				}
			}
			if !stopped {
				return obs, "Stop did not return"
			}
			if len(leak.RelayLeaked) > 0 {
				return obs, fmt.Sprintf("relay sockets still open after Stop: %v", leak.RelayLeaked)
			}
			return obs, ""
		}
		return body, func(e *vsched.Exec) (string, string) {
			o, m := check(e)
			if env != nil {
				o, m = env.Canon(o), env.Canon(m)
			}
			return o, m
		}
	}
}

func errClass(err error) string {
	s := err.Error()
	switch {
	case strings.Contains(s, "i/o timeout") || strings.Contains(s, "deadline"):
		return "timeout waiting for reply"
	case strings.Contains(s, "unpack"):
		return "reply does not unpack: " + s
	}
	return s
}

// portsScenario: one session sends to the same host name on alternating ports (two services of one host).
// Each datagram must arrive at the socket bound to the port it names, and each reply must carry that socket's
// address as its source.
func portsScenario(param string) vsched.Scenario {
	sp := parse(param)
	return func() (func(), func(*vsched.Exec) (string, string)) {
		var (
			env      *udpenv.Env
			buildErr error
			ta, tb   *udpenv.Target
			replies  []string
			stopped  bool
		)
		body := func() {
			var err error
			env, err = udpenv.New(udpenv.Spec{Server: sp.server, Batch: sp.batch, Client: "direct"})
			if err != nil {
				buildErr = err
				return
			}
			ta, tb = env.NewTargetAt(1, 7000), env.NewTargetAt(1, 7001)
			vudp.Hosts = map[string][]netip.Addr{"svc.test": {ta.Addr.Addr()}}
			if err := env.Start(context.Background()); err != nil {
				buildErr = err
				return
			}
			var tg vsched.Group
			tg.Go(ta.Serve)
			tg.Go(tb.Serve)
			c := env.NewClient(0, 0)
			for k, port := range []uint16{7000, 7001, 7000, 7001} {
				p := fmt.Sprintf("q%d:%d", k, port)
				if err := c.Send(conn.MustAddrFromDomainPort("svc.test", port), []byte(p)); err != nil {
					replies = append(replies, "send: "+err.Error())
					continue
				}
				src, pl, err := c.Recv(0)
				if err != nil {
					replies = append(replies, "recv: "+errClass(err))
					continue
				}
				replies = append(replies, fmt.Sprintf("%s from :%d", pl, src.Port()))
			}
			c.Close()
			env.Stop()
			stopped = true
			ta.Close()
			tb.Close()
			tg.Wait()
			vudp.Finish()
		}
		check := func(e *vsched.Exec) (string, string) {
			obs := fmt.Sprintf("a=[%s] b=[%s] replies=%q stopped=%v", ta.Payloads(), tb.Payloads(), replies, stopped)
			if buildErr != nil {
				return obs, "harness: cannot build/start services: " + buildErr.Error()
			}
			if len(e.Panics) > 0 {
				return obs, "panic: " + e.Panics[0]
			}
			if e.Deadlock || e.HorizonHit {
				return obs, "a datagram sent to one port of a host name never got its reply (or the run did not terminate): " + env.Canon(strings.Join(e.Blocked, " "))
			}
			if ta.Payloads() != `"q0:7000","q2:7000"` || tb.Payloads() != `"q1:7001","q3:7001"` {
				return obs, fmt.Sprintf("datagrams addressed to ports 7000 and 7001 of one host name arrived as port 7000: [%s], port 7001: [%s]", ta.Payloads(), tb.Payloads())
			}
			want := []string{"echo:q0:7000 from :7000", "echo:q1:7001 from :7001", "echo:q2:7000 from :7000", "echo:q3:7001 from :7001"}
			if sp.server == "direct" {
				return obs, "" // a tunnel server has one fixed target; not part of this family
			}
			if fmt.Sprint(replies) != fmt.Sprint(want) {
				return obs, fmt.Sprintf("replies %q, want %q", replies, want)
			}
			return obs, ""
		}
		return body, check
	}
}

func portsFamily() []string {
	var out []string
	for _, sv := range []string{"none", "socks5", "ss2022"} {
		for _, b := range []string{"no", "sendmmsg"} {
			out = append(out, spec{server: sv, batch: b, client: "direct"}.String())
		}
	}
	return out
}

func family(c *harness.Check) []string {
	var out []string
	servers := []string{"none", "socks5", "ss2022", "ss2022mu", "direct"} // ss2022mu: multi-user server (identity headers), sessions of two users
	for _, sv := range servers {
		for _, b := range []string{"no", "sendmmsg"} {
			tk := []string{"ip", "domain", "mixed"}
			if sv == "direct" {
				tk = []string{"ip"}
			}
			for _, t := range tk {
				out = append(out, spec{sv, b, t, 2, 1, false, false, false, false, "direct", false}.String())
				if c.Thorough() || t == "domain" {
					out = append(out, spec{sv, b, t, 2, 2, false, false, false, false, "direct", false}.String())
					out = append(out, spec{sv, b, t, 3, 1, false, false, false, false, "direct", false}.String())
				}
			}
			if sv != "direct" {
				// a tunnel server has no framing: every datagram is a valid payload for the fixed target
				out = append(out, spec{sv, b, "ip", 1, 2, true, false, false, false, "direct", false}.String())
				// a datagram the downlink must skip arrives right before each genuine reply (same receive batch)
				out = append(out, spec{sv, b, "ip", 1, 2, false, false, false, true, "direct", false}.String())
				// a resolvable domain first, then datagrams to a name whose lookup fails
				out = append(out, spec{sv, b, "domainfail", 1, 3, false, false, false, false, "direct", false}.String())
				out = append(out, spec{sv, b, "domainfail", 2, 2, false, false, false, false, "direct", false}.String())
				// two clients behind one IP address (a NAT): sessions must be told apart by port
				out = append(out, spec{sv, b, "ip", 2, 2, false, false, true, false, "direct", false}.String())
			}
			// a wildcard listener reached through two local addresses: each session's replies leave from its own
			out = append(out, spec{sv, b, "ip", 2, 2, false, false, false, false, "direct", true}.String())
			if sv == "ss2022" {
				out = append(out, spec{sv, b, "ip", 1, 2, false, true, false, false, "direct", false}.String())
				out = append(out, spec{sv, b, "mixed", 2, 2, false, true, false, false, "direct", false}.String())
			}
		}
	}
	// outgoing clients other than direct: the datagram must leave towards the upstream proxy with T inside
	for _, sv := range []string{"none", "socks5", "ss2022"} {
		for _, cl := range []string{"none", "ss2022"} {
			for _, b := range []string{"no", "sendmmsg"} {
				if !c.Thorough() && b == "sendmmsg" && sv != "ss2022" {
					continue
				}
				for _, t := range []string{"ip", "domain"} {
					out = append(out, spec{sv, b, t, 2, 1, false, false, false, false, cl, false}.String())
				}
				out = append(out, spec{sv, b, "mixed", 2, 2, false, false, false, false, cl, false}.String())
			}
		}
	}
	sort.Strings(out)
	return out
}

func main() {
	vrand.Hook = func(n int) int { return 0 }
	vsched.MapKeyString = func(k any) string {
		if ap, ok := k.(netip.AddrPort); ok {
			return fmt.Sprint(ap.Addr().As4()[3], ":", ap.Port())
		}
		return fmt.Sprint(k)
	}
	harness.NoEarlyClock = true // C11 does not quantify over timer orders; timeouts are C12's subject
	harness.Register("udp", scenario)
	harness.Register("udpports", portsScenario)
	harness.WorkerMain()
	c := harness.Start("C11")
	if c.Replay != "" {
		if harness.ReplayExploration(c) {
			os.Exit(1)
		}
		os.Exit(0)
	}
	c.Rule = "one case = one interleaving of the relay's threads (server receive loop, per-session init/downlink and uplink), N harness clients, echo targets and the resolver, for a scenario {server protocol (incl. multi-user ss2022), batch mode, IP/domain targets, sessions, datagrams per session, garbage, client address change, clients behind one IP, oversize replies, wildcard listener, outgoing client}; udpports: one session to two ports of one host name; distinct = distinct observation record"
	c.Assumptions = []string{"real loopback sockets; a blocking read is enabled only when poll() reports a queued datagram, deadlines are virtual; loopback delivery is synchronous with sendto (measured)", "outgoing client: the direct client, or a none / ss2022 client towards a harness upstream proxy", "SOCKS5 server is driven at the UDP level (the TCP association is not part of the UDP relay service)", "delay-bounded exploration; bound reported per scenario"}
	params := family(c)
	for i, r := range harness.ExploreBatch("udp", params, harness.Pick(c, 1, 2), harness.Pick(c, 25*time.Second, 3*time.Minute), true) {
		if i%7 == 0 {
			c.Sample(map[string]any{"scenario": r.Param, "executions": r.Stats.Execs, "observations": len(r.Stats.Observations), "bound": r.Stats.BoundCompleted})
		}
		c.AddExploration("udp", r.Param, r.Stats, harness.Confirm(scenario(r.Param)))
	}
	for _, r := range harness.ExploreBatch("udpports", portsFamily(), harness.Pick(c, 1, 2), harness.Pick(c, 25*time.Second, 3*time.Minute), true) {
		c.AddExploration("udpports", r.Param, r.Stats, harness.Confirm(portsScenario(r.Param)))
	}
	c.Extra["scenarios"] = len(params) + len(portsFamily())
	c.Finish()
}
