// C20: a crash or write failure while saving credentials never destroys the
// store.  Part 1: enumeration of every crash point (every prefix of the logged
// file operations of a save, every byte count of every write) and of every
// injected write failure, each followed by a real restart (RegisterServer).
// Part 2: all interleavings (deviation-bounded) of the debounce/shutdown
// protocol with cancellation at every phase.
package main

import (
	"encoding/base64"
	"encoding/json"
	"fmt"
	"os"
	"path/filepath"
	"sort"
	"strings"
	"time"

	"github.com/database64128/shadowsocks-go/cred"
	"go.uber.org/zap"

	"verif/harness"
	vcontext "verif/shim/vcontext"
	"verif/shim/vos"
	"verif/vsched"
)

func key(i int) []byte {
	b := make([]byte, 16)
	for j := range b {
		b[j] = byte(i*16 + j)
	}
	return b
}

func userName(i int) string { return fmt.Sprintf("user%d", i) }

func doc(users map[string][]byte) []byte {
	m := map[string]string{}
	for u, k := range users {
		m[u] = base64.StdEncoding.EncodeToString(k)
	}
	b, _ := json.MarshalIndent(m, "", "    ")
	return append(b, '\n')
}

func setString(users map[string][]byte) string {
	var ks []string
	for u, k := range users {
		ks = append(ks, u+"="+base64.StdEncoding.EncodeToString(k))
	}
	sort.Strings(ks)
	return "{" + strings.Join(ks, ",") + "}"
}

func credSet(ms *cred.ManagedServer) map[string][]byte {
	m := map[string][]byte{}
	for _, uc := range ms.Credentials() {
		m[uc.Name] = uc.UPSK
	}
	return m
}

func register(path string) (*cred.ManagedServer, error) {
	return cred.NewManager(zap.NewNop()).RegisterServer("s", path, 16, nil, nil)
}

type change struct {
	kind string // add update delete
}

func applyChange(ms *cred.ManagedServer, ch string, n int) error {
	switch ch {
	case "add":
		return ms.AddCredential(userName(n), key(n+7))
	case "update":
		return ms.UpdateCredential(userName(0), key(9))
	case "delete":
		return ms.DeleteCredential(userName(0))
	}
	return nil
}

// fsState is a directory as name -> content.
type fsState map[string][]byte

func (s fsState) clone() fsState {
	c := fsState{}
	for k, v := range s {
		c[k] = append([]byte(nil), v...)
	}
	return c
}

// applyOp applies a logged op; for writes only the first k bytes persist (k<0: all).
func applyOp(s fsState, op vos.Op, k int) {
	switch op.Kind {
	case "open":
		if _, ok := s[op.Name]; !ok && op.Create {
			s[op.Name] = nil
		}
		if op.Trunc {
			s[op.Name] = nil
		}
	case "write":
		d := op.Data
		if k >= 0 && k < len(d) {
			d = d[:k]
		}
		s[op.Name] = append(s[op.Name], d...)
	case "rename":
		s[op.To] = s[op.Name]
		delete(s, op.Name)
	case "remove":
		delete(s, op.Name)
	}
}

func materialise(dir string, s fsState) {
	os.RemoveAll(dir)
	os.MkdirAll(dir, 0o755)
	for name, content := range s {
		os.WriteFile(filepath.Join(dir, filepath.Base(name)), content, 0o644)
	}
}

type crashCase struct {
	Users       int    `json:"users"`
	Change      string `json:"change"`
	OpIndex     int    `json:"op_index"`     // ops fully applied before the crash
	Partial     int    `json:"partial"`      // bytes of op[OpIndex] persisted (-1: none of it started)
	Fault       bool   `json:"fault"`        // write failure instead of crash
	RenameFault bool   `json:"rename_fault"` // the rename into place fails
}

// runCrashCase returns (signature, message) if the store is destroyed.
func runCrashCase(c crashCase, work string) (string, string, int) {
	transitions := 0
	initial := map[string][]byte{}
	for i := 0; i < c.Users; i++ {
		initial[userName(i)] = key(i)
	}
	live := filepath.Join(work, "live")
	os.RemoveAll(live)
	os.MkdirAll(live, 0o755)
	path := filepath.Join(live, "upsks.json")
	os.WriteFile(path, doc(initial), 0o644)
	ms, err := register(path)
	if err != nil {
		harness.Fatal("initial register: %v", err)
	}
	prev := credSet(ms)
	if err := applyChange(ms, c.Change, c.Users); err != nil {
		return "", "", 0 // change not applicable (e.g. delete on empty store)
	}
	next := credSet(ms)
	rec := vos.NewRecorder()
	if c.Fault {
		rec.FailWriteIndex, rec.FailWriteAt = 0, c.Partial
	}
	rec.FailRename = c.RenameFault
	vos.Rec = rec
	saveErr := ms.VerifSaveNow()
	vos.Rec = nil
	transitions++
	where := fmt.Sprintf("store of %d users, change %q", c.Users, c.Change)
	checkDir := func(dir, when string) (string, string) {
		ms2, err := register(filepath.Join(dir, "upsks.json"))
		transitions++
		if err != nil {
			return "store-unloadable-after-" + when, fmt.Sprintf("%s: after %s the store file cannot be loaded at restart: %v", where, when, err)
		}
		got := setString(credSet(ms2))
		if got != setString(prev) && got != setString(next) {
			return "store-loads-neither-previous-nor-new-users-after-" + when, fmt.Sprintf("%s: after %s a restart loads %s, which is neither the previous set %s nor the new set %s", where, when, got, setString(prev), setString(next))
		}
		return "", ""
	}
	if c.RenameFault {
		renamed := false
		for _, o := range rec.Ops {
			if o.Kind == "rename" {
				renamed = true
			}
		}
		_ = renamed
		if saveErr == nil {
			// the save path does not rename (or ignored the failure): the store must then hold the new set
			if sig, msg := checkDir(live, "a failed rename that the save did not report"); sig != "" {
				return sig, msg, transitions
			}
			return "", "", transitions
		}
		if sig, msg := checkDir(live, "a failed rename into place"); sig != "" {
			return sig, msg, transitions
		}
		if err := ms.VerifSaveNow(); err != nil {
			return "save-after-rename-error-fails", where + ": save after a failed rename fails: " + err.Error(), transitions
		}
		ms3, err := register(path)
		transitions++
		if err != nil || setString(credSet(ms3)) != setString(next) {
			return "save-after-rename-error-wrong", fmt.Sprintf("%s: after a failed then a successful save a restart does not load the new set: %v", where, err), transitions
		}
		return "", "", transitions
	}
	if c.Fault {
		if saveErr == nil {
			if c.Partial >= len(doc(next)) {
				return "", "", transitions
			}
			return "write-error-not-reported", where + ": injected write failure was swallowed by the save", transitions
		}
		if sig, msg := checkDir(live, fmt.Sprintf("a write error (ENOSPC after %d bytes)", c.Partial)); sig != "" {
			return strings.Split(sig, "(")[0] + "write-error", msg, transitions
		}
		// a later save without the fault must succeed and leave the new set
		if err := ms.VerifSaveNow(); err != nil {
			return "save-after-write-error-fails", where + ": save after a failed save fails: " + err.Error(), transitions
		}
		ms3, err := register(path)
		transitions++
		if err != nil || setString(credSet(ms3)) != setString(next) {
			return "save-after-write-error-wrong", fmt.Sprintf("%s: after a failed then a successful save a restart does not load the new set: %v", where, err), transitions
		}
		return "", "", transitions
	}
	if saveErr != nil {
		harness.Fatal("save failed without fault: %v", saveErr)
	}
	// crash: state after OpIndex ops (+ partial bytes of the next one if it is a write)
	s := fsState{path: doc(initial)}
	if c.OpIndex > len(rec.Ops) {
		return "", "", transitions
	}
	for i := 0; i < c.OpIndex; i++ {
		applyOp(s, rec.Ops[i], -1)
	}
	when := fmt.Sprintf("a crash after file operation %d of %d", c.OpIndex, len(rec.Ops))
	if c.Partial >= 0 {
		if c.OpIndex >= len(rec.Ops) || rec.Ops[c.OpIndex].Kind != "write" || c.Partial > len(rec.Ops[c.OpIndex].Data) {
			return "", "", transitions
		}
		applyOp(s, rec.Ops[c.OpIndex], c.Partial)
		when = fmt.Sprintf("a crash %d bytes into write operation %d of %d", c.Partial, c.OpIndex, len(rec.Ops))
	}
	crashDir := filepath.Join(work, "crash")
	materialise(crashDir, s)
	sig, msg := checkDir(crashDir, "a crash during the save")
	if sig != "" {
		return sig, msg + " (" + when + "; operations: " + opsString(rec.Ops) + ")", transitions
	}
	// life goes on in the directory the crash left behind (whatever scratch files it contains): the restarted
	// server takes one more change, saves it, and the next restart must load exactly that
	crashPath := filepath.Join(crashDir, "upsks.json")
	ms4, err := register(crashPath)
	transitions++
	if err != nil {
		return "", "", transitions // reported above
	}
	if err := ms4.AddCredential("after-crash", []byte("after-crash-key!")); err != nil {
		harness.Fatal("change after the crash: %v", err)
	}
	wantAfter := setString(credSet(ms4))
	if err := ms4.VerifSaveNow(); err != nil {
		return "first-save-after-crash-fails", fmt.Sprintf("%s: after %s the restarted server's first save fails (%v): an acknowledged change is not written (operations of the interrupted save: %s)", where, when, err, opsString(rec.Ops)), transitions
	}
	ms5, err := register(crashPath)
	transitions++
	if err != nil || setString(credSet(ms5)) != wantAfter {
		return "first-save-after-crash-wrong", fmt.Sprintf("%s: after %s, one more change and a save, a restart does not load the new set: %v", where, when, err), transitions
	}
	return "", "", transitions
}

func opsString(ops []vos.Op) string {
	var p []string
	for _, o := range ops {
		switch o.Kind {
		case "open":
			p = append(p, fmt.Sprintf("open(%s,trunc=%v)", filepath.Base(o.Name), o.Trunc))
		case "write":
			p = append(p, fmt.Sprintf("write(%s,%dB)", filepath.Base(o.Name), len(o.Data)))
		case "rename":
			p = append(p, fmt.Sprintf("rename(%s->%s)", filepath.Base(o.Name), filepath.Base(o.To)))
		default:
			p = append(p, o.Kind+"("+filepath.Base(o.Name)+")")
		}
	}
	return strings.Join(p, " ")
}

func crashPart(c *harness.Check) {
	work, _ := os.MkdirTemp("", "c20")
	defer os.RemoveAll(work)
	maxUsers := harness.Pick(c, 3, 5)
	var cases, trans int64
	for n := 0; n <= maxUsers; n++ {
		for _, ch := range []string{"add", "update", "delete"} {
			if n == 0 && ch != "add" {
				continue
			}
			// learn the op log length and write sizes from a dry run
			initial := map[string][]byte{}
			for i := 0; i < n; i++ {
				initial[userName(i)] = key(i)
			}
			maxDoc := len(doc(initial)) + 80
			for opi := 0; opi <= 12; opi++ {
				for part := -1; part <= maxDoc; part++ {
					cc := crashCase{Users: n, Change: ch, OpIndex: opi, Partial: part}
					sig, msg, tr := runCrashCase(cc, work)
					if tr > 1 {
						cases++
						trans += int64(tr)
						c.Distinct(fmt.Sprintf("crash|%d|%s|%d|%d", n, ch, opi, part), true)
						if cases%97 == 1 {
							c.Sample(cc)
						}
					}
					if sig != "" {
						c.Violation(sig, msg, map[string]any{"kind": "crash", "case": cc})
					}
				}
			}
			{
				cc := crashCase{Users: n, Change: ch, RenameFault: true}
				sig, msg, tr := runCrashCase(cc, work)
				if tr > 1 {
					cases++
					trans += int64(tr)
					c.Distinct(fmt.Sprintf("renamefault|%d|%s", n, ch), true)
				}
				if sig != "" {
					c.Violation(sig, msg, map[string]any{"kind": "crash", "case": cc})
				}
			}
			for part := 0; part <= maxDoc; part++ {
				cc := crashCase{Users: n, Change: ch, Partial: part, Fault: true}
				sig, msg, tr := runCrashCase(cc, work)
				if tr > 1 {
					cases++
					trans += int64(tr)
					c.Distinct(fmt.Sprintf("fault|%d|%s|%d", n, ch, part), true)
				}
				if sig != "" {
					c.Violation(sig, msg, map[string]any{"kind": "crash", "case": cc})
				}
			}
		}
	}
	c.Count(cases, cases, trans)
	c.Part("crash-points", map[string]any{"stores_users": fmt.Sprintf("0..%d", maxUsers), "changes": []string{"add", "update", "delete"}, "cases": cases, "restarts_and_saves": trans,
		"enumerated": "every prefix of the save's logged file operations x every byte count 0..len of each write (process-kill crash: written bytes persist), and ENOSPC after every byte count of the first write"})
}

// --- shutdown schedules -------------------------------------------------------

var shutdownWork string

func shutdownScenario(param string) vsched.Scenario {
	return func() (func(), func(*vsched.Exec) (string, string)) {
		var fileSet, wantSet string
		var loadErr error
		stopped := false
		body := func() {
			dir := shutdownWork
			if strings.HasPrefix(param, "twoServers") {
				// two managed servers under one manager, each with its own store file
				pa := filepath.Join(dir, "upsks-"+param+"-a.json")
				pb := filepath.Join(dir, "upsks-"+param+"-b.json")
				initial := map[string][]byte{userName(0): key(0)}
				os.WriteFile(pa, doc(initial), 0o644)
				os.WriteFile(pb, doc(initial), 0o644)
				m := cred.NewManager(zap.NewNop())
				msA, err := m.RegisterServer("a", pa, 16, nil, nil)
				if err != nil {
					panic(err)
				}
				msB, err := m.RegisterServer("b", pb, 16, nil, nil)
				if err != nil {
					panic(err)
				}
				ctx, cancel := vcontext.WithCancel(vcontext.Background())
				m.Start(ctx)
				switch param {
				case "twoServersChangeA":
					msA.AddCredential(userName(1), key(1))
				case "twoServersChangeB":
					msB.AddCredential(userName(1), key(1))
				case "twoServersChangeBoth":
					msA.AddCredential(userName(1), key(1))
					msB.DeleteCredential(userName(0))
				case "twoServersChangeASettled":
					msA.AddCredential(userName(1), key(1))
					vsched.Sleep(7 * time.Second)
					vsched.WaitIdle()
				}
				wantSet = setString(credSet(msA)) + "+" + setString(credSet(msB))
				cancel()
				m.Stop()
				stopped = true
				a2, err := register(pa)
				if err != nil {
					loadErr = err
					return
				}
				b2, err := register(pb)
				if err != nil {
					loadErr = err
					return
				}
				fileSet = setString(credSet(a2)) + "+" + setString(credSet(b2))
				return
			}
			path := filepath.Join(dir, "upsks-"+param+".json")
			initial := map[string][]byte{userName(0): key(0)}
			os.WriteFile(path, doc(initial), 0o644)
			ms, err := register(path)
			if err != nil {
				panic(err)
			}
			ctx, cancel := vcontext.WithCancel(vcontext.Background())
			ms.Start(ctx)
			switch param {
			case "queued":
				ms.AddCredential(userName(1), key(1))
			case "cooling":
				ms.AddCredential(userName(1), key(1))
				vsched.Sleep(time.Second)
			case "afterSaveNewChange":
				ms.AddCredential(userName(1), key(1))
				vsched.Sleep(6 * time.Second)
				ms.AddCredential(userName(2), key(2))
			case "changeDuringCooldown":
				ms.AddCredential(userName(1), key(1))
				vsched.Sleep(time.Second)
				ms.UpdateCredential(userName(0), key(5))
			case "deleteQueued":
				ms.DeleteCredential(userName(0))
			case "idle":
				vsched.Sleep(time.Second)
			}
			wantSet = setString(credSet(ms)) // everything acknowledged before shutdown begins
			cancel()
			ms.Stop()
			stopped = true
			ms2, err := register(path)
			if err != nil {
				loadErr = err
				return
			}
			fileSet = setString(credSet(ms2))
		}
		check := func(e *vsched.Exec) (string, string) {
			obs := fmt.Sprintf("stopped=%v file=%s want=%s err=%v", stopped, fileSet, wantSet, loadErr)
			if len(e.Panics) > 0 {
				return obs, "panic: " + e.Panics[0]
			}
			if e.Deadlock || e.HorizonHit {
				return obs, "Stop does not return: " + strings.Join(e.Blocked, " ")
			}
			if loadErr != nil {
				return obs, "store unloadable after Stop: " + loadErr.Error()
			}
			if fileSet != wantSet {
				return obs, "acknowledged changes missing from the file after Stop"
			}
			return obs, ""
		}
		return body, check
	}
}

func main() {
	harness.Register("shutdown", shutdownScenario)
	shutdownWork = harness.TempDir("c20s")
	defer os.RemoveAll(shutdownWork)
	harness.WorkerMain()
	c := harness.Start("C20")
	if c.Replay != "" {
		r, err := harness.ReplayFile(c.Replay)
		if err != nil {
			harness.Fatal("%v", err)
		}
		code := 0
		if r["kind"] == "crash" {
			var cc crashCase
			b, _ := json.Marshal(r["case"])
			json.Unmarshal(b, &cc)
			work, _ := os.MkdirTemp("", "c20")
			sig, msg, _ := runCrashCase(cc, work)
			os.RemoveAll(work)
			if sig != "" {
				fmt.Printf("VIOLATION property=C20 replay=%s\n  %s\n", c.Replay, msg)
				code = 1
			} else {
				fmt.Println("no violation on replay")
			}
		} else if harness.ReplayExploration(c) {
			code = 1
		}
		os.RemoveAll(shutdownWork)
		os.Exit(code)
	}
	c.Rule = "crash part: one case = (store size, change, crash point) where a crash point is a prefix of the save's logged file operations plus a byte count of the next write, or an ENOSPC after k bytes; every case restarts through the real RegisterServer/LoadFromFile. shutdown part: one case = one interleaving of API change(s), debounce timer, cancellation and Stop."
	c.Assumptions = []string{"crash = process kill: bytes handed to write() persist, no power-loss reordering (no fsync requirement is stated)", "file operations of package cred go through verif/shim/vos (overlay), whose WriteFile is open(O_TRUNC)+write+close exactly as os.WriteFile", "debounce runs on the virtual clock"}
	crashPart(c)
	params := []string{"queued", "cooling", "afterSaveNewChange", "changeDuringCooldown", "deleteQueued", "idle", "twoServersChangeA", "twoServersChangeB", "twoServersChangeBoth", "twoServersChangeASettled"}
	for _, r := range harness.ExploreBatch("shutdown", params, harness.Pick(c, 2, 3), harness.Pick(c, 60*time.Second, 5*time.Minute), false) {
		c.Sample(map[string]any{"scenario": "shutdown phase " + r.Param, "executions": r.Stats.Execs, "observations": len(r.Stats.Observations)})
		c.AddExploration("shutdown", r.Param, r.Stats, harness.Confirm(shutdownScenario(r.Param)))
	}
	os.RemoveAll(shutdownWork)
	c.Finish()
}
