package main

// The enumerated alphabets.  An axis is one configuration field (or one
// structural choice) with its finite alphabet of letters: omitted, the empty
// value, the documented default, other valid values, boundary values, invalid
// values.  Cases are produced by explicit nested loops over these alphabets:
// full products within a section, all singles / pairs (/ triples) across
// sections.

import (
	"fmt"
	"strings"
)

type axis struct {
	name    string
	section string
	vals    []any
	apply   func(doc J, v any) // nil: setPath(doc, name, v)
}

func (a *axis) set(doc J, v any) {
	if a.apply != nil {
		a.apply(doc, v)
		return
	}
	setPath(doc, a.name, v)
}

// sink receives the cases of a generator.  own() says whether the next case
// belongs to this shard (and skips it if not), so that documents are only
// built where they are evaluated; put() hands over an owned case.
type sink struct {
	own  func() bool
	put  func(doc J, desc string)
	putL func(doc J, desc string, smoke int) // put with an explicit smoke level
}

// prefixed returns a sink that prepends p to every case description.
func (s *sink) prefixed(p string) *sink {
	return &sink{own: s.own,
		put:  func(doc J, desc string) { s.put(doc, p+desc) },
		putL: func(doc J, desc string, smoke int) { s.putL(doc, p+desc, smoke) }}
}

type kase struct {
	idx   int64
	group string
	desc  string // canonical description of the choices made
	doc   J
	smoke int // Part C when accepted: 0 never, 1 quick and thorough, 2 thorough only
}

var pmtudLetters = []any{omitted, "", "default", "system", "dont", "do", "probe", "want", "interface", "omit", "bogus"}

var serverProtoLetters = []any{"direct", "tproxy", "redirect", "socks5", "http", "none", "plain", m128, m256, "", "vmess"}
var clientProtoLetters = []any{"direct", "socks5", "http", "none", "plain", m128, m256, "", "vmess"}

var pskLenLetters = []any{-1, 16, 32, 15, 17, 31, 33, 0, -2}

func setServerProtocol(idx int) func(doc J, v any) {
	return func(doc J, v any) {
		p := v.(string)
		pre := fmt.Sprintf("servers.%d.", idx)
		setPath(doc, pre+"protocol", p)
		if isSS(p) {
			setPath(doc, pre+"psk", pskOfLen(keyLenOf(p)))
		}
	}
}

func setClientProtocol(idx int) func(doc J, v any) {
	return func(doc J, v any) {
		p := v.(string)
		pre := fmt.Sprintf("clients.%d.", idx)
		setPath(doc, pre+"protocol", p)
		setPath(doc, pre+"psk", omitted)
		if p == "direct" {
			setPath(doc, pre+"endpoint", omitted)
		} else {
			setPath(doc, pre+"endpoint", "@PEER:"+peerOf(p, false)+"@")
		}
		if isSS(p) {
			setPath(doc, pre+"psk", pskOfLen(keyLenOf(p)))
		}
	}
}

func setAddressForm(idx int) func(doc J, v any) {
	return func(doc J, v any) {
		pre := fmt.Sprintf("clients.%d.", idx)
		cl := list(doc, "clients")[idx].(J)
		peer := peerOf(str(cl, "protocol"), false)
		e, u := "@PEER:"+peer+"@", "@PEERUDP:"+peer+"@"
		for _, k := range []string{"endpoint", "tcpAddress", "udpAddress"} {
			setPath(doc, pre+k, omitted)
		}
		switch v.(string) {
		case "endpoint":
			setPath(doc, pre+"endpoint", e)
		case "tcp+udp":
			setPath(doc, pre+"tcpAddress", e)
			setPath(doc, pre+"udpAddress", u)
		case "tcp":
			setPath(doc, pre+"tcpAddress", e)
		case "udp":
			setPath(doc, pre+"udpAddress", u)
		case "none":
		case "endpoint+tcp":
			setPath(doc, pre+"endpoint", e)
			setPath(doc, pre+"tcpAddress", e)
		case "empty-strings":
			setPath(doc, pre+"endpoint", "")
			setPath(doc, pre+"tcpAddress", "")
			setPath(doc, pre+"udpAddress", "")
		case "malformed":
			setPath(doc, pre+"endpoint", "no-port-here")
		}
	}
}

func pskAxisApply(path string) func(doc J, v any) {
	return func(doc J, v any) { setPath(doc, path, pskOfLen(v.(int))) }
}

func group(name string, tcpPolicy any, tcpClients any, udpPolicy any, udpClients any) J {
	g := J{"name": name}
	if tcpClients != nil {
		g["tcp"] = obj("policy", tcpPolicy, "clients", tcpClients)
	}
	if udpClients != nil {
		g["udp"] = obj("policy", udpPolicy, "clients", udpClients)
	}
	return g
}

func resolver(kv ...any) J { return obj(kv...) }

// richAxes lists the axes over richDoc.
func richAxes(legacy bool) []axis {
	var ax []axis
	add := func(section, name string, vals ...any) {
		ax = append(ax, axis{name: name, section: section, vals: vals})
	}
	addF := func(section, name string, apply func(J, any), vals ...any) {
		ax = append(ax, axis{name: name, section: section, vals: vals, apply: apply})
	}

	// --- server s0, general
	addF("srv", "servers.0.protocol*", setServerProtocol(0), serverProtoLetters...)
	add("srv", "servers.0.name", "s0", "s1", "")
	add("srv", "servers.0.mtu", omitted, 0, 1279, 1280, 1500, 65535, -1)

	// --- UDP listener of s0
	if legacy {
		add("srv-udp", "servers.0.enableUDP", true, false, omitted)
		add("srv-udp", "servers.0.udpBatchMode", omitted, "", "no", "sendmmsg", "bogus")
		add("srv-udp", "servers.0.udpRelayBatchSize", omitted, 0, 1, 256, 1024, 1025, -1)
		add("srv-udp", "servers.0.udpServerRecvBatchSize", omitted, 0, 1, 64, 1024, 1025, -1)
		add("srv-udp", "servers.0.udpSendChannelCapacity", omitted, 0, 63, 64, 1024, -1)
		add("srv-udp", "servers.0.natTimeoutSec", omitted, 0, 300, 59, 60, 61, -1)
	} else {
		u := "servers.0.udpListeners.0."
		add("srv-udp", u+"network", "udp", "udp4", "", "tcp", omitted)
		add("srv-udp", u+"batchMode", omitted, "", "no", "sendmmsg", "bogus")
		add("srv-udp", u+"relayBatchSize", omitted, 0, 1, 256, 1024, 1025, -1)
		add("srv-udp", u+"serverRecvBatchSize", omitted, 0, 1, 64, 1024, 1025, -1)
		add("srv-udp", u+"sendChannelCapacity", omitted, 0, 63, 64, 1024, -1)
		add("srv-udp", u+"natTimeout", omitted, "0s", "5m0s", "59s", "60s", "61s", "-1s", "bogus", "")
		add("srv-udp-x", u+"pathMTUDiscovery", pmtudLetters...)
		add("srv-udp-x", u+"reusePort", omitted, true)
	}

	// --- TCP listener of s0
	if legacy {
		add("srv-tcp", "servers.0.enableTCP", true, false, omitted)
		add("srv-tcp", "servers.0.disableInitialPayloadWait", omitted, false, true)
		add("srv-tcp", "servers.0.listenerTFO", omitted, true)
	} else {
		t := "servers.0.tcpListeners.0."
		add("srv-tcp", t+"network", "tcp", "tcp4", "", "udp", omitted)
		add("srv-tcp", t+"initialPayloadWaitTimeout", omitted, "0s", "250ms", "1s", "-1s", "bogus", "")
		add("srv-tcp", t+"initialPayloadWaitBufferSize", omitted, 0, 1440, 1, -1)
		add("srv-tcp", t+"pathMTUDiscovery", pmtudLetters...)
		add("srv-tcp", t+"disableInitialPayloadWait", omitted, false, true)
		add("srv-tcp-x", t+"fastOpen", omitted, true)
		add("srv-tcp-x", t+"fastOpenFallback", omitted, true)
	}

	// --- Shadowsocks 2022 fields of s0
	addF("srv-ss", "servers.0.psk(len)", pskAxisApply("servers.0.psk"), pskLenLetters...)
	add("srv-ss", "servers.0.uPSKStorePath", omitted, "", "@TMP@/upsk16.json", "@TMP@/upsk32.json", "@TMP@/upsk_mixed.json", "@TMP@/upsk_empty.json", "@TMP@/upsk_bad.json", "@TMP@/missing.json")
	add("srv-ss", "servers.0.paddingPolicy", omitted, "", "PadPlainDNS", "PadAll", "NoPadding", "bogus")
	add("srv-ss", "servers.0.rejectPolicy", omitted, "", "JustClose", "ForceReset", "CloseWriteDrain", "ReplyWithGibberish", "bogus")
	add("srv-ss", "servers.0.slidingWindowFilterSize", omitted, 0, 256, 1, -1)
	add("srv-ss-x", "servers.0.allowSegmentedFixedLengthHeader", omitted, true)
	add("srv-ss-x", "servers.0.unsafeFallbackAddress", omitted, "@ECHO@", "no-port-here")

	// --- tunnel fields of s0
	add("srv-direct", "servers.0.tunnelRemoteAddress", "@ECHO@", "@ECHODOMAIN@", omitted, "", "no-port-here")
	add("srv-direct", "servers.0.tunnelUDPTargetOnly", omitted, false, true)

	// --- second server
	add("srv1", "servers.1.name", "s1", "s0")
	addF("srv1", "servers.1.protocol*", setServerProtocol(1), "socks5", "http", "none", m256, "vmess")
	add("srv1", "servers.1.mtu", 1500, 1280, 1279, omitted)
	add("srv1", "servers.1.udpListeners.0.natTimeout", omitted, "59s", "60s")

	// --- client c1 (a proxy client) and c0 (direct)
	addF("client", "clients.1.protocol*", setClientProtocol(1), clientProtoLetters...)
	add("client", "clients.1.enableTCP", true, false, omitted)
	add("client", "clients.1.enableUDP", true, false, omitted)
	addF("client", "clients.1.address-form", setAddressForm(1), "endpoint", "tcp+udp", "tcp", "udp", "none", "endpoint+tcp", "empty-strings", "malformed")
	add("client", "clients.1.mtu", 1500, 1280, 1279, omitted)
	add("client", "clients.1.network", omitted, "", "ip", "ip4", "ip6", "bogus")
	addF("client-ss", "clients.1.psk(len)", pskAxisApply("clients.1.psk"), pskLenLetters...)
	add("client-ss", "clients.1.iPSKs", omitted, L{}, L{k16i}, L{k32i}, L{k16i, k16b}, L{k16i, k32i}, L{"!!!"})
	add("client-ss", "clients.1.paddingPolicy", omitted, "", "PadPlainDNS", "PadAll", "NoPadding", "bogus")
	add("client-ss", "clients.1.slidingWindowFilterSize", omitted, 0, 256, 1, -1)
	add("client-x", "clients.1.tcpPathMTUDiscovery", omitted, "", "default", "do", "bogus")
	add("client-x", "clients.1.udpPathMTUDiscovery", omitted, "", "default", "dont", "bogus")
	add("client-x", "clients.0.enableTCP", true, omitted)
	add("client-x", "clients.0.enableUDP", true, omitted)
	add("client-x", "clients.0.mtu", 1500, 1279)
	add("client-x", "clients.0.network", omitted, "", "ip", "bogus")

	// --- names and references
	add("names", "clients.1.name", "c1", "c0", "g0", "")
	add("names", "clientGroups", groupLetters()...)
	add("names", "router.defaultTCPClientName", "c0", omitted, "", "g0", "reject", "cX")
	add("names", "router.defaultUDPClientName", "c0", omitted, "", "g0", "reject", "cX")
	add("names", "router.routes.0.client", "g0", "c0", "reject", "", "cX")
	add("names-x", "router.routes.0.network", omitted, "", "tcp", "udp", "bogus")
	add("names-x", "router.routes.0.name", "r0", "", "default")
	add("names-x", "router.routes.0.fromServers", L{"s1"}, omitted, L{"s0", "s1"}, L{"sX"})

	add("dns", "dns", resolverLetters()...)
	add("dns", "router.routes.0.resolver", "d0", omitted, "dX")
	add("sets", "router.routes.0.toPrefixSets", omitted, L{"ps0"}, L{"psX"})
	add("sets", "router.prefixSets", prefixSetLetters()...)

	add("sets", "router.domainSets", domainSetLetters()...)
	add("sets", "router.routes.0.toDomainSets", omitted, L{"ds0"}, L{"dsX"})
	// GeoIP criteria: no database exists in this image, so only "criterion present, database absent" can be
	// decided - and that must be refused at load for each of the three criteria (the expectation criterion
	// comes with the domain criterion it needs, so that no other guard answers for it)
	add("sets", "router.routes.0.fromGeoIPCountries", omitted, L{"US"})
	add("sets", "router.routes.0.toGeoIPCountries", omitted, L{"US"})
	addF("sets", "router.routes.0.toMatchedDomainExpectedGeoIPCountries(+toDomains)", func(doc J, v any) {
		if v == omitted {
			return
		}
		setPath(doc, "router.routes.0.toMatchedDomainExpectedGeoIPCountries", v)
		setPath(doc, "router.routes.0.toDomains", L{"example.com"})
	}, omitted, L{"US"})
	add("sets", "router.routes", routeListLetters()...)
	return ax
}

func groupLetters() []any {
	both := func(n string, p any, cl any) J { return group(n, p, cl, p, cl) }
	return []any{
		L{both("g0", "round-robin", L{"c0", "c1"})},
		omitted,
		L{both("g0", "random", L{"c0", "c1"})},
		L{both("g0", "availability", L{"c0", "c1"})},
		L{both("g0", "latency", L{"c0", "c1"})},
		L{both("g0", "min-max-latency", L{"c0", "c1"})},
		L{both("g0", "", L{"c0", "c1"})},
		L{both("g0", omitted, L{"c0", "c1"})},
		L{both("g0", "fastest", L{"c0", "c1"})},
		L{group("g0", "round-robin", L{"c0"}, nil, nil)},                           // TCP only
		L{group("g0", nil, nil, "round-robin", L{"c0"})},                           // UDP only
		L{both("g0", "round-robin", L{})},                                          // empty
		L{J{"name": "g0"}},                                                         // empty, no selection blocks
		L{both("g0", "round-robin", L{"c0", "cX"})},                                // dangling member
		L{both("g0", "round-robin", L{"c0"}), both("g0", "random", L{"c0"})},       // duplicate group names
		L{both("c0", "round-robin", L{"c0"}), both("g0", "random", L{"c0"})},       // group named like a client
		L{both("g1", "round-robin", L{"c0"}), both("g0", "random", L{"g1", "c1"})}, // nested: later refers to earlier
		L{both("g0", "round-robin", L{"g1", "c0"}), both("g1", "random", L{"c0"})}, // refers to a later group
		L{both("g0", "round-robin", L{"g0"})},                                      // refers to itself
		L{group("g0", "availability", L{"c0", "c1"}, "latency", L{"c0", "c1"})},    // mixed probing policies
		L{J{"name": "g0", "tcp": J{"policy": "availability", "clients": L{"c0"}, "probe": J{"timeout": "0s", "interval": "0s", "concurrency": 0}}, "udp": J{"policy": "round-robin", "clients": L{"c0"}}}},
		L{J{"name": "g0", "tcp": J{"policy": "availability", "clients": L{"c0"}, "probe": J{"timeout": "-1s", "interval": "bogus"}}, "udp": J{"policy": "round-robin", "clients": L{"c0"}}}},
	}
}

func resolverLetters() []any {
	d := func(kv ...any) J { return resolver(append([]any{"name", "d0"}, kv...)...) }
	ok := d("addrPort", "127.0.0.1:53", "tcpClientName", "c0", "udpClientName", "c0")
	return []any{
		L{ok},
		omitted,
		L{ok, d("type", "system")}, // duplicate names
		L{ok, resolver("name", "d1", "type", "system")},                                // two resolvers
		L{d("type", "system")},                                                         //
		L{d("type", "system", "addrPort", "127.0.0.1:53")},                             // system with address
		L{d("type", "system", "udpClientName", "c0")},                                  // system with client
		L{d("type", "plain", "addrPort", "127.0.0.1:53", "udpClientName", "c0")},       // explicit default type
		L{d("type", "", "addrPort", "127.0.0.1:53", "tcpClientName", "c0")},            // empty type
		L{d("type", "doh", "addrPort", "127.0.0.1:53", "tcpClientName", "c0")},         // unknown type
		L{d("tcpClientName", "c0", "udpClientName", "c0")},                             // no address
		L{d("addrPort", "127.0.0.1:53")},                                               // no clients
		L{d("addrPort", "127.0.0.1:53", "tcpClientName", "cX")},                        // dangling
		L{d("addrPort", "127.0.0.1:53", "udpClientName", "cX")},                        // dangling
		L{d("addrPort", "127.0.0.1:53", "tcpClientName", "g0", "udpClientName", "g0")}, // group as client
		L{d("addrPort", "localhost:53", "tcpClientName", "c0")},                        // not an IP
		L{d("addrPort", "127.0.0.1:53", "tcpClientName", "c0", "cacheSize", 0)},        //
		L{d("addrPort", "127.0.0.1:53", "tcpClientName", "c0", "cacheSize", 1024)},     //
		L{d("addrPort", "127.0.0.1:53", "tcpClientName", "c0", "cacheSize", -1)},       // documented: unbounded
		L{d("addrPort", "127.0.0.1:53", "tcpClientName", "c0", "cacheSize", 1)},        //
	}
}

func domainSetLetters() []any {
	ds := func(name string, kv ...any) J { return obj(append([]any{"name", name}, kv...)...) }
	return []any{
		L{ds("ds0", "path", "@TMP@/ds.txt")},
		omitted,
		L{ds("ds0", "type", "text", "path", "@TMP@/ds.txt")},
		L{ds("ds0", "type", "", "path", "@TMP@/ds.txt")},
		L{ds("ds0", "type", "yaml", "path", "@TMP@/ds.txt")},
		L{ds("ds0", "type", "gob", "path", "@TMP@/ds.txt")},
		L{ds("ds0", "path", "@TMP@/missing.txt")},
		L{ds("ds0", "path", "@TMP@/ds_bad.txt")},
		L{ds("ds0", "path", "@TMP@/ds.txt"), ds("ds0", "path", "@TMP@/ds_copy.txt")}, // duplicate names
		L{ds("ds0", "path", "@TMP@/ds.txt"), ds("ds1", "path", "@TMP@/ds_copy.txt")},
	}
}

func prefixSetLetters() []any {
	ps := func(name, path string) J { return J{"name": name, "path": path} }
	return []any{
		omitted,
		L{ps("ps0", "@TMP@/ps.txt")},
		L{ps("ps0", "@TMP@/missing_ps.txt")},
		L{ps("ps0", "@TMP@/ps_bad.txt")},
		L{ps("ps0", "@TMP@/ps.txt"), ps("ps0", "@TMP@/ps_copy.txt")}, // duplicate names
		L{ps("ps0", "@TMP@/ps.txt"), ps("ps1", "@TMP@/ps_copy.txt")},
	}
}

func routeListLetters() []any {
	r0 := J{"name": "r0", "client": "g0", "resolver": "d0", "fromServers": L{"s1"}}
	r0full := J{"name": "r0", "client": "g0", "resolver": "d0", "fromServers": L{"s1"}, "toDomainSets": L{"ds0"}, "toPrefixSets": L{"ps0"}}
	r1 := J{"name": "r1", "client": "reject", "network": "udp", "fromServers": L{"s0"}}
	r0b := J{"name": "r0", "client": "c0"}
	r2 := J{"name": "r2", "client": "c0", "fromPrefixSets": L{"ps0"}, "toMatchedDomainExpectedPrefixSets": L{"ps0"}, "toDomainSets": L{"ds0"}}
	r3 := J{"name": "r3", "client": "c1", "toPrefixSets": L{"ps0"}, "disableNameResolutionForIPRules": true}
	return []any{
		L{r0},
		omitted,
		L{},
		L{r0, r1},
		L{r0, r0b}, // duplicate route names
		L{r0, r2},
		L{r0, r3},
		L{r0full},
	}
}

// ---------------------------------------------------------------------------
// generic enumerators

func describe(axes []axis, idx []int, vals []int) string {
	var sb strings.Builder
	for i, a := range idx {
		if i > 0 {
			sb.WriteString(" ; ")
		}
		sb.WriteString(axes[a].name)
		sb.WriteString("=")
		sb.WriteString(letter(axes[a].vals[vals[i]]))
	}
	return sb.String()
}

// product enumerates the full cartesian product of the chosen axes.
func product(base func() J, axes []axis, chosen []int, s *sink) {
	vals := make([]int, len(chosen))
	for {
		if s.own() {
			doc := base()
			for i, a := range chosen {
				axes[a].set(doc, axes[a].vals[vals[i]])
			}
			s.put(doc, describe(axes, chosen, vals))
		}
		k := len(chosen) - 1
		for k >= 0 {
			vals[k]++
			if vals[k] < len(axes[chosen[k]].vals) {
				break
			}
			vals[k] = 0
			k--
		}
		if k < 0 {
			return
		}
	}
}

// tuples enumerates every combination of letters of every t-subset of axes
// (t = 1: singles, 2: all pairs, 3: all triples).
func tuples(base func() J, axes []axis, t int, s *sink) {
	chosen := make([]int, t)
	var rec func(pos, from int)
	rec = func(pos, from int) {
		if pos == t {
			product(base, axes, chosen, s)
			return
		}
		for a := from; a < len(axes); a++ {
			chosen[pos] = a
			rec(pos+1, a+1)
		}
	}
	rec(0, 0)
}

func sectionAxes(axes []axis, sections ...string) []int {
	var out []int
	for i, a := range axes {
		for _, s := range sections {
			if a.section == s {
				out = append(out, i)
			}
		}
	}
	return out
}
