package main

// Construction of JSON configuration documents: a document is a tree of
// map[string]any / []any with placeholders ("@TMP@", "@ECHO@", "@PEER:x@") that are
// resolved to run-specific paths and addresses only at the moment the
// document is handed to the real code.  Canonical keys, signatures and replay
// files always contain the unresolved document.

import (
	"encoding/base64"
	"encoding/json"
	"fmt"
	"os"
	"path/filepath"
	"sort"
	"strconv"
	"strings"
)

type J = map[string]any
type L = []any

type omitT struct{}

// omitted is the alphabet letter "the field is not present in the JSON".
var omitted = omitT{}

func isOmitted(v any) bool { _, ok := v.(omitT); return ok }

// obj builds an object from key, value pairs; omitted values are skipped.
func obj(kv ...any) J {
	m := J{}
	for i := 0; i+1 < len(kv); i += 2 {
		if isOmitted(kv[i+1]) {
			continue
		}
		m[kv[i].(string)] = kv[i+1]
	}
	return m
}

func clone(v any) any {
	switch x := v.(type) {
	case J:
		m := make(J, len(x))
		for k, e := range x {
			m[k] = clone(e)
		}
		return m
	case L:
		l := make(L, len(x))
		for i, e := range x {
			l[i] = clone(e)
		}
		return l
	default:
		return v
	}
}

// setPath sets doc[path] = v ("servers.0.udpListeners.0.natTimeout"); an omitted
// v deletes the key.  Missing intermediate objects are created; list indices must exist.
func setPath(doc J, path string, v any) {
	parts := strings.Split(path, ".")
	var cur any = doc
	for i, p := range parts {
		last := i == len(parts)-1
		switch c := cur.(type) {
		case J:
			if last {
				if isOmitted(v) {
					delete(c, p)
				} else {
					c[p] = clone(v)
				}
				return
			}
			nx, ok := c[p]
			if !ok {
				nx = J{}
				c[p] = nx
			}
			cur = nx
		case L:
			idx, err := strconv.Atoi(p)
			if err != nil || idx >= len(c) {
				panic("setPath: bad index in " + path)
			}
			if last {
				c[idx] = clone(v)
				return
			}
			cur = c[idx]
		default:
			panic("setPath: cannot descend into " + path)
		}
	}
}

// render produces canonical JSON (sorted keys).
func render(doc any) string {
	b, err := json.Marshal(doc)
	if err != nil {
		panic(err)
	}
	return string(b)
}

// letter renders one alphabet letter for case keys.
func letter(v any) string {
	if isOmitted(v) {
		return "<omitted>"
	}
	return render(v)
}

// ---------------------------------------------------------------------------
// keys

func key(n int, fill byte) string {
	b := make([]byte, n)
	for i := range b {
		b[i] = fill + byte(i)
	}
	return base64.StdEncoding.EncodeToString(b)
}

var (
	k16  = key(16, 0x10) // single-user PSK / user PSK "Steve" (128)
	k16b = key(16, 0x40) // user PSK "Alex"
	k16i = key(16, 0x70) // identity PSK (128)
	k32  = key(32, 0x10)
	k32b = key(32, 0x40)
	k32i = key(32, 0x70)
)

func pskOfLen(n int) any {
	switch n {
	case -1:
		return omitted
	case -2:
		return "!!!not-base64!!!"
	case 16:
		return k16
	case 32:
		return k32
	}
	return key(n, 0x10)
}

const (
	m128 = "2022-blake3-aes-128-gcm"
	m256 = "2022-blake3-aes-256-gcm"
)

func isSS(p string) bool { return p == m128 || p == m256 }

func keyLenOf(p string) int {
	if p == m256 {
		return 32
	}
	return 16
}

// ---------------------------------------------------------------------------
// fixtures: files the configurations refer to.  The oracle knows them by name.

type fixture struct {
	kind    string // upsk | domainset | prefixset
	content string
	keyLens []int // upsk: lengths of the user keys
	ok      bool  // parses as its kind
}

var fixtures = map[string]fixture{
	"upsk16.json":      {kind: "upsk", content: fmt.Sprintf(`{"Steve":%q,"Alex":%q}`, k16, k16b), keyLens: []int{16, 16}, ok: true},
	"upsk32.json":      {kind: "upsk", content: fmt.Sprintf(`{"Steve":%q,"Alex":%q}`, k32, k32b), keyLens: []int{32, 32}, ok: true},
	"upsk_mixed.json":  {kind: "upsk", content: fmt.Sprintf(`{"Steve":%q,"Alex":%q}`, k16, k32b), keyLens: []int{16, 32}, ok: true},
	"upsk_empty.json":  {kind: "upsk", content: `{}`, keyLens: nil, ok: true},
	"upsk_bad.json":    {kind: "upsk", content: `this is not json`, ok: false},
	"ds.txt":           {kind: "domainset", content: "domain:www.example.net\nsuffix:example.com\nkeyword:dev\n", ok: true},
	"ds_bad.txt":       {kind: "domainset", content: "bogusrule:example.com\n", ok: false},
	"ps.txt":           {kind: "prefixset", content: "# loopback and private\n127.0.0.0/8\n10.0.0.0/8\nfc00::/7\n", ok: true},
	"ps_bad.txt":       {kind: "prefixset", content: "not-a-prefix\n", ok: false},
	"ds_copy.txt":      {kind: "domainset", content: "suffix:example.org\n", ok: true},
	"ps_copy.txt":      {kind: "prefixset", content: "192.168.0.0/16\n", ok: true},
	"missing.json":     {kind: "missing"},
	"missing.txt":      {kind: "missing"},
	"missing_ps.txt":   {kind: "missing"},
	"missing_mmdb.bin": {kind: "missing"},
}

func writeFixtures(dir string) error {
	for name, f := range fixtures {
		if f.kind == "missing" {
			continue
		}
		if err := os.WriteFile(filepath.Join(dir, name), []byte(f.content), 0o644); err != nil {
			return err
		}
	}
	return nil
}

// fixtureOf returns the fixture a placeholder path names ("@TMP@/upsk16.json").
func fixtureOf(path string) (fixture, bool) {
	name, ok := strings.CutPrefix(path, "@TMP@/")
	if !ok {
		return fixture{}, false
	}
	f, ok := fixtures[name]
	return f, ok
}

// ---------------------------------------------------------------------------
// placeholders

// loadEnv resolves placeholders for load-only use (Part A and B): addresses
// are syntactically valid but nothing listens there.
func loadEnv(tmp string) map[string]string {
	env := map[string]string{"@TMP@": tmp, "@ECHO@": "127.0.0.1:9", "@ECHODOMAIN@": "localhost:9"}
	for _, p := range peerKinds {
		env["@PEER:"+p+"@"] = "127.0.0.1:9"
		env["@PEERUDP:"+p+"@"] = "127.0.0.1:9"
	}
	return env
}

var peerKinds = []string{"socks5", "http", "none", "128", "256", "128m", "256m"}

func resolve(s string, env map[string]string) string {
	keys := make([]string, 0, len(env))
	for k := range env {
		keys = append(keys, k)
	}
	sort.Strings(keys)
	for _, k := range keys {
		s = strings.ReplaceAll(s, k, env[k])
	}
	return s
}

// ---------------------------------------------------------------------------
// builders

// listener address used everywhere: loopback, port chosen by the kernel.
const lo = "127.0.0.1:0"

type baseOpts struct {
	sp, cp     string // server and client protocol
	legacy     bool   // legacy single-listener fields instead of listener arrays
	sTCP, sUDP bool
	cTCP, cUDP bool
	multiUser  bool // ss2022 server with a uPSK store
	noClients  bool // leave "clients" out (implicit direct client)
}

func tcpListener(kv ...any) J {
	m := obj("network", "tcp", "address", lo)
	for k, v := range obj(kv...) {
		m[k] = v
	}
	return m
}

func udpListener(kv ...any) J {
	m := obj("network", "udp", "address", lo)
	for k, v := range obj(kv...) {
		m[k] = v
	}
	return m
}

// serverDoc builds one server block.
func serverDoc(name, proto string, legacy, tcp, udp, multiUser bool) J {
	s := obj("name", name, "protocol", proto, "mtu", 1500)
	if legacy {
		s["listen"] = lo
		if tcp {
			s["enableTCP"] = true
		}
		if udp {
			s["enableUDP"] = true
		}
	} else {
		if tcp {
			s["tcpListeners"] = L{tcpListener()}
		}
		if udp {
			s["udpListeners"] = L{udpListener()}
		}
	}
	switch {
	case proto == "direct":
		s["tunnelRemoteAddress"] = "@ECHO@"
	case isSS(proto):
		n := keyLenOf(proto)
		if multiUser {
			s["psk"] = map[int]string{16: k16i, 32: k32i}[n]
			s["uPSKStorePath"] = fmt.Sprintf("@TMP@/upsk%d.json", n)
		} else {
			s["psk"] = pskOfLen(n)
		}
	}
	return s
}

// peerOf names the smoke peer a client of the given protocol talks to.
func peerOf(proto string, viaIdentity bool) string {
	switch proto {
	case "socks5", "http":
		return proto
	case "none", "plain":
		return "none"
	case m128:
		if viaIdentity {
			return "128m"
		}
		return "128"
	case m256:
		if viaIdentity {
			return "256m"
		}
		return "256"
	}
	return "none"
}

// clientDoc builds one client block with an "endpoint" address.
func clientDoc(name, proto string, tcp, udp bool) J {
	c := obj("name", name, "protocol", proto, "mtu", 1500)
	if tcp {
		c["enableTCP"] = true
	}
	if udp {
		c["enableUDP"] = true
	}
	if proto != "direct" {
		c["endpoint"] = "@PEER:" + peerOf(proto, false) + "@"
	}
	if isSS(proto) {
		c["psk"] = pskOfLen(keyLenOf(proto))
	}
	return c
}

func baseDoc(o baseOpts) J {
	d := J{"servers": L{serverDoc("s0", o.sp, o.legacy, o.sTCP, o.sUDP, o.multiUser)}}
	if !o.noClients {
		d["clients"] = L{clientDoc("c0", o.cp, o.cTCP, o.cUDP)}
	}
	return d
}

// richDoc is the base of the single-field and pairwise enumerations: every
// section is present and every name is referenced at least once.
func richDoc(sp string, legacy bool) J {
	return J{
		"servers": L{
			func() J {
				s := serverDoc("s0", sp, legacy, true, true, false)
				s["tunnelRemoteAddress"] = "@ECHO@"
				return s
			}(),
			serverDoc("s1", "socks5", false, true, true, false),
		},
		"clients": L{
			clientDoc("c0", "direct", true, true),
			clientDoc("c1", m128, true, true),
		},
		"clientGroups": L{
			J{"name": "g0",
				"tcp": J{"policy": "round-robin", "clients": L{"c0", "c1"}},
				"udp": J{"policy": "round-robin", "clients": L{"c0", "c1"}}},
		},
		"dns": L{
			J{"name": "d0", "addrPort": "127.0.0.1:53", "tcpClientName": "c0", "udpClientName": "c0"},
		},
		"router": J{
			"defaultTCPClientName": "c0",
			"defaultUDPClientName": "c0",
			"domainSets":           L{J{"name": "ds0", "path": "@TMP@/ds.txt"}},
			"routes": L{
				J{"name": "r0", "client": "g0", "resolver": "d0", "fromServers": L{"s1"}},
			},
		},
	}
}
