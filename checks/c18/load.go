package main

// Handing a document to the real code: decode exactly like
// cmd/shadowsocks-go does (jsoncfg.Load: DisallowUnknownFields), then
// service.Config.Manager.  Plus the snapshot of *effective* values read
// through the white-box export files.

import (
	"bytes"
	"encoding/json"
	"fmt"
	"reflect"
	"regexp"
	"runtime"
	"runtime/debug"
	"sort"
	"strings"

	"github.com/database64128/shadowsocks-go/conn"
	"github.com/database64128/shadowsocks-go/router"
	"github.com/database64128/shadowsocks-go/service"
	"github.com/database64128/shadowsocks-go/ss2022"
	"go.uber.org/zap"
)

type loadResult struct {
	accepted bool
	stage    string // decode | manager | panic
	err      string
	frame    string // panic: first repository frame
	cfg      *service.Config
	mgr      *service.Manager
}

func decodeConfig(text string) (*service.Config, error) {
	var cfg service.Config
	dec := json.NewDecoder(bytes.NewReader([]byte(text)))
	dec.DisallowUnknownFields()
	if err := dec.Decode(&cfg); err != nil {
		return nil, err
	}
	return &cfg, nil
}

// load runs the real load path on resolved JSON text.  The caller must call
// res.close().
func load(text string, logger *zap.Logger) (res loadResult) {
	// a fault in the code under test (e.g. reading unmapped memory) must be an
	// observation, not the end of the enumeration: turn it into a panic here; a
	// subprocess without this setting confirms the real crash afterwards.
	old := debug.SetPanicOnFault(true)
	defer debug.SetPanicOnFault(old)
	defer func() {
		if r := recover(); r != nil {
			frame := ""
			if m := reFrame.FindStringSubmatch(string(debug.Stack())); m != nil {
				frame = strings.TrimPrefix(m[1], "github.com/database64128/shadowsocks-go/")
			}
			res = loadResult{stage: "panic", err: fmt.Sprint(r), frame: frame}
		}
	}()
	cfg, err := decodeConfig(text)
	if err != nil {
		return loadResult{stage: "decode", err: err.Error()}
	}
	m, err := cfg.Manager(logger)
	if err != nil {
		msg := err.Error()
		if strings.Contains(msg, "(PANIC=") {
			// package fmt swallowed a panic (here: a fault turned into a panic by
			// SetPanicOnFault) while formatting the error: without that setting the
			// process dies.  Report it as what it is.
			return loadResult{stage: "panic", err: msg, frame: "(inside error formatting)"}
		}
		return loadResult{stage: "manager", err: msg}
	}
	return loadResult{accepted: true, cfg: cfg, mgr: m}
}

func (r *loadResult) close() {
	if r.mgr != nil {
		func() {
			defer func() { _ = recover() }()
			r.mgr.Close()
		}()
		r.mgr = nil
	}
}

var (
	reDigits = regexp.MustCompile(`[0-9]+`)
	reHex    = regexp.MustCompile(`0x[0-9a-fA-F]+`)
	reQuoted = regexp.MustCompile(`"[^"]*"`)
)

// errorShape strips the run- and value-specific parts of an error message so
// that it can be part of a stable signature.
func errorShape(msg, tmp string) string {
	if tmp != "" {
		msg = strings.ReplaceAll(msg, tmp, "@TMP@")
	}
	msg = reHex.ReplaceAllString(msg, "ADDR")
	msg = reQuoted.ReplaceAllString(msg, `"…"`)
	msg = reDigits.ReplaceAllString(msg, "N")
	if len(msg) > 160 {
		msg = msg[:160]
	}
	return msg
}

// ---------------------------------------------------------------------------
// effective values

func funcName(f any) string {
	v := reflect.ValueOf(f)
	if !v.IsValid() || v.IsNil() {
		return "<nil>"
	}
	n := runtime.FuncForPC(v.Pointer()).Name()
	if i := strings.LastIndexByte(n, '.'); i >= 0 {
		n = n[i+1:]
	}
	return n
}

// paddingBehaviour identifies a padding policy by what it does.
func paddingBehaviour(p ss2022.PaddingPolicy) string {
	if p == nil {
		return "<nil>"
	}
	dns := p(conn.AddrFromIPAndPort(loopbackAddr, 53))
	web := p(conn.AddrFromIPAndPort(loopbackAddr, 443))
	switch {
	case dns && web:
		return "PadAll"
	case dns && !web:
		return "PadPlainDNS"
	case !dns && !web:
		return "NoPadding"
	}
	return "pads-everything-but-dns"
}

func typeName(v any) string {
	if v == nil {
		return "<nil>"
	}
	return reflect.TypeOf(v).String()
}

// snapshot lists the effective values of an accepted configuration as flat
// key/value pairs.  Bound addresses are left out (they differ per run).
func snapshot(res *loadResult) map[string]string {
	out := map[string]string{}
	put := func(k string, v any) { out[k] = fmt.Sprint(v) }
	perServer := map[string]int{}
	for _, s := range service.VerifC18Services(res.mgr) {
		if s.Kind == "other" {
			continue
		}
		pre := fmt.Sprintf("server[%s].%s", s.ServerName, s.Kind)
		perServer[pre]++
		put(pre+".serverType", typeName(s.Server))
		switch srv := s.Server.(type) {
		case *ss2022.StreamServer:
			put(pre+".rejectPolicy", funcName(ss2022.VerifC18RejectPolicy(srv)))
		case *ss2022.UDPServer:
			pad, filter := ss2022.VerifC18UDPServerParams(srv)
			put(pre+".paddingPolicy", funcName(pad))
			put(pre+".paddingBehaviour", paddingBehaviour(pad))
			put(pre+".slidingWindowFilterSize", filter)
		}
		if s.Kind != "tcp" {
			put(pre+".mtu", s.MTU)
		}
		for i, l := range s.Listeners {
			lp := fmt.Sprintf("%s.listener[%d]", pre, i)
			put(lp+".network", l.Network)
			if s.Kind == "tcp" {
				put(lp+".waitForInitialPayload", l.WaitForInitialPayload)
				put(lp+".initialPayloadWaitTimeoutNs", l.InitialPayloadWaitTimeoutNs)
				put(lp+".initialPayloadWaitBufferSize", l.InitialPayloadWaitBufferSize)
			} else {
				put(lp+".batchMode", l.BatchMode)
				put(lp+".relayBatchSize", l.RelayBatchSize)
				put(lp+".serverRecvBatchSize", l.ServerRecvBatchSize)
				put(lp+".sendChannelCapacity", l.SendChannelCapacity)
				put(lp+".natTimeoutNs", l.NATTimeoutNs)
			}
		}
	}
	// decoded (public) listener socket options that only exist as parsed values
	for _, sc := range res.cfg.Servers {
		for i, l := range sc.TCPListeners {
			put(fmt.Sprintf("server[%s].tcp.listener[%d].pathMTUDiscovery", sc.Name, i), l.PathMTUDiscovery)
		}
		for i, l := range sc.UDPListeners {
			put(fmt.Sprintf("server[%s].udp.listener[%d].pathMTUDiscovery", sc.Name, i), l.PathMTUDiscovery)
		}
	}
	for _, cc := range res.cfg.Clients {
		pre := "client[" + cc.Name + "]"
		put(pre+".network", cc.Network)
		put(pre+".tcpPathMTUDiscovery", cc.TCPPathMTUDiscovery)
		put(pre+".udpPathMTUDiscovery", cc.UDPPathMTUDiscovery)
	}
	for _, g := range res.cfg.ClientGroups {
		pre := "group[" + g.Name + "]"
		if len(g.TCP.Clients) > 0 {
			put(pre+".tcp.policy", g.TCP.Policy)
			switch g.TCP.Policy {
			case "availability", "latency", "min-max-latency":
				put(pre+".tcp.probe", fmt.Sprintf("%v/%v/%d/%s/%s/%s", g.TCP.Probe.Timeout.Value(), g.TCP.Probe.Interval.Value(), g.TCP.Probe.Concurrency, g.TCP.Probe.Address, g.TCP.Probe.EscapedPath, g.TCP.Probe.Host))
			}
		}
		if len(g.UDP.Clients) > 0 {
			put(pre+".udp.policy", g.UDP.Policy)
			switch g.UDP.Policy {
			case "availability", "latency", "min-max-latency":
				put(pre+".udp.probe", fmt.Sprintf("%v/%v/%d/%s", g.UDP.Probe.Timeout.Value(), g.UDP.Probe.Interval.Value(), g.UDP.Probe.Concurrency, g.UDP.Probe.Address))
			}
		}
	}
	// what the router would hand out
	names, tcps, udps := router.VerifC18RouteClients(service.VerifC18Router(res.mgr))
	for i, n := range names {
		pre := fmt.Sprintf("route[%d:%s]", i, n)
		put(pre+".tcpClient", typeName(tcps[i]))
		put(pre+".udpClient", typeName(udps[i]))
		if uc, ok := udps[i].(*ss2022.UDPClient); ok {
			pad, filter, network := ss2022.VerifC18UDPClientParams(uc)
			put(pre+".udpClient.paddingPolicy", funcName(pad))
			put(pre+".udpClient.paddingBehaviour", paddingBehaviour(pad))
			put(pre+".udpClient.slidingWindowFilterSize", filter)
			put(pre+".udpClient.network", network)
		}
	}
	return out
}

func snapshotDiff(a, b map[string]string) []string {
	keys := map[string]bool{}
	for k := range a {
		keys[k] = true
	}
	for k := range b {
		keys[k] = true
	}
	var ks []string
	for k := range keys {
		ks = append(ks, k)
	}
	sort.Strings(ks)
	var out []string
	for _, k := range ks {
		av, aok := a[k]
		bv, bok := b[k]
		if !aok {
			av = "<absent>"
		}
		if !bok {
			bv = "<absent>"
		}
		if av != bv {
			out = append(out, fmt.Sprintf("%s: %s vs %s", k, av, bv))
		}
	}
	return out
}
