package main

// The independent validity predicate.  It reads a configuration document the
// way a user reads README.md, docs/config.json and the field comments of the
// configuration structures, and sorts it into
//
//	valid    the documentation says this works          -> must be accepted
//	invalid  a documented invariant is violated         -> must be refused at load
//	either   the documentation leaves the case open     -> no demand on acceptance
//
// It never looks at the code under test.  Every reason has a stable identifier;
// identifiers are what violation signatures are made of.

import (
	"encoding/base64"
	"net"
	"net/netip"
	"sort"
	"strconv"
	"strings"
	"time"
)

type judgement struct {
	invalid []string
	either  []string
}

func (j *judgement) bad(id string)  { j.invalid = appendUnique(j.invalid, id) }
func (j *judgement) open(id string) { j.either = appendUnique(j.either, id) }

func appendUnique(l []string, s string) []string {
	for _, x := range l {
		if x == s {
			return l
		}
	}
	return append(l, s)
}

func (j *judgement) class() string {
	switch {
	case len(j.invalid) > 0:
		return "invalid"
	case len(j.either) > 0:
		return "either"
	}
	return "valid"
}

func (j *judgement) reasons() string {
	a := append([]string(nil), j.invalid...)
	sort.Strings(a)
	return strings.Join(a, "+")
}

// --- typed accessors: absent and JSON null are the same thing --------------

func str(m J, k string) string {
	s, _ := m[k].(string)
	return s
}

func boolean(m J, k string) bool {
	b, _ := m[k].(bool)
	return b
}

// num returns the numeric value of a field; absent = 0.
func num(m J, k string) int64 {
	switch x := m[k].(type) {
	case int:
		return int64(x)
	case int64:
		return x
	case float64:
		return int64(x)
	}
	return 0
}

func list(m J, k string) L {
	l, _ := m[k].(L)
	return l
}

func object(m J, k string) J {
	o, _ := m[k].(J)
	if o == nil {
		return J{}
	}
	return o
}

func strs(m J, k string) []string {
	var out []string
	for _, e := range list(m, k) {
		s, _ := e.(string)
		out = append(out, s)
	}
	return out
}

// --- documented vocabularies ----------------------------------------------------

var (
	serverProtocols = set("direct", "tproxy", "redirect", "socks5", "http", "none", "plain", m128, m256)
	udpServerProtos = set("direct", "tproxy", "socks5", "none", "plain", m128, m256)
	clientProtocols = set("direct", "socks5", "http", "none", "plain", m128, m256)
	pmtudModes      = set("", "default", "system", "dont", "do", "probe", "want", "interface", "omit")
	paddingPolicies = set("", "PadPlainDNS", "PadAll", "NoPadding")
	rejectPolicies  = set("", "JustClose", "ForceReset", "CloseWriteDrain", "ReplyWithGibberish")
	batchModes      = set("", "no", "sendmmsg")
	groupPolicies   = set("round-robin", "random", "availability", "latency", "min-max-latency")
)

func set(a ...string) map[string]bool {
	m := map[string]bool{}
	for _, s := range a {
		m[s] = true
	}
	return m
}

// the Shadowsocks 2022 replay window (SIP022: timestamps are accepted within
// 30 s either way, salts are remembered for 60 s).
const replayWindow = 60 * time.Second

// Sizes above this are "either": the documentation names defaults and lower
// bounds only, never an upper bound.
const unboundedFrom = 1 << 20

// --- field-level judgements ----------------------------------------------------------

// duration judges a duration field; present==false when the field is absent.
func (j *judgement) duration(m J, k, what string) (d time.Duration, present bool) {
	v, ok := m[k]
	if !ok {
		return 0, false
	}
	s, isStr := v.(string)
	if !isStr {
		j.bad(what + "-not-a-duration")
		return 0, true
	}
	if s == "" {
		j.open(what + "-empty-string-duration")
		return 0, true
	}
	d, err := time.ParseDuration(s)
	if err != nil {
		j.bad(what + "-not-a-duration")
		return 0, true
	}
	return d, true
}

func (j *judgement) pmtud(m J, k string) {
	if v, ok := m[k]; ok {
		s, isStr := v.(string)
		if !isStr || !pmtudModes[s] {
			j.bad("unknown-pmtud-mode")
		}
	}
}

func (j *judgement) base64Field(m J, k, what string) (n int, present bool) {
	v, ok := m[k]
	if !ok {
		return 0, false
	}
	s, _ := v.(string)
	b, err := base64.StdEncoding.DecodeString(s)
	if err != nil {
		j.bad(what + "-not-base64")
		return 0, true
	}
	return len(b), true
}

// address judges a host:port field. kind: "" absent/empty, "ip", "domain", "bad".
func addressKind(m J, k string) string {
	v, ok := m[k]
	if !ok {
		return ""
	}
	s, _ := v.(string)
	if s == "" {
		return ""
	}
	for _, ph := range []string{"@ECHO@", "@PEER:", "@PEERUDP:"} {
		if strings.HasPrefix(s, ph) {
			return "ip"
		}
	}
	if s == "@ECHODOMAIN@" {
		return "domain"
	}
	host, port, err := net.SplitHostPort(s)
	if err != nil {
		return "bad"
	}
	if p, err := strconv.ParseUint(port, 10, 16); err != nil || p > 65535 {
		return "bad"
	}
	if _, err := netip.ParseAddr(host); err == nil {
		return "ip"
	}
	if host == "" {
		return "bad"
	}
	return "domain"
}

func (j *judgement) policies(m J) {
	if v, ok := m["paddingPolicy"]; ok {
		if s, isStr := v.(string); !isStr || !paddingPolicies[s] {
			j.bad("unknown-padding-policy")
		}
	}
	if v, ok := m["rejectPolicy"]; ok {
		if s, isStr := v.(string); !isStr || !rejectPolicies[s] {
			j.bad("unknown-reject-policy")
		}
	}
	if n := num(m, "slidingWindowFilterSize"); n < 0 {
		j.bad("negative-sliding-window-filter-size")
	} else if n > unboundedFrom {
		j.open("sliding-window-filter-size-without-documented-upper-bound")
	}
}

func socks5Credentials(username, password string) bool {
	return len(username) >= 1 && len(username) <= 255 && len(password) >= 1 && len(password) <= 255
}

// --- listeners -----------------------------------------------------------------------

func (j *judgement) tcpListener(l J) {
	switch str(l, "network") {
	case "tcp", "tcp4", "tcp6":
	default:
		j.bad("tcp-listener-network")
	}
	if d, ok := j.duration(l, "initialPayloadWaitTimeout", "initial-payload-wait-timeout"); ok && d < 0 {
		j.bad("negative-initial-payload-wait-timeout")
	}
	if n := num(l, "initialPayloadWaitBufferSize"); n < 0 {
		j.bad("negative-initial-payload-wait-buffer-size")
	} else if n > unboundedFrom {
		j.open("initial-payload-wait-buffer-size-without-documented-upper-bound")
	}
	j.pmtud(l, "pathMTUDiscovery")
}

func (j *judgement) udpPerf(batchMode string, relay, recv, capacity int64) {
	if !batchModes[batchMode] {
		j.bad("unknown-batch-mode")
	}
	if relay < 0 || relay > 1024 {
		j.bad("relay-batch-size-out-of-range")
	}
	if recv < 0 || recv > 1024 {
		j.bad("server-recv-batch-size-out-of-range")
	}
	if capacity != 0 && capacity < 64 {
		j.bad("send-channel-capacity-below-64")
	} else if capacity > unboundedFrom {
		j.open("send-channel-capacity-without-documented-upper-bound")
	}
}

func (j *judgement) natTimeout(d time.Duration, ss bool) {
	switch {
	case d == 0: // default, 5 minutes
	case d < 0:
		j.bad("negative-nat-timeout")
	case ss && d < replayWindow:
		j.bad("nat-timeout-below-replay-window")
	}
}

func (j *judgement) udpListener(l J, ss bool) {
	switch str(l, "network") {
	case "udp", "udp4", "udp6":
	default:
		j.bad("udp-listener-network")
	}
	j.udpPerf(str(l, "batchMode"), num(l, "relayBatchSize"), num(l, "serverRecvBatchSize"), num(l, "sendChannelCapacity"))
	if d, ok := j.duration(l, "natTimeout", "nat-timeout"); ok {
		j.natTimeout(d, ss)
	}
	j.pmtud(l, "pathMTUDiscovery")
}

// --- servers -------------------------------------------------------------------------

func (j *judgement) server(s J, certLists, certPools map[string]bool) (tcpOn, udpOn bool) {
	proto := str(s, "protocol")
	tcpLs, udpLs := list(s, "tcpListeners"), list(s, "udpListeners")
	tcpOn = len(tcpLs) > 0 || boolean(s, "enableTCP")
	udpOn = len(udpLs) > 0 || boolean(s, "enableUDP")
	ss := isSS(proto)

	// things that are wrong wherever they appear: values outside the documented vocabulary
	j.policies(s)
	pskLen, _ := j.base64Field(s, "psk", "psk")
	switch addressKind(s, "tunnelRemoteAddress") {
	case "bad":
		j.bad("malformed-address")
	}
	if addressKind(s, "unsafeFallbackAddress") == "bad" {
		j.bad("malformed-address")
	}

	if !serverProtocols[proto] {
		if tcpOn || udpOn {
			j.bad("unknown-server-protocol")
		} else {
			j.open("server-without-listeners")
		}
	} else if !tcpOn && !udpOn {
		j.open("server-without-listeners")
	}

	if udpOn {
		if serverProtocols[proto] && !udpServerProtos[proto] {
			j.open("udp-listener-on-tcp-only-protocol")
		}
		mtu := num(s, "mtu")
		if mtu < 1280 {
			j.bad("server-mtu-below-1280")
		} else if mtu > 65535 {
			j.open("server-mtu-above-65535")
		}
	}

	switch {
	case proto == "direct":
		switch addressKind(s, "tunnelRemoteAddress") {
		case "":
			j.bad("tunnel-without-remote-address")
		case "domain":
			if boolean(s, "tunnelUDPTargetOnly") && udpOn {
				// "drop packets that are not sent from TunnelRemoteAddress": what that
				// means for a domain name is not documented.
				j.open("tunnel-target-only-with-domain-address")
			}
		}
	case ss:
		want := keyLenOf(proto)
		if pskLen != want {
			j.bad("server-psk-length")
		}
		if p := str(s, "uPSKStorePath"); p != "" {
			f, known := fixtureOf(p)
			switch {
			case !known || f.kind == "missing":
				j.bad("upsk-store-unreadable")
			case !f.ok:
				j.bad("upsk-store-malformed")
			case len(f.keyLens) == 0:
				j.open("upsk-store-without-users")
			default:
				for _, n := range f.keyLens {
					if n != want {
						j.bad("upsk-length")
					}
				}
			}
		}
	case proto == "socks5":
		a := object(s, "socks5")
		if boolean(a, "enableUserPassAuth") {
			okUsers := true
			for _, u := range list(a, "users") {
				um, _ := u.(J)
				if !socks5Credentials(str(um, "username"), str(um, "password")) {
					okUsers = false
				}
			}
			if !okUsers {
				if tcpOn {
					j.bad("socks5-user-credentials")
				} else {
					j.open("socks5-user-credentials-without-tcp")
				}
			}
			if len(list(a, "users")) == 0 {
				j.open("socks5-auth-without-users")
			}
		}
	case proto == "http":
		h := object(s, "http")
		if boolean(h, "enableTLS") && str(h, "certList") == "" {
			j.bad("https-without-certificate-list")
		}
		if n := str(h, "certList"); n != "" && !certLists[n] {
			if tcpOn {
				j.bad("dangling-certificate-list")
			} else {
				j.open("dangling-certificate-list-without-tcp")
			}
		}
		if n := str(h, "clientCAs"); n != "" && !certPools[n] {
			if tcpOn {
				j.bad("dangling-client-ca-pool")
			} else {
				j.open("dangling-client-ca-pool-without-tcp")
			}
		}
	}

	for _, l := range tcpLs {
		lm, _ := l.(J)
		j.tcpListener(lm)
	}
	for _, l := range udpLs {
		lm, _ := l.(J)
		j.udpListener(lm, ss)
	}
	if boolean(s, "enableUDP") {
		j.udpPerf(str(s, "udpBatchMode"), num(s, "udpRelayBatchSize"), num(s, "udpServerRecvBatchSize"), num(s, "udpSendChannelCapacity"))
		j.natTimeout(time.Duration(num(s, "natTimeoutSec"))*time.Second, ss)
	}
	return
}

// --- clients -------------------------------------------------------------------------

func (j *judgement) client(c J, certLists, certPools map[string]bool) (tcp, udp bool) {
	proto := str(c, "protocol")
	tcp, udp = boolean(c, "enableTCP"), boolean(c, "enableUDP")

	switch str(c, "network") {
	case "", "ip", "ip4", "ip6":
	default:
		j.bad("unknown-client-network")
	}
	j.policies(c)
	j.pmtud(c, "tcpPathMTUDiscovery")
	j.pmtud(c, "udpPathMTUDiscovery")
	pskLen, _ := j.base64Field(c, "psk", "psk")
	var ipskLens []int
	for _, k := range list(c, "iPSKs") {
		s, _ := k.(string)
		b, err := base64.StdEncoding.DecodeString(s)
		if err != nil {
			j.bad("psk-not-base64")
		}
		ipskLens = append(ipskLens, len(b))
	}
	e, t, u := addressKind(c, "endpoint"), addressKind(c, "tcpAddress"), addressKind(c, "udpAddress")
	if e == "bad" || t == "bad" || u == "bad" {
		j.bad("malformed-address")
	}

	if !clientProtocols[proto] {
		if tcp || udp {
			j.bad("unknown-client-protocol")
		} else {
			j.open("disabled-client-with-unknown-protocol")
		}
		return
	}

	if proto != "direct" {
		ev, tv, uv := e != "" && e != "bad", t != "" && t != "bad", u != "" && u != "bad"
		switch {
		case ev && (tv || uv):
			j.bad("conflicting-proxy-addresses")
		case !ev && !tv && !uv:
			if tcp || udp {
				j.bad("missing-proxy-address")
			} else {
				j.open("disabled-client-without-address")
			}
		case !ev:
			if tcp && !tv {
				j.bad("missing-proxy-tcp-address")
			}
			if udp && !uv {
				j.bad("missing-proxy-udp-address")
			}
		}
	}

	if udp {
		if proto == "http" {
			j.open("udp-on-http-client")
		}
		if num(c, "mtu") < 1280 {
			j.bad("client-mtu-below-1280")
		} else if num(c, "mtu") > 65535 {
			j.open("client-mtu-above-65535")
		}
	}

	switch {
	case isSS(proto):
		want := keyLenOf(proto)
		if pskLen != want {
			j.bad("client-psk-length")
		}
		for _, n := range ipskLens {
			if n != want {
				j.bad("client-ipsk-length")
			}
		}
	case proto == "socks5":
		a := object(c, "socks5")
		if boolean(a, "enableUserPassAuth") && !socks5Credentials(str(a, "username"), str(a, "password")) {
			j.bad("socks5-client-credentials")
		}
	case proto == "http":
		h := object(c, "http")
		if n := str(h, "certList"); n != "" && !certLists[n] {
			if tcp {
				j.bad("dangling-certificate-list")
			} else {
				j.open("dangling-certificate-list-without-tcp")
			}
		}
		if n := str(h, "rootCAs"); n != "" && !certPools[n] {
			if tcp {
				j.bad("dangling-root-ca-pool")
			} else {
				j.open("dangling-root-ca-pool-without-tcp")
			}
		}
	}
	return
}

// --- the whole document ------------------------------------------------------------

func judge(doc J) *judgement {
	j := &judgement{}

	certLists, certPools := map[string]bool{}, map[string]bool{}
	for _, cl := range list(object(doc, "certs"), "certLists") {
		m, _ := cl.(J)
		certLists[str(m, "name")] = true
	}
	for _, cp := range list(object(doc, "certs"), "x509CertPools") {
		m, _ := cp.(J)
		certPools[str(m, "name")] = true
	}

	servers := list(doc, "servers")
	if len(servers) == 0 {
		j.bad("no-servers")
	}

	// clients; README: "The clients field can be omitted or left empty. A
	// default "direct" client will be automatically added."
	tcpNames, udpNames := map[string]bool{}, map[string]bool{}
	clientNames := map[string]bool{}
	clients := list(doc, "clients")
	if len(clients) == 0 {
		clientNames["direct"], tcpNames["direct"], udpNames["direct"] = true, true, true
	}
	for _, c := range clients {
		cm, _ := c.(J)
		name := str(cm, "name")
		if clientNames[name] {
			j.bad("duplicate-client-name")
		}
		if name == "" {
			j.open("empty-client-name")
		}
		if name == "reject" {
			j.open("client-named-reject")
		}
		clientNames[name] = true
		tcp, udp := j.client(cm, certLists, certPools)
		if tcp {
			tcpNames[name] = true
		}
		if udp {
			udpNames[name] = true
		}
	}

	groupNames := map[string]bool{}
	for _, g := range list(doc, "clientGroups") {
		gm, _ := g.(J)
		name := str(gm, "name")
		if clientNames[name] {
			j.bad("client-group-named-like-a-client")
		}
		if groupNames[name] {
			j.bad("duplicate-client-group-name")
		}
		if name == "" {
			j.open("empty-client-group-name")
		}
		groupNames[name] = true
		tcpSel, udpSel := object(gm, "tcp"), object(gm, "udp")
		tcpMembers, udpMembers := strs(tcpSel, "clients"), strs(udpSel, "clients")
		if len(tcpMembers) == 0 && len(udpMembers) == 0 {
			j.bad("empty-client-group")
		}
		if len(tcpMembers) > 0 {
			for _, m := range tcpMembers {
				if !tcpNames[m] {
					j.bad("client-group-dangling-tcp-client")
				}
			}
			if !groupPolicies[str(tcpSel, "policy")] {
				j.bad("unknown-client-selection-policy")
			}
		}
		if len(udpMembers) > 0 {
			for _, m := range udpMembers {
				if !udpNames[m] {
					j.bad("client-group-dangling-udp-client")
				}
			}
			if !groupPolicies[str(udpSel, "policy")] {
				j.bad("unknown-client-selection-policy")
			}
		}
		for _, sel := range []J{tcpSel, udpSel} {
			p := object(sel, "probe")
			if d, ok := j.duration(p, "timeout", "probe-timeout"); ok && d < 0 {
				j.open("negative-probe-timeout")
			}
			if d, ok := j.duration(p, "interval", "probe-interval"); ok && d < 0 {
				j.open("negative-probe-interval")
			}
			if addressKind(p, "address") == "bad" {
				j.bad("malformed-address")
			}
		}
		if len(tcpMembers) > 0 {
			tcpNames[name] = true
		}
		if len(udpMembers) > 0 {
			udpNames[name] = true
		}
	}

	// resolvers; dns.ResolverConfig: "The name must be unique among all resolvers."
	resolverNames := map[string]bool{}
	for _, r := range list(doc, "dns") {
		rm, _ := r.(J)
		name := str(rm, "name")
		if resolverNames[name] {
			j.bad("duplicate-resolver-name")
		}
		resolverNames[name] = true
		addr := str(rm, "addrPort")
		addrOK := false
		if addr != "" {
			if _, err := netip.ParseAddrPort(addr); err != nil {
				j.bad("malformed-address")
			} else {
				addrOK = true
			}
		}
		tn, un := str(rm, "tcpClientName"), str(rm, "udpClientName")
		switch str(rm, "type") {
		case "system":
			if addr != "" || tn != "" || un != "" {
				j.bad("system-resolver-with-address-or-clients")
			}
		case "", "plain":
			if !addrOK {
				j.bad("resolver-without-address")
			}
			if tn == "" && un == "" {
				j.bad("resolver-without-clients")
			}
			if tn != "" && !tcpNames[tn] {
				j.bad("resolver-dangling-tcp-client")
			}
			if un != "" && !udpNames[un] {
				j.bad("resolver-dangling-udp-client")
			}
		default:
			j.bad("unknown-resolver-type")
		}
		if num(rm, "cacheSize") > unboundedFrom {
			j.open("cache-size-without-documented-upper-bound")
		}
	}

	// servers
	serverNames := map[string]bool{}
	anyUDPServer := false
	for _, s := range servers {
		sm, _ := s.(J)
		name := str(sm, "name")
		if serverNames[name] {
			j.bad("duplicate-server-name")
		}
		if name == "" {
			j.open("empty-server-name")
		}
		serverNames[name] = true
		_, udpOn := j.server(sm, certLists, certPools)
		anyUDPServer = anyUDPServer || udpOn
	}
	_ = anyUDPServer

	// router
	rt := object(doc, "router")
	if n := str(rt, "defaultTCPClientName"); n != "" && n != "reject" && !tcpNames[n] {
		j.bad("router-default-tcp-client-dangling")
	}
	if n := str(rt, "defaultUDPClientName"); n != "" && n != "reject" && !udpNames[n] {
		j.bad("router-default-udp-client-dangling")
	}
	if p := str(rt, "geoLite2CountryDbPath"); p != "" {
		if f, known := fixtureOf(p); !known || f.kind == "missing" {
			j.bad("geoip-database-unreadable")
		}
	}
	domainSets, prefixSets := map[string]bool{}, map[string]bool{}
	for _, ds := range list(rt, "domainSets") {
		m, _ := ds.(J)
		name := str(m, "name")
		if domainSets[name] {
			j.bad("duplicate-domain-set-name")
		}
		domainSets[name] = true
		switch str(m, "type") {
		case "", "text":
			f, known := fixtureOf(str(m, "path"))
			switch {
			case !known || f.kind == "missing":
				j.bad("domain-set-file-unreadable")
			case f.kind != "domainset" || !f.ok:
				j.bad("domain-set-file-malformed")
			}
		case "gob":
			f, known := fixtureOf(str(m, "path"))
			if !known || f.kind == "missing" {
				j.bad("domain-set-file-unreadable")
			} else {
				j.bad("domain-set-file-malformed") // no gob fixtures exist: every file is text
			}
		default:
			j.bad("unknown-domain-set-type")
		}
	}
	for _, ps := range list(rt, "prefixSets") {
		m, _ := ps.(J)
		name := str(m, "name")
		if prefixSets[name] {
			j.bad("duplicate-prefix-set-name")
		}
		prefixSets[name] = true
		f, known := fixtureOf(str(m, "path"))
		switch {
		case !known || f.kind == "missing":
			j.bad("prefix-set-file-unreadable")
		case f.kind != "prefixset" || !f.ok:
			j.bad("prefix-set-file-malformed")
		}
	}
	routeNames := map[string]bool{}
	for _, r := range list(rt, "routes") {
		m, _ := r.(J)
		name := str(m, "name")
		if name == "" || name == "default" {
			j.open("route-name-empty-or-default")
		}
		if routeNames[name] {
			j.open("duplicate-route-name")
		}
		routeNames[name] = true
		network := str(m, "network")
		switch network {
		case "", "tcp", "udp":
		default:
			j.bad("unknown-route-network")
		}
		switch cl := str(m, "client"); {
		case cl == "":
			if tcpNames[""] || udpNames[""] {
				// a client or group with the empty name exists (itself an open case): the reference resolves
				j.open("route-to-the-client-named-empty")
			} else {
				j.bad("route-without-client") // "Must not be empty."
			}
		case cl == "reject":
		default:
			inT, inU := tcpNames[cl], udpNames[cl]
			switch network {
			case "tcp":
				if !inT {
					j.bad("route-dangling-client")
				}
			case "udp":
				if !inU {
					j.bad("route-dangling-client")
				}
			default:
				if !inT && !inU {
					j.bad("route-dangling-client")
				} else if !inT || !inU {
					j.open("route-client-lacks-one-network")
				}
			}
		}
		if rn := str(m, "resolver"); rn != "" && !resolverNames[rn] {
			j.bad("route-dangling-resolver")
		}
		for _, sn := range strs(m, "fromServers") {
			if !serverNames[sn] {
				j.bad("route-dangling-server")
			}
		}
		for _, dn := range strs(m, "toDomainSets") {
			if !domainSets[dn] {
				j.bad("route-dangling-domain-set")
			}
		}
		ipRules := false
		for _, k := range []string{"fromPrefixSets", "toPrefixSets", "toMatchedDomainExpectedPrefixSets"} {
			for _, pn := range strs(m, k) {
				if !prefixSets[pn] {
					j.bad("route-dangling-prefix-set")
				}
			}
		}
		if len(list(m, "toPrefixSets")) > 0 || len(list(m, "toPrefixes")) > 0 {
			ipRules = true
		}
		if ipRules && !boolean(m, "disableNameResolutionForIPRules") && len(resolverNames) == 0 {
			j.open("ip-rules-without-resolvers")
		}
		geo := len(list(m, "fromGeoIPCountries")) > 0 || len(list(m, "toGeoIPCountries")) > 0 || len(list(m, "toMatchedDomainExpectedGeoIPCountries")) > 0
		if geo && str(rt, "geoLite2CountryDbPath") == "" {
			j.bad("route-geoip-criteria-without-database") // a referenced resource that does not exist
		}
		if len(list(m, "toGeoIPCountries")) > 0 && !boolean(m, "disableNameResolutionForIPRules") && len(resolverNames) == 0 {
			j.open("ip-rules-without-resolvers")
		}
		if len(list(m, "toMatchedDomainExpectedGeoIPCountries")) > 0 {
			if len(resolverNames) == 0 {
				j.open("expected-ip-rules-without-resolvers")
			}
			if len(list(m, "toDomainSets")) == 0 && len(list(m, "toDomains")) == 0 {
				j.open("expected-ip-rules-without-domain-criteria")
			}
		}
		if len(list(m, "toMatchedDomainExpectedPrefixSets")) > 0 {
			if len(resolverNames) == 0 {
				j.open("expected-ip-rules-without-resolvers")
			}
			if len(list(m, "toDomainSets")) == 0 && len(list(m, "toDomains")) == 0 {
				j.open("expected-ip-rules-without-domain-criteria")
			}
		}
	}
	return j
}
