package main

// Part B: omitted == explicitly empty == explicit documented default, compared
// on effective values.

import (
	"fmt"
	"sort"
	"strings"
)

// defField is one field with a documented default.
type defField struct {
	name       string // canonical name used in signatures
	path       string // path in the listener-array form ("" = not available)
	legacyPath string // path in the legacy single-listener form ("" = not available)
	empty      any    // the explicitly empty letter
	explicit   any    // the explicit documented default (nil = the documentation names none)
	legacyEmp  any
	legacyExp  any
	key        string // snapshot key of the effective value ("" = compare whole snapshots only)
	documented string // the documented effective value, as the snapshot prints it
	source     string // where the default is documented
}

type ctxB struct {
	method string
	multi  bool
	legacy bool
	pert   bool
}

func (x ctxB) String() string {
	return fmt.Sprintf("method=%s multiUser=%v legacy=%v otherFieldsNonDefault=%v", x.method, x.multi, x.legacy, x.pert)
}

// ctxDoc is the document the default forms are tried in.
func ctxDoc(x ctxB) J {
	s0 := serverDoc("s0", x.method, x.legacy, true, true, x.multi)
	c0 := clientDoc("c0", x.method, true, true)
	d := J{
		"servers": L{s0},
		"clients": L{c0, clientDoc("c1", "direct", true, true)},
		"clientGroups": L{J{"name": "g0",
			"tcp": J{"policy": "availability", "clients": L{"c1"}},
			"udp": J{"policy": "availability", "clients": L{"c1"}}}},
		"dns": L{J{"name": "d0", "addrPort": "127.0.0.1:53", "tcpClientName": "c1", "udpClientName": "c1"}},
		"router": J{
			"defaultTCPClientName": "c0", "defaultUDPClientName": "c0",
			"domainSets": L{J{"name": "ds0", "path": "@TMP@/ds.txt"}},
			"routes":     L{J{"name": "r0", "client": "g0", "toDomainSets": L{"ds0"}}},
		},
	}
	if x.pert {
		// every other field away from its default (the field under test is set afterwards)
		s0["mtu"] = 1400
		s0["paddingPolicy"] = "PadAll"
		s0["rejectPolicy"] = "CloseWriteDrain"
		s0["slidingWindowFilterSize"] = 64
		if x.legacy {
			s0["natTimeoutSec"] = 120
			s0["udpBatchMode"] = "no"
			s0["udpRelayBatchSize"] = 8
			s0["udpServerRecvBatchSize"] = 16
			s0["udpSendChannelCapacity"] = 128
			s0["disableInitialPayloadWait"] = true
		} else {
			u := s0["udpListeners"].(L)[0].(J)
			u["natTimeout"] = "2m0s"
			u["batchMode"] = "no"
			u["relayBatchSize"] = 8
			u["serverRecvBatchSize"] = 16
			u["sendChannelCapacity"] = 128
			u["pathMTUDiscovery"] = "dont"
			t := s0["tcpListeners"].(L)[0].(J)
			t["initialPayloadWaitTimeout"] = "1s"
			t["initialPayloadWaitBufferSize"] = 512
			t["pathMTUDiscovery"] = "do"
		}
		c0["mtu"] = 1400
		c0["network"] = "ip4"
		c0["paddingPolicy"] = "NoPadding"
		c0["slidingWindowFilterSize"] = 64
		c0["tcpPathMTUDiscovery"] = "do"
		c0["udpPathMTUDiscovery"] = "dont"
		g := d["clientGroups"].(L)[0].(J)
		g["tcp"].(J)["probe"] = J{"timeout": "1s", "interval": "10s", "concurrency": 2}
		g["udp"].(J)["probe"] = J{"timeout": "1s", "interval": "10s", "concurrency": 2}
	}
	return d
}

func defFields() []defField {
	u, t := "servers.0.udpListeners.0.", "servers.0.tcpListeners.0."
	ul, tl := "server[s0].udpsession.listener[0].", "server[s0].tcp.listener[0]."
	return []defField{
		{name: "server.rejectPolicy", path: "servers.0.rejectPolicy", legacyPath: "servers.0.rejectPolicy", empty: "", explicit: "ForceReset", legacyEmp: "", legacyExp: "ForceReset",
			key: "server[s0].tcp.rejectPolicy", documented: "ForceReset", source: `README.md "TCP Reject Policy": ForceReset (default)`},
		{name: "server.paddingPolicy", path: "servers.0.paddingPolicy", legacyPath: "servers.0.paddingPolicy", empty: "", explicit: "PadPlainDNS", legacyEmp: "", legacyExp: "PadPlainDNS",
			key: "server[s0].udpsession.paddingBehaviour", documented: "PadPlainDNS", source: `README.md "Packet Padding Policy": PadPlainDNS (default)`},
		{name: "server.slidingWindowFilterSize", path: "servers.0.slidingWindowFilterSize", legacyPath: "servers.0.slidingWindowFilterSize", empty: 0, explicit: 256, legacyEmp: 0, legacyExp: 256,
			key: "server[s0].udpsession.slidingWindowFilterSize", documented: "256", source: "ServerConfig.SlidingWindowFilterSize: The default value is 256"},
		{name: "server.uPSKStorePath", path: "servers.0.uPSKStorePath", legacyPath: "servers.0.uPSKStorePath", empty: "", legacyEmp: "",
			source: `README.md: "the uPSKStorePath field can be omitted or left empty"`},
		{name: "udpListener.natTimeout", path: u + "natTimeout", legacyPath: "servers.0.natTimeoutSec", empty: "0s", explicit: "5m0s", legacyEmp: 0, legacyExp: 300,
			key: ul + "natTimeoutNs", documented: "300000000000", source: "UDPListenerConfig.NATTimeout: The default value is 5 minutes"},
		{name: "udpListener.relayBatchSize", path: u + "relayBatchSize", legacyPath: "servers.0.udpRelayBatchSize", empty: 0, explicit: 256, legacyEmp: 0, legacyExp: 256,
			key: ul + "relayBatchSize", documented: "256", source: "UDPPerfConfig.RelayBatchSize: The default value is 256"},
		{name: "udpListener.serverRecvBatchSize", path: u + "serverRecvBatchSize", legacyPath: "servers.0.udpServerRecvBatchSize", empty: 0, explicit: 64, legacyEmp: 0, legacyExp: 64,
			key: ul + "serverRecvBatchSize", documented: "64", source: "UDPPerfConfig.ServerRecvBatchSize: The default value is 64"},
		{name: "udpListener.sendChannelCapacity", path: u + "sendChannelCapacity", legacyPath: "servers.0.udpSendChannelCapacity", empty: 0, explicit: 1024, legacyEmp: 0, legacyExp: 1024,
			key: ul + "sendChannelCapacity", documented: "1024", source: "UDPPerfConfig.SendChannelCapacity: The default value is 1024"},
		{name: "udpListener.batchMode", path: u + "batchMode", legacyPath: "servers.0.udpBatchMode", empty: "", legacyEmp: "",
			key: ul + "batchMode", documented: "", source: `UDPPerfConfig.BatchMode: "": Platform default`},
		{name: "udpListener.pathMTUDiscovery", path: u + "pathMTUDiscovery", empty: "", explicit: "default",
			key: "server[s0].udp.listener[0].pathMTUDiscovery", documented: "default", source: `README.md "IP Fragmentation": "default"`},
		{name: "tcpListener.initialPayloadWaitTimeout", path: t + "initialPayloadWaitTimeout", empty: "0s", explicit: "250ms",
			key: tl + "initialPayloadWaitTimeoutNs", documented: "250000000", source: "TCPListenerConfig.InitialPayloadWaitTimeout: The default value is 250ms"},
		{name: "tcpListener.initialPayloadWaitBufferSize", path: t + "initialPayloadWaitBufferSize", empty: 0, explicit: 1440,
			key: tl + "initialPayloadWaitBufferSize", documented: "1440", source: "TCPListenerConfig.InitialPayloadWaitBufferSize: The default value is 1440"},
		{name: "tcpListener.pathMTUDiscovery", path: t + "pathMTUDiscovery", empty: "", explicit: "default",
			key: "server[s0].tcp.listener[0].pathMTUDiscovery", documented: "default", source: `README.md "IP Fragmentation": "default"`},
		{name: "client.network", path: "clients.0.network", legacyPath: "clients.0.network", empty: "", explicit: "ip", legacyEmp: "", legacyExp: "ip",
			key: "client[c0].network", documented: "ip", source: `ClientConfig.Network: If unspecified, "ip" is used`},
		{name: "client.paddingPolicy", path: "clients.0.paddingPolicy", legacyPath: "clients.0.paddingPolicy", empty: "", explicit: "PadPlainDNS", legacyEmp: "", legacyExp: "PadPlainDNS",
			key: "route[1:default].udpClient.paddingBehaviour", documented: "PadPlainDNS", source: `README.md "Packet Padding Policy": PadPlainDNS (default)`},
		{name: "client.slidingWindowFilterSize", path: "clients.0.slidingWindowFilterSize", legacyPath: "clients.0.slidingWindowFilterSize", empty: 0, explicit: 256, legacyEmp: 0, legacyExp: 256,
			key: "route[1:default].udpClient.slidingWindowFilterSize", documented: "256", source: "ClientConfig.SlidingWindowFilterSize: The default value is 256"},
		{name: "client.tcpPathMTUDiscovery", path: "clients.0.tcpPathMTUDiscovery", legacyPath: "clients.0.tcpPathMTUDiscovery", empty: "", explicit: "default", legacyEmp: "", legacyExp: "default",
			key: "client[c0].tcpPathMTUDiscovery", documented: "default", source: `README.md "IP Fragmentation": "default"`},
		{name: "client.udpPathMTUDiscovery", path: "clients.0.udpPathMTUDiscovery", legacyPath: "clients.0.udpPathMTUDiscovery", empty: "", explicit: "default", legacyEmp: "", legacyExp: "default",
			key: "client[c0].udpPathMTUDiscovery", documented: "default", source: `README.md "IP Fragmentation": "default"`},
		{name: "resolver.type", path: "dns.0.type", legacyPath: "dns.0.type", empty: "", explicit: "plain", legacyEmp: "", legacyExp: "plain",
			source: `dns.ResolverConfig.Type: The default value is "plain"`},
		{name: "resolver.cacheSize", path: "dns.0.cacheSize", legacyPath: "dns.0.cacheSize", empty: 0, explicit: 1024, legacyEmp: 0, legacyExp: 1024,
			source: "dns.ResolverConfig.CacheSize: If zero, the default cache size is 1024"},
		{name: "domainSet.type", path: "router.domainSets.0.type", legacyPath: "router.domainSets.0.type", empty: "", explicit: "text", legacyEmp: "", legacyExp: "text",
			source: `domainset.Config.Type: "text": text format (default)`},
		{name: "route.network", path: "router.routes.0.network", legacyPath: "router.routes.0.network", empty: "", legacyEmp: "",
			source: "RouteConfig.Network: If empty, match all requests"},
		{name: "probe.timeout", path: "clientGroups.0.tcp.probe.timeout", legacyPath: "clientGroups.0.tcp.probe.timeout", empty: "0s", explicit: "5s", legacyEmp: "0s", legacyExp: "5s",
			source: "ConnectivityProbeConfig.Timeout: Default is 5 seconds"},
		{name: "probe.interval", path: "clientGroups.0.tcp.probe.interval", legacyPath: "clientGroups.0.tcp.probe.interval", empty: "0s", explicit: "30s", legacyEmp: "0s", legacyExp: "30s",
			source: "ConnectivityProbeConfig.Interval: Default is 30 seconds"},
		{name: "probe.concurrency", path: "clientGroups.0.udp.probe.concurrency", legacyPath: "clientGroups.0.udp.probe.concurrency", empty: 0, explicit: 32, legacyEmp: 0, legacyExp: 32,
			source: "ConnectivityProbeConfig.Concurrency: Default is 32"},
	}
}

type formB struct {
	name string
	v    any
}

func (f defField) forms(legacy bool) (path string, forms []formB) {
	path, empty, explicit := f.path, f.empty, f.explicit
	if legacy {
		path, empty, explicit = f.legacyPath, f.legacyEmp, f.legacyExp
	}
	if path == "" {
		return "", nil
	}
	forms = []formB{{"omitted", omitted}, {"empty", empty}}
	if explicit != nil {
		forms = append(forms, formB{"explicit-default", explicit})
	}
	return
}

// tryDefault evaluates one field in one context.
func tryDefault(e *engine, f defField, x ctxB) (ms []mismatch, loads int64) {
	path, forms := f.forms(x.legacy)
	if path == "" {
		return nil, 0
	}
	replay := map[string]any{"part": "B", "field": f.name, "method": x.method, "multiUser": x.multi, "legacy": x.legacy, "perturbed": x.pert}
	snaps := make([]map[string]string, len(forms))
	eff := make([]string, len(forms))
	for i, fm := range forms {
		d := ctxDoc(x)
		setPath(d, path, fm.v)
		res := load(resolve(render(d), e.env), e.logger)
		loads++
		if !res.accepted {
			ms = append(ms, mismatch{sig: fmt.Sprintf("default-form-refused: %s %s", f.name, fm.name),
				what: fmt.Sprintf("%s given as %s (%s) is refused: %s: %s\n  documented: %s\n  context: %s\n  config: %s", f.name, fm.name, letter(fm.v), res.stage, res.err, f.source, x, render(d)), replay: replay})
			res.close()
			return
		}
		snaps[i] = snapshot(&res)
		eff[i] = "<not observed>"
		if f.key != "" {
			if v, ok := snaps[i][f.key]; ok {
				eff[i] = v
			} else {
				res.close()
				panic("C18 harness: snapshot has no key " + f.key)
			}
		}
		res.close()
	}
	var effs []string
	for i, fm := range forms {
		effs = append(effs, fm.name+"="+eff[i])
	}
	summary := strings.Join(effs, " ")
	// (1) all forms agree on everything observable
	for i := 1; i < len(forms); i++ {
		if d := snapshotDiff(snaps[0], snaps[i]); len(d) > 0 {
			ms = append(ms, mismatch{sig: fmt.Sprintf("default-forms-differ: %s: %s documented=%s", f.name, summary, f.documented),
				what: fmt.Sprintf("%s: omitted and %s (%s) do not mean the same: %s\n  effective value: %s; documented default: %s (%s)\n  context: %s\n  config (omitted form): %s",
					f.name, forms[i].name, letter(forms[i].v), strings.Join(d, "; "), summary, f.documented, f.source, x, render(func() J { d := ctxDoc(x); setPath(d, path, omitted); return d }())), replay: replay})
			return
		}
	}
	// (2) and the value is the documented one
	if f.key != "" && eff[0] != f.documented {
		ms = append(ms, mismatch{sig: fmt.Sprintf("default-not-as-documented: %s: %s documented=%s", f.name, summary, f.documented),
			what: fmt.Sprintf("%s: the effective default is %s, the documentation says %s (%s)\n  context: %s", f.name, eff[0], f.documented, f.source, x), replay: replay})
	}
	return
}

// tryDefaultPair: two fields at once, each omitted or empty: all four documents must agree.
func tryDefaultPair(e *engine, f, g defField, x ctxB) (ms []mismatch, loads int64) {
	pf, ff := f.forms(x.legacy)
	pg, fg := g.forms(x.legacy)
	if pf == "" || pg == "" || pf == pg {
		return nil, 0
	}
	var first map[string]string
	for i := 0; i < 2; i++ {
		for k := 0; k < 2; k++ {
			d := ctxDoc(x)
			setPath(d, pf, ff[i].v)
			setPath(d, pg, fg[k].v)
			res := load(resolve(render(d), e.env), e.logger)
			loads++
			if !res.accepted {
				res.close()
				return // reported by the single-field pass
			}
			s := snapshot(&res)
			res.close()
			if first == nil {
				first = s
				continue
			}
			if diff := snapshotDiff(first, s); len(diff) > 0 {
				ms = append(ms, mismatch{sig: fmt.Sprintf("default-forms-differ-in-pair: %s + %s at %s", f.name, g.name, keyShape(diff[0])),
					what:   fmt.Sprintf("%s=%s together with %s=%s differs from both omitted: %s\n  context: %s", f.name, ff[i].name, g.name, fg[k].name, strings.Join(diff, "; "), x),
					replay: map[string]any{"part": "B", "field": f.name, "field2": g.name, "method": x.method, "multiUser": x.multi, "legacy": x.legacy, "perturbed": x.pert}})
				return
			}
		}
	}
	return
}

func contextsB() []ctxB {
	var out []ctxB
	for _, pert := range []bool{false, true} {
		for _, legacy := range []bool{false, true} {
			for _, multi := range []bool{false, true} {
				for _, method := range []string{m128, m256} {
					out = append(out, ctxB{method, multi, legacy, pert})
				}
			}
		}
	}
	return out
}

func partB(e *engine) {
	c := e.c
	fields := defFields()
	var all []mismatch
	var loads, triples, pairs int64
	perField := map[string]int64{}
	failing := map[string]bool{} // fields whose single comparison already failed: not repeated in pairs
	for _, x := range contextsB() {
		for _, f := range fields {
			ms, n := tryDefault(e, f, x)
			if n > 0 {
				triples++
				perField[f.name]++
			}
			loads += n
			all = append(all, ms...)
			if len(ms) > 0 {
				failing[f.name] = true
			}
			c.Distinct("B|"+f.name+"|"+x.String(), n > 0)
		}
	}
	for _, x := range contextsB() {
		if !c.Thorough() && (x.pert || x.method == m256) {
			continue
		}
		for i := range fields {
			for k := i + 1; k < len(fields); k++ {
				if failing[fields[i].name] || failing[fields[k].name] {
					continue
				}
				ms, n := tryDefaultPair(e, fields[i], fields[k], x)
				if n > 0 {
					pairs++
				}
				loads += n
				all = append(all, ms...)
			}
		}
	}
	for _, m := range all {
		c.Violation(m.sig, m.what, m.replay)
	}
	c.Count(triples+pairs, 0, loads)
	names := make([]string, 0, len(perField))
	for n := range perField {
		names = append(names, n)
	}
	sort.Strings(names)
	c.Part("B:defaults", map[string]any{
		"fields_with_documented_default": names, "contexts": len(contextsB()),
		"forms":                       "omitted / explicitly empty / explicit documented default",
		"field_x_context_comparisons": triples, "field_pair_comparisons": pairs, "loads": loads,
		"mismatches":  len(all),
		"compared_on": "effective values read through overlay_static/{service,ss2022,router}/c18_export.go: reject policy function, padding policy function and behaviour, filter sizes, NAT timeout, batch sizes, channel capacity, initial-payload wait, PMTUD modes, client network, probe settings, router client types",
	})
	c.Sample(map[string]any{"part": "B", "field": "udpListener.natTimeout", "forms": []string{"omitted", `"0s"`, `"5m0s"`}, "effective_key": "server[s0].udpsession.listener[0].natTimeoutNs", "documented": "300000000000"})
	fmt.Printf("C18 part B: %d field x context comparisons, %d field pairs, %d loads, %d mismatches\n", triples, pairs, loads, len(all))
}

func replayB(e *engine, r map[string]any) []mismatch {
	name, _ := r["field"].(string)
	name2, _ := r["field2"].(string)
	method, _ := r["method"].(string)
	multi, _ := r["multiUser"].(bool)
	legacy, _ := r["legacy"].(bool)
	pert, _ := r["perturbed"].(bool)
	x := ctxB{method, multi, legacy, pert}
	var f, g *defField
	fields := defFields()
	for i := range fields {
		if fields[i].name == name {
			f = &fields[i]
		}
		if fields[i].name == name2 {
			g = &fields[i]
		}
	}
	if f == nil {
		return nil
	}
	if g != nil {
		ms, _ := tryDefaultPair(e, *f, *g, x)
		return ms
	}
	ms, _ := tryDefault(e, *f, x)
	return ms
}
