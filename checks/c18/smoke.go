package main

// Part C worker: runs ONE accepted configuration in this (sub)process on
// loopback, drives the fixed smoke script through it, stops it and prints a
// JSON result.  A panic anywhere in the services kills this process; the
// parent attributes the crash to the configuration.  Nothing here decides a
// verdict by timing: missing echoes are only counted.

import (
	"bufio"
	"bytes"
	"context"
	"encoding/binary"
	"encoding/json"
	"errors"
	"fmt"
	"io"
	"net"
	"net/netip"
	"os"
	"strings"
	"sync"
	"sync/atomic"
	"time"

	"github.com/database64128/shadowsocks-go/router"
	"github.com/database64128/shadowsocks-go/service"
	"go.uber.org/zap"
	"go.uber.org/zap/zapcore"
)

var loopbackAddr = netip.MustParseAddr("127.0.0.1")

type smokeInput struct {
	Doc J      `json:"doc"`
	Tmp string `json:"tmp"`
}

type smokeResult struct {
	Accepted       bool           `json:"accepted"`
	LoadError      string         `json:"loadError,omitempty"`
	Started        bool           `json:"started"`
	StartFailed    bool           `json:"startFailed"`
	StopHang       bool           `json:"stopHang"`
	Ops            map[string]int `json:"ops"`
	Notes          []string       `json:"notes,omitempty"`
	RecoveredPanic string         `json:"recoveredPanic,omitempty"`
}

const (
	ioTimeout    = 8 * time.Second
	shortTimeout = 150 * time.Millisecond
)

// --- echo peers ----------------------------------------------------------------------

type echoServers struct {
	tcp     *net.TCPListener
	udp     *net.UDPConn
	lastSrc atomic.Pointer[netip.AddrPort] // source of the last datagram the UDP echo saw
	udpSeen atomic.Int64
}

func startEcho() (*echoServers, error) {
	// TCP and UDP echo on the same port number, so that one address serves both.
	for attempt := 0; attempt < 50; attempt++ {
		tl, err := net.ListenTCP("tcp4", &net.TCPAddr{IP: net.IPv4(127, 0, 0, 1)})
		if err != nil {
			return nil, err
		}
		port := tl.Addr().(*net.TCPAddr).Port
		uc, err := net.ListenUDP("udp4", &net.UDPAddr{IP: net.IPv4(127, 0, 0, 1), Port: port})
		if err != nil {
			tl.Close()
			continue
		}
		e := &echoServers{tcp: tl, udp: uc}
		go func() {
			for {
				c, err := tl.AcceptTCP()
				if err != nil {
					return
				}
				go func() {
					defer c.Close()
					c.SetDeadline(time.Now().Add(10 * time.Second))
					io.Copy(c, c)
				}()
			}
		}()
		go func() {
			b := make([]byte, 65536)
			for {
				n, src, err := uc.ReadFromUDPAddrPort(b)
				if err != nil {
					return
				}
				s := src
				e.lastSrc.Store(&s)
				e.udpSeen.Add(1)
				uc.WriteToUDPAddrPort(b[:n], src)
			}
		}()
		return e, nil
	}
	return nil, errors.New("cannot find a port free for both TCP and UDP")
}

func (e *echoServers) addr() string { return e.tcp.Addr().String() }
func (e *echoServers) port() uint16 { return uint16(e.tcp.Addr().(*net.TCPAddr).Port) }

// freePort finds a port number currently free for TCP and UDP on loopback.
func freePort() (int, error) {
	for attempt := 0; attempt < 50; attempt++ {
		tl, err := net.ListenTCP("tcp4", &net.TCPAddr{IP: net.IPv4(127, 0, 0, 1)})
		if err != nil {
			return 0, err
		}
		port := tl.Addr().(*net.TCPAddr).Port
		uc, err := net.ListenUDP("udp4", &net.UDPAddr{IP: net.IPv4(127, 0, 0, 1), Port: port})
		tl.Close()
		if err != nil {
			continue
		}
		uc.Close()
		return port, nil
	}
	return 0, errors.New("no free port")
}

// --- running a manager ------------------------------------------------------------------

type running struct {
	mgr     *service.Manager
	cfg     *service.Config
	cancel  context.CancelFunc
	done    chan bool
	started chan struct{}
}

// startManager loads text and runs the manager until stop().  It returns once
// every listener has reported that it started, or Run has returned.
func startManager(text string) (*running, string, error) {
	cfg, err := decodeConfig(text)
	if err != nil {
		return nil, "decode", err
	}
	var (
		expected atomic.Int64
		seen     atomic.Int64
		once     sync.Once
	)
	r := &running{cfg: cfg, done: make(chan bool, 1), started: make(chan struct{})}
	expected.Store(-1)
	hook := func(e zapcore.Entry) error {
		if strings.HasPrefix(e.Message, "Started ") && strings.HasSuffix(e.Message, "service listener") {
			if n := seen.Add(1); n == expected.Load() {
				once.Do(func() { close(r.started) })
			}
		}
		return nil
	}
	core := zapcore.NewCore(zapcore.NewJSONEncoder(zap.NewProductionEncoderConfig()), zapcore.AddSync(io.Discard), zapcore.InfoLevel)
	logger := zap.New(core, zap.Hooks(hook))
	m, err := cfg.Manager(logger)
	if err != nil {
		return nil, "manager", err
	}
	r.mgr = m
	total := 0
	for _, s := range service.VerifC18Services(m) {
		total += len(s.Listeners)
	}
	expected.Store(int64(total))
	if total == 0 {
		once.Do(func() { close(r.started) })
	}
	ctx, cancel := context.WithCancel(context.Background())
	r.cancel = cancel
	go func() { r.done <- m.Run(ctx) }()
	select {
	case <-r.started:
		return r, "", nil
	case ok := <-r.done:
		r.done <- ok
		return r, "start", errors.New("a service failed to start")
	case <-time.After(10 * time.Second):
		return r, "start-timeout", errors.New("listeners did not report in 10 s")
	}
}

// stop cancels the manager and waits for Run to return; false = it hung.
func (r *running) stop() bool {
	if r.cancel != nil {
		r.cancel()
	}
	select {
	case <-r.done:
		r.mgr.Close()
		return true
	case <-time.After(20 * time.Second):
		return false
	}
}

// listenerAddrs returns the bound addresses of a server's listeners.
func (r *running) listenerAddrs(server, kind string) []string {
	var out []string
	for _, s := range service.VerifC18Services(r.mgr) {
		if s.ServerName != server {
			continue
		}
		if (kind == "tcp") != (s.Kind == "tcp") {
			continue
		}
		for _, l := range s.Listeners {
			out = append(out, l.Address)
		}
	}
	return out
}

// --- protocol drivers ------------------------------------------------------------------

var payload = []byte("C18 smoke payload: the quick brown fox jumps over the lazy dog 0123456789")

func socksAddr(ap netip.AddrPort) []byte {
	b := []byte{1}
	a4 := ap.Addr().As4()
	b = append(b, a4[:]...)
	return binary.BigEndian.AppendUint16(b, ap.Port())
}

func dialTCP(addr string) (*net.TCPConn, error) {
	c, err := net.DialTimeout("tcp", addr, ioTimeout)
	if err != nil {
		return nil, err
	}
	c.SetDeadline(time.Now().Add(ioTimeout))
	return c.(*net.TCPConn), nil
}

func expectEcho(c net.Conn, wait time.Duration) string {
	c.SetDeadline(time.Now().Add(wait))
	if _, err := c.Write(payload); err != nil {
		return "write-error"
	}
	got := make([]byte, len(payload))
	if _, err := io.ReadFull(c, got); err != nil {
		return "noecho"
	}
	if !bytes.Equal(got, payload) {
		return "corrupt"
	}
	return "echo"
}

// tcpOp performs one proxied TCP connection through a listener of the given protocol.
func tcpOp(proto, addr string, target netip.AddrPort, wait time.Duration) string {
	c, err := dialTCP(addr)
	if err != nil {
		return "dial-error"
	}
	defer c.Close()
	switch proto {
	case "direct":
	case "none", "plain":
		if _, err := c.Write(socksAddr(target)); err != nil {
			return "write-error"
		}
	case "socks5":
		if _, err := c.Write([]byte{5, 1, 0}); err != nil {
			return "write-error"
		}
		var rep [2]byte
		if _, err := io.ReadFull(c, rep[:]); err != nil || rep[1] != 0 {
			return "handshake-refused"
		}
		if _, err := c.Write(append([]byte{5, 1, 0}, socksAddr(target)...)); err != nil {
			return "write-error"
		}
		c.SetDeadline(time.Now().Add(wait))
		var rr [10]byte
		if _, err := io.ReadFull(c, rr[:]); err != nil {
			return "noreply"
		}
		if rr[1] != 0 {
			return "refused"
		}
	case "http":
		fmt.Fprintf(c, "CONNECT %s HTTP/1.1\r\nHost: %s\r\n\r\n", target, target)
		c.SetDeadline(time.Now().Add(wait))
		br := bufio.NewReader(c)
		status, err := br.ReadString('\n')
		if err != nil {
			return "noreply"
		}
		if !strings.Contains(status, " 200") {
			return "refused"
		}
		for {
			line, err := br.ReadString('\n')
			if err != nil {
				return "noreply"
			}
			if line == "\r\n" {
				break
			}
		}
	default:
		return "unsupported"
	}
	return expectEcho(c, wait)
}

// tcpGarbage connects, sends bytes that are no valid handshake of anything, reads a little and closes.
func tcpGarbage(addr string) string {
	c, err := dialTCP(addr)
	if err != nil {
		return "dial-error"
	}
	defer c.Close()
	junk := bytes.Repeat([]byte{0xAA, 0x55, 0xFF, 0x00, 0x7F}, 40)
	if _, err := c.Write(junk); err != nil {
		return "write-error"
	}
	c.SetReadDeadline(time.Now().Add(shortTimeout))
	b := make([]byte, 4096)
	c.Read(b)
	c.Write(junk)
	c.SetReadDeadline(time.Now().Add(shortTimeout))
	c.Read(b)
	return "done"
}

func udpWrap(proto string, target netip.AddrPort, p []byte) []byte {
	switch proto {
	case "socks5":
		return append(append([]byte{0, 0, 0}, socksAddr(target)...), p...)
	case "none", "plain":
		return append(socksAddr(target), p...)
	}
	return p
}

// udpOp sends one datagram through a UDP listener and waits for its echo.
func udpOp(uc *net.UDPConn, proto, addr string, target netip.AddrPort, wait time.Duration) string {
	dst, err := netip.ParseAddrPort(addr)
	if err != nil {
		return "bad-address"
	}
	if _, err := uc.WriteToUDPAddrPort(udpWrap(proto, target, payload), dst); err != nil {
		return "write-error"
	}
	uc.SetReadDeadline(time.Now().Add(wait))
	b := make([]byte, 65536)
	for {
		n, _, err := uc.ReadFromUDPAddrPort(b)
		if err != nil {
			return "noecho"
		}
		if bytes.HasSuffix(b[:n], payload) {
			return "echo"
		}
	}
}

func udpGarbage(uc *net.UDPConn, addr string) string {
	dst, err := netip.ParseAddrPort(addr)
	if err != nil {
		return "bad-address"
	}
	for _, junk := range [][]byte{{}, {0xFF}, bytes.Repeat([]byte{0xAA, 0x55, 0xFF, 0x00, 0x7F}, 40), bytes.Repeat([]byte{0}, 1400)} {
		if _, err := uc.WriteToUDPAddrPort(junk, dst); err != nil {
			return "write-error"
		}
	}
	return "done"
}

// --- the worker -------------------------------------------------------------------------

func peerConfig(ports map[string]int, tmp string) string {
	srv := func(name, proto string, udp bool, kv ...any) J {
		addr := fmt.Sprintf("127.0.0.1:%d", ports[name])
		s := obj("name", "p-"+name, "protocol", proto, "tcpListeners", L{obj("network", "tcp", "address", addr)}, "mtu", 1500)
		if udp {
			s["udpListeners"] = L{obj("network", "udp", "address", addr)}
		}
		for k, v := range obj(kv...) {
			s[k] = v
		}
		return s
	}
	doc := J{"servers": L{
		srv("socks5", "socks5", true),
		srv("http", "http", false),
		srv("none", "none", true),
		srv("128", m128, true, "psk", k16),
		srv("256", m256, true, "psk", k32),
		srv("128m", m128, true, "psk", k16i, "uPSKStorePath", tmp+"/upsk16.json"),
		srv("256m", m256, true, "psk", k32i, "uPSKStorePath", tmp+"/upsk32.json"),
	}}
	return render(doc)
}

func frontConfig(proto, tcpAddr, udpAddr, psk string, ipsks []string) string {
	cl := obj("name", "up", "protocol", proto, "mtu", 1500, "psk", psk)
	if tcpAddr != "" {
		cl["enableTCP"] = true
		cl["tcpAddress"] = tcpAddr
	}
	if udpAddr != "" {
		cl["enableUDP"] = true
		cl["udpAddress"] = udpAddr
	}
	if len(ipsks) > 0 {
		l := L{}
		for _, k := range ipsks {
			l = append(l, k)
		}
		cl["iPSKs"] = l
	}
	return render(J{
		"servers": L{obj("name", "front", "protocol", "socks5", "mtu", 1500,
			"tcpListeners", L{obj("network", "tcp", "address", lo)},
			"udpListeners", L{obj("network", "udp", "address", lo)})},
		"clients": L{cl},
	})
}

func smokeWorker(inputPath string) {
	// the watchdog only bounds the run; its firing is reported as a cap by the parent
	time.AfterFunc(90*time.Second, func() {
		fmt.Fprintln(os.Stderr, "C18-WORKER-WATCHDOG")
		os.Exit(4)
	})
	raw, err := os.ReadFile(inputPath)
	if err != nil {
		fmt.Fprintln(os.Stderr, "worker: cannot read input:", err)
		os.Exit(5)
	}
	var in smokeInput
	if err := json.Unmarshal(raw, &in); err != nil {
		fmt.Fprintln(os.Stderr, "worker: bad input:", err)
		os.Exit(5)
	}
	res := smokeResult{Ops: map[string]int{}}
	tStart := time.Now()
	phase := func(name string) {
		if os.Getenv("C18_DEBUG") != "" {
			fmt.Fprintf(os.Stderr, "phase %-12s %v\n", name, time.Since(tStart))
		}
	}
	emit := func() {
		b, _ := json.Marshal(res)
		os.Stdout.Write(b)
		os.Stdout.Write([]byte("\n"))
	}
	note := func(f string, a ...any) { res.Notes = append(res.Notes, fmt.Sprintf(f, a...)) }
	// A panic on this goroutine (Manager(), Run bookkeeping) would kill the real
	// program too: let it crash the worker the same way, after saying where.
	op := func(k string) { res.Ops[k]++ }

	echo, err := startEcho()
	if err != nil {
		fmt.Fprintln(os.Stderr, "worker: echo:", err)
		os.Exit(5)
	}
	env := map[string]string{"@TMP@": in.Tmp, "@ECHO@": echo.addr(), "@ECHODOMAIN@": fmt.Sprintf("localhost:%d", echo.port())}
	docText := render(in.Doc)

	// upstream peers, only if the configuration has proxy clients
	var peer *running
	if strings.Contains(docText, "@PEER") {
		for attempt := 0; attempt < 5 && peer == nil; attempt++ {
			ports := map[string]int{}
			for _, k := range peerKinds {
				p, err := freePort()
				if err != nil {
					fmt.Fprintln(os.Stderr, "worker: ports:", err)
					os.Exit(5)
				}
				ports[k] = p
			}
			r, stage, err := startManager(peerConfig(ports, in.Tmp))
			if err != nil {
				if r != nil {
					r.stop()
				}
				if stage == "decode" || stage == "manager" {
					fmt.Fprintln(os.Stderr, "worker: peer configuration refused:", err)
					os.Exit(5)
				}
				continue
			}
			peer = r
			for _, k := range peerKinds {
				env["@PEER:"+k+"@"] = fmt.Sprintf("127.0.0.1:%d", ports[k])
				env["@PEERUDP:"+k+"@"] = fmt.Sprintf("127.0.0.1:%d", ports[k])
			}
		}
		if peer == nil {
			fmt.Fprintln(os.Stderr, "worker: cannot start peers")
			os.Exit(5)
		}
	}

	phase("peers")
	text := resolve(docText, env)
	cut, stage, err := startManager(text)
	phase("cut-started")
	switch stage {
	case "decode", "manager":
		res.LoadError = stage + ": " + err.Error()
		emit()
		os.Exit(0)
	case "start":
		res.Accepted, res.StartFailed = true, true
		note("a service failed to start")
		if !cut.stop() {
			res.StopHang = true
		}
		emit()
		os.Exit(0)
	case "start-timeout":
		res.Accepted = true
		note("listeners did not all report; continuing")
	}
	res.Accepted, res.Started = true, true

	// what the real router would hand out decides only how long we wait for echoes
	_, tcps, udps := router.VerifC18RouteClients(service.VerifC18Router(cut.mgr))
	tcpRoutable, udpRoutable := false, false
	for i := range tcps {
		tcpRoutable = tcpRoutable || tcps[i] != nil
		udpRoutable = udpRoutable || udps[i] != nil
	}
	waitFor := func(routable bool) time.Duration {
		if routable {
			return ioTimeout
		}
		return shortTimeout
	}
	target := netip.AddrPortFrom(loopbackAddr, echo.port())

	uc, err := net.ListenUDP("udp4", &net.UDPAddr{IP: net.IPv4(127, 0, 0, 1)})
	if err != nil {
		fmt.Fprintln(os.Stderr, "worker: udp socket:", err)
		os.Exit(5)
	}
	intruder, _ := net.ListenUDP("udp4", &net.UDPAddr{IP: net.IPv4(127, 0, 0, 1)})

	var fronts []*running
	for _, s := range list(in.Doc, "servers") {
		sm, _ := s.(J)
		name, proto := str(sm, "name"), str(sm, "protocol")
		tcpAddrs, udpAddrs := cut.listenerAddrs(name, "tcp"), cut.listenerAddrs(name, "udp")
		switch {
		case proto == "tproxy" || proto == "redirect":
			// transparent traffic cannot be produced on loopback without privileges: garbage only
			for _, a := range tcpAddrs {
				op("tcp." + proto + ".garbage-" + tcpGarbage(a))
			}
			for _, a := range udpAddrs {
				op("udp." + proto + ".garbage-" + udpGarbage(uc, a))
			}
		case isSS(proto):
			for li := 0; li < max(len(tcpAddrs), len(udpAddrs)); li++ {
				var ta, ua string
				if li < len(tcpAddrs) {
					ta = tcpAddrs[li]
				}
				if li < len(udpAddrs) {
					ua = udpAddrs[li]
				}
				psk, ipsks := str(sm, "psk"), []string(nil)
				if f, ok := fixtureOf(str(sm, "uPSKStorePath")); ok && len(f.keyLens) > 0 {
					ipsks = []string{psk}
					psk = map[int]string{16: k16, 32: k32}[f.keyLens[0]]
				}
				fr, _, err := startManager(frontConfig(proto, ta, ua, psk, ipsks))
				if err != nil {
					note("front for %s not started: %v", name, err)
					if fr != nil {
						fr.stop()
					}
					if ta != "" {
						op("tcp." + proto + ".front-not-started")
					}
					if ua != "" {
						op("udp." + proto + ".front-not-started")
					}
					continue
				}
				fronts = append(fronts, fr)
				if ta != "" {
					op("tcp." + proto + "." + tcpOp("socks5", fr.listenerAddrs("front", "tcp")[0], target, waitFor(tcpRoutable)))
				}
				if ua != "" {
					op("udp." + proto + "." + udpOp(uc, "socks5", fr.listenerAddrs("front", "udp")[0], target, waitFor(udpRoutable)))
				}
			}
			for _, a := range tcpAddrs {
				op("tcp." + proto + ".garbage-" + tcpGarbage(a))
			}
			for _, a := range udpAddrs {
				op("udp." + proto + ".garbage-" + udpGarbage(uc, a))
			}
		default:
			for _, a := range tcpAddrs {
				op("tcp." + proto + "." + tcpOp(proto, a, target, waitFor(tcpRoutable)))
				op("tcp." + proto + ".garbage-" + tcpGarbage(a))
			}
			for _, a := range udpAddrs {
				before := echo.udpSeen.Load()
				r := udpOp(uc, proto, a, target, waitFor(udpRoutable))
				op("udp." + proto + "." + r)
				if proto == "direct" && (intruder == nil || echo.udpSeen.Load() <= before || echo.lastSrc.Load() == nil) {
					op("udp.direct.intruder-skipped") // the tunnel never reached the echo peer: nobody to impersonate
				} else if proto == "direct" {
					// one reply from a source that is not the tunnel's target
					if src := echo.lastSrc.Load(); src != nil {
						intruder.WriteToUDPAddrPort([]byte("C18 intruder"), *src)
						uc.SetReadDeadline(time.Now().Add(shortTimeout))
						b := make([]byte, 2048)
						if n, _, err := uc.ReadFromUDPAddrPort(b); err == nil && bytes.Contains(b[:n], []byte("intruder")) {
							op("udp.direct.intruder-delivered")
						} else {
							op("udp.direct.intruder-not-delivered")
						}
					}
				}
				op("udp." + proto + ".garbage-" + udpGarbage(uc, a))
			}
		}
	}
	phase("traffic")
	// give the services' goroutines a moment to chew on the garbage before stopping
	time.Sleep(50 * time.Millisecond)

	for _, fr := range fronts {
		if !fr.stop() {
			note("front did not stop")
		}
	}
	if !cut.stop() {
		res.StopHang = true
	}
	if peer != nil && !peer.stop() {
		note("peer did not stop")
	}
	echo.tcp.Close()
	echo.udp.Close()
	phase("stopped")
	emit()
	os.Exit(0)
}
